#!/usr/bin/env python3
"""Regenerates MANIFEST.json from the table below (kept in one place so the file stays valid)."""
import json
checks = {
 "C02": dict(level="model_checking", design="§4 C02",
   text="Every nesting (depth <=2 quick, <=3 thorough) of 23 wrapping constructs around 11 spinning or blocked cores, each also as the last statement of the program, run on the real interpreter under the cooperative scheduler: every context poll and channel operation is a schedule point and 'cancel the context now' competes at each of them (and, for programs with goroutines, under every interleaving within the bound). After the cancellation the call must return 'execution interrupted', no statement probe may run, no thread may poll more than depth+2 times or stay blocked.",
   note="'Short bounded time' is decided as a bound on interpreter steps (polls), not seconds. Non-terminating cores are loops of 22 iterations, far beyond every explored cancellation instant. When a select has both the cancelled context and a channel operation ready, either outcome is accepted (Go's select semantics). The callback hole (context.Background() in the func adapter) is listed case by case in known_findings.json.",
   technique="stateless model checking of the implementation under a controlled scheduler with the cancellation as a pseudo-thread (exhaustive enumeration of cancellation instants and schedules, deviation bounded)"),
 "C05": dict(level="exploration", design="§4 C05",
   text="Exhaustive cross product of boundary operand pools (40 int64 incl. cache edges -2..4097, 2^31, 2^53, 2^63 edges; 28 float64 incl. ±0, ±Inf, NaN; strings) x 15 binary + 2 unary operators, operands supplied as literals, variables and sub-expression results (depth-2 trees quick, depth-3 thorough, plus a sweep producing every value -3..4098 as an operator result); value AND dynamic Go type compared with the same operation written with Go's own operators.",
   note="Only operand-kind combinations the property defines are compared (no bool operands, no % on floats, no string ordering); values outside the pools are not covered.",
   technique="bounded exhaustive enumeration of operator x operand-pool products against a Go-operator reference model"),
 "C06": dict(level="exploration", design="§4 C06",
   text="All ordered pairs of a 133/142-value pool (nil, bools, ints and floats of every magnitude class, decimal-numeral strings, lenient and non-numeral strings, nested untyped slices/maps) in the forms ==, !=, in, switch and <=&&>=; algebraic laws (symmetry, != negation, in/switch agree with ==) on every pair and the reference relation where the property defines it.",
   note="Strings such as 1e3/inf/+1 are treated as under-determined numerals (laws only); element-wise int-vs-float comparison inside containers is not generated.",
   technique="bounded exhaustive enumeration of ordered value pairs; law checking plus reference relation"),
 "C07": dict(level="exploration", design="§4 C07",
   text="3961 expression/statement templates (every binary operator, short-circuit forms with every truth/nil class, literals, index/slice/member, return lists, multi-assignment, in, len and every call path: script functions of 0-6 parameters, variadic, Go fixed/variadic, plain and spread calls, direct / go / defer / anonymous / via variable, all arity mismatches) whose leaves are side-effecting probes, failing leaf at every position (thorough: templates nested in each operand); the probe log must equal the log of a left-to-right reference evaluator.",
   note="For calls rejected for a wrong argument count only the stated weaker guarantee (order-preserving, no repeats) is checked; order of RHS vs target operands of an assignment is not compared.",
   technique="bounded exhaustive enumeration of probe-instrumented templates; reference evaluator traces replayed on the implementation"),
 "C08": dict(level="exploration", design="§4 C08",
   text="All control-flow spine programs up to nesting depth 2 (quick) / 3 (thorough): every branch/loop/switch/function/try construct nested in every construct, break/continue/return at every statement position, probes before/inside/after every construct, conditions over all truthiness classes; expected probe trace and result come from a definitional reference interpreter over a mini-IR (lib/ir) and are replayed on vm.ExecuteContext.",
   note="Under-determined points (finally on catch exit / on try-body signal, loop scope per iteration, map order) are switches of the reference, every consistent resolution accepted. The known try-body-signal defect is listed case by case in known_findings.json.",
   technique="bounded exhaustive program enumeration; reference-interpreter traces replayed on the implementation"),
 "C09": dict(level="exploration", design="§4 C09",
   text="All spines over try/catch/finally, function invocation, loop and branch to depth 2 (quick; thorough adds depth 3 with 0-1 defer) with 0-2/0-3 defer statements (probe, closure, throwing callee, callee that defers) and a failure point (throw, runtime error, return) at every statement position of try body, catch, finally, function body and deferred callee; trace, result and error-vs-success compared with the reference interpreter (nearest-try delivery, LIFO exactly-once defers, result preservation, error precedence).",
   note="What a return inside a try body does is C08's known defect: C09 accepts either reading. Error messages are not compared except that a thrown value's text must appear in the caught error.",
   technique="bounded exhaustive program enumeration; reference-interpreter traces replayed on the implementation"),
 "C15": dict(level="exploration", design="§4 C15",
   text="Every byte string of length <=3/<=4 over a 43-byte alphabet, every token string of length <=3/<=4 over the 81-token alphabet, every byte prefix of a 456-program grammar corpus, nesting to depth 10000, and every ordered pair of a 399/1500-program corpus: ParseSrc returns (no panic), errors are *parser.Error with line/column inside the input, re-parsing gives a structurally equal tree (no memory between calls), and A+newline+B parses to the concatenation with B's positions shifted by A's line count.",
   note="Sequential part only; the 'also under concurrent calls' clause is decided separately by the token-granularity interleaving check listed in the evidence when present. Thorough token strings of length 4 may be cut by the soft deadline (evidence says exhaustive:false).",
   technique="bounded exhaustive input enumeration with structural-dump oracle"),
 "C16": dict(level="model_checking", design="§4 C16",
   text="~260 pipeline programs (1-3 stages, channel capacities 0/1/2, typed and interface element types incl. values needing conversion, 1-3 items, three consumer forms, fan-in) plus closed-channel and go-argument facts, executed on the real interpreter under the cooperative scheduler: every schedule at channel granularity within preemption bound 2 (quick) / unbounded for 1-2 stages and bound 3 for 3 stages and fan-in (thorough); in every schedule the consumer returns exactly the sent sequence, no deadlock, error or panic.",
   note="Trusts the channel shadow semantics of the scheduler (validated by free-running executions whose outcomes must lie in the explored outcome set) and the syntactic overlay rewrite of reflect.Select / Close / go statements.",
   technique="stateless model checking of the implementation under a controlled scheduler (exhaustive schedule enumeration with preemption bounding) + conformance runs of the channel model"),
 "C17": dict(level="exploration", design="§4 C17",
   text="For every (parent node kind, child slot, child node kind) triple the grammar can produce (82 slots, 50 node kinds, 1412 triples) the smallest program containing it, plus statement kinds nested to depth 3 (thorough): astutil.Walk must present every node found by generic reflection over the tree, parents before children, return nil, and a callback failing at its i-th call (every i) must stop the walk at once with that error.",
   note="Reference traversal is reflection over the parsed tree; extra synthetic nodes presented by Walk are tolerated.",
   technique="bounded exhaustive enumeration of grammar slots with a reflection-based reference traversal"),
 "C18": dict(level="exploration", design="§4 C18",
   text="The real anko binary (built from the current tree each run) is executed on 118/1169 scripts x {file with 0-2 trailing args, -e, missing file, directory}; exit code (0/4/2), stdout and the single diagnostic line are compared with vm.Execute run in a child process on an environment prepared exactly as anko.go prepares it.",
   note="Interactive mode is out of scope; the diagnostic line's text is not compared.",
   technique="bounded exhaustive enumeration of script x invocation configurations, differential against the library"),
 "C19": dict(level="exploration", design="§4 C19",
   text="range over all 1-3 argument tuples of a boundary pool whose progression has <=1000 elements (in memory-capped child processes), keys over all maps of <=3 mixed keys, len/typeOf/kindOf/toX/typed-slice builtins over the whole script value universe and wrong argument counts, against the same computation done natively in Go; every one of the 595 entries of env.Packages / env.PackageTypes compared by code pointer / type identity / value with the Go symbol its key names.",
   note="toInt of non-decimal spellings, toBool's mapping and a few formatting cases the property does not fix are not compared (listed in notes/C19.md).",
   technique="bounded exhaustive input enumeration against native Go computations; complete table comparison"),
 "C13": dict(level="model_checking", design="§4 C13",
   text="All interleavings at lock-acquisition granularity (controlled cooperative scheduler over the rewritten sync.RWMutex of package env) of 2-3 threads x 1-2 env operations colliding on one key: every complete call/return history plus a final read is checked for linearizability against a sequential dictionary-chain spec (brute force, cross-checked by porcupine); deadlock detection; lockset monitor asserting every access to values/types happens under the scope's lock.",
   note="Trusts the RWMutex shadow semantics of the scheduler and the syntactic overlay rewrite (site counts asserted non-zero); memory-model effects below lock granularity are covered only by the lockset invariant; larger shapes use preemption bound 2 (stated in evidence).",
   technique="stateless model checking of the implementation under a controlled scheduler (exhaustive schedule enumeration, iterative preemption bounding) + linearizability checking (porcupine and brute force) + lockset invariant"),
 "C12": dict(level="model_checking", design="§4 C12",
   text="Explicit-state BFS over all histories of env API calls up to depth 3 (quick) / 4 (thorough) on a growing forest of scopes, reference dictionary-chain model in lock-step; every transition is executed on the real package and the full observable state compared. Exhaustive within the stated alphabet and depth.",
   note="Trusts the ~300-line reference model (refenv) and Go's reflect; values/names/types restricted to the stated pools; error messages not compared.",
   technique="explicit-state model checking (BFS with canonical-state de-duplication), model traces replayed on the implementation at every transition"),
}
m = {
 "version": 1,
 "setup_cmd": "/verif/setup.sh",
 "hooks": {
  "guard": "verif",
  "enable": "no hook commits in /repo: /verif/check.sh generates a go build -overlay (cmd/mkoverlay) from the current tree that swaps env's sync import for a scheduler-aware shim, redirects vm's reflect.Select/Close/go statements and adds a yield to Lexer.Lex, then builds with -tags verif",
  "baseline_off_cmd": "cd /repo && GOFLAGS=-mod=mod GOPROXY=off GOSUMDB=off GOTOOLCHAIN=local go test -vet=off -count=1 ./...",
  "source_commits": [],
  "add_only": True
 },
 "engines": [
  {"name": "vcheck", "path": "/verif/engine", "serves_properties": sorted(checks), "kind_free_text": "hand-written Go explorer: choice-point DFS / BFS with state de-duplication, cooperative scheduler with RWMutex and channel shadow state, reference models in Go; built per run against /repo's working tree through go build -overlay"}
 ],
 "checks": [],
 "not_applicable": [],
 "notes": "check.sh exits 2 (no VIOLATION line) when the machinery cannot build or run. known_findings.json lists recorded defects and fixed ones."
}
for pid in sorted(checks):
    c = checks[pid]
    m["checks"].append({
      "property_id": pid,
      "quick_cmd": f"/verif/check.sh {pid} quick",
      "thorough_cmd": f"/verif/check.sh {pid} thorough",
      "evidence_file": f"/verif/evidence/{pid}.json",
      "replay_cmd_template": f"/verif/check.sh {pid} quick -replay {{path}}",
      "engine": "vcheck",
      "level_claimed": {"category": c["level"], "text": c["text"], "design_ref": c["design"]},
      "level_note": c["note"],
      "technique": c["technique"],
    })
props = [json.loads(l)["id"] for l in open("/verif/properties.jsonl")]
for pid in props:
    if pid not in checks:
        m["not_applicable"].append({"property_id": pid, "reason": "not claimed yet: checker under construction (see DESIGN.md §8 for the order of construction)"})
json.dump(m, open("/verif/MANIFEST.json","w"), indent=1)
print("checks:", len(m["checks"]), "not_applicable:", len(m["not_applicable"]))
