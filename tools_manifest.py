#!/usr/bin/env python3
"""Regenerates MANIFEST.json from the table below (kept in one place so the file stays valid)."""
import json
checks = {
 "C13": dict(level="model_checking", design="§4 C13",
   text="All interleavings at lock-acquisition granularity (controlled cooperative scheduler over the rewritten sync.RWMutex of package env) of 2-3 threads x 1-2 env operations colliding on one key: every complete call/return history plus a final read is checked for linearizability against a sequential dictionary-chain spec (brute force, cross-checked by porcupine); deadlock detection; lockset monitor asserting every access to values/types happens under the scope's lock.",
   note="Trusts the RWMutex shadow semantics of the scheduler and the syntactic overlay rewrite (site counts asserted non-zero); memory-model effects below lock granularity are covered only by the lockset invariant; larger shapes use preemption bound 2 (stated in evidence).",
   technique="stateless model checking of the implementation under a controlled scheduler (exhaustive schedule enumeration, iterative preemption bounding) + linearizability checking (porcupine and brute force) + lockset invariant"),
 "C12": dict(level="model_checking", design="§4 C12",
   text="Explicit-state BFS over all histories of env API calls up to depth 3 (quick) / 4 (thorough) on a growing forest of scopes, reference dictionary-chain model in lock-step; every transition is executed on the real package and the full observable state compared. Exhaustive within the stated alphabet and depth.",
   note="Trusts the ~300-line reference model (refenv) and Go's reflect; values/names/types restricted to the stated pools; error messages not compared.",
   technique="explicit-state model checking (BFS with canonical-state de-duplication), model traces replayed on the implementation at every transition"),
}
m = {
 "version": 1,
 "setup_cmd": "/verif/setup.sh",
 "hooks": {
  "guard": "verif",
  "enable": "no hook commits in /repo: /verif/check.sh generates a go build -overlay (cmd/mkoverlay) from the current tree that swaps env's sync import for a scheduler-aware shim, redirects vm's reflect.Select/Close/go statements and adds a yield to Lexer.Lex, then builds with -tags verif",
  "baseline_off_cmd": "cd /repo && GOFLAGS=-mod=mod GOPROXY=off GOSUMDB=off GOTOOLCHAIN=local go test -vet=off -count=1 ./...",
  "source_commits": [],
  "add_only": True
 },
 "engines": [
  {"name": "vcheck", "path": "/verif/engine", "serves_properties": sorted(checks), "kind_free_text": "hand-written Go explorer: choice-point DFS / BFS with state de-duplication, cooperative scheduler with RWMutex and channel shadow state, reference models in Go; built per run against /repo's working tree through go build -overlay"}
 ],
 "checks": [],
 "not_applicable": [],
 "notes": "check.sh exits 2 (no VIOLATION line) when the machinery cannot build or run. known_findings.json lists recorded defects and fixed ones."
}
for pid in sorted(checks):
    c = checks[pid]
    m["checks"].append({
      "property_id": pid,
      "quick_cmd": f"/verif/check.sh {pid} quick",
      "thorough_cmd": f"/verif/check.sh {pid} thorough",
      "evidence_file": f"/verif/evidence/{pid}.json",
      "replay_cmd_template": f"/verif/check.sh {pid} quick -replay {{path}}",
      "engine": "vcheck",
      "level_claimed": {"category": c["level"], "text": c["text"], "design_ref": c["design"]},
      "level_note": c["note"],
      "technique": c["technique"],
    })
props = [json.loads(l)["id"] for l in open("/verif/properties.jsonl")]
for pid in props:
    if pid not in checks:
        m["not_applicable"].append({"property_id": pid, "reason": "not claimed yet: checker under construction (see DESIGN.md §8 for the order of construction)"})
json.dump(m, open("/verif/MANIFEST.json","w"), indent=1)
print("checks:", len(m["checks"]), "not_applicable:", len(m["not_applicable"]))
