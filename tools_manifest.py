#!/usr/bin/env python3
"""Regenerates MANIFEST.json from the table below (kept in one place so the file stays valid)."""
import json
checks = {
 "C04": dict(level="exploration", design="§4 C04",
   text="All spine programs PRE; W1[W2[W3[PAYLOAD; EXIT]; READ]; READ]; READ over 43 scope-creating constructs (branches, loop forms incl. C-style init clauses, switch, try/catch/finally, module, named/anonymous functions incl. functions touching their own name, closures called after their block ended, recursion, function literals inside statement heads, one call site run twice with its binding changed), every payload of <=2 assignments / var declarations / unpacking assignments / reads on two names, exits by fall-through, break, continue, return and throw, with and without outer bindings; depth <=2 (quick, 1 130 364 programs) plus depth 3 with payload <=1 (thorough). The read log, the root bindings and error-vs-success must equal those of a self-contained scope-chain reference interpreter.",
   note="Nine under-determined points (loop scope per iteration, try-body bindings in catch/finally, C-for init scope, ...) are explicit parameters of the model: a program passes under any resolution it can observe, and one resolution must explain all programs of the run.",
   technique="bounded exhaustive program enumeration; reference scope-model traces replayed on the implementation"),
 "C03": dict(level="exploration", design="§4 C03",
   text="All abstract expression trees over the property's 38-operator table up to depth 2 with <=3 operator nodes in 6 statement positions, depth-2 4-node and depth-3 spine trees, depth-3 4-node trees over level representatives (quick; thorough: all 26 positions, all operators to depth 3 / 4 nodes, representatives to depth 4): each tree is printed with the minimal parentheses the table requires and fully parenthesised; both spellings must parse to the abstract tree (modulo ParenExpr and positions) and evaluate to the same value. Plus every number spelling of length <=5 over a 17-character alphabet and boundary spellings, and quoted/raw strings over the defined escapes, against strconv.",
   note="refparse (the printer) encodes the operator table as written in the property; <-, ++/--, op= and binary ^ are outside the alphabet; the known `in` associativity deviation is listed in known_findings.json.",
   technique="bounded exhaustive enumeration of expression trees and literal spellings; reference printer/parser round trip"),
 "C01": dict(level="exploration", design="§4 C01",
   text="Every token string of length <=3 (quick) / <=4 (thorough) over an 88-symbol alphabet, 188 source templates (every AST node kind, incl. interface-wrapped unhashable keys and reflect-refused type expressions) x every environment atom in every hole, every depth-2 nesting over a reduced universe, every token-boundary prefix and single-token deletion of those programs, and every byte string of length <=3/<=4 over 40 bytes are parsed and executed with Options{Debug:false} in crash-isolated worker processes: no panic may reach the caller or the top frame of a script goroutine, the worker must stay alive.",
   note="Blocked and fuel-exhausted executions are not violations (C01 does not promise termination); sizes that would really exhaust memory are outside the alphabet; a worker death is attributed by single-stepping the batch in a fresh child.",
   technique="bounded exhaustive enumeration of source texts (token, template, truncation and byte spaces) with crash-isolated execution"),
 "C10": dict(level="model_checking", design="§4 C10",
   text="Explicit-state BFS over histories of 312 container operations (index/slice reads and writes over the whole index pool, append forms, delete, in, len, member access, typed stores, aliasing through assignment and calls) on untyped and typed slices, maps, strings and a struct, from 3 initial configurations, depth 2 over the full alphabet + depth 3 over a core alphabet (quick) / depth 3 full (thorough); a Go model built from real slices and maps runs in lock-step and after every transition outcome, value and a canonical dump of all variables (with backing-array sharing) are compared.",
   note="Under-determined points (float/bool/numeric-string indices, nil into typed slots, multi-character string stores) are not compared; listed in notes/C10.md.",
   technique="explicit-state model checking (BFS, canonical-state de-duplication on the model), model traces replayed on the implementation at every transition"),
 "C11": dict(level="exploration", design="§4 C11",
   text="Go signatures manufactured with reflect.FuncOf/MakeFunc over a 24-type pool (704 functions quick, 8896 thorough: 1-, 2- and 3-parameter, fixed and variadic, 0-3 results) x every script value kind x four call shapes (fixed/variadic x plain/spread); the recorded arguments must be exactly what an independent refConvert(v,T) yields or the call must fail; plus round trips of every pool type through Define/containers/identity functions, struct member reads/writes/methods, and script callbacks of every func type.",
   note="Conversions the property is silent on (string->byte/rune, pointer mismatches, surplus spread elements) are generated but not compared; refConvert is cross-checked against reflect.ConvertibleTo at start-up.",
   technique="bounded exhaustive enumeration of signature x value x call-shape products against an independent conversion reference"),
 "C14": dict(level="model_checking", design="§4 C14",
   text="(1) Every program of the C08/C09 corpora plus 46 handcrafted programs aimed at node-resident and process-wide runtime data (incl. type expressions of every shape and map loops that grow their map, with a stated result) is parsed once, dumped by reflection and run 3 (handcrafted: 12) times on equal fresh environments: the dump must be unchanged at every context poll, for the handcrafted programs also at every lock acquisition of the environment, and after each run, run k must equal run 1, and a canary program on a fresh environment must still see pristine process-wide values. (2) Two and three runs of one shared tree on separate environments as scheduler threads, every context poll a schedule point, all interleavings within preemption bound 2/3: each run must equal the solo run. (3) separate environments never share bindings, also through imported modules; one shared tree run on environments that differ in a type / value / function binding must equal freshly parsed references.",
   note="Interleavings are explored at statement (poll) granularity; goroutine-free programs only; programs whose result depends on map iteration order are skipped, map-loop traces compared as multisets.",
   technique="stateless model checking of concurrent runs under a controlled scheduler + exhaustive sequential sweep with a structural-dump invariant"),
 "C20": dict(level="exploration", design="§4 C20",
   text="212 operation templates x 20 operand values x provenance chains of length 1-2 (quick, 156 chains) / 1-3 (thorough, 1884 chains) over 12 hops (slice element, map entry, member, struct field by pointer and by value, script call, Go call returning interface{}, parentheses, ternary, ??, let, var): the result (value rendering, dynamic type, error-vs-success) must equal the result of the same template with the operand supplied by a plain variable.",
   note="Purely differential oracle; each case runs on fresh environments; nondeterministic templates (multi-entry maps, observed goroutines) excluded.",
   technique="bounded exhaustive enumeration of template x value x provenance-chain products with a differential oracle"),
 "C02": dict(level="model_checking", design="§4 C02",
   text="Every nesting (depth <=2 quick, <=3 thorough) of 23 wrapping constructs around 13 spinning or blocked cores (incl. the forwarding form dst <- src), 47 expression-position cores (a never-completing receive or send as host/script call argument, literal element, operand, condition, bound, assignment target ...; bare and under one wrapper) and 10 further wrappers explored alone and in pairs with 5 mates (arity 2/3, two defers with a host function deferred first, functions of arity 0-5/variadic defined by an EARLIER run on the same environment), each also as the last statement of the program, run on the real interpreter under the cooperative scheduler: every context poll and channel operation is a schedule point and 'cancel the context now' competes at each of them (and, for programs with goroutines, under every interleaving within the bound). After the cancellation the call must return 'execution interrupted', no statement probe may run, no thread may poll more than depth+2 times or stay blocked.",
   note="'Short bounded time' is decided as a bound on interpreter steps (polls), not seconds. Non-terminating cores are loops of 22 iterations, far beyond every explored cancellation instant. When a select has both the cancelled context and a channel operation ready, either outcome is accepted (Go's select semantics). The callback hole (context.Background() in the func adapter) is listed case by case in known_findings.json.",
   technique="stateless model checking of the implementation under a controlled scheduler with the cancellation as a pseudo-thread (exhaustive enumeration of cancellation instants and schedules, deviation bounded)"),
 "C05": dict(level="exploration", design="§4 C05",
   text="Exhaustive cross product of boundary operand pools (40 int64 incl. cache edges -2..4097, 2^31, 2^53, 2^63 edges; 28 float64 incl. ±0, ±Inf, NaN; strings) x 15 binary + 2 unary operators, operands supplied as literals, variables and sub-expression results (depth-2 trees quick, depth-3 thorough, plus a sweep producing every value -3..4098 as an operator result); value AND dynamic Go type compared with the same operation written with Go's own operators.",
   note="Only operand-kind combinations the property defines are compared (no bool operands, no % on floats, no string ordering); values outside the pools are not covered.",
   technique="bounded exhaustive enumeration of operator x operand-pool products against a Go-operator reference model"),
 "C06": dict(level="exploration", design="§4 C06",
   text="All ordered pairs of a 133/142-value pool (nil, bools, ints and floats of every magnitude class, decimal-numeral strings, lenient and non-numeral strings, nested untyped slices/maps, typed lists, and 27 operands that share storage - views of one list, one map under two names) in the forms ==, !=, in, switch and <=&&>=; algebraic laws (symmetry, != negation, in/switch agree with ==) on every pair and the reference relation where the property defines it.",
   note="Strings such as 1e3/inf/+1 are treated as under-determined numerals (laws only); element-wise int-vs-float comparison inside containers is not generated.",
   technique="bounded exhaustive enumeration of ordered value pairs; law checking plus reference relation"),
 "C07": dict(level="exploration", design="§4 C07",
   text="5179 expression/statement templates (incl. address-of arguments) (every binary operator, short-circuit forms with every truth/nil class, literals, index/slice/member, return lists, multi-assignment, in, len and every call path: script functions of 0-6 parameters, variadic, Go fixed/variadic, plain and spread calls, direct / go / defer / anonymous / via variable, all arity mismatches) whose leaves are side-effecting probes, failing leaf at every position (thorough: templates nested in each operand); the probe log must equal the log of a left-to-right reference evaluator.",
   note="For calls rejected for a wrong argument count only the stated weaker guarantee (order-preserving, no repeats) is checked; order of RHS vs target operands of an assignment is not compared.",
   technique="bounded exhaustive enumeration of probe-instrumented templates; reference evaluator traces replayed on the implementation"),
 "C08": dict(level="exploration", design="§4 C08",
   text="All control-flow spine programs up to nesting depth 2 (quick) / 3 (thorough): every branch/loop/switch/function/try construct nested in every construct, break/continue/return at every statement position, probes before/inside/after every construct, conditions over all truthiness classes; expected probe trace and result come from a definitional reference interpreter over a mini-IR (lib/ir) and are replayed on vm.ExecuteContext.",
   note="Under-determined points (finally on catch exit / on try-body signal, loop scope per iteration, map order) are switches of the reference, every consistent resolution accepted. The known try-body-signal defect is listed case by case in known_findings.json.",
   technique="bounded exhaustive program enumeration; reference-interpreter traces replayed on the implementation"),
 "C09": dict(level="exploration", design="§4 C09",
   text="All spines over try/catch/finally, function invocation, loop and branch to depth 2 (quick; thorough adds depth 3 with 0-1 defer) with 0-2/0-3 defer statements (probe, closure, throwing callee, callee that defers) and a failure point (throw, runtime error, return) at every statement position of try body, catch, finally, function body and deferred callee; trace, result and error-vs-success compared with the reference interpreter (nearest-try delivery, LIFO exactly-once defers, result preservation, error precedence).",
   note="What a return inside a try body does is C08's known defect: C09 accepts either reading. Error messages are not compared except that a thrown value's text must appear in the caught error and that WHICH error surfaces is compared through identifying texts (thrown values, the harness-owned failing function, close of a closed channel).",
   technique="bounded exhaustive program enumeration; reference-interpreter traces replayed on the implementation"),
 "C15": dict(level="exploration", design="§4 C15",
   text="Every byte string of length <=3/<=4 over a 43-byte alphabet, every token string of length <=3/<=4 over the 81-token alphabet, every byte prefix of a 456-program grammar corpus, nesting to depth 10000, and every ordered pair of a 399/1500-program corpus: ParseSrc returns (no panic; every call runs under a non-return / runaway-allocation guard), errors are *parser.Error with line/column inside the input, re-parsing gives a structurally equal tree (no memory between calls), and A+newline+B parses to the concatenation with B's positions shifted by A's line count.",
   note="Sequential part only; the 'also under concurrent calls' clause is decided separately by the token-granularity interleaving check listed in the evidence when present. Thorough token strings of length 4 may be cut by the soft deadline (evidence says exhaustive:false).",
   technique="bounded exhaustive input enumeration with structural-dump oracle"),
 "C16": dict(level="model_checking", design="§4 C16",
   text="~380 programs: pipelines (1-3 stages, channel capacities 0/1/2, typed and interface element types incl. values needing conversion, 1-3 items, four consumer forms incl. early exit), relay-form stages over five element-type pairs, fan-in, fan-out with two workers, closed-channel / buffered-value / go-argument facts, detached pipelines (the script returns its last channel at once and the host drains it after the run), and shared-function programs explored at lock granularity, executed on the real interpreter under the cooperative scheduler: every schedule at channel granularity within preemption bound 2 (quick) / unbounded for 1-2 stages and bound 3 for 3 stages and fan-in (thorough); in every schedule the consumer returns exactly the sent sequence, no deadlock, error or panic.",
   note="Trusts the channel shadow semantics of the scheduler (validated by free-running executions whose outcomes must lie in the explored outcome set) and the syntactic overlay rewrite of reflect.Select / Close / go statements.",
   technique="stateless model checking of the implementation under a controlled scheduler (exhaustive schedule enumeration with preemption bounding) + conformance runs of the channel model"),
 "C17": dict(level="exploration", design="§4 C17",
   text="For every (parent node kind, child slot, child node kind) triple the grammar can produce (82 slots, 50 node kinds, 1412 triples) the smallest program containing it, plus statement kinds nested to depth 3 (thorough): astutil.Walk must present every node found by generic reflection over the tree, parents before children, return nil, and a callback failing at its i-th call (every i) must stop the walk at once with that error.",
   note="Reference traversal is reflection over the parsed tree; extra synthetic nodes presented by Walk are tolerated.",
   technique="bounded exhaustive enumeration of grammar slots with a reflection-based reference traversal"),
 "C18": dict(level="exploration", design="§4 C18",
   text="The real anko binary (built from the current tree each run) is executed on 140/1389 scripts (incl. error texts, import paths and file names containing %) x {file with 0-2 trailing args, -e, missing file, directory}; exit code (0/4/2), stdout and the single diagnostic line are compared with vm.Execute run in a child process on an environment prepared exactly as anko.go prepares it.",
   note="Interactive mode is out of scope; the diagnostic line must contain the library's error text (and the file name for an unreadable file) verbatim, its exact wording beyond that is not compared.",
   technique="bounded exhaustive enumeration of script x invocation configurations, differential against the library"),
 "C19": dict(level="exploration", design="§4 C19",
   text="range over all 1-3 argument tuples of a boundary pool whose progression has <=1000 elements (in memory-capped child processes), keys over all maps of <=3 mixed keys, len/typeOf/kindOf/toX/typed-slice builtins over the whole script value universe (incl. values of defined types over the basic kinds and numeral strings at 2^53, 2^62 and the int64 limits) and wrong argument counts, against the same computation done natively in Go; every one of the 595 entries of env.Packages / env.PackageTypes compared by code pointer / type identity / value with the Go symbol its key names.",
   note="toInt of non-decimal spellings, toBool's mapping and a few formatting cases the property does not fix are not compared (listed in notes/C19.md).",
   technique="bounded exhaustive input enumeration against native Go computations; complete table comparison"),
 "C13": dict(level="model_checking", design="§4 C13",
   text="All interleavings at lock-acquisition granularity (controlled cooperative scheduler over the rewritten sync.RWMutex of package env) of 2-3 threads x 1-2 env operations colliding on one key (13 operations; a module family adds GetEnvFromPath and NewModule with the name bound to a module in the scope and in its parent): every complete call/return history plus a final read is checked for linearizability against a sequential dictionary-chain spec (brute force, cross-checked by porcupine); copies must be consistent snapshots; a chain family of 21 operations on root/module/leaf scopes is checked for deadlock and panic; lockset monitor asserting every access to values/types happens under the scope's lock and an Eraser-style rule for every other field of a scope (a write - also through a field's address or a mutating buffer method - needs the write lock); every sync/atomic operation is a schedule point.",
   note="Trusts the RWMutex shadow semantics of the scheduler and the syntactic overlay rewrite (site counts asserted non-zero); memory-model effects below lock granularity are covered only by the lockset invariant; larger shapes use preemption bound 2 (stated in evidence).",
   technique="stateless model checking of the implementation under a controlled scheduler (exhaustive schedule enumeration, iterative preemption bounding) + linearizability checking (porcupine and brute force) + lockset invariant"),
 "C12": dict(level="model_checking", design="§4 C12",
   text="Explicit-state BFS over all histories of env API calls up to depth 3 (quick) / 4 (thorough) over the full alphabet and depth 5 over the state-changing calls, from four initial configurations (no / root / child external lookup, emptied root table), on a growing forest of scopes, reference dictionary-chain model in lock-step; every transition is executed on the real package and the full observable state compared. Exhaustive within the stated alphabet and depth.",
   note="Trusts the ~300-line reference model (refenv) and Go's reflect; values/names/types restricted to the stated pools; error messages not compared.",
   technique="explicit-state model checking (BFS with canonical-state de-duplication), model traces replayed on the implementation at every transition"),
}
m = {
 "version": 1,
 "setup_cmd": "/verif/setup.sh",
 "hooks": {
  "guard": "verif",
  "enable": "no hook commits in /repo: /verif/check.sh generates a go build -overlay (cmd/mkoverlay) from the current tree that swaps env's sync import for a scheduler-aware shim, redirects vm's reflect.Select/Close/go statements and adds a yield to Lexer.Lex, then builds with -tags verif",
  "baseline_off_cmd": "cd /repo && GOFLAGS=-mod=mod GOPROXY=off GOSUMDB=off GOTOOLCHAIN=local go test -vet=off -count=1 ./...",
  "source_commits": [],
  "add_only": True
 },
 "engines": [
  {"name": "vcheck", "path": "/verif/engine", "serves_properties": sorted(checks), "kind_free_text": "hand-written Go explorer: choice-point DFS / BFS with state de-duplication, cooperative scheduler with RWMutex and channel shadow state, reference models in Go; built per run against /repo's working tree through go build -overlay"}
 ],
 "checks": [],
 "not_applicable": [],
 "notes": "check.sh exits 2 (no VIOLATION line) when the machinery cannot build or run. known_findings.json lists recorded defects and fixed ones."
}

# ---- additions of later rounds (appended to the texts above) ----
RACE = " Supplementary, not deciding: the same harness bodies are run free-running (real goroutines, no scheduler installed) in a second build of the checker made with -race; every report of the race detector with a frame of mattn/anko is a violation (class race/...)."
extra_text = {
 "C01": " Round 7: goroutine programs that share only scopes, modules, function values and channels (interpreter-synchronised state) run free-running under the race detector (an unsynchronised access there ends in Go's unrecoverable 'concurrent map' fault)." + RACE,
 "C02": " Round 7: cores in which one buffered channel has several takers (the loop body itself, a second goroutine), and deferring invocations (a function, the top level) that end with an explicit return.",
 "C04": " Round 7: multi-name declarations 'var a, b = [v, w]' and 'var a, b = v, w' in the payload alphabet.",
 "C05": " Round 7: operands that reach the operator as list elements (el[0] op el[1] and the mixed forms, full pool), and stores through the address of a variable holding a computed small integer followed by a recomputation (same and fresh environment).",
 "C06": " Round 7: multi-case switch law: every ordered triple of a 33-value pool in four statement shapes (two cases, one case with two values, a value listed twice, a default between cases) must act as the implementation's own == says.",
 "C07": " Round 7: literal-operands-twice space: every operator template alone and nested in every operand of every other one, one observable operand at a time with the others spelled as bare literals, the statement executed twice (the log of the second execution must equal the first).",
 "C08": " Round 7: reswitch family: a switch with overlapping / duplicate cases executed for every ordered triple of subjects, in a loop body and in a function called per subject.",
 "C09": " Round 7: failure kinds 'func() { break }()' / 'func() { continue }()' (a loop signal with no loop of its own invocation is a runtime error of the call; loops of the callers are not addressed) under every wrapper tuple that contains a loop.",
 "C10": " Round 7: type-rebind phase: 12 container forms whose type expression names T x 12 ordered pairs of bindings of T x 3 re-evaluation forms (function called twice, loop body, closure) compared with freshly parsed straight-line programs.",
 "C11": " Round 7: every single-call member op also as a DEFERRED call (inside a function, at the top level): the method must receive exactly the supplied arguments, spreading included.",
 "C12": " Round 7: two more start states (a three-scope chain with a value and a type at its outer end; root > module > inner scope) and a Set of every name to its current value at every state (whatever a Set leaves behind in the implementation exists before the next step).",
 "C13": RACE + " The free-running pass also covers the operations kept out of the linearizability alphabet (DefineGlobal, operations on the parent scope) and the chain family.",
 "C14": " Round 7: import-result isolation: the result of an import expression written through directly, handed to a function, kept in a map / list, returned by a function, then read by a fresh environment." + RACE,
 "C15": RACE,
 "C16": RACE,
 "C17": " Round 7: rewalk oracle (a fresh tree whose FIRST walk is aborted at call 1 / middle / last, then walked completely; a second complete walk of the same tree) and uneven multiple assignments / declarations in the shared grammar.",
 "C18": " Round 7: bodies that look at the environment (defined() of an own name, load() of a second file that uses the loader's names) and shapes of the source text (a 70 000-character line, a 66 000-character comment, CRLF inside a raw string, CR-only line ends).",
 "C19": " Round 7: freshness of returned containers (a = F(args); a[0] = a[1]; F(args) again in the same and in a fresh environment, for range / keys / toXSlice), and table functions without a generated reference judged by the symbol their code pointer belongs to.",
 "C20": " Round 7: the Go-call hop counts its invocations: more calls than written occurrences means the operand was produced again (class ok-but-operand-produced-again).",
}
extra_tech = {k: "; supplementary free-running race-detector pass over the same harness bodies (sampling, reported separately)" for k in ("C01","C13","C14","C15","C16")}
for k, v in extra_text.items():
    checks[k]["text"] += v
for k, v in extra_tech.items():
    checks[k]["technique"] += v

# ---- round 8 ----
extra8 = {
 "C01": " Round 8: literal-truncation space (every rune-boundary prefix of literals that use every escape / number / comment form, behind 0..15 blanks that vary the source's rune count against the lexer's buffer size class).",
 "C02": " Round 8: backlog cores (60 values waiting in a channel, loops with and without a body) and a bound on ALL scheduler steps after the cancellation (polls, channel operations, lock-free receives: at most threads x (depth+8) + 8; the measured maximum on the unchanged tree is 8), so that the wait never grows with the data that is waiting.",
 "C04": " Round 8: closures made one block below a block (or parameterless function scope) that has no bindings yet; the enclosing block binds afterwards and calls the closure.",
 "C06": " Round 8: all-literal switch law: 0..16 filler cases (integer and string literals) around the case under test at three positions; the first case the implementation's own == calls equal must run.",
 "C09": " Round 8 (and the end of round 7): throw of an empty string, throw of the interrupt error's text without any cancellation, list ELEMENTS (changed afterwards) as deferred arguments through a closure and to a host function deferred directly.",
 "C10": " Round 8 (and the end of round 7): appends whose right side has an unconvertible element after a convertible one (nothing may be stored), two-target assignments (swap), and a name assigned from a typed slot is compared as a value of its own (the model's former 'taint' exception is gone since the implementation was repaired).",
 "C11": " Round 8: part E - one call site of a Go function (fixed, variadic) or reflect-path script function re-entered by recursion from inside its own argument expressions; methods looked up by name on two Go types with the same printed name (two packages called twin), in both orders.",
 "C13": " Round 8: first-time family - the shared scope has no table yet and two or three operations on DIFFERENT names each may create one lazily.",
 "C14": " Round 8: deep-concurrent-recursion phase - one tree, three runs parked by a barrier 50 / 1000 / 4000 script calls deep at the same moment; each must yield its solo result.",
 "C15": " Round 8: the parser's sync/atomic operations are schedule points too (overlay), and two 4100-byte three-token texts take part in the exhaustive interleaving phase (a repeated large text next to another one).",
 "C16": " Round 8: fan-out with RANGE loops (a worker's loop may end only after the producer announced its last item) and the goroutine-free facts once more through vm.Execute (a context that can never be cancelled).",
 "C19": " Round 8: import-after-writes phase - for every package two members are overwritten through patch(import(p)) and import(p).K = v in one environment, then a fresh environment's import must offer the table's values.",
 "C20": " Round 8: a Go callee that WRITES through its pointer argument, observed through the variable the operand came from (a pointer stays the pointer, not a pointer to a copy).",
}
for k, v in extra8.items():
    checks[k]["text"] += v

# ---- round 9 ----
extra9 = {
 "C02": " Round 9: recursion whose function bodies are a lone return statement (the probe sits inside the returned expression).",
 "C04": " Round 9: a C-for whose condition is a call of the payload function after an init clause that shadows a pool name (a failing condition must leave the enclosing try in the scope that was current before the loop).",
 "C09": " Round 9: try-rethrow wrapper (catch e { p; throw e }), and a recursive function with two defers per invocation called two / three times.",
 "C10": " Round 9: lists of lists appended to a window of a typed slice of slices (fitting, and failing after a convertible sub-list), a parameter read from a typed slot.",
 "C11": " Round 9: the twin types of part E carry the same field names in different order (reads, and writes through pointers); free-running -race body: Go calls one converted script callback from two goroutines (five func types)." + RACE,
 "C12": " Round 9: the module named m is re-bound through a non-addressable value of kind Interface (as a script can leave it).",
 "C14": " Round 9: the parked deep runs share one *vm.Options value.",
 "C16": " Round 9: a named scalar element type (Dur = time.Duration) in three facts, go arguments read from typed slots / struct fields (all schedules), a 30 s guard around the plain-entry runs.",
}
for k, v in extra9.items():
    checks[k]["text"] += v
checks["C11"]["technique"] += "; supplementary free-running race-detector pass over the same harness bodies (sampling, reported separately)"

for pid in sorted(checks):
    c = checks[pid]
    m["checks"].append({
      "property_id": pid,
      "quick_cmd": f"/verif/check.sh {pid} quick",
      "thorough_cmd": f"/verif/check.sh {pid} thorough",
      "evidence_file": f"/verif/evidence/{pid}.json",
      "replay_cmd_template": f"/verif/check.sh {pid} quick -replay {{path}}",
      "engine": "vcheck",
      "level_claimed": {"category": c["level"], "text": c["text"], "design_ref": c["design"]},
      "level_note": c["note"],
      "technique": c["technique"],
    })
props = [json.loads(l)["id"] for l in open("/verif/properties.jsonl")]
for pid in props:
    if pid not in checks:
        m["not_applicable"].append({"property_id": pid, "reason": "not claimed yet: checker under construction (see DESIGN.md §8 for the order of construction)"})
json.dump(m, open("/verif/MANIFEST.json","w"), indent=1)
print("checks:", len(m["checks"]), "not_applicable:", len(m["not_applicable"]))
