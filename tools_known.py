#!/usr/bin/env python3
"""tools_known.py add <emit-known.json> : merge classes/cases printed by `check.sh CNN <tier> -emit-known`
into known_findings.json (maintenance only; never run by a check)."""
import json, sys
p = '/verif/known_findings.json'
k = json.load(open(p))
new = json.load(open(sys.argv[2]))
idx = {(f['property'], f['class']): f for f in k['findings']}
for f in new:
    key = (f['property'], f['class'])
    if key in idx:
        idx[key]['cases'] = sorted(set(idx[key]['cases']) | set(f['cases']))
    else:
        k['findings'].append(f); idx[key] = f
k['findings'].sort(key=lambda f: (f['property'], f['class']))
json.dump(k, open(p, 'w'), indent=1)
print('findings:', len(k['findings']), 'cases:', sum(len(f['cases']) for f in k['findings']))
