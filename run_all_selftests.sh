#!/bin/bash
# runs every mutant in /verif/mutants through selftest.sh (3 at a time) and writes mutants/RESULTS.txt
cd /verif
ls mutants/*/*.diff | while read f; do id=$(basename $(dirname $f)); echo "$id $f"; done > /tmp/selftest.list
: > /tmp/selftest.out
cat /tmp/selftest.list | xargs -P "${P:-3}" -L 1 bash -c './selftest.sh $0 $1 >> /tmp/selftest.out 2>&1'
sort /tmp/selftest.out | grep '^SELFTEST' > mutants/RESULTS.txt
echo done
