#!/bin/bash
# selftest.sh <ID> <patch.diff> [tier]   — show that a check can fail.
# Applies the patch to a scratch copy of the repository, confirms the
# repository's own test suite still passes there, runs the property's check
# against the copy and requires a VIOLATION.  /repo is never touched; evidence
# and replays of the mutant run go to a scratch directory.
set -u
ID="$1"; PATCH="$(readlink -f "$2")"; TIER="${3:-quick}"
export GOFLAGS=-mod=mod GOPROXY=off GOSUMDB=off GOTOOLCHAIN=local
SCR="$(mktemp -d /tmp/vmut.XXXXXX)"
trap 'rm -rf "$SCR"' EXIT
mkdir -p "$SCR/repo" "$SCR/out"
rsync -a --exclude .git /repo/ "$SCR/repo/"
( cd "$SCR/repo" && patch -p1 -s < "$PATCH" ) || { echo "SELFTEST $ID $(basename $PATCH): patch does not apply"; exit 3; }
if [ "${SKIP_BASELINE:-0}" != 1 ]; then
  ( cd "$SCR/repo" && go build ./... && timeout 400 go test -vet=off -count=1 -timeout 180s ./... 2>&1 ) > "$SCR/test.log" 2>&1
  # two tests of the repository fail for reasons of their own (no terminal; port 8080 taken by a parallel run): ignored
  if grep -E '^(--- FAIL|panic:|FAIL.*(build failed|setup failed)|.*test timed out)' "$SCR/test.log" | grep -v -E 'TestRunInteractive|Example_vmHttp' | grep -q .; then
    echo "SELFTEST $ID $(basename $PATCH): baseline tests FAIL with the patch (not a valid mutant)"; grep -E '^(--- FAIL|FAIL|panic:)' "$SCR/test.log" | head; exit 4
  fi
fi
# run the check in its own process group under a watchdog, so that a runaway
# mutant run can be killed together with all its worker processes
VERIF_REPO="$SCR/repo" VERIF_OUT="$SCR/out" setsid /verif/check.sh "$ID" "$TIER" > "$SCR/check.log" 2>&1 &
cpid=$!
( sleep "${SELFTEST_TIMEOUT:-2400}"; kill -- -$cpid 2>/dev/null ) >/dev/null 2>&1 & wpid=$!
wait $cpid; rc=$?
kill $wpid 2>/dev/null; pkill -P $wpid sleep 2>/dev/null
if [ $rc -eq 1 ] && grep -q "^VIOLATION property=$ID" "$SCR/check.log"; then
  echo "SELFTEST $ID $(basename $PATCH): DETECTED ($(grep -c '^VIOLATION' "$SCR/check.log") classes) $(grep -m1 -A1 '^VIOLATION' "$SCR/check.log" | tail -1)"
  exit 0
fi
echo "SELFTEST $ID $(basename $PATCH): MISSED (rc=$rc)"; tail -5 "$SCR/check.log"
exit 1
