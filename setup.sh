#!/bin/bash
# Run once after a fresh restore, offline: warm the build cache so that the
# per-check rebuild is fast.  Builds only from files on disk.
set -u
export GOFLAGS=-mod=mod GOPROXY=off GOSUMDB=off GOTOOLCHAIN=local
export GOCACHE=/verif/.cache/go-build
mkdir -p /verif/.work /verif/.cache /verif/evidence /verif/replays
cd /verif/engine || exit 1
W=/verif/.work/setup-$$
mkdir -p "$W"
go build -o "$W/mkoverlay" ./cmd/mkoverlay || exit 1
"$W/mkoverlay" -repo /repo -out "$W/ov" -shim /verif/engine/shim || exit 1
# warm the cache: one build per property package (a package under construction
# that does not build yet must not break the others)
for d in props/*/; do
  p=$(basename $d)
  printf "package main\nimport _ \"verif/engine/props/%s\"\n" $p > "$W/zz_prop.go"
  python3 - "$W" <<PY || exit 1
import json,sys
w=sys.argv[1]; o=json.load(open(w+"/ov/overlay.json"))
o["Replace"]["/verif/engine/cmd/vcheck/zz_prop.go"]=w+"/zz_prop.go"
json.dump(o,open(w+"/ov/overlay.json","w"))
PY
  go build -tags verif -overlay "$W/ov/overlay.json" -o "$W/vcheck" ./cmd/vcheck || echo "warning: props/$p does not build"
  if [ -e "props/$p/.racepass" ]; then
    go build -race -tags verif -overlay "$W/ov/overlay.json" -o "$W/vcheck" ./cmd/vcheck || echo "warning: props/$p does not build with -race"
  fi
done
rm -rf "$W"
echo setup ok
