#!/bin/bash
# Run once after a fresh restore, offline: warm the build cache so that the
# per-check rebuild is fast.  Builds only from files on disk.
set -u
export GOFLAGS=-mod=mod GOPROXY=off GOSUMDB=off GOTOOLCHAIN=local
export GOCACHE=/verif/.cache/go-build
mkdir -p /verif/.work /verif/.cache /verif/evidence /verif/replays
cd /verif/engine || exit 1
W=/verif/.work/setup-$$
mkdir -p "$W"
go build -o "$W/mkoverlay" ./cmd/mkoverlay || exit 1
"$W/mkoverlay" -repo /repo -out "$W/ov" -shim /verif/engine/shim || exit 1
go build -tags verif -overlay "$W/ov/overlay.json" -o "$W/vcheck" ./cmd/vcheck || exit 1
rm -rf "$W"
echo setup ok
