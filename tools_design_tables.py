#!/usr/bin/env python3
"""Regenerates the generated section of DESIGN.md (between the GENERATED markers): seeded changes and mutants."""
import json, glob, os, re, collections
rows=[]
rejected=[]
obsolete=[]
for d in sorted(glob.glob('/verif/seeded/*/meta.json')):
    m=json.load(open(d)); name=os.path.basename(os.path.dirname(d))
    if m.get('status','').startswith('obsolete'):
        obsolete.append((name, m['property'], m['needs_to_manifest'])); continue
    if 'rejected' in m.get('status',''):
        rejected.append((name, m['property'], m['what'], m['why_rejected'])); continue
    rows.append((name,m['property'],m['needs_to_manifest'],m['check_result']))
out=[]
out.append("## 7d. Which checks catch which changes\n")
out.append("### Seeded changes written by fresh sub-agents (property text + own worktree only; nothing from /verif)\n")
out.append("Each was confirmed in a scratch worktree of /repo with `seedcheck.sh` (patch applies, repository suite green with it, demonstration fails with it and passes without it) and is kept under `/verif/seeded/<id>/` (patch.diff, demo, README.md, meta.json).  \"missed at first\" entries led to the strengthening described in the last column; all %d are detected by the current quick checks.\n" % len(rows))
out.append("| change | property | needs, in order to manifest | result |")
out.append("|---|---|---|---|")
for n,p,needs,res in rows:
    out.append("| %s | %s | %s | %s |" % (n,p,needs.replace('|','\\|'),res.replace('|','\\|')))
out.append("")
out.append("One further seeded change was rejected: C16-2 (one argument slice per script function value instead of per call) makes the repository's own `TestGoFunctionConcurrency` fail in 4 of 5 runs, so it does not \"pass the existing tests\"; C16's lock-granularity `shared-func` programs, added because of it, do detect it.\n")
if obsolete:
    out.append("Obsolete (kept for the record, not part of the table above): " + ", ".join(n for n,_,_ in obsolete) + " - seeded changes that only manifested THROUGH the typed-slot aliasing defect repaired in session 4 (four variants of 'the small-integer cache made addressable, reached through `&variable`', one index-len assignment through a second name of a typed slice, and one range variable updated in place): since /repo e62c826..fb1654e (a value assigned to a name or bound to a parameter is a value of its own) their demonstrations pass WITH the patch, i.e. the change no longer breaks a property on the current tree; each was confirmed and detected on the tree it was written for.\n")
for n,p,what,why in rejected:
    out.append("Rejected: %s (%s) - %s.  %s\n" % (n,p,what,why))
out.append("### Mutants written while building the checkers (`/verif/mutants/<ID>/*.diff`, run with `selftest.sh`)\n")
res=collections.defaultdict(list)
for l in open('/verif/mutants/RESULTS.txt'):
    m=re.match(r'SELFTEST (C\d+) (\S+): (\w+)', l)
    if m: res[m.group(1)].append((m.group(2).replace('.diff',''), m.group(3)))
out.append("Every mutant keeps the repository's test suite green and is reported by the property's quick check (`mutants/RESULTS.txt` is the log of the last complete run, %d mutants).  Candidates that the repository's own tests kill were dropped and are listed in `notes/<ID>.md`.\n" % sum(len(v) for v in res.values()))
out.append("| property | mutants detected by its quick check |")
out.append("|---|---|")
for p in sorted(res):
    out.append("| %s | %s |" % (p, ", ".join(n for n,_ in res[p])))
out.append("")
# ---- measured coverage per property (quick: committed evidence; thorough: notes/thorough_runs.json)
def fmt(cov):
    keys=['evaluations','distinct_nontrivial','states','transitions','schedules','traces_validated_against_impl']
    return ", ".join("%s=%s"%(k,cov[k]) for k in keys if k in cov)
thor={}
try: thor=json.load(open('/verif/notes/thorough_runs.json'))
except Exception: pass
out.append("### Measured coverage (quick = the committed evidence files; thorough = last complete thorough run, `notes/thorough_runs.json`)\n")
out.append("| id | quick | quick wall | thorough | thorough wall |")
out.append("|---|---|---|---|---|")
for f in sorted(glob.glob('/verif/evidence/C*.json')):
    ev=json.load(open(f)); pid=ev['property_id']
    t=thor.get(pid,{})
    out.append("| %s | %s%s | %.0f s | %s%s | %s |" % (pid, fmt(ev['coverage']), "" if ev['coverage'].get('exhaustive') else " (capped)", ev['wall_s'],
        fmt(t.get('coverage',{})), "" if t.get('coverage',{}).get('exhaustive',True) else " (capped)", ("%.0f s"%t['wall_s']) if 'wall_s' in t else "-"))
out.append("")
s=open('/verif/DESIGN.md').read()
b,e='<!-- GENERATED:BEGIN -->','<!-- GENERATED:END -->'
block=b+"\n"+"\n".join(out)+"\n"+e
if b in s:
    s=s[:s.index(b)]+block+s[s.index(e)+len(e):]
else:
    marker='## 8. Order of construction'
    s=s.replace(marker, block+"\n\n"+marker)
open('/verif/DESIGN.md','w').write(s)
print("ok", len(rows), "seeded;", sum(len(v) for v in res.values()), "mutants")
