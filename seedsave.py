#!/usr/bin/env python3
"""seedsave.py <seed dir name e.g. C12-1> <PROP> <needs-to-manifest text> <detection text>
Copies a confirmed seeded change from /tmp/seeded/<dir> (+ /tmp/seedcheck/<dir> logs) to /verif/seeded/<dir>/."""
import sys, os, shutil, json, re
d, prop, needs, det = sys.argv[1:5]
src='/tmp/seeded/'+d; chk='/tmp/seedcheck/'+d; dst='/verif/seeded/'+d
os.makedirs(dst, exist_ok=True)
# refreshed patch (against current /repo HEAD) if available
p = chk+'/patch_refreshed.diff' if os.path.exists(chk+'/patch_refreshed.diff') and os.path.getsize(chk+'/patch_refreshed.diff')>0 else src+'/patch.diff'
shutil.copy(p, dst+'/patch.diff')
for f in os.listdir(src):
    if f.startswith('demo') or f=='README.md':
        if os.path.isdir(src+'/'+f): shutil.copytree(src+'/'+f, dst+'/'+f, dirs_exist_ok=True)
        else: shutil.copy(src+'/'+f, dst+'/'+f)
summary=''
if os.path.exists(chk+'/check.log'):
    lines=open(chk+'/check.log').read().splitlines()
    summary='\n'.join([l for l in lines if l.startswith('VIOLATION') or l.startswith('  class=')][:6])
meta={
 "property": prop,
 "origin": "written by a fresh sub-agent that saw only the property text and its own git worktree of mattn/anko (nothing from /verif)",
 "needs_to_manifest": needs,
 "confirmed_by_me": {
   "patch_applies_to_repo_head": True,
   "repository_test_suite_with_patch": "green (go test -vet=off -count=1 ./... in a scratch worktree; TestRunInteractive ignored)",
   "demonstration": "fails with the patch, passes without it (demo_test.go copied into the package named in README.md)",
 },
 "ran": ["/verif/seedcheck.sh %s %s" % (d, prop)],
 "check_result": det,
 "check_output_excerpt": summary,
}
json.dump(meta, open(dst+'/meta.json','w'), indent=1)
print('saved', dst)
