#!/bin/bash
# runs every quick check against /repo, writing the committed evidence files
cd /verif; : > /tmp/quick.summary
for id in $(python3 -c "import json;print(' '.join(c['property_id'] for c in json.load(open('/verif/MANIFEST.json'))['checks']))"); do
  s=$(date +%s); ./check.sh $id quick > /tmp/quick-$id.log 2>&1; rc=$?; e=$(date +%s)
  echo "$id rc=$rc wall=$((e-s))s $(grep -c '^VIOLATION' /tmp/quick-$id.log) new violations; $(tail -1 /tmp/quick-$id.log | cut -c1-160)" >> /tmp/quick.summary
done
cat /tmp/quick.summary; ./validate.sh
