#!/bin/bash
# seedcheck.sh <dir under /tmp/seeded, e.g. C12-1> <PROP> [tier]
# Confirms a seeded change in a scratch worktree of /repo: patch applies, repository tests stay
# green with it, the demonstration fails with it and passes without it; then runs the property's
# check against the patched worktree.  Prints one summary line; details in /tmp/seedcheck/<dir>/.
set -u
D="$1"; PROP="$2"; TIER="${3:-quick}"
SRC=/tmp/seeded/$D
export GOFLAGS=-mod=mod GOPROXY=off GOSUMDB=off GOTOOLCHAIN=local
OUT=/tmp/seedcheck/$D; rm -rf "$OUT"; mkdir -p "$OUT"
WT=/tmp/wt/val-$D
git -C /repo worktree remove --force "$WT" >/dev/null 2>&1
git -C /repo worktree add --detach "$WT" HEAD -q || { echo "$D: cannot create worktree"; exit 2; }
cleanup() { git -C /repo worktree remove --force "$WT" >/dev/null 2>&1; }
trap cleanup EXIT
demo=$(ls $SRC/demo_test.go 2>/dev/null)
pkgdir=$(grep -o -E '`?(vm|env|parser|core|ast/astutil|packages)/?`?' $SRC/README.md | head -1 | tr -d '`/')
[ -z "$pkgdir" ] && pkgdir=vm
pkgline=$(grep -m1 '^package ' "$demo" | awk '{print $2}')
case "$pkgline" in packages*) pkgdir=packages;; env*) pkgdir=env;; vm*) pkgdir=vm;; parser*) pkgdir=parser;; core*) pkgdir=core;; astutil*) pkgdir=ast/astutil;; main) pkgdir=.;; *) pkgdir="zzdemo_$pkgline"; mkdir -p "$WT/$pkgdir";; esac
names=$(grep -o -E '^func (Test[A-Za-z0-9_]+)' "$demo" | awk '{print $2}' | paste -sd'|')
run_demo() { ( cd "$WT" && cp "$demo" "$pkgdir/zz_seed_demo_test.go" && timeout 600 go test -vet=off -count=1 -timeout 300s -run "^($names)\$" ./$pkgdir/ > "$1" 2>&1; rc=$?; rm -f "$pkgdir/zz_seed_demo_test.go"; exit $rc ); }
run_demo "$OUT/demo_clean.log"; clean_rc=$?
( cd "$WT" && git apply --3way "$SRC/patch.diff" >/dev/null 2>&1 || patch -p1 -s < "$SRC/patch.diff" ) > "$OUT/apply.log" 2>&1 || { echo "$D: PATCH DOES NOT APPLY"; exit 3; }
( cd "$WT" && git diff > "$OUT/patch_refreshed.diff" )
( cd "$WT" && go build ./... && timeout 900 go test -vet=off -count=1 -timeout 300s ./... ) > "$OUT/suite.log" 2>&1
suite="green"; grep -E '^(--- FAIL|panic:)' "$OUT/suite.log" | grep -v -E 'TestRunInteractive|Example_vmHttp' | grep -q . && suite="RED"
grep -q "build failed\|cannot\|undefined:" "$OUT/suite.log" && grep -q "^FAIL.*\[build failed\]" "$OUT/suite.log" && suite="BUILD-FAILED"
run_demo "$OUT/demo_patched.log"; patched_rc=$?
VERIF_REPO="$WT" VERIF_OUT="$OUT" setsid /verif/check.sh "$PROP" "$TIER" > "$OUT/check.log" 2>&1 &
cpid=$!; ( sleep 3000; kill -- -$cpid 2>/dev/null ) >/dev/null 2>&1 & wpid=$!; wait $cpid; crc=$?; kill $wpid 2>/dev/null; pkill -P $wpid sleep 2>/dev/null
det="MISSED(rc=$crc)"; [ $crc -eq 1 ] && grep -q "^VIOLATION property=$PROP" "$OUT/check.log" && det="DETECTED: $(grep -m1 -A1 '^VIOLATION' "$OUT/check.log" | tail -1 | cut -c1-160)"
echo "$D [$PROP $TIER]: suite=$suite demo(clean rc=$clean_rc, patched rc=$patched_rc) check=$det"
