#!/bin/bash
# runs every thorough check (evidence redirected to a scratch directory so the committed quick
# evidence is untouched) and records what each run covered in notes/thorough_runs.json
cd /verif; OUT=/tmp/thorfinal; rm -rf $OUT; mkdir -p $OUT; : > $OUT/summary.txt
for id in $(python3 -c "import json;print(' '.join(c['property_id'] for c in json.load(open('/verif/MANIFEST.json'))['checks']))"); do
  s=$(date +%s); VERIF_OUT=$OUT ./check.sh $id thorough > $OUT/$id.log 2>&1; rc=$?; e=$(date +%s)
  echo "$id rc=$rc wall=$((e-s))s $(grep -c '^VIOLATION' $OUT/$id.log) new violations" >> $OUT/summary.txt
done
python3 - <<'PY'
import json,glob,os
out={}
for f in sorted(glob.glob('/tmp/thorfinal/evidence/C*.json')):
    ev=json.load(open(f)); cov=ev['coverage']
    keep={k:cov[k] for k in ['evaluations','distinct_nontrivial','states','transitions','schedules','traces_validated_against_impl','exhaustive','caps_hit','known_findings_seen'] if k in cov}
    out[ev['property_id']]={'tier':ev['tier'],'wall_s':round(ev['wall_s'],1),'violations':ev.get('violations',0),'coverage':keep}
json.dump(out,open('/verif/notes/thorough_runs.json','w'),indent=1)
print(open('/tmp/thorfinal/summary.txt').read())
PY
