// Package common holds what every property checker shares: the run context,
// mergeable results, evidence writing, known-findings handling, replay files
// and sharding over worker processes.
package common

import (
	"bytes"
	"encoding/json"
	"flag"
	"fmt"
	"os"
	"os/exec"
	"path/filepath"
	"runtime"
	"sort"
	"strconv"
	"strings"
	"sync"
	"time"
)

// VerifDir is the root of the verification tree (overridable for tests).
var VerifDir = envOr("VERIF_DIR", "/verif")

func envOr(k, d string) string {
	if v := os.Getenv(k); v != "" {
		return v
	}
	return d
}

// OutDir is where evidence/ and replays/ are written (self-tests redirect it).
var OutDir = envOr("VERIF_OUT", VerifDir)

// Ctx describes one invocation of one property checker (or one shard of it).
type Ctx struct {
	Prop     string
	Tier     string // quick | thorough
	Seed     int64
	J        int // parallelism available
	Shard    int // this shard (0-based)
	NShards  int // 1 = unsharded
	Worker   bool
	Start    time.Time
	Deadline time.Time // soft internal deadline; hitting it => exhaustive:false, never a verdict
	Args     []string  // extra arguments
	Repo     string
}

// promoted: properties whose thorough enumeration is cheap enough (well under a
// minute on 16 cores) to be what the quick tier runs as well.
var promoted = map[string]bool{"C05": true, "C06": true, "C07": true, "C08": true, "C13": true, "C17": true, "C18": true, "C19": true}

// Thorough reports whether the deep enumeration is to be run: always in the
// thorough tier, and in the quick tier for the promoted properties.
func (c *Ctx) Thorough() bool { return c.Tier == "thorough" || promoted[c.Prop] }

// Mine reports whether work item i belongs to this shard.
func (c *Ctx) Mine(i int) bool { return c.NShards <= 1 || i%c.NShards == c.Shard }

// Expired reports whether the soft deadline has passed.
func (c *Ctx) Expired() bool { return !c.Deadline.IsZero() && time.Now().After(c.Deadline) }

// Violation is one failing case.
type Violation struct {
	Class  string      `json:"class"`  // stable signature of the kind of failure
	Case   string      `json:"case"`   // the specific failing input / history / schedule (canonical text)
	Detail string      `json:"detail"` // human readable divergence
	Replay interface{} `json:"replay,omitempty"`
}

// Result is what a shard returns; results merge associatively.
type Result struct {
	Counts     map[string]int64    `json:"counts"`
	Sets       map[string][]string `json:"sets"` // small string sets, unioned on merge
	Samples    []interface{}       `json:"samples"`
	Violations []Violation         `json:"violations"`
	CapsHit    []string            `json:"caps_hit"`
	Notes      []string            `json:"notes"`

	mu   sync.Mutex
	sets map[string]map[string]struct{}
}

func NewResult() *Result {
	return &Result{Counts: map[string]int64{}, Sets: map[string][]string{}, sets: map[string]map[string]struct{}{}}
}

func (r *Result) Add(key string, n int64) {
	r.mu.Lock()
	r.Counts[key] += n
	r.mu.Unlock()
}

// Max keeps the maximum for key (stored under Counts with prefix "max:").
func (r *Result) Max(key string, n int64) {
	r.mu.Lock()
	if n > r.Counts["max:"+key] {
		r.Counts["max:"+key] = n
	}
	r.mu.Unlock()
}

func (r *Result) GetMax(key string) int64 { return r.Counts["max:"+key] }

// Distinct adds s to the named set; returns true when it was new.
func (r *Result) Distinct(set, s string) bool {
	r.mu.Lock()
	defer r.mu.Unlock()
	m := r.sets[set]
	if m == nil {
		m = map[string]struct{}{}
		r.sets[set] = m
	}
	if _, ok := m[s]; ok {
		return false
	}
	m[s] = struct{}{}
	return true
}

func (r *Result) SetSize(set string) int64 {
	r.mu.Lock()
	defer r.mu.Unlock()
	return int64(len(r.sets[set]))
}

func (r *Result) SetMembers(set string) []string {
	r.mu.Lock()
	defer r.mu.Unlock()
	var out []string
	for k := range r.sets[set] {
		out = append(out, k)
	}
	sort.Strings(out)
	return out
}

const maxSamples = 12
const maxViolationsKept = 20000

func (r *Result) Sample(s interface{}) {
	r.mu.Lock()
	if len(r.Samples) < maxSamples {
		r.Samples = append(r.Samples, s)
	}
	r.mu.Unlock()
}

// knownCases is loaded once per process (also in shard workers): a violation
// whose class AND case are listed is counted, not stored, so that a long list
// of known cases can never crowd a new violation out of the kept list.
var (
	knownOnce  sync.Once
	knownCases map[string]map[string]bool // class -> case -> true, for the property being checked
	knownProp  string
	emitKnown  bool
)

func loadKnownFor(prop string) {
	knownCases = map[string]map[string]bool{}
	for _, f := range loadKnown().Findings {
		if f.Property != prop {
			continue
		}
		m := knownCases[f.Class]
		if m == nil {
			m = map[string]bool{}
			knownCases[f.Class] = m
		}
		for _, cs := range f.Cases {
			m[cs] = true
		}
	}
}

func (r *Result) Violate(v Violation) {
	if !emitKnown && knownCases != nil && knownCases[v.Class][v.Case] {
		r.mu.Lock()
		r.Counts["known:"+v.Class]++
		r.mu.Unlock()
		return
	}
	r.mu.Lock()
	r.Counts["violations_raw"]++
	if len(r.Violations) < maxViolationsKept {
		r.Violations = append(r.Violations, v)
	}
	r.mu.Unlock()
}

func (r *Result) Cap(s string) {
	r.mu.Lock()
	for _, c := range r.CapsHit {
		if c == s {
			r.mu.Unlock()
			return
		}
	}
	r.CapsHit = append(r.CapsHit, s)
	r.mu.Unlock()
}

func (r *Result) Note(s string) {
	r.mu.Lock()
	r.Notes = append(r.Notes, s)
	r.mu.Unlock()
}

func (r *Result) seal() {
	r.mu.Lock()
	defer r.mu.Unlock()
	for name, m := range r.sets {
		var out []string
		for k := range m {
			out = append(out, k)
		}
		sort.Strings(out)
		r.Sets[name] = out
	}
}

func (r *Result) unseal() {
	if r.sets == nil {
		r.sets = map[string]map[string]struct{}{}
	}
	if r.Counts == nil {
		r.Counts = map[string]int64{}
	}
	if r.Sets == nil {
		r.Sets = map[string][]string{}
	}
	for name, l := range r.Sets {
		m := r.sets[name]
		if m == nil {
			m = map[string]struct{}{}
			r.sets[name] = m
		}
		for _, k := range l {
			m[k] = struct{}{}
		}
	}
}

// Merge folds o into r.
func (r *Result) Merge(o *Result) {
	o.unseal()
	for k, v := range o.Counts {
		if strings.HasPrefix(k, "max:") {
			if v > r.Counts[k] {
				r.Counts[k] = v
			}
		} else {
			r.Counts[k] += v
		}
	}
	for name, m := range o.sets {
		for k := range m {
			r.Distinct(name, k)
		}
	}
	for _, s := range o.Samples {
		r.Sample(s)
	}
	for _, v := range o.Violations {
		if len(r.Violations) < maxViolationsKept {
			r.Violations = append(r.Violations, v)
		}
	}
	for _, c := range o.CapsHit {
		r.Cap(c)
	}
	r.Notes = append(r.Notes, o.Notes...)
}

// Prop is a registered property checker.
type Prop struct {
	ID    string
	Level string // evidence level
	// Sharded: run as NShards worker processes (needed where process-global
	// state such as the installed scheduler forbids in-process parallelism,
	// or where a crash must not take the checker down).
	Sharded bool
	Run     func(c *Ctx) *Result
	// Coverage turns the merged result into the evidence "coverage" object.
	Coverage func(c *Ctx, r *Result) map[string]interface{}
	// Assumptions listed in the evidence file.
	Assumptions []string
	// Replay re-executes one recorded case; returns process exit code.
	Replay func(c *Ctx, path string) int
	// Race, when set, is the free-running body of the supplementary race-detector
	// pass (see race.go): it is executed inside a second build of this binary made
	// with -race, with no scheduler installed.
	Race func(c *Ctx, rep *RaceReport)
}

var registry = map[string]*Prop{}

func Register(p *Prop) { registry[p.ID] = p }

// ---- known findings ----

type KnownFinding struct {
	Property string   `json:"property"`
	Class    string   `json:"class"`
	What     string   `json:"what"`
	Cases    []string `json:"cases"`
}

type KnownFile struct {
	Comment  string         `json:"comment"`
	Findings []KnownFinding `json:"findings"`
	Fixed    []string       `json:"fixed"` // "fixed: property=<id> <commit> <what failed>" — suppresses nothing
}

func loadKnown() KnownFile {
	var kf KnownFile
	b, err := os.ReadFile(filepath.Join(VerifDir, "known_findings.json"))
	if err != nil {
		return kf
	}
	if err := json.Unmarshal(b, &kf); err != nil {
		fmt.Fprintf(os.Stderr, "known_findings.json unreadable: %v\n", err)
		os.Exit(2)
	}
	return kf
}

// ---- main ----

// children are alternative entry points of the same binary, selected by the
// environment variable VCHECK_CHILD (used by checkers that need crash-isolated
// sub-processes with their own protocol).
var children = map[string]func(){}

func RegisterChild(name string, fn func()) { children[name] = fn }

// SpawnChild prepares a command that re-executes this binary as the named child.
func SpawnChild(name string, args ...string) *exec.Cmd {
	self, _ := os.Executable()
	cmd := exec.Command(self, args...)
	cmd.Env = append(os.Environ(), "VCHECK_CHILD="+name)
	return cmd
}

func Main() {
	if name := os.Getenv("VCHECK_CHILD"); name != "" {
		fn := children[name]
		if fn == nil {
			fmt.Fprintln(os.Stderr, "unknown child", name)
			os.Exit(2)
		}
		fn()
		return
	}
	var (
		prop   = flag.String("prop", "", "property id")
		tier   = flag.String("tier", envOr("VERIF_TIER", "quick"), "quick|thorough")
		j      = flag.Int("j", runtime.NumCPU(), "parallelism")
		worker = flag.Bool("worker", false, "run as a shard worker")
		shard  = flag.String("shard", "0/1", "i/n")
		out    = flag.String("out", "", "worker result file")
		replay = flag.String("replay", "", "replay file")
		emit   = flag.Bool("emit-known", false, "print failing classes/cases as known_findings JSON instead of a verdict (maintenance only)")
		budget = flag.Duration("budget", 0, "soft wall-clock budget")
		repo   = flag.String("repo", envOr("VERIF_REPO", "/repo"), "repository root the binary was built from")
		raceCh = flag.Bool("racechild", false, "run the free-running race-detector body (binary built with -race)")
	)
	flag.Parse()
	p := registry[*prop]
	if p == nil {
		var ids []string
		for k := range registry {
			ids = append(ids, k)
		}
		sort.Strings(ids)
		fmt.Fprintf(os.Stderr, "unknown property %q; have %v\n", *prop, ids)
		os.Exit(2)
	}
	seed, _ := strconv.ParseInt(os.Getenv("VERIF_SEED"), 10, 64)
	c := &Ctx{Prop: p.ID, Tier: *tier, Seed: seed, J: *j, NShards: 1, Worker: *worker, Start: time.Now(), Args: flag.Args(), Repo: *repo}
	if c.Tier != "thorough" {
		c.Tier = "quick"
	}
	if *budget > 0 {
		c.Deadline = c.Start.Add(*budget)
	}
	fmt.Sscanf(*shard, "%d/%d", &c.Shard, &c.NShards)

	if *raceCh {
		raceChild(c, p)
		return
	}
	emitKnown = *emit
	loadKnownFor(p.ID)
	if *replay != "" {
		if p.Replay == nil {
			fmt.Fprintln(os.Stderr, "no replay for", p.ID)
			os.Exit(2)
		}
		os.Exit(p.Replay(c, *replay))
	}

	if c.Worker {
		r := p.Run(c)
		r.seal()
		b, _ := json.Marshal(r)
		if err := os.WriteFile(*out, b, 0o644); err != nil {
			fmt.Fprintln(os.Stderr, err)
			os.Exit(2)
		}
		return
	}

	var res *Result
	if p.Sharded && c.J > 1 {
		res = runSharded(c, p, *budget)
	} else {
		res = p.Run(c)
	}
	if p.Race != nil && len(res.Violations) == 0 {
		// (with a violation in hand the verdict is settled; a change that makes the
		// bodies deadlock would only keep the free-running pass waiting)
		racePass(c, p, res)
	}
	os.Exit(finish(c, p, res, *emit))
}

func runSharded(c *Ctx, p *Prop, budget time.Duration) *Result {
	n := c.J
	self, _ := os.Executable()
	tmp, err := os.MkdirTemp(filepath.Join(VerifDir, ".work"), "shards-"+p.ID+"-")
	if err != nil {
		fmt.Fprintln(os.Stderr, err)
		os.Exit(2)
	}
	defer os.RemoveAll(tmp)
	res := NewResult()
	var wg sync.WaitGroup
	var mu sync.Mutex
	failed := false
	for i := 0; i < n; i++ {
		wg.Add(1)
		go func(i int) {
			defer wg.Done()
			out := filepath.Join(tmp, fmt.Sprintf("r%d.json", i))
			args := []string{"-prop", p.ID, "-tier", c.Tier, "-worker", "-shard", fmt.Sprintf("%d/%d", i, n), "-out", out, "-j", "1", "-repo", c.Repo}
			if budget > 0 {
				args = append(args, "-budget", budget.String())
			}
			if emitKnown {
				args = append(args, "-emit-known")
			}
			args = append(args, c.Args...)
			cmd := exec.Command(self, args...)
			cmd.Env = append(os.Environ(), "GOMAXPROCS=2")
			var stderr bytes.Buffer
			cmd.Stderr = &stderr
			cmd.Stdout = &stderr
			err := cmd.Run()
			mu.Lock()
			defer mu.Unlock()
			if err != nil {
				failed = true
				fmt.Fprintf(os.Stderr, "shard %d failed: %v\n%s\n", i, err, tail(stderr.String(), 4000))
				return
			}
			b, err := os.ReadFile(out)
			if err != nil {
				failed = true
				fmt.Fprintf(os.Stderr, "shard %d: %v\n", i, err)
				return
			}
			var r Result
			if err := json.Unmarshal(b, &r); err != nil {
				failed = true
				fmt.Fprintf(os.Stderr, "shard %d: %v\n", i, err)
				return
			}
			res.Merge(&r)
		}(i)
	}
	wg.Wait()
	if failed {
		fmt.Fprintln(os.Stderr, "machinery error: a shard did not complete")
		os.Exit(2)
	}
	return res
}

func tail(s string, n int) string {
	if len(s) > n {
		return "..." + s[len(s)-n:]
	}
	return s
}

// Emergency ends the run at once with what r holds (evidence, VIOLATION lines,
// replay files) and exits.  For a check that has seen the code under test run
// away (a call that allocates without end) and cannot wait for its workers.
func Emergency(c *Ctx, r *Result) {
	os.Exit(finish(c, registry[c.Prop], r, false))
}

func finish(c *Ctx, p *Prop, r *Result, emit bool) int {
	// classify violations against the known-findings file
	kf := loadKnown()
	known := map[string]map[string]bool{}
	what := map[string]string{}
	for _, f := range kf.Findings {
		if f.Property != p.ID {
			continue
		}
		m := known[f.Class]
		if m == nil {
			m = map[string]bool{}
			known[f.Class] = m
		}
		for _, cs := range f.Cases {
			m[cs] = true
		}
		what[f.Class] = f.What
	}
	sort.SliceStable(r.Violations, func(i, j int) bool {
		if r.Violations[i].Class != r.Violations[j].Class {
			return r.Violations[i].Class < r.Violations[j].Class
		}
		if len(r.Violations[i].Case) != len(r.Violations[j].Case) {
			return len(r.Violations[i].Case) < len(r.Violations[j].Case)
		}
		return r.Violations[i].Case < r.Violations[j].Case
	})
	if emit {
		byClass := map[string][]string{}
		detail := map[string]string{}
		for _, v := range r.Violations {
			byClass[v.Class] = append(byClass[v.Class], v.Case)
			if detail[v.Class] == "" {
				detail[v.Class] = v.Detail
			}
		}
		var out []KnownFinding
		for cl, cs := range byClass {
			sort.Strings(cs)
			cs = uniq(cs)
			out = append(out, KnownFinding{Property: p.ID, Class: cl, What: detail[cl], Cases: cs})
		}
		sort.Slice(out, func(i, j int) bool { return out[i].Class < out[j].Class })
		b, _ := json.MarshalIndent(out, "", " ")
		fmt.Println(string(b))
		return 0
	}
	var fresh []Violation
	knownSeen := map[string]int{}
	for k, n := range r.Counts {
		if strings.HasPrefix(k, "known:") {
			knownSeen[strings.TrimPrefix(k, "known:")] += int(n)
		}
	}
	for _, v := range r.Violations {
		if known[v.Class][v.Case] {
			knownSeen[v.Class]++
			continue
		}
		fresh = append(fresh, v)
	}
	truncated := r.Counts["violations_raw"] > int64(len(r.Violations))

	cov := p.Coverage(c, r)
	if _, ok := cov["exhaustive"]; !ok {
		cov["exhaustive"] = len(r.CapsHit) == 0
	}
	if len(r.CapsHit) > 0 {
		cov["caps_hit"] = r.CapsHit
		cov["exhaustive"] = false
	}
	if len(r.Samples) > 0 {
		if _, ok := cov["samples"]; !ok {
			cov["samples"] = r.Samples
		}
	}
	if len(r.Notes) > 0 {
		cov["notes"] = r.Notes
	}
	counts := map[string]int64{}
	for k, v := range r.Counts {
		counts[k] = v
	}
	cov["counters"] = counts
	if len(knownSeen) > 0 {
		cov["known_findings_seen"] = knownSeen
	}
	ev := map[string]interface{}{
		"property_id": p.ID,
		"tier":        c.Tier,
		"seed":        c.Seed,
		"level":       p.Level,
		"coverage":    cov,
		"assumptions": p.Assumptions,
		"wall_s":      time.Since(c.Start).Seconds(),
		"violations":  len(fresh),
	}
	b, _ := json.MarshalIndent(ev, "", " ")
	os.MkdirAll(filepath.Join(OutDir, "evidence"), 0o755)
	evPath := filepath.Join(OutDir, "evidence", p.ID+".json")
	if err := os.WriteFile(evPath, b, 0o644); err != nil {
		fmt.Fprintln(os.Stderr, err)
		return 2
	}

	var classes []string
	for cl := range knownSeen {
		classes = append(classes, cl)
	}
	sort.Strings(classes)
	for _, cl := range classes {
		fmt.Printf("KNOWN-FINDING: property=%s class=%s cases_seen=%d %s\n", p.ID, cl, knownSeen[cl], what[cl])
	}
	fmt.Printf("%s %s: %s wall=%.1fs exhaustive=%v\n", p.ID, c.Tier, summary(cov), time.Since(c.Start).Seconds(), cov["exhaustive"])
	if len(fresh) == 0 {
		if truncated {
			fmt.Fprintln(os.Stderr, "note: violation list truncated; all kept ones are known")
		}
		return 0
	}
	// write replay files: one per class (first case), at most 20
	os.MkdirAll(filepath.Join(OutDir, "replays"), 0o755)
	seenClass := map[string]int{}
	printed := 0
	for _, v := range fresh {
		seenClass[v.Class]++
		if seenClass[v.Class] > 1 || printed >= 20 {
			continue
		}
		printed++
		name := fmt.Sprintf("%s-%s-%d.json", p.ID, sanitize(v.Class), printed)
		path := filepath.Join(OutDir, "replays", name)
		rb, _ := json.MarshalIndent(map[string]interface{}{"property": p.ID, "class": v.Class, "case": v.Case, "detail": v.Detail, "replay": v.Replay, "tier": c.Tier}, "", " ")
		os.WriteFile(path, rb, 0o644)
		fmt.Printf("VIOLATION property=%s replay=%s\n", p.ID, path)
		fmt.Printf("  class=%s case=%s\n  %s\n", v.Class, trunc(v.Case, 300), trunc(v.Detail, 600))
	}
	fmt.Printf("%s: %d new failing cases in %d classes\n", p.ID, len(fresh), len(seenClass))
	return 1
}

func summary(cov map[string]interface{}) string {
	var parts []string
	for _, k := range []string{"evaluations", "distinct_nontrivial", "states", "transitions", "traces_validated_against_impl", "schedules"} {
		if v, ok := cov[k]; ok {
			parts = append(parts, fmt.Sprintf("%s=%v", k, v))
		}
	}
	return strings.Join(parts, " ")
}

func uniq(s []string) []string {
	var out []string
	for i, x := range s {
		if i == 0 || x != s[i-1] {
			out = append(out, x)
		}
	}
	return out
}

func sanitize(s string) string {
	var b strings.Builder
	for _, r := range s {
		if r >= 'a' && r <= 'z' || r >= 'A' && r <= 'Z' || r >= '0' && r <= '9' || r == '-' || r == '_' {
			b.WriteRune(r)
		} else {
			b.WriteByte('_')
		}
		if b.Len() > 60 {
			break
		}
	}
	return b.String()
}

func trunc(s string, n int) string {
	if len(s) > n {
		return s[:n] + "..."
	}
	return s
}

// ReadReplay loads a replay file written by finish.
func ReadReplay(path string, into interface{}) (class, cs string, err error) {
	b, err := os.ReadFile(path)
	if err != nil {
		return "", "", err
	}
	var f struct {
		Class  string          `json:"class"`
		Case   string          `json:"case"`
		Replay json.RawMessage `json:"replay"`
	}
	if err := json.Unmarshal(b, &f); err != nil {
		return "", "", err
	}
	if into != nil && len(f.Replay) > 0 {
		if err := json.Unmarshal(f.Replay, into); err != nil {
			return f.Class, f.Case, err
		}
	}
	return f.Class, f.Case, nil
}

// ParallelFor runs fn(i) for i in [0,n) on c.J goroutines.
func ParallelFor(c *Ctx, n int, fn func(i int)) {
	j := c.J
	if j < 1 {
		j = 1
	}
	var wg sync.WaitGroup
	next := int64(0)
	var mu sync.Mutex
	for w := 0; w < j; w++ {
		wg.Add(1)
		go func() {
			defer wg.Done()
			for {
				mu.Lock()
				i := int(next)
				next++
				mu.Unlock()
				if i >= n {
					return
				}
				fn(i)
			}
		}()
	}
	wg.Wait()
}
