package common

// Supplementary race-detector pass.
//
// The cooperative scheduler's hand-offs are happens-before edges, so a build with
// -race under the scheduler can never report anything.  The bodies of the
// scheduler-driven harnesses are therefore run a second time FREE-RUNNING (real
// goroutines, no scheduler installed: the instrumentation is inert and adds no
// synchronisation) inside a second build of this binary made with -race.  Every
// report of the detector whose stacks contain a frame of mattn/anko is a
// violation (class race/<function>~<function>).  This pass is not the deciding
// step of any property - it samples the runtime's schedules - but the detector is
// vector-clock based: two conflicting accesses that no lock/channel/atomic edge
// orders are reported whenever both are executed, whatever the timing, so for the
// bodies executed it is close to deterministic.

import (
	"bytes"
	"fmt"
	"os"
	"os/exec"
	"sort"
	"strings"
	"sync"
	"time"
)

// RaceReport is filled in by a Race body: what it executed.
type RaceReport struct {
	mu     sync.Mutex
	Bodies int64 // distinct concurrent bodies (scenarios / programs)
	Runs   int64 // executions of those bodies
}

func (r *RaceReport) Add(bodies, runs int64) {
	r.mu.Lock()
	r.Bodies += bodies
	r.Runs += runs
	r.mu.Unlock()
}

func raceChild(c *Ctx, p *Prop) {
	if p.Race == nil {
		fmt.Fprintln(os.Stderr, "no race body for", p.ID)
		os.Exit(2)
	}
	rep := &RaceReport{}
	p.Race(c, rep)
	fmt.Printf("RACEPASS bodies=%d runs=%d\n", rep.Bodies, rep.Runs)
}

// racePass runs the -race build of this binary (VERIF_RACEBIN, built by check.sh)
// and turns the detector's reports into violations.
func racePass(c *Ctx, p *Prop, res *Result) {
	bin := os.Getenv("VERIF_RACEBIN")
	if bin == "" {
		res.Note("race-detector pass skipped: no -race build of the checker was provided (VERIF_RACEBIN)")
		return
	}
	cmd := exec.Command(bin, "-prop", p.ID, "-tier", c.Tier, "-racechild", "-repo", c.Repo)
	cmd.Env = append(os.Environ(), "GORACE=halt_on_error=0 history_size=4 atexit_sleep_ms=0 exitcode=0")
	var out, errb bytes.Buffer
	cmd.Stdout = &out
	cmd.Stderr = &errb
	start := time.Now()
	if err := cmd.Start(); err != nil {
		res.Cap("race-detector pass could not start: " + err.Error())
		return
	}
	done := make(chan error, 1)
	go func() { done <- cmd.Wait() }()
	var werr error
	select {
	case werr = <-done:
	case <-time.After(6 * time.Minute):
		cmd.Process.Kill()
		<-done
		res.Cap("race-detector pass stopped by its 6 min watchdog (the free-running bodies did not finish: possibly a deadlock on real goroutines; decided by the scheduler-driven phases, not here)")
		return
	}
	res.Add("race_pass_wall_ms", time.Since(start).Milliseconds())
	var bodies, runs int64
	for _, l := range strings.Split(out.String(), "\n") {
		if strings.HasPrefix(l, "RACEPASS ") {
			fmt.Sscanf(l, "RACEPASS bodies=%d runs=%d", &bodies, &runs)
		}
	}
	res.Add("race_pass_bodies", bodies)
	res.Add("race_pass_runs", runs)
	text := errb.String()
	n := 0
	for _, blk := range strings.Split(text, "==================") {
		if !strings.Contains(blk, "WARNING: DATA RACE") {
			continue
		}
		n++
		cl, detail := classifyRace(blk)
		if cl == "" {
			res.Cap("race-detector report without a frame of mattn/anko (harness-internal): " + trunc(strings.TrimSpace(blk), 400))
			continue
		}
		res.Violate(Violation{Class: "race/" + cl, Case: cl, Detail: detail,
			Replay: map[string]interface{}{"how": "free-running bodies of this check in a -race build: /verif/check.sh " + p.ID + " " + c.Tier, "report": trunc(strings.TrimSpace(blk), 3000)}})
	}
	res.Add("race_pass_reports", int64(n))
	if strings.Contains(text, "fatal error: concurrent map") {
		i := strings.Index(text, "fatal error: concurrent map")
		blk := text[i:]
		fn := firstAnkoFrame(strings.Split(blk, "\n"))
		res.Violate(Violation{Class: "race/fatal-concurrent-map/" + fn, Case: fn, Detail: trunc(blk, 1500),
			Replay: map[string]interface{}{"how": "free-running bodies of this check in a -race build"}})
		return
	}
	if werr != nil || bodies == 0 {
		res.Cap(fmt.Sprintf("race-detector pass did not complete (%v): %s", werr, tail(text, 600)))
	}
}

func shortFn(f string) string {
	f = strings.TrimPrefix(f, "github.com/mattn/anko/")
	return f
}

func firstAnkoFrame(lines []string) string {
	for _, l := range lines {
		l = strings.TrimSpace(l)
		if strings.HasPrefix(l, "github.com/mattn/anko/") && !strings.HasPrefix(l, "github.com/mattn/anko/vhook") {
			if i := strings.LastIndex(l, "("); i > 0 {
				l = l[:i]
			}
			return shortFn(l)
		}
	}
	return ""
}

// classifyRace names a report by the innermost mattn/anko function of each of the
// two conflicting accesses (sorted, so that the class does not depend on which
// access came second) and keeps the two access stacks as detail.
func classifyRace(blk string) (string, string) {
	lines := strings.Split(blk, "\n")
	var stacks [][]string
	var cur []string
	in := false
	for _, l := range lines {
		t := strings.TrimSpace(l)
		switch {
		case strings.HasPrefix(t, "Read at ") || strings.HasPrefix(t, "Write at ") || strings.HasPrefix(t, "Previous read at ") || strings.HasPrefix(t, "Previous write at ") ||
			strings.HasPrefix(t, "Atomic read at ") || strings.HasPrefix(t, "Atomic write at ") || strings.HasPrefix(t, "Previous atomic "):
			if in {
				stacks = append(stacks, cur)
			}
			cur = []string{t}
			in = true
		case strings.HasPrefix(t, "Goroutine "):
			if in {
				stacks = append(stacks, cur)
			}
			in = false
		case in:
			cur = append(cur, t)
		}
	}
	if in {
		stacks = append(stacks, cur)
	}
	var fns []string
	var detail []string
	for _, st := range stacks {
		fn := firstAnkoFrame(st[1:])
		if fn != "" {
			fns = append(fns, fn)
		}
		k := len(st)
		if k > 9 {
			k = 9
		}
		detail = append(detail, strings.Join(st[:k], " | "))
	}
	if len(fns) == 0 {
		return "", ""
	}
	sort.Strings(fns)
	fns = uniq(fns)
	return strings.Join(fns, "~"), strings.Join(detail, "  ///  ")
}
