package vhook

import "runtime/debug"

func stack() []byte { return debug.Stack() }
