// Package vhook is injected into the build of mattn/anko as the virtual package
// github.com/mattn/anko/vhook (go build -overlay).  The rewritten env package
// imports it under the name "sync"; the rewritten vm package calls Select,
// Close and Go.  With no scheduler installed every shim delegates to the real
// primitive.
package vhook

import (
	"reflect"
	"sync"
	"sync/atomic"
)

// Scheduler is installed by a harness; nil means "delegate to real primitives".
type Scheduler interface {
	Select(cases []reflect.SelectCase) (int, reflect.Value, bool)
	Close(ch reflect.Value)
	Go(fn func())
	Lock(m *RWMutex, write bool)
	Unlock(m *RWMutex, write bool)
	Access(m *RWMutex, write bool, site string)
	AccessField(m *RWMutex, field string, write bool, site string)
	Yield(tag string)
}

var S Scheduler

// OnGoPanic, when set, receives a panic value that reached the top frame of a
// goroutine started by a script `go` statement (it would have killed the host).
var OnGoPanic func(v interface{}, stack []byte)

// Live counts goroutines started through Go that have not finished.
var Live int64

func wrap(fn func()) func() {
	return func() {
		defer atomic.AddInt64(&Live, -1)
		if OnGoPanic != nil {
			defer func() {
				if r := recover(); r != nil {
					OnGoPanic(r, stack())
				}
			}()
		}
		fn()
	}
}

func Select(cases []reflect.SelectCase) (int, reflect.Value, bool) {
	if S == nil {
		return reflect.Select(cases)
	}
	return S.Select(cases)
}

func Close(ch reflect.Value) {
	if S == nil {
		ch.Close()
		return
	}
	S.Close(ch)
}

func Go(fn func()) {
	atomic.AddInt64(&Live, 1)
	if S == nil {
		go wrap(fn)()
		return
	}
	S.Go(wrap(fn))
}

// Yield is a pure schedule point (inserted at the top of Lexer.Lex).
func Yield(tag string) {
	if S != nil {
		S.Yield(tag)
	}
}

// RWMutex delegates to a real sync.RWMutex when no scheduler is installed.  sw/sr
// count holds that were granted by a scheduler, so that an unlock running late
// (deferred, while a run is being torn down) never reaches the real mutex.
type RWMutex struct {
	mu     sync.RWMutex
	sw, sr int32
}

// Held reports how often the mutex is held through the scheduler right now
// (a struct copy of a held mutex carries these counts along).
func (m *RWMutex) Held() (writers, readers int32) {
	return atomic.LoadInt32(&m.sw), atomic.LoadInt32(&m.sr)
}

func (m *RWMutex) Lock() {
	if s := S; s != nil {
		s.Lock(m, true)
		atomic.AddInt32(&m.sw, 1)
		return
	}
	m.mu.Lock()
}
func (m *RWMutex) Unlock() {
	if atomic.LoadInt32(&m.sw) > 0 {
		atomic.AddInt32(&m.sw, -1)
		if s := S; s != nil {
			s.Unlock(m, true)
		}
		return
	}
	m.mu.Unlock()
}
func (m *RWMutex) RLock() {
	if s := S; s != nil {
		s.Lock(m, false)
		atomic.AddInt32(&m.sr, 1)
		return
	}
	m.mu.RLock()
}
func (m *RWMutex) RUnlock() {
	if atomic.LoadInt32(&m.sr) > 0 {
		atomic.AddInt32(&m.sr, -1)
		if s := S; s != nil {
			s.Unlock(m, false)
		}
		return
	}
	m.mu.RUnlock()
}

// Mutex is modelled as an RWMutex that is only ever write-locked.
type Mutex struct{ rw RWMutex }

func (m *Mutex) Lock()   { m.rw.Lock() }
func (m *Mutex) Unlock() { m.rw.Unlock() }

// the rest of package sync, should an edit start using it in env
type (
	Once      = sync.Once
	WaitGroup = sync.WaitGroup
	Map       = sync.Map
	Pool      = sync.Pool
	Cond      = sync.Cond
	Locker    = sync.Locker
)

func NewCond(l Locker) *Cond { return sync.NewCond(l) }

func Access(m *RWMutex, write bool, site string) {
	if S != nil {
		S.Access(m, write, site)
	}
}

// Send / Recv cover direct reflect channel operations should an edit introduce them.
func Send(ch reflect.Value, v reflect.Value) {
	if S == nil {
		ch.Send(v)
		return
	}
	S.Select([]reflect.SelectCase{{Dir: reflect.SelectSend, Chan: ch, Send: v}})
}

func Recv(ch reflect.Value) (reflect.Value, bool) {
	if S == nil {
		return ch.Recv()
	}
	_, v, ok := S.Select([]reflect.SelectCase{{Dir: reflect.SelectRecv, Chan: ch}})
	return v, ok
}

// TrySend / TryRecv: non-blocking operations are a select with a default case.
func TrySend(ch reflect.Value, v reflect.Value) bool {
	if S == nil {
		return ch.TrySend(v)
	}
	chosen, _, _ := S.Select([]reflect.SelectCase{{Dir: reflect.SelectSend, Chan: ch, Send: v}, {Dir: reflect.SelectDefault}})
	return chosen == 0
}

func TryRecv(ch reflect.Value) (reflect.Value, bool) {
	if S == nil {
		return ch.TryRecv()
	}
	chosen, v, ok := S.Select([]reflect.SelectCase{{Dir: reflect.SelectRecv, Chan: ch}, {Dir: reflect.SelectDefault}})
	if chosen != 0 {
		return reflect.Value{}, false
	}
	return v, ok
}

// AccessField reports an access to a field of a scope other than its two guarded
// maps (fields an edit may add, the parent link, the external lookup).
func AccessField(m *RWMutex, field string, write bool, site string) {
	if S != nil {
		S.AccessField(m, field, write, site)
	}
}
