// Package vmrun executes one anko program under the cooperative scheduler:
// the script's own goroutines (rewritten `go` statements), its channel
// operations (rewritten reflect.Select / Close) and, optionally, every context
// poll are the schedule points; the Chooser decides every interleaving.
package vmrun

import (
	"fmt"
	"sync"

	"github.com/mattn/anko/ast"
	"github.com/mattn/anko/env"
	"github.com/mattn/anko/vhook"
	"github.com/mattn/anko/vm"
	"verif/engine/lib/stepctx"
	"verif/engine/sched"
)

type Config struct {
	Fuel       int64 // polls before the context cancels itself (<0: never)
	PollPoints bool  // every context poll is a schedule point
	Record     bool
	MaxSteps   int
	Debug      bool
	OnPoll     func(i int64)                 // called at every context poll (before the schedule point)
	AfterPoll  func(i int64, cancelled bool) // called when the poll is about to return its channel to the interpreter
	// Setup may add events / threads before the run.
	Setup func(s *sched.Sched, ctx *stepctx.Ctx)
}

type Outcome struct {
	Verdict  string
	Val      interface{}
	Err      error
	Returned bool     // the main RunContext call returned
	Panic    string   // a panic that escaped RunContext on the main thread
	GoPanics []string // panics that reached the top frame of a script goroutine
	Blocked  []string
	Polls    int64
	Steps    int
	Preempt  int
	Trace    []sched.Step
	Lockset  []string
	Sched    *sched.Sched `json:"-"`
}

var goPanicMu sync.Mutex

// Run executes stmt on e under a fresh scheduler driven by ch.
func Run(stmt ast.Stmt, e *env.Env, ch sched.Chooser, cfg Config) Outcome {
	var out Outcome
	s := sched.New(ch)
	s.Record = cfg.Record
	if cfg.MaxSteps > 0 {
		s.MaxSteps = cfg.MaxSteps
	}
	ctx := stepctx.New(cfg.Fuel)
	ctx.OnCancel = func() { s.MarkClosed(ctx.Chan()) }
	ctx.OnPoll = func(i int64) {
		if cfg.OnPoll != nil {
			cfg.OnPoll(i)
		}
		if cfg.PollPoints {
			vhook.Yield("poll")
		}
		if cfg.AfterPoll != nil {
			cfg.AfterPoll(i, ctx.Cancelled())
		}
	}
	goPanicMu.Lock()
	vhook.OnGoPanic = func(v interface{}, stack []byte) {
		out.GoPanics = append(out.GoPanics, fmt.Sprint(v))
	}
	goPanicMu.Unlock()
	if cfg.Setup != nil {
		cfg.Setup(s, ctx)
	}
	out.Sched = s
	out.Verdict = s.Run(func() {
		defer func() {
			if r := recover(); r != nil {
				out.Panic = fmt.Sprint(r)
			}
		}()
		out.Val, out.Err = vm.RunContext(ctx, e, &vm.Options{Debug: cfg.Debug}, stmt)
		out.Returned = true
	})
	out.Blocked = s.Blocked
	out.Polls = ctx.Polls()
	out.Steps = s.Steps
	out.Preempt = s.Preemptions
	out.Trace = s.Trace
	out.Lockset = s.Violations
	return out
}
