// Package stepctx is the counting context: a context.Context whose Done()
// method counts the interpreter's polls.  It gives (a) a deterministic fuel
// for every program-executing checker (no wall-clock), (b) the cancellation
// axis of C02 ("cancel exactly at poll k"), (c) a statement-granularity
// observation point (OnPoll).
package stepctx

import (
	"context"
	"sync"
	"sync/atomic"
	"time"
)

type Ctx struct {
	polls    int64
	cancelAt int64 // the poll with this 0-based index (and all later ones) sees a closed channel; <0 = never
	done     chan struct{}
	once     sync.Once
	closed   int32
	// OnPoll, when set, is called at every poll with the 0-based poll index,
	// before the channel is returned.
	OnPoll func(i int64)
	// OnCancel, when set, is called once when the context gets cancelled.
	OnCancel func()
}

// New returns a context that is cancelled at poll index cancelAt (<0: never).
func New(cancelAt int64) *Ctx { return &Ctx{cancelAt: cancelAt, done: make(chan struct{})} }

// Fuel returns a context that lets n polls through and cancels at the next.
func Fuel(n int64) *Ctx { return New(n) }

func (c *Ctx) Done() <-chan struct{} {
	i := atomic.AddInt64(&c.polls, 1) - 1
	if c.OnPoll != nil {
		c.OnPoll(i)
	}
	if c.cancelAt >= 0 && i >= c.cancelAt {
		c.Cancel()
	}
	return c.done
}

// Cancel closes the Done channel now.
func (c *Ctx) Cancel() {
	c.once.Do(func() {
		atomic.StoreInt32(&c.closed, 1)
		close(c.done)
		if c.OnCancel != nil {
			c.OnCancel()
		}
	})
}

// Chan returns the Done channel without counting a poll.
func (c *Ctx) Chan() <-chan struct{} { return c.done }

func (c *Ctx) Cancelled() bool { return atomic.LoadInt32(&c.closed) == 1 }

// Polls returns the number of Done() calls so far.
func (c *Ctx) Polls() int64 { return atomic.LoadInt64(&c.polls) }

func (c *Ctx) Deadline() (time.Time, bool) { return time.Time{}, false }
func (c *Ctx) Err() error {
	if c.Cancelled() {
		return context.Canceled
	}
	return nil
}
func (c *Ctx) Value(key interface{}) interface{} { return nil }

var _ context.Context = (*Ctx)(nil)
