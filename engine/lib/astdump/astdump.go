// Package astdump gives a reflection-based structural view of anko syntax
// trees (package github.com/mattn/anko/ast), shared by several checkers:
//
//	Dump(node)            canonical text of a tree INCLUDING positions
//	DumpNoPos(node)       the same without positions
//	DumpShifted(node, k)  positions printed with k added to every set line
//	Equal / EqualNoPos    structural equality (== on the dumps)
//	Edges(root)           every (parent node, slot, child node) edge reachable
//	                      by generic reflection, in pre-order
//	Kind(node)            short type name ("IfStmt")
//
// A "node" is a non-nil pointer whose type implements ast.Pos (that is the
// method set shared by ast.Stmt, ast.Expr and ast.Operator).  Nothing here
// knows the list of node kinds: a kind added to package ast is picked up
// without a change.
//
// The dump is deterministic (no map iteration, no addresses).  Shared sub-trees
// (the parser shares some nodes, e.g. the literal 1 of `x++`) are expanded at
// every occurrence; a cycle would be printed as <cycle>.
package astdump

import (
	"fmt"
	"reflect"
	"strconv"
	"strings"

	"github.com/mattn/anko/ast"
)

var (
	posType      = reflect.TypeOf((*ast.Pos)(nil)).Elem()
	reflectValue = reflect.TypeOf(reflect.Value{})
	posImplType  = reflect.TypeOf(ast.PosImpl{})
)

// Options selects what Dump prints.
type Options struct {
	Pos       bool // print positions
	LineShift int  // added to the line of every position that is set (line != 0 || column != 0)
}

// Dump returns the canonical text of the tree including positions.
func Dump(n interface{}) string { return DumpWith(n, Options{Pos: true}) }

// DumpNoPos returns the canonical text of the tree without positions.
func DumpNoPos(n interface{}) string { return DumpWith(n, Options{}) }

// DumpShifted is Dump with k added to every set line number.
func DumpShifted(n interface{}, k int) string { return DumpWith(n, Options{Pos: true, LineShift: k}) }

// Equal reports structural equality including positions.
func Equal(a, b interface{}) bool { return Dump(a) == Dump(b) }

// EqualNoPos reports structural equality ignoring positions.
func EqualNoPos(a, b interface{}) bool { return DumpNoPos(a) == DumpNoPos(b) }

// DumpWith is the general form.
func DumpWith(n interface{}, o Options) string {
	d := dumper{o: o, onPath: map[uintptr]bool{}}
	if n == nil {
		return "nil"
	}
	d.value(reflect.ValueOf(n))
	return d.b.String()
}

// IsNode reports whether x is a non-nil pointer implementing ast.Pos.
func IsNode(x interface{}) bool {
	if x == nil {
		return false
	}
	v := reflect.ValueOf(x)
	return v.Kind() == reflect.Ptr && !v.IsNil() && v.Type().Implements(posType)
}

// Kind returns the short type name of a node ("IfStmt"), "nil" for nil.
func Kind(x interface{}) string {
	if x == nil {
		return "nil"
	}
	t := reflect.TypeOf(x)
	for t.Kind() == reflect.Ptr {
		t = t.Elem()
	}
	return t.Name()
}

type dumper struct {
	b      strings.Builder
	o      Options
	onPath map[uintptr]bool
}

func (d *dumper) pos(p ast.Position) {
	if !d.o.Pos {
		return
	}
	if p.Line == 0 && p.Column == 0 {
		d.b.WriteString("@-")
		return
	}
	d.b.WriteByte('@')
	d.b.WriteString(strconv.Itoa(p.Line + d.o.LineShift))
	d.b.WriteByte(':')
	d.b.WriteString(strconv.Itoa(p.Column))
}

func (d *dumper) value(v reflect.Value) {
	switch v.Kind() {
	case reflect.Invalid:
		d.b.WriteString("nil")
	case reflect.Interface:
		if v.IsNil() {
			d.b.WriteString("nil")
			return
		}
		d.value(v.Elem())
	case reflect.Ptr:
		if v.IsNil() {
			d.b.WriteString("nil")
			return
		}
		p := v.Pointer()
		if d.onPath[p] {
			d.b.WriteString("<cycle>")
			return
		}
		d.onPath[p] = true
		d.b.WriteString("(*")
		d.b.WriteString(v.Type().Elem().Name())
		if v.Type().Implements(posType) && v.CanInterface() {
			d.pos(v.Interface().(ast.Pos).Position())
		}
		if v.Elem().Kind() == reflect.Struct {
			d.fields(v.Elem())
		} else {
			d.b.WriteByte(' ')
			d.value(v.Elem())
		}
		d.b.WriteByte(')')
		delete(d.onPath, p)
	case reflect.Struct:
		if v.Type() == reflectValue {
			d.reflectValue(v)
			return
		}
		d.b.WriteByte('{')
		d.b.WriteString(v.Type().Name())
		d.fields(v)
		d.b.WriteByte('}')
	case reflect.Slice:
		if v.IsNil() {
			d.b.WriteString("nil")
			return
		}
		fallthrough
	case reflect.Array:
		d.b.WriteByte('[')
		for i := 0; i < v.Len(); i++ {
			if i > 0 {
				d.b.WriteByte(' ')
			}
			d.value(v.Index(i))
		}
		d.b.WriteByte(']')
	case reflect.String:
		d.b.WriteString(strconv.Quote(v.String()))
	case reflect.Bool:
		d.b.WriteString(strconv.FormatBool(v.Bool()))
	case reflect.Int, reflect.Int8, reflect.Int16, reflect.Int32, reflect.Int64:
		d.b.WriteString(strconv.FormatInt(v.Int(), 10))
	case reflect.Uint, reflect.Uint8, reflect.Uint16, reflect.Uint32, reflect.Uint64, reflect.Uintptr:
		d.b.WriteString(strconv.FormatUint(v.Uint(), 10))
	case reflect.Float32, reflect.Float64:
		d.b.WriteString(strconv.FormatFloat(v.Float(), 'g', -1, 64))
	default:
		fmt.Fprintf(&d.b, "<%s>", v.Kind())
	}
}

// fields prints the fields of a struct; the embedded position carriers
// (ExprImpl / StmtImpl / OperatorImpl / PosImpl) are not printed as fields, the
// position was already printed from the Position() method.
func (d *dumper) fields(v reflect.Value) {
	t := v.Type()
	for i := 0; i < t.NumField(); i++ {
		f := t.Field(i)
		if f.Anonymous && carriesOnlyPos(f.Type) {
			continue
		}
		d.b.WriteByte(' ')
		d.b.WriteString(f.Name)
		d.b.WriteByte('=')
		d.value(v.Field(i))
	}
}

func carriesOnlyPos(t reflect.Type) bool {
	if t == posImplType {
		return true
	}
	if t.Kind() != reflect.Struct || t.NumField() != 1 {
		return false
	}
	f := t.Field(0)
	return f.Anonymous && carriesOnlyPos(f.Type)
}

// reflectValue prints a reflect.Value stored in the tree (LiteralExpr.Literal,
// CallExpr.Func): kind, type and, for the scalar kinds a literal can have, the value.
func (d *dumper) reflectValue(v reflect.Value) {
	if !v.CanInterface() {
		d.b.WriteString("<reflect.Value>")
		return
	}
	rv := v.Interface().(reflect.Value)
	if !rv.IsValid() {
		d.b.WriteString("<invalid>")
		return
	}
	d.b.WriteByte('<')
	d.b.WriteString(rv.Type().String())
	d.b.WriteByte(' ')
	switch rv.Kind() {
	case reflect.Interface, reflect.Ptr, reflect.Map, reflect.Slice, reflect.Func, reflect.Chan:
		if rv.IsNil() {
			d.b.WriteString("nil")
		} else {
			d.b.WriteString("non-nil")
		}
	case reflect.String:
		d.b.WriteString(strconv.Quote(rv.String()))
	case reflect.Bool:
		d.b.WriteString(strconv.FormatBool(rv.Bool()))
	case reflect.Int, reflect.Int8, reflect.Int16, reflect.Int32, reflect.Int64:
		d.b.WriteString(strconv.FormatInt(rv.Int(), 10))
	case reflect.Float32, reflect.Float64:
		// bit-exact: -0, NaN and the shortest round-trip form all differ
		d.b.WriteString(strconv.FormatFloat(rv.Float(), 'g', -1, 64))
		if rv.Float() == 0 {
			fmt.Fprintf(&d.b, "/%v", 1/rv.Float())
		}
	default:
		d.b.WriteString(rv.Kind().String())
	}
	d.b.WriteByte('>')
}

// Edge is one parent→child link found by reflection.  Parent is nil for the root.
type Edge struct {
	Parent interface{} // node (pointer) or nil
	Slot   string      // field path from the parent to the child without indices, e.g. "Exprs", "TypeData.SubType"
	Index  int         // index inside the innermost slice on the path, -1 if none
	Child  interface{} // node (pointer)
}

// Edges returns every edge reachable from root by generic reflection, in
// pre-order (a parent's edge before the edges below it; fields in declaration
// order; slice elements in index order).  A node reachable through several
// parents yields one edge per (parent, slot, index) but is descended into only
// once.  reflect.Value fields are not entered.
func Edges(root interface{}) []Edge {
	var out []Edge
	if root == nil {
		return nil
	}
	seen := map[uintptr]bool{}
	var walk func(v reflect.Value, parent interface{}, slot string, idx int)
	walk = func(v reflect.Value, parent interface{}, slot string, idx int) {
		switch v.Kind() {
		case reflect.Interface:
			if !v.IsNil() {
				walk(v.Elem(), parent, slot, idx)
			}
		case reflect.Ptr:
			if v.IsNil() {
				return
			}
			isNode := v.Type().Implements(posType) && v.CanInterface()
			if isNode {
				out = append(out, Edge{Parent: parent, Slot: slot, Index: idx, Child: v.Interface()})
			}
			p := v.Pointer()
			if seen[p] {
				return
			}
			seen[p] = true
			if isNode {
				walk(v.Elem(), v.Interface(), "", -1)
			} else {
				walk(v.Elem(), parent, slot, idx)
			}
		case reflect.Struct:
			if v.Type() == reflectValue {
				return
			}
			t := v.Type()
			for i := 0; i < t.NumField(); i++ {
				f := t.Field(i)
				if f.Anonymous && carriesOnlyPos(f.Type) {
					continue
				}
				s := f.Name
				if slot != "" {
					s = slot + "." + f.Name
				}
				walk(v.Field(i), parent, s, idx)
			}
		case reflect.Slice, reflect.Array:
			for i := 0; i < v.Len(); i++ {
				walk(v.Index(i), parent, slot, i)
			}
		}
	}
	walk(reflect.ValueOf(root), nil, "", -1)
	return out
}

// Nodes returns the distinct nodes reachable from root (pointer identity) in
// order of first discovery.
func Nodes(root interface{}) []interface{} {
	var out []interface{}
	seen := map[interface{}]bool{}
	for _, e := range Edges(root) {
		if !seen[e.Child] {
			seen[e.Child] = true
			out = append(out, e.Child)
		}
	}
	return out
}
