package irrun

import (
	"testing"

	. "verif/engine/lib/ir"
)

// Programs that exercise the parts of the IR the C08/C09 generators use little
// (scoping, closures, recursion, modules, ??): the reference interpreter and
// the implementation must agree on them (run with: go test ./lib/irrun).
func TestReferenceAgreesWithImplementation(t *testing.T) {
	v := func(n string) Expr { return Var{Name: n} }
	read := func(n string) Stmt { return V(NilCoalesce{L: v(n), R: S("U")}) }
	progs := map[string][]Stmt{
		"assign-updates-nearest": {Set("a", I(1)), If{Cond: Bool{V: true}, Then: []Stmt{Set("a", I(2)), Set("b", I(3)), read("a"), read("b")}}, read("a"), read("b")},
		"var-shadows":            {Set("a", I(1)), If{Cond: Bool{V: true}, Then: []Stmt{Let("a", I(2)), read("a")}}, read("a")},
		"block":                  {Set("a", I(1)), Block{Body: []Stmt{Let("a", I(2)), Set("c", I(5)), read("a")}}, read("a"), read("c")},
		"closure-by-reference": {Set("n", I(1)), Func("get", nil, []Stmt{Return{Vals: []Expr{v("n")}}}), Set("n", I(2)), V(CallNamed("get")),
			Func("inc", nil, []Stmt{Set("n", Bin{Op: "+", L: v("n"), R: I(1)}), Return{}}), ExprStmt{X: CallNamed("inc")}, V(CallNamed("get"))},
		"counter-closure": {Func("mk", nil, []Stmt{Let("c", I(0)), Return{Vals: []Expr{&FuncLit{Body: []Stmt{Set("c", Bin{Op: "+", L: v("c"), R: I(1)}), Return{Vals: []Expr{v("c")}}}}}}}),
			Set("k1", CallNamed("mk")), Set("k2", CallNamed("mk")), V(CallNamed("k1")), V(CallNamed("k1")), V(CallNamed("k2")), read("c")},
		"recursion-fresh-locals": {Func("f", []string{"n"}, []Stmt{Let("loc", v("n")), If{Cond: Bin{Op: ">", L: v("n"), R: I(0)}, Then: []Stmt{ExprStmt{X: CallNamed("f", Bin{Op: "-", L: v("n"), R: I(1)})}}}, V(v("loc")), Return{Vals: []Expr{v("loc")}}}),
			V(CallNamed("f", I(2))), read("loc"), read("n")},
		"params-bind-in-invocation":   {Set("x", I(1)), Func("f", []string{"x"}, []Stmt{Set("x", I(9)), Return{Vals: []Expr{v("x")}}}), V(CallNamed("f", I(5))), read("x")},
		"module":                      {Module{Name: "m", Body: []Stmt{Set("a", I(1)), Func("g", nil, []Stmt{Return{Vals: []Expr{v("a")}}})}}, read("a"), V(Member{X: v("m"), Name: "a"}), V(Call{Fn: Member{X: v("m"), Name: "g"}})},
		"loop-var-not-visible-after":  {ForIn{Vars: []string{"x"}, Coll: List{Elems: []Expr{I(1), I(2)}}, Body: []Stmt{V(v("x"))}}, read("x")},
		"catch-var-not-visible-after": {Try{Body: []Stmt{Throw{X: S("T")}}, CatchVar: "e", Catch: []Stmt{V(v("e"))}}, read("e")},
		"cfor-init-scope":             {CFor{Init: Set("i", I(0)), Cond: Bin{Op: "<", L: v("i"), R: I(2)}, Post: Incr{Name: "i"}, Body: []Stmt{V(v("i"))}}, read("i")},
		"cfor-init-updates-outer":     {Set("i", I(7)), CFor{Init: Set("i", I(0)), Cond: Bin{Op: "<", L: v("i"), R: I(2)}, Post: Incr{Name: "i"}, Body: []Stmt{V(v("i"))}}, read("i")},
		"scope-after-break":           {Set("a", I(1)), Loop{Body: []Stmt{Let("a", I(2)), Break{}}}, read("a")},
		"scope-after-return":          {Set("a", I(1)), Func("f", nil, []Stmt{Loop{Body: []Stmt{Let("a", I(2)), Return{Vals: []Expr{v("a")}}}}}), V(CallNamed("f")), read("a")},
		"scope-after-caught-error":    {Set("a", I(1)), Try{Body: []Stmt{Let("a", I(2)), Throw{X: I(3)}}, CatchVar: "e", Catch: []Stmt{V(v("e"))}}, read("a")},
		"multi-assign":                {Assign{Names: []string{"a", "b"}, Vals: []Expr{I(1), I(2)}}, VarDecl{Names: []string{"c", "d"}, Vals: []Expr{v("b"), v("a")}}, V(v("a"), v("b"), v("c"), v("d"))},
		"string-concat-and-compare":   {V(Bin{Op: "+", L: S("a"), R: S("b")}, Bin{Op: "==", L: S("a"), R: S("a")}, Bin{Op: "!=", L: I(1), R: I(2)}, Bin{Op: "<=", L: I(2), R: I(2)}, Bin{Op: "*", L: I(3), R: I(4)}, Bin{Op: "-", L: I(3), R: I(4)})},
		"and-or-not":                  {V(Bin{Op: "&&", L: Bool{V: true}, R: Bool{V: false}}, Bin{Op: "||", L: Bool{V: false}, R: Bool{V: true}}, Not{X: Bool{V: true}})},
		"short-circuit":               {V(Bin{Op: "&&", L: Probe{ID: 1, Ret: Bool{V: false}}, R: Probe{ID: 2, Ret: Bool{V: true}}}), V(Bin{Op: "||", L: Probe{ID: 3, Ret: Bool{V: true}}, R: Probe{ID: 4, Ret: Bool{V: true}}})},
		"nil-coalesce":                {V(NilCoalesce{L: Nil{}, R: I(1)}, NilCoalesce{L: I(2), R: I(1)}, NilCoalesce{L: v("zz"), R: I(3)})},
		"defer-at-top-level":          {Set("x", I(1)), Defer{Call: Show{Args: []Expr{v("x")}}}, Set("x", I(2)), Defer{Call: Call{Fn: &FuncLit{Body: []Stmt{V(v("x"))}}}}, Set("x", I(3)), PV(9, I(4))},
		"values":                      {V(Nil{}, Bool{V: true}, I(-3), Float{V: 1.5}, Float{V: 2}, S("s\"q"), List{Elems: []Expr{I(1), List{}}}, MapLit{Keys: []string{"b", "a"}, Vals: []Expr{I(1), Nil{}}})},
		"return-list":                 {Func("f", nil, []Stmt{Return{Vals: []Expr{I(1), S("a"), Nil{}}}}), V(CallNamed("f")), Return{Vals: []Expr{I(1), I(2)}}},
		"variadic":                    {Func("f", []string{"a", "b"}, nil), ExprStmt{X: &FuncLit{Name: "g", Params: []string{"a", "r"}, VarArg: true, Body: []Stmt{V(v("a"), v("r")), Return{}}}}, ExprStmt{X: CallNamed("g", I(1))}, ExprStmt{X: CallNamed("g", I(1), I(2), I(3))}},
	}
	progs["defer-host-panics"] = []Stmt{Defer{Call: Probe{ID: 1}}, Defer{Call: Boom{ID: 7}}, Defer{Call: Probe{ID: 2}}, PV(3, I(4))}
	progs["defer-host-panics-body-fails"] = []Stmt{Defer{Call: Probe{ID: 1}}, Defer{Call: Boom{ID: 7}}, P(3), Throw{X: S("BODY")}}
	progs["defer-nil-func"] = []Stmt{Defer{Call: Probe{ID: 1}}, Defer{Call: Call{Fn: HostNilFunc{}}}, P(2)}
	progs["call-nil-func"] = []Stmt{Try{Body: []Stmt{ExprStmt{X: Call{Fn: HostNilFunc{}}}, P(1)}, CatchVar: "e", Catch: []Stmt{V(v("e")), P(2)}}, P(3)}
	progs["defer-name-rebound"] = []Stmt{Func("a1", []string{"x"}, []Stmt{V(S("a1"), v("x"))}), Func("a2", []string{"x"}, []Stmt{V(S("a2"), v("x"))}),
		Func("run", []string{"cb"}, []Stmt{Defer{Call: CallNamed("cb", I(1))}, Return{Vals: []Expr{I(9)}}}), V(CallNamed("run", v("a1"))), V(CallNamed("run", v("a2")))}
	progs["close-closed-channel"] = []Stmt{Set("c", ChanOf{}), Try{Body: []Stmt{Close{X: v("c")}, P(1)}, CatchVar: "e", Catch: []Stmt{V(v("e"))}}, Close{X: v("c")}, P(2)}
	progs["go-side-body-failure-keeps-its-error"] = []Stmt{Func("f", nil, []Stmt{Defer{Call: Call{Fn: &FuncLit{Body: []Stmt{Throw{X: S("D1")}}}}}, ExprStmt{X: Boom{ID: 7}}, Return{Vals: []Expr{I(9)}}}),
		Try{Body: []Stmt{V(CallNamed("f"))}, CatchVar: "e", Catch: []Stmt{V(v("e"))}}, ExprStmt{X: CallNamed("f")}}
	for name, prog := range progs {
		src := Source(prog)
		obs := Exec(src, 5000)
		// mattn/anko's resolutions of the scope questions: one scope per loop, one per try statement
		exp := Run(prog, Config{MapOrder: FollowMapOrder(obs), TryScopeShared: true})
		if exp.Status != OK && exp.Status != Failed {
			t.Errorf("%s: reference status %v (%s)\n  %s", name, exp.Status, exp.Reason, src)
			continue
		}
		t.Logf("%s: %s\n   => %v result %s", name, src, obs.Trace, obs.Result)
		if kind, detail := Diff(exp, obs); kind != "" {
			t.Errorf("%s: %s: %s\n  %s", name, kind, detail, src)
		}
	}
}
