// Package irrun executes anko source text rendered from lib/ir programs on the
// real interpreter, with the host functions the IR's probe nodes stand for, and
// compares what was observed with what the reference interpreter predicts.
package irrun

import (
	"fmt"
	"reflect"
	"sort"
	"strconv"
	"strings"
	"sync"

	"github.com/mattn/anko/env"
	"github.com/mattn/anko/parser"
	"github.com/mattn/anko/vm"
	"verif/engine/lib/ir"
	"verif/engine/lib/stepctx"
)

// Obs is what one execution on the implementation showed.
type Obs struct {
	Trace       []string
	Result      string // canonical rendering of the returned value (when Err == "")
	Failed      bool   // an error was returned
	ErrMsg      string
	Interrupted bool // the fuel ran out ("execution interrupted")
	Panic       string
	ParseErr    string // the parser rejected the text (a generator bug, never a verdict)
	Polls       int64
	// MapKeyAt[i] is set when trace entry i was written by v(...) with a
	// string first argument (used to follow the map iteration order).
	keyAt map[int]string
	// mu guards Trace and keyAt: a defect that lets one run's deferred or pending
	// calls execute inside another run of the same process (a process-wide pool,
	// say) makes two goroutines log into one Obs; the harness must survive that
	// and show it as a wrong trace, not crash
	mu sync.Mutex
}

func (o *Obs) log(s string) {
	o.mu.Lock()
	o.Trace = append(o.Trace, s)
	o.mu.Unlock()
}

// RenderGo renders a Go value produced by the interpreter with the rules of ir.Render.
func RenderGo(x interface{}) string {
	if x == nil {
		return "nil"
	}
	if e, ok := x.(error); ok {
		return "E=" + e.Error()
	}
	return renderValue(reflect.ValueOf(x))
}

func renderValue(v reflect.Value) string {
	if !v.IsValid() {
		return "nil"
	}
	switch v.Kind() {
	case reflect.Interface, reflect.Ptr:
		if v.IsNil() {
			return "nil"
		}
		if v.CanInterface() {
			if e, ok := v.Interface().(error); ok {
				return "E=" + e.Error()
			}
		}
		return renderValue(v.Elem())
	case reflect.Bool:
		return strconv.FormatBool(v.Bool())
	case reflect.Int, reflect.Int8, reflect.Int16, reflect.Int32, reflect.Int64:
		return strconv.FormatInt(v.Int(), 10)
	case reflect.Uint, reflect.Uint8, reflect.Uint16, reflect.Uint32, reflect.Uint64:
		return strconv.FormatUint(v.Uint(), 10)
	case reflect.Float32, reflect.Float64:
		return ir.FloatText(v.Float())
	case reflect.String:
		return strconv.Quote(v.String())
	case reflect.Slice, reflect.Array:
		if v.Kind() == reflect.Slice && v.IsNil() {
			return "nil"
		}
		parts := make([]string, v.Len())
		for i := range parts {
			parts[i] = renderValue(v.Index(i))
		}
		return "[" + strings.Join(parts, " ") + "]"
	case reflect.Map:
		if v.IsNil() {
			return "nil"
		}
		var parts []string
		for _, k := range v.MapKeys() {
			parts = append(parts, renderValue(k)+":"+renderValue(v.MapIndex(k)))
		}
		sort.Strings(parts)
		return "{" + strings.Join(parts, " ") + "}"
	case reflect.Chan:
		return "chan"
	case reflect.Func:
		return "func"
	}
	return fmt.Sprintf("<%s>", v.Kind())
}

// NewEnv returns an environment with the host functions bound, logging into obs.
func NewEnv(obs *Obs) *env.Env {
	e := env.NewEnv()
	obs.keyAt = map[int]string{}
	e.Define("p", func(a ...interface{}) interface{} {
		if len(a) == 0 {
			obs.log("p()")
			return nil
		}
		obs.log(RenderGo(a[0]))
		if len(a) > 1 {
			return a[1]
		}
		return nil
	})
	counts := map[int64]int{}
	e.Define("t", func(id int64, seq []interface{}) interface{} {
		obs.mu.Lock()
		n := counts[id]
		counts[id] = n + 1
		obs.mu.Unlock()
		if len(seq) == 0 {
			return nil
		}
		return seq[n%len(seq)]
	})
	e.Define("v", func(a ...interface{}) interface{} {
		if len(a) == 1 {
			if er, ok := a[0].(error); ok {
				obs.log("E=" + er.Error())
				return nil
			}
		}
		parts := make([]string, len(a))
		for i, x := range a {
			parts[i] = RenderGo(x)
		}
		obs.mu.Lock()
		if len(a) > 0 {
			if s, ok := a[0].(string); ok {
				obs.keyAt[len(obs.Trace)] = s
			}
		}
		obs.Trace = append(obs.Trace, "v:"+strings.Join(parts, ","))
		obs.mu.Unlock()
		return nil
	})
	e.Define("boom", func(id int64) interface{} {
		obs.log("boom" + strconv.FormatInt(id, 10))
		panic(fmt.Errorf("boom %d", id))
	})
	e.Define("nilfn", (func())(nil))
	e.Define("mkch", func(a ...interface{}) interface{} {
		c := make(chan interface{}, len(a)+1)
		for _, x := range a {
			c <- x
		}
		close(c)
		return c
	})
	return e
}

// Exec parses and runs src with Options{Debug:false} under a counting context
// that lets fuel polls through.
func Exec(src string, fuel int64) (obs *Obs) {
	obs = &Obs{}
	e := NewEnv(obs)
	ctx := stepctx.Fuel(fuel)
	defer func() {
		obs.Polls = ctx.Polls()
		if r := recover(); r != nil {
			obs.Panic = fmt.Sprint(r)
		}
	}()
	stmt, perr := parser.ParseSrc(src)
	if perr != nil {
		obs.ParseErr = perr.Error()
		return obs
	}
	res, err := vm.RunContext(ctx, e, &vm.Options{Debug: false}, stmt)
	if err != nil {
		obs.Failed = true
		obs.ErrMsg = err.Error()
		if ctx.Cancelled() && strings.Contains(obs.ErrMsg, vm.ErrInterrupt.Error()) {
			obs.Interrupted = true
		}
		return obs
	}
	obs.Result = RenderGo(res)
	return obs
}

// ExecPlain runs src with plain vm.Execute (no context, no fuel): used to
// confirm a divergence without any of the checker's machinery.
func ExecPlain(src string) (obs *Obs) {
	obs = &Obs{}
	e := NewEnv(obs)
	defer func() {
		if r := recover(); r != nil {
			obs.Panic = fmt.Sprint(r)
		}
	}()
	res, err := vm.Execute(e, &vm.Options{Debug: false}, src)
	if err != nil {
		obs.Failed = true
		obs.ErrMsg = err.Error()
		return obs
	}
	obs.Result = RenderGo(res)
	return obs
}

// FollowMapOrder returns a Config.MapOrder callback that makes the reference
// visit map keys in the order the implementation did: every generated map
// loop logs its key with v(key, ...) as the first action of its body, so when
// the reference is about to start an iteration with a trace of length n, entry
// n of the observed trace names the key the implementation visited at this
// point.  If that entry is not one of the remaining keys the first remaining
// key is taken (the traces then differ and the comparison reports it).
func FollowMapOrder(obs *Obs) func(remaining []string, logLen int) int {
	return func(remaining []string, logLen int) int {
		if k, ok := obs.keyAt[logLen]; ok {
			for i, r := range remaining {
				if r == k {
					return i
				}
			}
		}
		return 0
	}
}

// FuelFor is the number of polls given to the implementation for a program
// whose reference run took steps steps: every executed statement, block, loop
// iteration and invocation polls at most once, so 4*steps+64 cannot run out on
// a behaviour that matches the reference.
func FuelFor(steps int) int64 { return int64(4*steps + 64) }

// Diff compares an observation with a reference outcome (Status OK or Failed).
// It returns "" when they agree, else a description whose first word is the
// kind of divergence: trace, result, error, nontermination or panic.
func Diff(exp *ir.Outcome, obs *Obs) (kind, detail string) {
	obs.mu.Lock()
	trace := append([]string(nil), obs.Trace...)
	obs.mu.Unlock()
	if obs.ParseErr != "" {
		return "parse", "the parser rejected the program: " + obs.ParseErr
	}
	if obs.Panic != "" {
		return "panic", "panic reached the harness: " + obs.Panic
	}
	if obs.Interrupted {
		return "nontermination", fmt.Sprintf("reference ends after %d steps with trace %v; implementation still running after %d polls, trace so far %v", exp.Steps, exp.Trace, obs.Polls, clip(trace))
	}
	n := len(exp.Trace)
	if len(trace) < n {
		n = len(trace)
	}
	for i := 0; i < n; i++ {
		if !ir.MatchEntry(exp.Trace[i], trace[i]) {
			return "trace", fmt.Sprintf("trace differs at entry %d: expected %v, got %v", i, exp.Trace, clip(trace))
		}
	}
	if len(exp.Trace) != len(trace) {
		return "trace", fmt.Sprintf("trace length differs: expected %v, got %v", exp.Trace, clip(trace))
	}
	switch exp.Status {
	case ir.Failed:
		if !obs.Failed {
			return "error", fmt.Sprintf("expected an error (%s) to reach the host, got success with value %s", exp.Err.Pattern(), obs.Result)
		}
		if !exp.Err.MatchErr(obs.ErrMsg) {
			return "error", fmt.Sprintf("host received error %q, expected %s", obs.ErrMsg, exp.Err.Pattern())
		}
	case ir.OK:
		if obs.Failed {
			return "error", fmt.Sprintf("expected success, host received error %q", obs.ErrMsg)
		}
		if exp.ResultDefined {
			if want := ir.Render(exp.Result); want != obs.Result {
				return "result", fmt.Sprintf("result: expected %s, got %s", want, obs.Result)
			}
		}
	}
	return "", ""
}

func clip(t []string) []string {
	if len(t) > 60 {
		return append(append([]string(nil), t[:60]...), "...")
	}
	return t
}
