// Package valpool holds what the value-level checkers (C05 arithmetic tower,
// C06 equality) share: a small tagged value type that can be turned into a Go
// value for env.Define, into anko literal source, into a canonical description
// and into JSON (replay files); the boundary pools chosen from the dispatch
// code of the VM; and the comparison "value AND dynamic Go type" of a result
// returned by vm.Execute against an expected value.
package valpool

import (
	"encoding/json"
	"fmt"
	"math"
	"strconv"
	"strings"
)

type Kind int

const (
	Nil Kind = iota
	Bool
	Int
	Float
	Str
	Slice
	Map
)

var kindNames = []string{"nil", "bool", "int", "float", "string", "slice", "map"}

func (k Kind) String() string { return kindNames[k] }

// Val is one value of the scripting language restricted to what the two
// properties talk about: nil, bool, int64, float64, string, and the untyped
// containers anko itself builds ([]interface{} and map[interface{}]interface{}).
type Val struct {
	K     Kind
	B     bool
	I     int64
	F     float64
	S     string
	Elems []Val // Slice
	Keys  []Val // Map: keys (primitive) in the order they are written
	Vals  []Val // Map: values, parallel to Keys
}

func NilV() Val            { return Val{K: Nil} }
func BoolV(b bool) Val     { return Val{K: Bool, B: b} }
func IntV(i int64) Val     { return Val{K: Int, I: i} }
func FloatV(f float64) Val { return Val{K: Float, F: f} }
func StrV(s string) Val    { return Val{K: Str, S: s} }
func SliceV(e ...Val) Val  { return Val{K: Slice, Elems: e} }
func MapV(kv ...Val) Val { // MapV(k1, v1, k2, v2, ...)
	m := Val{K: Map}
	for i := 0; i+1 < len(kv); i += 2 {
		m.Keys = append(m.Keys, kv[i])
		m.Vals = append(m.Vals, kv[i+1])
	}
	return m
}

// Go returns a fresh Go value, of exactly the dynamic type anko uses for it.
func (v Val) Go() interface{} {
	switch v.K {
	case Nil:
		return nil
	case Bool:
		return v.B
	case Int:
		return v.I
	case Float:
		return v.F
	case Str:
		return v.S
	case Slice:
		s := make([]interface{}, len(v.Elems))
		for i, e := range v.Elems {
			s[i] = e.Go()
		}
		return s
	case Map:
		m := make(map[interface{}]interface{}, len(v.Keys))
		for i, k := range v.Keys {
			m[k.Go()] = v.Vals[i].Go()
		}
		return m
	}
	panic("valpool: bad kind")
}

// Lit returns anko source for the value (a literal, or a container literal of
// literals).  ok is false when the language has no spelling for it (±Inf, NaN).
// Negative numbers come out as "-5": use Operand() inside larger expressions.
func (v Val) Lit() (src string, ok bool) {
	switch v.K {
	case Nil:
		return "nil", true
	case Bool:
		if v.B {
			return "true", true
		}
		return "false", true
	case Int:
		return strconv.FormatInt(v.I, 10), true
	case Float:
		if math.IsNaN(v.F) || math.IsInf(v.F, 0) {
			return "", false
		}
		s := strconv.FormatFloat(v.F, 'g', -1, 64) // "1e+06", "0.5", "-0"
		if !strings.ContainsAny(s, ".e") {
			s += ".0" // the lexer decides int-vs-float on '.' or 'e'
		}
		return s, true
	case Str:
		for _, r := range v.S {
			if r == '"' || r == '\\' || r < ' ' || r > '~' {
				return "", false
			}
		}
		return `"` + v.S + `"`, true
	case Slice:
		parts := make([]string, len(v.Elems))
		for i, e := range v.Elems {
			p, ok := e.Lit()
			if !ok {
				return "", false
			}
			parts[i] = p
		}
		return "[" + strings.Join(parts, ", ") + "]", true
	case Map:
		parts := make([]string, len(v.Keys))
		for i, k := range v.Keys {
			ks, ok := k.Lit()
			if !ok {
				return "", false
			}
			vs, ok := v.Vals[i].Lit()
			if !ok {
				return "", false
			}
			parts[i] = ks + ": " + vs
		}
		return "{" + strings.Join(parts, ", ") + "}", true
	}
	return "", false
}

// Operand is Lit with negative numbers parenthesised, so that it can stand
// next to any operator.
func (v Val) Operand() (string, bool) {
	s, ok := v.Lit()
	if ok && strings.HasPrefix(s, "-") {
		s = "(" + s + ")"
	}
	return s, ok
}

// String is the canonical description used in case texts: value and type.
func (v Val) String() string {
	switch v.K {
	case Nil:
		return "nil"
	case Bool:
		return strconv.FormatBool(v.B)
	case Int:
		return "int64(" + strconv.FormatInt(v.I, 10) + ")"
	case Float:
		return "float64(" + strconv.FormatFloat(v.F, 'g', -1, 64) + ")"
	case Str:
		return strconv.Quote(v.S)
	case Slice:
		parts := make([]string, len(v.Elems))
		for i, e := range v.Elems {
			parts[i] = e.String()
		}
		return "[" + strings.Join(parts, ", ") + "]"
	case Map:
		parts := make([]string, len(v.Keys))
		for i, k := range v.Keys {
			parts[i] = k.String() + ": " + v.Vals[i].String()
		}
		return "{" + strings.Join(parts, ", ") + "}"
	}
	return "?"
}

// Describe renders a result returned by vm.Execute the same way.
func Describe(x interface{}) string {
	switch t := x.(type) {
	case nil:
		return "nil"
	case bool:
		return strconv.FormatBool(t)
	case int64:
		return "int64(" + strconv.FormatInt(t, 10) + ")"
	case float64:
		return "float64(" + strconv.FormatFloat(t, 'g', -1, 64) + ")"
	case string:
		if len(t) > 80 {
			return fmt.Sprintf("string(len %d) %q...", len(t), t[:40])
		}
		return strconv.Quote(t)
	}
	s := fmt.Sprintf("%T(%v)", x, x)
	if len(s) > 120 {
		s = s[:120] + "..."
	}
	return s
}

// Match reports whether a result of vm.Execute has the value AND the dynamic
// Go type of want.  Floats are compared bit for bit (so -0 and +0 differ),
// except that any NaN matches any NaN.  Only primitive kinds are supported.
func Match(got interface{}, want Val) bool {
	switch want.K {
	case Nil:
		return got == nil
	case Bool:
		g, ok := got.(bool)
		return ok && g == want.B
	case Int:
		g, ok := got.(int64)
		return ok && g == want.I
	case Float:
		g, ok := got.(float64)
		if !ok {
			return false
		}
		if math.IsNaN(want.F) {
			return math.IsNaN(g)
		}
		return math.Float64bits(g) == math.Float64bits(want.F)
	case Str:
		g, ok := got.(string)
		return ok && g == want.S
	}
	return false
}

// ---- JSON (replay files): floats travel as strings so that NaN/Inf/-0 survive ----

type jval struct {
	K     string `json:"k"`
	B     bool   `json:"b,omitempty"`
	I     int64  `json:"i,omitempty"`
	F     string `json:"f,omitempty"`
	S     string `json:"s,omitempty"`
	Elems []Val  `json:"elems,omitempty"`
	Keys  []Val  `json:"keys,omitempty"`
	Vals  []Val  `json:"vals,omitempty"`
}

func (v Val) MarshalJSON() ([]byte, error) {
	j := jval{K: v.K.String(), B: v.B, I: v.I, S: v.S, Elems: v.Elems, Keys: v.Keys, Vals: v.Vals}
	if v.K == Float {
		j.F = strconv.FormatFloat(v.F, 'g', -1, 64)
	}
	return json.Marshal(j)
}

func (v *Val) UnmarshalJSON(b []byte) error {
	var j jval
	if err := json.Unmarshal(b, &j); err != nil {
		return err
	}
	k := -1
	for i, n := range kindNames {
		if n == j.K {
			k = i
		}
	}
	if k < 0 {
		return fmt.Errorf("valpool: unknown kind %q", j.K)
	}
	*v = Val{K: Kind(k), B: j.B, I: j.I, S: j.S, Elems: j.Elems, Keys: j.Keys, Vals: j.Vals}
	if v.K == Float {
		f, err := strconv.ParseFloat(j.F, 64)
		if err != nil {
			return err
		}
		v.F = f
	}
	return nil
}

// ---- pools ----

const (
	P31 = int64(1) << 31
	P53 = int64(1) << 53
)

// Ints is the int64 boundary pool of DESIGN §4 C05: 0, ±1, ±2, the edges of
// the boxed-integer cache (-1..4095), the shift-count edges 63/64/65, the
// repeat-count cap, 2^31, 2^53 and 2^63 neighbourhoods.
func Ints() []int64 {
	return []int64{
		0, 1, -1, 2, -2, 3, -3, 7, 10,
		31, 32, 62, 63, 64, 65,
		1000, 1001,
		4094, 4095, 4096, 4097, -4095, -4096,
		1000000,
		P31 - 1, P31, P31 + 1, -(P31 - 1), -P31, -(P31 + 1),
		P53 - 1, P53, P53 + 1, -(P53 - 1), -P53, -(P53 + 1),
		math.MaxInt64, math.MaxInt64 - 1, math.MinInt64, math.MinInt64 + 1,
	}
}

// Floats is the float64 pool: signed zeros, halves, cache-edge and shift-edge
// values, the 2^53 precision cliff, 2^63, the extremes, infinities and NaN.
func Floats() []float64 {
	return []float64{
		0, math.Copysign(0, -1), 0.5, -0.5, 1, -1, 1.5, -1.5, 2.5, 0.1,
		63, 64, 4095, 4096,
		1e6, 1e21,
		float64(P31), float64(P53), float64(P53) + 2, -float64(P53),
		9223372036854775808.0, -9223372036854775808.0,
		1e308, -1e308, 5e-324,
		math.Inf(1), math.Inf(-1), math.NaN(),
	}
}

// Strs is the string pool of C05.
func Strs() []string { return []string{"", "a", "ab", "1", "3", "1.5", "-2"} }
