package ir

import (
	"fmt"
	"sort"
	"strconv"
	"strings"
)

// ---------------------------------------------------------------------------
// The definitional reference interpreter ("refinterp").
//
// It implements exactly what properties C04, C08 and C09 state:
//
//   - scopes are a chain of maps; a name refers to the nearest binding; plain
//     assignment sets the nearest binding, else defines in the current block;
//     var / loop variables / catch variable / parameters / named function
//     literals bind in the current block; every block and every invocation
//     runs in a fresh child scope; function values capture their defining
//     scope by reference (C04);
//   - if / else-if / else runs the first branch whose condition is truthy,
//     switch the first case equal to the subject else the default; loops run
//     while the condition holds; for-in visits slice elements in index order
//     and every map entry once; break / continue address the innermost loop (a
//     C-style loop still evaluates its post expression after continue); return
//     ends the current invocation and yields nil / the value / the list of
//     values (C08);
//   - throw and runtime errors abort up to the nearest enclosing try, whose
//     catch block runs with the error bound to the catch variable; finally
//     runs after a try that succeeded or whose error was caught; deferred
//     calls belong to the invocation (function call or top level) that
//     executed the defer statement, run exactly once when it ends, LIFO, with
//     callee and arguments as evaluated at the defer statement; they do not
//     change the result, and an error they raise surfaces only if the body did
//     not fail (C09);
//   - evaluation is left to right.
//
// Where the properties are silent the interpreter either stops with status
// Undetermined (the program is outside the compared set) or follows the
// resolution chosen in Config and records in Outcome.Used that the resolution
// mattered, so that a checker can run every resolution and accept any one.
// ---------------------------------------------------------------------------

// Config selects the resolution of the under-determined points and the fuel.
type Config struct {
	// Fuel bounds the number of steps (statements + loop iterations +
	// invocations); 0 means DefaultFuel.
	Fuel int
	// TrySignalsCaught: break / continue / return that leave a try BODY are
	// delivered to its catch block as if they were errors (what mattn/anko
	// does, known finding of C08).  false is the strict reading: the signal
	// passes through, the catch block does not run.
	TrySignalsCaught bool
	// FinallyOnCatchExit: finally also runs when the catch block itself
	// fails or is left by break / continue / return.
	FinallyOnCatchExit bool
	// FinallyOnTrySignal: (strict reading only) finally also runs when the
	// try body is left by break / continue / return.
	FinallyOnTrySignal bool
	// LoopScopePerIteration: every iteration of a loop body runs in a fresh
	// scope (holding the for-in variables); false: one scope per loop
	// statement, shared by all iterations.
	LoopScopePerIteration bool
	// TryScopeShared: try body, catch and finally share one scope (so
	// catch / finally see the try body's bindings); false: one fresh scope
	// each.
	TryScopeShared bool
	// MapOrder picks which of the not yet visited keys a for-in over a map
	// visits next (the properties leave the order open).  logLen is the
	// length of the trace at that moment, which lets a checker follow the
	// order the implementation took.  nil: sorted key order.
	MapOrder func(remaining []string, logLen int) int
	// StraySignalIsError: a break / continue executed outside any loop of the
	// current FUNCTION invocation does not act on a loop of the caller (a
	// function boundary is not transparent: "break and continue act on the
	// innermost enclosing loop only"): the signal travels to the boundary of
	// the invocation and the call fails there with an error whose text is
	// unspecified.  false: such a program is Undetermined (the default; at
	// the top level it always is).
	StraySignalIsError bool
	// OnSignal, when set, is called with the Tag of every executed Break /
	// Continue / Return / Throw / expression statement whose Tag is not 0 (lets a checker
	// measure that the statement under test was reached).
	OnSignal func(tag int)
}

// DefaultFuel is the step budget used when Config.Fuel is 0.
const DefaultFuel = 2000

// Status of a reference run.
type Status int

const (
	// OK: the program ended normally or by a top-level return.
	OK Status = iota
	// Failed: an error reached the host.
	Failed
	// Undetermined: the program touched behaviour the properties do not fix.
	Undetermined
	// OutOfFuel: the step budget ran out (treated as non-terminating).
	OutOfFuel
)

func (s Status) String() string {
	return [...]string{"ok", "failed", "undetermined", "out-of-fuel"}[s]
}

// Bits of Outcome.Used.
const (
	// UsedTrySignal: a break / continue / return reached the boundary of a try body.
	UsedTrySignal uint32 = 1 << iota
	// UsedFinallyOnCatchExit: a catch block with a finally ended abnormally.
	UsedFinallyOnCatchExit
	// UsedFinallyOnTrySignal: a signal passed through a try body that has a finally.
	UsedFinallyOnTrySignal
)

// Outcome is what the reference predicts.
type Outcome struct {
	Status Status
	Reason string // why Undetermined
	// Trace is the expected probe log ("<id>", "v:<rendering>", "boom<id>",
	// error patterns "E*" / "E~text").
	Trace []string
	// Result is the program's value; only meaningful when ResultDefined
	// (top-level return, or a final expression statement).
	Result        Value
	ResultDefined bool
	// Err is the error the host receives when Status == Failed.
	Err   *ErrV
	Steps int
	Used  uint32
	// Globals are the bindings of the top-level scope at the end.
	Globals map[string]Value
}

// Scope is one block's bindings.
type Scope struct {
	vars   map[string]Value
	parent *Scope
}

func newScope(parent *Scope) *Scope { return &Scope{parent: parent} }

func (s *Scope) define(name string, v Value) {
	if s.vars == nil {
		s.vars = map[string]Value{}
	}
	s.vars[name] = v
}

func (s *Scope) find(name string) *Scope {
	for e := s; e != nil; e = e.parent {
		if _, ok := e.vars[name]; ok {
			return e
		}
	}
	return nil
}

// assign: set the nearest binding, else define here.
func (s *Scope) assign(name string, v Value) {
	if e := s.find(name); e != nil {
		e.vars[name] = v
		return
	}
	s.define(name, v)
}

type ctl int

const (
	ctlNone ctl = iota
	ctlBreak
	ctlContinue
	ctlReturn
	ctlThrow
)

// frame is one invocation (a function call or the top level).
type frame struct {
	defers []func() ctl
	loops  int  // loops of this invocation that currently enclose the statement being executed
	fn     bool // a function invocation (not the top level)
}

type abort struct {
	status Status
	reason string
}

type interp struct {
	cfg   Config
	fuel  int
	steps int
	log   []string
	seq   map[int]int
	used  uint32

	retVal Value // payload of ctlReturn
	err    *ErrV // payload of ctlThrow

	last    Value
	lastDef bool
}

// Run interprets prog under cfg.
func Run(prog []Stmt, cfg Config) (out *Outcome) {
	in := &interp{cfg: cfg, fuel: cfg.Fuel, seq: map[int]int{}}
	if in.fuel <= 0 {
		in.fuel = DefaultFuel
	}
	out = &Outcome{}
	global := newScope(nil)
	defer func() {
		out.Trace = in.log
		out.Steps = in.steps
		out.Used = in.used
		if r := recover(); r != nil {
			a, ok := r.(abort)
			if !ok {
				panic(r)
			}
			out.Status = a.status
			out.Reason = a.reason
		}
	}()
	fr := &frame{}
	c := in.execList(prog, global, fr)
	var res Value
	resDef := false
	var bodyErr *ErrV
	switch c {
	case ctlNone:
		res, resDef = in.last, in.lastDef
	case ctlReturn:
		res, resDef = in.retVal, true
	case ctlThrow:
		bodyErr = in.err
	default:
		in.undetermined("break/continue reached the top level")
	}
	deferErr := in.runDefers(fr)
	switch {
	case bodyErr != nil:
		out.Status, out.Err = Failed, bodyErr
	case deferErr != nil:
		out.Status, out.Err = Failed, deferErr
	default:
		out.Status = OK
		if _, undef := res.(UndefV); undef {
			resDef = false
		}
		out.Result, out.ResultDefined = res, resDef
	}
	out.Globals = map[string]Value{}
	for k, v := range global.vars {
		out.Globals[k] = v
	}
	return out
}

func (in *interp) undetermined(reason string) {
	panic(abort{Undetermined, reason})
}

func (in *interp) tick() {
	in.steps++
	if in.steps > in.fuel {
		panic(abort{OutOfFuel, ""})
	}
}

func (in *interp) signal(tag int) {
	if tag != 0 && in.cfg.OnSignal != nil {
		in.cfg.OnSignal(tag)
	}
}

func (in *interp) logf(s string) { in.log = append(in.log, s) }

// BoomText is the message of the error the host function boom(id) panics with
// (the harness owns that function, so the text identifies the failure).
func BoomText(id int) string { return "boom " + strconv.Itoa(id) }

// CloseOfClosedText is the Go runtime's message for closing a closed channel.
const CloseOfClosedText = "close of closed channel"

func (in *interp) throwAny() ctl {
	in.err = &ErrV{Any: true}
	return ctlThrow
}

// ---- statements ----

func (in *interp) execList(ss []Stmt, sc *Scope, fr *frame) ctl {
	for _, s := range ss {
		if c := in.exec(s, sc, fr); c != ctlNone {
			return c
		}
		if _, isExpr := s.(ExprStmt); !isExpr {
			in.lastDef = false // the value of a non-expression statement is not defined
		}
	}
	return ctlNone
}

func (in *interp) exec(s Stmt, sc *Scope, fr *frame) ctl {
	in.tick()
	switch s := s.(type) {
	case ExprStmt:
		in.signal(s.Tag)
		v, c := in.eval(s.X, sc, fr)
		if c != ctlNone {
			return c
		}
		in.last, in.lastDef = v, true
		return ctlNone

	case Assign:
		vals, c := in.evalAll(s.Vals, sc, fr)
		if c != ctlNone {
			return c
		}
		if len(vals) != len(s.Names) {
			in.undetermined("assignment with unequal sides")
		}
		for i, n := range s.Names {
			sc.assign(n, vals[i])
		}
		return ctlNone

	case SetElem:
		v, c := in.eval(s.Val, sc, fr)
		if c != ctlNone {
			return c
		}
		if vs := sc.find(s.Name); vs != nil {
			if l, ok := vs.vars[s.Name].(*ListV); ok && s.I >= 0 && s.I < len(l.Elems) {
				l.Elems[s.I] = v
				return ctlNone
			}
		}
		in.undetermined("element store outside what the IR defines")
		return ctlNone

	case VarDecl:
		vals, c := in.evalAll(s.Vals, sc, fr)
		if c != ctlNone {
			return c
		}
		if len(vals) != len(s.Names) {
			in.undetermined("var with unequal sides")
		}
		for i, n := range s.Names {
			sc.define(n, vals[i])
		}
		return ctlNone

	case If:
		v, c := in.eval(s.Cond, sc, fr)
		if c != ctlNone {
			return c
		}
		if in.truthy(v) {
			return in.execList(s.Then, newScope(sc), fr)
		}
		for _, ei := range s.ElseIfs {
			v, c := in.eval(ei.Cond, sc, fr)
			if c != ctlNone {
				return c
			}
			if in.truthy(v) {
				return in.execList(ei.Body, newScope(sc), fr)
			}
		}
		if s.HasElse {
			return in.execList(s.Else, newScope(sc), fr)
		}
		return ctlNone

	case Switch:
		subj, c := in.eval(s.Subject, sc, fr)
		if c != ctlNone {
			return c
		}
		for _, cs := range s.Cases {
			for _, e := range cs.Exprs {
				v, c := in.eval(e, sc, fr)
				if c != ctlNone {
					return c
				}
				if in.equal(subj, v) {
					return in.execList(cs.Body, newScope(sc), fr)
				}
			}
		}
		if s.HasDefault {
			return in.execList(s.Default, newScope(sc), fr)
		}
		return ctlNone

	case Loop:
		fr.loops++
		c := in.execLoop(s, sc, fr)
		fr.loops--
		return c

	case CFor:
		fr.loops++
		c := in.execCFor(s, sc, fr)
		fr.loops--
		return c

	case ForIn:
		coll, c := in.eval(s.Coll, sc, fr)
		if c != ctlNone {
			return c
		}
		fr.loops++
		c = in.execForIn(s, coll, sc, fr)
		fr.loops--
		return c

	case Break:
		in.signal(s.Tag)
		if fr.loops == 0 && !(fr.fn && in.cfg.StraySignalIsError) {
			in.undetermined("break outside a loop of the current invocation")
		}
		return ctlBreak

	case Continue:
		in.signal(s.Tag)
		if fr.loops == 0 && !(fr.fn && in.cfg.StraySignalIsError) {
			in.undetermined("continue outside a loop of the current invocation")
		}
		return ctlContinue

	case Return:
		in.signal(s.Tag)
		vals, c := in.evalAll(s.Vals, sc, fr)
		if c != ctlNone {
			return c
		}
		switch len(vals) {
		case 0:
			in.retVal = nil
		case 1:
			in.retVal = vals[0]
		default:
			in.retVal = &ListV{Elems: vals}
		}
		return ctlReturn

	case Try:
		return in.execTry(s, sc, fr)

	case Throw:
		in.signal(s.Tag)
		v, c := in.eval(s.X, sc, fr)
		if c != ctlNone {
			return c
		}
		switch v := v.(type) {
		case *ErrV:
			in.err = v
		case UndefV:
			in.undetermined("throw of an undetermined value")
		default:
			if txt, ok := ThrowText(v); ok {
				in.err = &ErrV{Alts: []string{txt}}
			} else {
				in.err = &ErrV{Any: true}
			}
		}
		return ctlThrow

	case Defer:
		return in.execDefer(s, sc, fr)

	case Close:
		in.signal(s.Tag)
		x, c := in.eval(s.X, sc, fr)
		if c != ctlNone {
			return c
		}
		if _, ok := x.(*ChanV); !ok {
			in.undetermined("close of a non-channel")
		}
		// the channel is closed already: the Go runtime refuses, a runtime error
		in.err = &ErrV{Alts: []string{CloseOfClosedText}}
		return ctlThrow

	case Block:
		return in.execList(s.Body, newScope(sc), fr)

	case Module:
		msc := newScope(sc)
		sc.define(s.Name, &ModV{Name: s.Name, Scope: msc})
		return in.execList(s.Body, msc, fr)
	}
	panic(fmt.Sprintf("ir: unknown statement %T", s))
}

// loopExit translates the outcome of one iteration: done reports that the
// loop statement is finished with result c.
func loopExit(c ctl) (done bool, out ctl) {
	switch c {
	case ctlBreak:
		return true, ctlNone
	case ctlReturn, ctlThrow:
		return true, c
	}
	return false, ctlNone // ctlNone, ctlContinue: next iteration
}

func (in *interp) bodyScope(loopSc *Scope) *Scope {
	if in.cfg.LoopScopePerIteration {
		return newScope(loopSc)
	}
	return loopSc
}

func (in *interp) execLoop(s Loop, sc *Scope, fr *frame) ctl {
	loopSc := newScope(sc)
	for {
		in.tick()
		if s.Cond != nil {
			v, c := in.eval(s.Cond, loopSc, fr)
			if c != ctlNone {
				return c
			}
			if !in.truthy(v) {
				return ctlNone
			}
		}
		if done, out := loopExit(in.execList(s.Body, in.bodyScope(loopSc), fr)); done {
			return out
		}
	}
}

func (in *interp) execCFor(s CFor, sc *Scope, fr *frame) ctl {
	loopSc := newScope(sc)
	if s.Init != nil {
		switch s.Init.(type) {
		case Assign, VarDecl:
		default:
			panic("ir: CFor.Init must be Assign or VarDecl")
		}
		if c := in.exec(s.Init, loopSc, fr); c != ctlNone {
			return c
		}
	}
	for {
		in.tick()
		if s.Cond != nil {
			v, c := in.eval(s.Cond, loopSc, fr)
			if c != ctlNone {
				return c
			}
			if !in.truthy(v) {
				return ctlNone
			}
		}
		if done, out := loopExit(in.execList(s.Body, in.bodyScope(loopSc), fr)); done {
			return out
		}
		// reached after a normal iteration AND after continue
		if s.Post != nil {
			if _, c := in.eval(s.Post, loopSc, fr); c != ctlNone {
				return c
			}
		}
	}
}

func (in *interp) execForIn(s ForIn, coll Value, sc *Scope, fr *frame) ctl {
	loopSc := newScope(sc)
	iter := func(bind func(isc *Scope)) (bool, ctl) {
		in.tick()
		isc := in.bodyScope(loopSc)
		bind(isc)
		return loopExit(in.execList(s.Body, isc, fr))
	}
	switch coll := coll.(type) {
	case *ListV:
		if len(s.Vars) != 1 {
			in.undetermined("for-in over a slice with two variables")
		}
		for _, e := range coll.Elems {
			e := e
			if done, out := iter(func(isc *Scope) { isc.define(s.Vars[0], e) }); done {
				return out
			}
		}
		return ctlNone
	case *ChanV:
		if len(s.Vars) != 1 {
			in.undetermined("for-in over a channel with two variables")
		}
		for _, e := range coll.Elems {
			e := e
			if done, out := iter(func(isc *Scope) { isc.define(s.Vars[0], e) }); done {
				return out
			}
		}
		return ctlNone
	case *MapV:
		remaining := append([]string(nil), coll.Keys...)
		sort.Strings(remaining)
		for len(remaining) > 0 {
			pick := 0
			if in.cfg.MapOrder != nil && len(remaining) > 1 {
				pick = in.cfg.MapOrder(remaining, len(in.log))
				if pick < 0 || pick >= len(remaining) {
					pick = 0
				}
			}
			k := remaining[pick]
			remaining = append(remaining[:pick:pick], remaining[pick+1:]...)
			if done, out := iter(func(isc *Scope) {
				isc.define(s.Vars[0], k)
				if len(s.Vars) > 1 {
					isc.define(s.Vars[1], coll.Vals[k])
				}
			}); done {
				return out
			}
		}
		return ctlNone
	case UndefV:
		in.undetermined("for-in over an undetermined value")
	}
	return in.throwAny() // not iterable: a runtime error
}

func (in *interp) execTry(s Try, sc *Scope, fr *frame) ctl {
	shared := newScope(sc)
	part := func() *Scope {
		if in.cfg.TryScopeShared {
			return shared
		}
		return newScope(sc)
	}
	// finallyPending runs the finally block while an abnormal exit c is
	// pending and then resumes that exit.
	finallyPending := func(c ctl) ctl {
		rv, ev := in.retVal, in.err
		if fc := in.execList(s.Finally, part(), fr); fc != ctlNone {
			in.undetermined("finally block ends abnormally while another exit is pending")
		}
		in.retVal, in.err = rv, ev
		return c
	}

	c := in.execList(s.Body, part(), fr)
	switch c {
	case ctlNone:
		if s.HasFinally {
			return in.execList(s.Finally, part(), fr)
		}
		return ctlNone
	case ctlBreak, ctlContinue, ctlReturn:
		in.used |= UsedTrySignal
		if !in.cfg.TrySignalsCaught {
			if s.HasFinally {
				in.used |= UsedFinallyOnTrySignal
				if in.cfg.FinallyOnTrySignal {
					return finallyPending(c)
				}
			}
			return c
		}
		// delivered to catch as an error whose text is unspecified
		in.err = &ErrV{Any: true}
	}
	// the try body failed: run catch with the error bound
	csc := part()
	if s.CatchVar != "" {
		csc.define(s.CatchVar, in.err)
	}
	cc := in.execList(s.Catch, csc, fr)
	if cc == ctlNone {
		if s.HasFinally {
			return in.execList(s.Finally, part(), fr)
		}
		return ctlNone
	}
	if s.HasFinally {
		in.used |= UsedFinallyOnCatchExit
		if in.cfg.FinallyOnCatchExit {
			return finallyPending(cc)
		}
	}
	return cc
}

func (in *interp) execDefer(s Defer, sc *Scope, fr *frame) ctl {
	switch call := s.Call.(type) {
	case Call:
		fv, c := in.eval(call.Fn, sc, fr)
		if c != ctlNone {
			return c
		}
		if _, isNilFunc := fv.(NilFuncV); isNilFunc {
			// registered like any function; the deferred call fails when it runs
			if _, c := in.evalAll(call.Args, sc, fr); c != ctlNone {
				return c
			}
			fr.defers = append(fr.defers, func() ctl { return in.throwAny() })
			return ctlNone
		}
		f, ok := fv.(*FuncV)
		if !ok {
			if _, undef := fv.(UndefV); undef {
				in.undetermined("defer of an undetermined value")
			}
			return in.throwAny()
		}
		args, c := in.evalAll(call.Args, sc, fr)
		if c != ctlNone {
			return c
		}
		fr.defers = append(fr.defers, func() ctl {
			_, c := in.invoke(f, args)
			return c
		})
	case Probe:
		if call.Ret != nil {
			if _, c := in.eval(call.Ret, sc, fr); c != ctlNone {
				return c
			}
		}
		id := call.ID
		fr.defers = append(fr.defers, func() ctl {
			in.logf(strconv.Itoa(id))
			return ctlNone
		})
	case Show:
		args, c := in.evalAll(call.Args, sc, fr)
		if c != ctlNone {
			return c
		}
		entry := in.showEntry(args)
		fr.defers = append(fr.defers, func() ctl {
			in.logf(entry)
			return ctlNone
		})
	case Boom:
		id := call.ID
		fr.defers = append(fr.defers, func() ctl {
			in.logf("boom" + strconv.Itoa(id))
			in.err = &ErrV{Alts: []string{BoomText(id)}}
			return ctlThrow
		})
	default:
		panic("ir: Defer.Call must be Call, Probe, Show or Boom")
	}
	return ctlNone
}

// runDefers runs the deferred calls of fr, last registered first, every one
// exactly once whatever the others do.  It returns the error that surfaces if
// the body did not fail: when several deferred calls fail the properties do
// not say whose error that is, so the alternatives are merged.
func (in *interp) runDefers(fr *frame) *ErrV {
	if len(fr.defers) == 0 {
		return nil
	}
	rv, ev := in.retVal, in.err
	last, lastDef := in.last, in.lastDef
	var derr *ErrV
	ds := fr.defers
	fr.defers = nil
	for i := len(ds) - 1; i >= 0; i-- {
		if c := ds[i](); c == ctlThrow {
			if derr == nil {
				derr = in.err
			} else {
				derr = &ErrV{Alts: append(append([]string(nil), derr.Alts...), in.err.Alts...), Any: derr.Any || in.err.Any}
			}
		}
	}
	in.retVal, in.err = rv, ev
	in.last, in.lastDef = last, lastDef
	return derr
}

// invoke runs one invocation of f.
func (in *interp) invoke(f *FuncV, args []Value) (Value, ctl) {
	in.tick()
	sc := newScope(f.Env)
	ps := f.Lit.Params
	if f.Lit.VarArg {
		if len(ps) == 0 || len(args) < len(ps)-1 {
			in.undetermined("call with too few arguments")
		}
		for i := 0; i < len(ps)-1; i++ {
			sc.define(ps[i], args[i])
		}
		sc.define(ps[len(ps)-1], &ListV{Elems: append([]Value(nil), args[len(ps)-1:]...)})
	} else {
		if len(args) != len(ps) {
			in.undetermined("call with a wrong number of arguments")
		}
		for i, p := range ps {
			sc.define(p, args[i])
		}
	}
	fr := &frame{fn: true}
	c := in.execList(f.Lit.Body, sc, fr)
	var res Value = UndefV{} // a body that ends without return: value not defined
	var bodyErr *ErrV
	switch c {
	case ctlReturn:
		res = in.retVal
	case ctlThrow:
		bodyErr = in.err
	case ctlBreak, ctlContinue:
		if !in.cfg.StraySignalIsError {
			in.undetermined("break/continue reached a function boundary")
		}
		bodyErr = &ErrV{Any: true} // the call fails; the caller's loops are not addressed
	}
	deferErr := in.runDefers(fr)
	if bodyErr != nil {
		in.err = bodyErr
		return nil, ctlThrow
	}
	if deferErr != nil {
		in.err = deferErr
		return nil, ctlThrow
	}
	return res, ctlNone
}

// ---- expressions ----

func (in *interp) evalAll(es []Expr, sc *Scope, fr *frame) ([]Value, ctl) {
	if len(es) == 0 {
		return nil, ctlNone
	}
	vals := make([]Value, len(es))
	for i, e := range es {
		v, c := in.eval(e, sc, fr)
		if c != ctlNone {
			return nil, c
		}
		vals[i] = v
	}
	return vals, ctlNone
}

func (in *interp) showEntry(args []Value) string {
	if len(args) == 1 {
		if e, ok := args[0].(*ErrV); ok {
			return e.Pattern()
		}
	}
	parts := make([]string, len(args))
	for i, a := range args {
		switch a.(type) {
		case UndefV:
			in.undetermined("an undetermined value is logged")
		case *ErrV:
			in.undetermined("an error is logged together with other values")
		}
		parts[i] = Render(a)
	}
	return "v:" + strings.Join(parts, ",")
}

func (in *interp) eval(e Expr, sc *Scope, fr *frame) (Value, ctl) {
	switch e := e.(type) {
	case Nil:
		return nil, ctlNone
	case Bool:
		return e.V, ctlNone
	case Int:
		return e.V, ctlNone
	case Float:
		return e.V, ctlNone
	case Str:
		return e.V, ctlNone
	case List:
		vals, c := in.evalAll(e.Elems, sc, fr)
		if c != ctlNone {
			return nil, c
		}
		return &ListV{Elems: vals}, ctlNone
	case MapLit:
		vals, c := in.evalAll(e.Vals, sc, fr)
		if c != ctlNone {
			return nil, c
		}
		m := &MapV{Vals: map[string]Value{}}
		for i, k := range e.Keys {
			if _, dup := m.Vals[k]; dup {
				in.undetermined("duplicate key in a map literal")
			}
			m.Keys = append(m.Keys, k)
			m.Vals[k] = vals[i]
		}
		return m, ctlNone
	case Var:
		if s := sc.find(e.Name); s != nil {
			return s.vars[e.Name], ctlNone
		}
		return nil, in.throwAny() // undefined name: a runtime error
	case Elem:
		if s := sc.find(e.Name); s != nil {
			if l, ok := s.vars[e.Name].(*ListV); ok && e.I >= 0 && e.I < len(l.Elems) {
				return l.Elems[e.I], ctlNone
			}
		}
		in.undetermined("element read outside what the IR defines")
		return nil, ctlNone
	case Member:
		x, c := in.eval(e.X, sc, fr)
		if c != ctlNone {
			return nil, c
		}
		m, ok := x.(*ModV)
		if !ok {
			in.undetermined("member access on a non-module")
		}
		if v, ok := m.Scope.vars[e.Name]; ok {
			return v, ctlNone
		}
		return nil, in.throwAny()
	case Bin:
		return in.evalBin(e, sc, fr)
	case Not:
		x, c := in.eval(e.X, sc, fr)
		if c != ctlNone {
			return nil, c
		}
		b, ok := x.(bool)
		if !ok {
			in.undetermined("! on a non-boolean")
		}
		return !b, ctlNone
	case Incr:
		s := sc.find(e.Name)
		if s == nil {
			return nil, in.throwAny()
		}
		n, ok := s.vars[e.Name].(int64)
		if !ok {
			in.undetermined("++ on a non-integer")
		}
		s.vars[e.Name] = n + 1
		return n + 1, ctlNone
	case NilCoalesce:
		l, c := in.eval(e.L, sc, fr)
		if c == ctlThrow {
			return in.eval(e.R, sc, fr) // the failure of the left side is swallowed
		}
		if c != ctlNone {
			return nil, c
		}
		if _, undef := l.(UndefV); undef {
			in.undetermined("?? on an undetermined value")
		}
		if l == nil {
			return in.eval(e.R, sc, fr)
		}
		return l, ctlNone
	case Probe:
		var ret Value
		if e.Ret != nil {
			v, c := in.eval(e.Ret, sc, fr)
			if c != ctlNone {
				return nil, c
			}
			ret = v
		}
		in.logf(strconv.Itoa(e.ID))
		return ret, ctlNone
	case Seq:
		vals, c := in.evalAll(e.Vals, sc, fr)
		if c != ctlNone {
			return nil, c
		}
		if len(vals) == 0 {
			in.undetermined("empty sequence probe")
		}
		n := in.seq[e.ID]
		in.seq[e.ID] = n + 1
		return vals[n%len(vals)], ctlNone
	case Show:
		args, c := in.evalAll(e.Args, sc, fr)
		if c != ctlNone {
			return nil, c
		}
		in.logf(in.showEntry(args))
		return nil, ctlNone
	case Boom:
		in.logf("boom" + strconv.Itoa(e.ID))
		in.err = &ErrV{Alts: []string{BoomText(e.ID)}}
		return nil, ctlThrow
	case HostNilFunc:
		return NilFuncV{}, ctlNone
	case ChanOf:
		vals, c := in.evalAll(e.Elems, sc, fr)
		if c != ctlNone {
			return nil, c
		}
		return &ChanV{Elems: vals}, ctlNone
	case *FuncLit:
		fv := &FuncV{Lit: e, Env: sc}
		if e.Name != "" {
			sc.define(e.Name, fv)
		}
		return fv, ctlNone
	case Call:
		fv, c := in.eval(e.Fn, sc, fr)
		if c != ctlNone {
			return nil, c
		}
		if _, isNilFunc := fv.(NilFuncV); isNilFunc {
			// a function as far as the call goes: arguments are evaluated, the call itself fails
			if _, c := in.evalAll(e.Args, sc, fr); c != ctlNone {
				return nil, c
			}
			return nil, in.throwAny()
		}
		f, ok := fv.(*FuncV)
		if !ok {
			if _, undef := fv.(UndefV); undef {
				in.undetermined("call of an undetermined value")
			}
			return nil, in.throwAny() // calling a non-function: a runtime error
		}
		args, c := in.evalAll(e.Args, sc, fr)
		if c != ctlNone {
			return nil, c
		}
		return in.invoke(f, args)
	}
	panic(fmt.Sprintf("ir: unknown expression %T", e))
}

func (in *interp) evalBin(e Bin, sc *Scope, fr *frame) (Value, ctl) {
	l, c := in.eval(e.L, sc, fr)
	if c != ctlNone {
		return nil, c
	}
	if e.Op == "&&" || e.Op == "||" {
		lb, ok := l.(bool)
		if !ok {
			in.undetermined(e.Op + " on a non-boolean")
		}
		if (e.Op == "&&") != lb {
			return lb, ctlNone // short circuit
		}
		r, c := in.eval(e.R, sc, fr)
		if c != ctlNone {
			return nil, c
		}
		rb, ok := r.(bool)
		if !ok {
			in.undetermined(e.Op + " on a non-boolean")
		}
		return rb, ctlNone
	}
	r, c := in.eval(e.R, sc, fr)
	if c != ctlNone {
		return nil, c
	}
	switch e.Op {
	case "==":
		return in.equal(l, r), ctlNone
	case "!=":
		return !in.equal(l, r), ctlNone
	}
	switch lv := l.(type) {
	case int64:
		rv, ok := r.(int64)
		if !ok {
			in.undetermined(e.Op + " on mixed operand kinds")
		}
		switch e.Op {
		case "+":
			return lv + rv, ctlNone
		case "-":
			return lv - rv, ctlNone
		case "*":
			return lv * rv, ctlNone
		case "<":
			return lv < rv, ctlNone
		case "<=":
			return lv <= rv, ctlNone
		case ">":
			return lv > rv, ctlNone
		case ">=":
			return lv >= rv, ctlNone
		}
	case string:
		rv, ok := r.(string)
		if ok && e.Op == "+" {
			return lv + rv, ctlNone
		}
	}
	in.undetermined("operator " + e.Op + " on operands the properties do not cover")
	return nil, ctlNone
}

// truthy is the truthiness of a condition value for the classes property C08
// names: nil, booleans, zero / non-zero numbers, empty / non-empty strings,
// slices and maps.  Non-empty strings that spell a number or a boolean are
// left open by the properties (only "" and ordinary text are decided).
func (in *interp) truthy(v Value) bool {
	switch v := v.(type) {
	case nil:
		return false
	case bool:
		return v
	case int64:
		return v != 0
	case float64:
		return v != 0
	case string:
		if v == "" {
			return false
		}
		if _, err := strconv.ParseFloat(v, 64); err == nil {
			in.undetermined("truthiness of a string that spells a number")
		}
		if _, err := strconv.ParseBool(v); err == nil {
			in.undetermined("truthiness of a string that spells a boolean")
		}
		return true
	case *ListV:
		return len(v.Elems) > 0
	case *MapV:
		return len(v.Keys) > 0
	}
	in.undetermined(fmt.Sprintf("truthiness of a %T", v))
	return false
}

// equal is equality on values of one primitive type (and nil with nil); the
// rest of the equality relation belongs to property C06 and is not decided
// here.
func (in *interp) equal(a, b Value) bool {
	if a == nil || b == nil {
		switch a.(type) {
		case UndefV:
			in.undetermined("comparison of an undetermined value")
		}
		switch b.(type) {
		case UndefV:
			in.undetermined("comparison of an undetermined value")
		}
		return a == nil && b == nil
	}
	switch av := a.(type) {
	case bool:
		if bv, ok := b.(bool); ok {
			return av == bv
		}
	case int64:
		if bv, ok := b.(int64); ok {
			return av == bv
		}
	case float64:
		if bv, ok := b.(float64); ok {
			return av == bv
		}
	case string:
		if bv, ok := b.(string); ok {
			return av == bv
		}
	}
	in.undetermined("equality between values of different or composite kinds")
	return false
}
