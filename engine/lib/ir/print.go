package ir

import (
	"strconv"
	"strings"
)

// Source renders a program as one line of anko source text (statements are
// separated by "; ").  The rendering is deterministic, so the text is a
// canonical name of the program.
func Source(prog []Stmt) string {
	var b strings.Builder
	writeStmts(&b, prog)
	return b.String()
}

// ExprSource renders one expression.
func ExprSource(e Expr) string {
	var b strings.Builder
	writeExpr(&b, e)
	return b.String()
}

func writeStmts(b *strings.Builder, ss []Stmt) {
	for i, s := range ss {
		if i > 0 {
			b.WriteString("; ")
		}
		writeStmt(b, s)
	}
}

func writeBlock(b *strings.Builder, ss []Stmt) {
	if len(ss) == 0 {
		b.WriteString("{ }")
		return
	}
	b.WriteString("{ ")
	writeStmts(b, ss)
	b.WriteString(" }")
}

func writeExprs(b *strings.Builder, es []Expr) {
	for i, e := range es {
		if i > 0 {
			b.WriteString(", ")
		}
		writeExpr(b, e)
	}
}

func writeStmt(b *strings.Builder, s Stmt) {
	switch s := s.(type) {
	case ExprStmt:
		writeExpr(b, s.X)
	case Assign:
		b.WriteString(strings.Join(s.Names, ", "))
		b.WriteString(" = ")
		writeExprs(b, s.Vals)
	case SetElem:
		b.WriteString(s.Name + "[" + strconv.Itoa(s.I) + "] = ")
		writeExpr(b, s.Val)
	case VarDecl:
		b.WriteString("var ")
		b.WriteString(strings.Join(s.Names, ", "))
		b.WriteString(" = ")
		writeExprs(b, s.Vals)
	case If:
		b.WriteString("if ")
		writeExpr(b, s.Cond)
		b.WriteString(" ")
		writeBlock(b, s.Then)
		for _, ei := range s.ElseIfs {
			b.WriteString(" else if ")
			writeExpr(b, ei.Cond)
			b.WriteString(" ")
			writeBlock(b, ei.Body)
		}
		if s.HasElse {
			b.WriteString(" else ")
			writeBlock(b, s.Else)
		}
	case Switch:
		b.WriteString("switch ")
		writeExpr(b, s.Subject)
		b.WriteString(" {")
		n := 0
		arm := func(head string, body []Stmt) {
			if n > 0 {
				b.WriteString(";")
			}
			n++
			b.WriteString(" ")
			b.WriteString(head)
			if len(body) > 0 {
				b.WriteString(" ")
				writeStmts(b, body)
			}
		}
		for i, c := range s.Cases {
			if s.HasDefault && s.DefaultAt == i {
				arm("default:", s.Default)
			}
			var h strings.Builder
			h.WriteString("case ")
			writeExprs(&h, c.Exprs)
			h.WriteString(":")
			arm(h.String(), c.Body)
		}
		if s.HasDefault && s.DefaultAt >= len(s.Cases) {
			arm("default:", s.Default)
		}
		b.WriteString(" }")
	case Loop:
		b.WriteString("for ")
		if s.Cond != nil {
			// `for {` starts the endless loop: a map literal needs parentheses here
			if _, isMap := s.Cond.(MapLit); isMap {
				b.WriteString("(")
				writeExpr(b, s.Cond)
				b.WriteString(")")
			} else {
				writeExpr(b, s.Cond)
			}
			b.WriteString(" ")
		}
		writeBlock(b, s.Body)
	case CFor:
		b.WriteString("for ")
		if s.Init != nil {
			writeStmt(b, s.Init)
		}
		b.WriteString("; ")
		if s.Cond != nil {
			writeExpr(b, s.Cond)
		}
		b.WriteString("; ")
		if s.Post != nil {
			writeExpr(b, s.Post)
			b.WriteString(" ")
		}
		writeBlock(b, s.Body)
	case ForIn:
		b.WriteString("for ")
		b.WriteString(strings.Join(s.Vars, ", "))
		b.WriteString(" in ")
		writeExpr(b, s.Coll)
		b.WriteString(" ")
		writeBlock(b, s.Body)
	case Break:
		b.WriteString("break")
	case Continue:
		b.WriteString("continue")
	case Return:
		b.WriteString("return")
		if len(s.Vals) > 0 {
			b.WriteString(" ")
			writeExprs(b, s.Vals)
		}
	case Try:
		b.WriteString("try ")
		writeBlock(b, s.Body)
		b.WriteString(" catch ")
		if s.CatchVar != "" {
			b.WriteString(s.CatchVar)
			b.WriteString(" ")
		}
		writeBlock(b, s.Catch)
		if s.HasFinally {
			b.WriteString(" finally ")
			writeBlock(b, s.Finally)
		}
	case Throw:
		b.WriteString("throw ")
		writeExpr(b, s.X)
	case Defer:
		b.WriteString("defer ")
		writeExpr(b, s.Call)
	case Close:
		b.WriteString("close(")
		writeExpr(b, s.X)
		b.WriteString(")")
	case Block:
		b.WriteString("if true ")
		writeBlock(b, s.Body)
	case Module:
		b.WriteString("module ")
		b.WriteString(s.Name)
		b.WriteString(" ")
		writeBlock(b, s.Body)
	default:
		panic("ir: unknown statement")
	}
}

func needsParen(e Expr) bool {
	switch e.(type) {
	case Bin, Not, NilCoalesce, *FuncLit, Incr:
		return true
	case Int:
		return e.(Int).V < 0
	case Float:
		return e.(Float).V < 0
	}
	return false
}

func writeOperand(b *strings.Builder, e Expr) {
	if needsParen(e) {
		b.WriteString("(")
		writeExpr(b, e)
		b.WriteString(")")
		return
	}
	writeExpr(b, e)
}

// FloatText renders a float literal so that anko's lexer reads a float.
func FloatText(f float64) string {
	s := strconv.FormatFloat(f, 'f', -1, 64)
	if !strings.ContainsAny(s, ".") {
		s += ".0"
	}
	return s
}

func writeExpr(b *strings.Builder, e Expr) {
	switch e := e.(type) {
	case Nil:
		b.WriteString("nil")
	case Bool:
		if e.V {
			b.WriteString("true")
		} else {
			b.WriteString("false")
		}
	case Int:
		b.WriteString(strconv.FormatInt(e.V, 10))
	case Float:
		b.WriteString(FloatText(e.V))
	case Str:
		b.WriteString(strconv.Quote(e.V))
	case List:
		b.WriteString("[")
		writeExprs(b, e.Elems)
		b.WriteString("]")
	case MapLit:
		b.WriteString("{")
		for i, k := range e.Keys {
			if i > 0 {
				b.WriteString(", ")
			}
			b.WriteString(strconv.Quote(k))
			b.WriteString(": ")
			writeExpr(b, e.Vals[i])
		}
		b.WriteString("}")
	case Var:
		b.WriteString(e.Name)
	case Elem:
		b.WriteString(e.Name + "[" + strconv.Itoa(e.I) + "]")
	case Member:
		writeOperand(b, e.X)
		b.WriteString(".")
		b.WriteString(e.Name)
	case Bin:
		writeOperand(b, e.L)
		b.WriteString(" " + e.Op + " ")
		writeOperand(b, e.R)
	case Not:
		b.WriteString("!")
		writeOperand(b, e.X)
	case Incr:
		b.WriteString(e.Name)
		b.WriteString("++")
	case NilCoalesce:
		writeOperand(b, e.L)
		b.WriteString(" ?? ")
		writeOperand(b, e.R)
	case Probe:
		b.WriteString("p(")
		b.WriteString(strconv.Itoa(e.ID))
		if e.Ret != nil {
			b.WriteString(", ")
			writeExpr(b, e.Ret)
		}
		b.WriteString(")")
	case Seq:
		b.WriteString("t(")
		b.WriteString(strconv.Itoa(e.ID))
		b.WriteString(", [")
		writeExprs(b, e.Vals)
		b.WriteString("])")
	case Show:
		b.WriteString("v(")
		writeExprs(b, e.Args)
		b.WriteString(")")
	case Boom:
		b.WriteString("boom(")
		b.WriteString(strconv.Itoa(e.ID))
		b.WriteString(")")
	case HostNilFunc:
		b.WriteString("nilfn")
	case ChanOf:
		b.WriteString("mkch(")
		writeExprs(b, e.Elems)
		b.WriteString(")")
	case *FuncLit:
		b.WriteString("func")
		if e.Name != "" {
			b.WriteString(" ")
			b.WriteString(e.Name)
		}
		b.WriteString("(")
		b.WriteString(strings.Join(e.Params, ", "))
		if e.VarArg {
			b.WriteString("...")
		}
		b.WriteString(") ")
		writeBlock(b, e.Body)
	case Call:
		switch fn := e.Fn.(type) {
		case Var:
			b.WriteString(fn.Name)
		case HostNilFunc:
			b.WriteString("nilfn")
		case *FuncLit:
			writeExpr(b, fn)
		default:
			b.WriteString("(")
			writeExpr(b, e.Fn)
			b.WriteString(")")
		}
		b.WriteString("(")
		writeExprs(b, e.Args)
		b.WriteString(")")
	default:
		panic("ir: unknown expression")
	}
}
