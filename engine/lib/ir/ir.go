// Package ir is a small intermediate representation of anko programs (NOT
// anko's ast and not built by anko's parser), a printer IR -> anko source text
// and a definitional reference interpreter for the IR (refinterp.go).  The
// package does not import anything of mattn/anko: it is the trusted "boring"
// side of the reference-trace checkers C04, C08 and C09.
//
// A program is a []Stmt.  Generators build programs from the node types below,
// Source renders them, Run interprets them and yields the expected probe
// trace, result and error; package irrun executes the rendered text on the
// real interpreter with matching host functions and compares.
//
// Host functions every rendered program may use (bound by irrun):
//
//	p(id)        logs "id", yields nil            (Probe{ID})
//	p(id, x)     logs "id", yields x              (Probe{ID, Ret})
//	t(id, [..])  NOT logged; the n-th call with this id yields element n mod len (Seq)
//	v(x...)      logs the canonical rendering of its arguments, yields nil (Show)
//	boom(id)     logs "boom<id>" and then panics with the error "boom <id>" (Boom)
//	mkch(x...)   yields a closed buffered channel holding x... (ChanOf)
//	nilfn        a variable holding a nil Go function value (HostNilFunc)
package ir

// Expr is an expression node.
type Expr interface{ isExpr() }

// Stmt is a statement node.
type Stmt interface{ isStmt() }

// ---- expressions ----

type (
	// Nil is the literal nil.
	Nil struct{}
	// Bool is true / false.
	Bool struct{ V bool }
	// Int is an integer literal.
	Int struct{ V int64 }
	// Float is a float literal (always rendered with a decimal point).
	Float struct{ V float64 }
	// Str is a string literal.
	Str struct{ V string }
	// List is [e0, e1, ...].
	List struct{ Elems []Expr }
	// MapLit is {"k0": e0, ...}; keys are distinct strings, kept in written order.
	MapLit struct {
		Keys []string
		Vals []Expr
	}
	// Var reads a name (nearest binding); an unbound name is a runtime error.
	Var struct{ Name string }
	// Elem is Name[I]: element I of the list the name holds (constant, in range).
	Elem struct {
		Name string
		I    int
	}
	// Member is X.Name; X must evaluate to a module.
	Member struct {
		X    Expr
		Name string
	}
	// Bin is a binary operation.  Ops: + - * == != < <= > >= && ||.
	// Only the operand kinds the properties define are evaluated (ints, and
	// strings for + == !=; booleans for && ||); anything else is
	// Undetermined.
	Bin struct {
		Op   string
		L, R Expr
	}
	// Not is !X on a boolean.
	Not struct{ X Expr }
	// Incr is Name++ : assigns Name+1 to the nearest binding, yields the new value.
	Incr struct{ Name string }
	// NilCoalesce is L ?? R: R when L is nil or fails, else L.
	NilCoalesce struct{ L, R Expr }
	// Probe is the host call p(ID) or p(ID, Ret).
	Probe struct {
		ID  int
		Ret Expr // nil: yields nil
	}
	// Seq is the host call t(ID, [Vals...]): stateful, not logged.
	Seq struct {
		ID   int
		Vals []Expr
	}
	// Show is the host call v(Args...).
	Show struct{ Args []Expr }
	// Boom is the host call boom(ID): a call that fails.
	Boom struct{ ID int }
	// HostNilFunc is the host variable `nilfn`: a Go function value that is
	// nil.  It is a function as far as `defer` / call syntax goes; calling it
	// fails with a runtime error.
	HostNilFunc struct{}
	// ChanOf is the host call mkch(Elems...).
	ChanOf struct{ Elems []Expr }
	// FuncLit is a function literal.  With a Name it also binds the name in
	// the current block (`func name(params) { body }`).
	FuncLit struct {
		Name   string
		Params []string
		VarArg bool
		Body   []Stmt
	}
	// Call calls the script function Fn evaluates to (Var: named call,
	// anything else: anonymous call).
	Call struct {
		Fn   Expr
		Args []Expr
	}
)

func (Nil) isExpr()         {}
func (Bool) isExpr()        {}
func (Int) isExpr()         {}
func (Float) isExpr()       {}
func (Str) isExpr()         {}
func (List) isExpr()        {}
func (MapLit) isExpr()      {}
func (Var) isExpr()         {}
func (Elem) isExpr()        {}
func (Member) isExpr()      {}
func (Bin) isExpr()         {}
func (Not) isExpr()         {}
func (Incr) isExpr()        {}
func (NilCoalesce) isExpr() {}
func (Probe) isExpr()       {}
func (Seq) isExpr()         {}
func (Show) isExpr()        {}
func (Boom) isExpr()        {}
func (ChanOf) isExpr()      {}
func (HostNilFunc) isExpr() {}
func (*FuncLit) isExpr()    {}
func (Call) isExpr()        {}

// ---- statements ----

type (
	// ExprStmt is an expression used as a statement (the only statement
	// kind whose value is defined).
	ExprStmt struct {
		X   Expr
		Tag int // not rendered; reported through Config.OnSignal when not 0
	}
	// Assign is `a = e` / `a, b = e1, e2`: set the nearest binding, else
	// define in the current block.
	Assign struct {
		Names []string
		Vals  []Expr
	}
	// VarDecl is `var a = e` / `var a, b = e1, e2`: always binds in the current block.
	VarDecl struct {
		Names []string
		Vals  []Expr
	}
	// ElseIf is one `else if` arm.
	ElseIf struct {
		Cond Expr
		Body []Stmt
	}
	// If is if / else if* / else?.
	If struct {
		Cond    Expr
		Then    []Stmt
		ElseIfs []ElseIf
		Else    []Stmt
		HasElse bool
	}
	// Case is one `case e0, e1: body` arm.
	Case struct {
		Exprs []Expr
		Body  []Stmt
	}
	// Switch is a switch statement.  DefaultAt is the number of cases that
	// are written before the default arm (only the rendering depends on it).
	Switch struct {
		Subject    Expr
		Cases      []Case
		Default    []Stmt
		HasDefault bool
		DefaultAt  int
	}
	// Loop is `for { }` (Cond == nil) or `for cond { }`.
	Loop struct {
		Cond Expr
		Body []Stmt
	}
	// CFor is `for init; cond; post { }`; each part may be nil.  Init must
	// be an Assign or VarDecl.
	CFor struct {
		Init Stmt
		Cond Expr
		Post Expr
		Body []Stmt
	}
	// ForIn is `for x in coll { }` / `for k, v in coll { }` (two variables
	// only for maps).
	ForIn struct {
		Vars []string
		Coll Expr
		Body []Stmt
	}
	// Break is `break`.  Tag (not rendered) identifies the statement for
	// Config.OnSignal; 0 = not reported.
	Break struct{ Tag int }
	// Continue is `continue`.
	Continue struct{ Tag int }
	// Return is `return`, `return e`, `return e1, e2`.
	Return struct {
		Vals []Expr
		Tag  int
	}
	// Try is try / catch [var] / finally?.
	Try struct {
		Body       []Stmt
		CatchVar   string
		Catch      []Stmt
		Finally    []Stmt
		HasFinally bool
	}
	// Throw is `throw e`.
	Throw struct {
		X   Expr
		Tag int
	}
	// Defer is `defer call`; Call must be a Call, Probe, Show or Boom.
	Defer struct{ Call Expr }
	// SetElem is `Name[I] = Val`: stores into the list the name holds (lists are
	// shared by reference, as in the language).
	SetElem struct {
		Name string
		I    int
		Val  Expr
	}
	// Close is `close(x)`; every channel of the IR (ChanOf) is already
	// closed, so it fails with Go's "close of closed channel".
	Close struct {
		X   Expr
		Tag int
	}
	// Block is a plain nested block; anko has no such statement, it is
	// rendered as `if true { ... }`.
	Block struct{ Body []Stmt }
	// Module is `module name { body }`.
	Module struct {
		Name string
		Body []Stmt
	}
)

func (ExprStmt) isStmt() {}
func (Assign) isStmt()   {}
func (SetElem) isStmt()  {}
func (VarDecl) isStmt()  {}
func (If) isStmt()       {}
func (Switch) isStmt()   {}
func (Loop) isStmt()     {}
func (CFor) isStmt()     {}
func (ForIn) isStmt()    {}
func (Break) isStmt()    {}
func (Continue) isStmt() {}
func (Return) isStmt()   {}
func (Try) isStmt()      {}
func (Throw) isStmt()    {}
func (Defer) isStmt()    {}
func (Block) isStmt()    {}
func (Close) isStmt()    {}
func (Module) isStmt()   {}

// ---- small constructors (generators read better with them) ----

// P is the statement `p(id)`.
func P(id int) Stmt { return ExprStmt{X: Probe{ID: id}} }

// PV is the statement `p(id, ret)`.
func PV(id int, ret Expr) Stmt { return ExprStmt{X: Probe{ID: id, Ret: ret}} }

// V is the statement `v(args...)`.
func V(args ...Expr) Stmt { return ExprStmt{X: Show{Args: args}} }

// Set is the statement `name = e`.
func Set(name string, e Expr) Stmt { return Assign{Names: []string{name}, Vals: []Expr{e}} }

// Let is the statement `var name = e`.
func Let(name string, e Expr) Stmt { return VarDecl{Names: []string{name}, Vals: []Expr{e}} }

// I is an integer literal.
func I(v int64) Expr { return Int{v} }

// S is a string literal.
func S(v string) Expr { return Str{v} }

// Func is the statement `func name(params) { body }`.
func Func(name string, params []string, body []Stmt) Stmt {
	return ExprStmt{X: &FuncLit{Name: name, Params: params, Body: body}}
}

// CallNamed is the expression `name(args...)`.
func CallNamed(name string, args ...Expr) Expr { return Call{Fn: Var{name}, Args: args} }
