package ir

import (
	"sort"
	"strconv"
	"strings"
)

// Value is a value of the reference interpreter: nil, bool, int64, float64,
// string, *ListV, *MapV, *ChanV, *FuncV, *ErrV, *ModV or UndefV.
type Value interface{}

type (
	// ListV is a slice value.
	ListV struct{ Elems []Value }
	// MapV is a map value with string keys (Keys in insertion order).
	MapV struct {
		Keys []string
		Vals map[string]Value
	}
	// ChanV is a closed buffered channel holding Elems.
	ChanV struct{ Elems []Value }
	// FuncV is a function value: the literal plus the scope it was created
	// in (captured by reference).
	FuncV struct {
		Lit *FuncLit
		Env *Scope
	}
	// ErrV is an error value.  The properties fix very little about its
	// text: for `throw v` the text contains fmt.Sprint(v) (Alts has that
	// one text); Any means the text is unspecified (runtime errors).  When
	// several deferred calls fail the properties do not say whose error
	// surfaces: Alts then lists every allowed text.
	ErrV struct {
		Alts []string
		Any  bool
	}
	// ModV is a module value.
	ModV struct {
		Name  string
		Scope *Scope
	}
	// NilFuncV is the nil Go function value of the host variable nilfn.
	NilFuncV struct{}
	// UndefV is a value the properties leave under-determined (the value
	// of a call whose body ends without `return`).  It may be stored and
	// passed around; observing it makes the run Undetermined.
	UndefV struct{}
)

// Render is the canonical text of a value; irrun renders the Go values the
// real interpreter produces with the same rules.
func Render(v Value) string {
	switch v := v.(type) {
	case nil:
		return "nil"
	case bool:
		if v {
			return "true"
		}
		return "false"
	case int64:
		return strconv.FormatInt(v, 10)
	case float64:
		return FloatText(v)
	case string:
		return strconv.Quote(v)
	case *ListV:
		parts := make([]string, len(v.Elems))
		for i, e := range v.Elems {
			parts[i] = Render(e)
		}
		return "[" + strings.Join(parts, " ") + "]"
	case *MapV:
		keys := append([]string(nil), v.Keys...)
		sort.Strings(keys)
		parts := make([]string, len(keys))
		for i, k := range keys {
			parts[i] = strconv.Quote(k) + ":" + Render(v.Vals[k])
		}
		return "{" + strings.Join(parts, " ") + "}"
	case *ChanV:
		return "chan"
	case *FuncV, NilFuncV:
		return "func"
	case *ErrV:
		return v.Pattern()
	case *ModV:
		return "module"
	case UndefV:
		return "?"
	}
	return "<unknown>"
}

const altSep = "\x1f"

// Pattern is the expected-trace form of an error: "E*" (any error) or
// "E~text1<US>text2" (an error whose message contains one of the texts).
// The observed form is "E=<message>".
func (e *ErrV) Pattern() string {
	if e.Any || len(e.Alts) == 0 {
		return "E*"
	}
	return "E~" + strings.Join(e.Alts, altSep)
}

// MatchEntry reports whether the observed trace entry act is allowed by the
// expected entry exp.
func MatchEntry(exp, act string) bool {
	if strings.HasPrefix(exp, "E*") {
		return strings.HasPrefix(act, "E=")
	}
	if strings.HasPrefix(exp, "E~") {
		if !strings.HasPrefix(act, "E=") {
			return false
		}
		for _, alt := range strings.Split(exp[2:], altSep) {
			if strings.Contains(act[2:], alt) {
				return true
			}
		}
		return false
	}
	return exp == act
}

// MatchErr reports whether the message of an observed error is allowed by e.
func (e *ErrV) MatchErr(msg string) bool { return MatchEntry(e.Pattern(), "E="+msg) }

// ThrowText is the text `throw v` gives its error (fmt.Sprint of the value)
// for the value kinds whose formatting is beyond doubt; ok=false otherwise.
func ThrowText(v Value) (string, bool) {
	switch v := v.(type) {
	case string:
		return v, true
	case int64:
		return strconv.FormatInt(v, 10), true
	case bool:
		return strconv.FormatBool(v), true
	}
	return "", false
}
