package c03

import (
	"fmt"
	"reflect"
	"regexp"
	"strconv"

	"github.com/mattn/anko/ast"
)

func isNilExpr(e ast.Expr) bool {
	if e == nil {
		return true
	}
	v := reflect.ValueOf(e)
	return v.Kind() == reflect.Ptr && v.IsNil()
}

var opClass = map[string]string{
	"||": "binary", "&&": "binary",
	"==": "cmp", "!=": "cmp", "<": "cmp", "<=": "cmp", ">": "cmp", ">=": "cmp",
	"+": "add", "-": "add", "|": "add",
	"*": "mul", "/": "mul", "%": "mul", "<<": "mul", ">>": "mul", "&": "mul",
}

func other(what string, kids ...*Node) *Node { return &Node{Op: "other:" + what, Kids: kids} }

// conv turns anko's tree into the abstract tree; parentheses nodes and
// positions disappear; f(x) (CallExpr by name) and (f)(x) (AnonCallExpr on an
// identifier) are the same call.
func conv(e ast.Expr) *Node {
	if isNilExpr(e) {
		return other("nil")
	}
	switch x := e.(type) {
	case *ast.ParenExpr:
		return conv(x.SubExpr)
	case *ast.IdentExpr:
		return &Node{Op: "id", Name: x.Lit}
	case *ast.LiteralExpr:
		if !x.Literal.IsValid() {
			return other("invalid-literal")
		}
		switch x.Literal.Kind() {
		case reflect.Int64:
			return &Node{Op: "num", Name: strconv.FormatInt(x.Literal.Int(), 10)}
		case reflect.Float64:
			return &Node{Op: "num", Name: strconv.FormatFloat(x.Literal.Float(), 'g', -1, 64)}
		case reflect.String:
			return &Node{Op: "str", Name: x.Literal.String()}
		}
		return other(fmt.Sprintf("literal:%v", x.Literal.Kind()))
	case *ast.OpExpr:
		var op, class string
		var l, r ast.Expr
		switch o := x.Op.(type) {
		case *ast.BinaryOperator:
			op, class, l, r = o.Operator, "binary", o.LHS, o.RHS
		case *ast.ComparisonOperator:
			op, class, l, r = o.Operator, "cmp", o.LHS, o.RHS
		case *ast.AddOperator:
			op, class, l, r = o.Operator, "add", o.LHS, o.RHS
		case *ast.MultiplyOperator:
			op, class, l, r = o.Operator, "mul", o.LHS, o.RHS
		default:
			return other(fmt.Sprintf("%T", x.Op))
		}
		if opClass[op] != class {
			return other("operator "+op+" in class "+class, conv(l), conv(r))
		}
		return &Node{Op: op, Kids: []*Node{conv(l), conv(r)}}
	case *ast.UnaryExpr:
		return &Node{Op: "u" + x.Operator, Kids: []*Node{conv(x.Expr)}}
	case *ast.AddrExpr:
		return &Node{Op: "u&", Kids: []*Node{conv(x.Expr)}}
	case *ast.DerefExpr:
		return &Node{Op: "u*", Kids: []*Node{conv(x.Expr)}}
	case *ast.TernaryOpExpr:
		return &Node{Op: "?:", Kids: []*Node{conv(x.Expr), conv(x.LHS), conv(x.RHS)}}
	case *ast.NilCoalescingOpExpr:
		return &Node{Op: "??", Kids: []*Node{conv(x.LHS), conv(x.RHS)}}
	case *ast.IncludeExpr:
		return &Node{Op: "in", Kids: []*Node{conv(x.ItemExpr), conv(x.ListExpr)}}
	case *ast.CallExpr:
		if x.VarArg || x.Go {
			return other("call-flags")
		}
		return callNode(&Node{Op: "id", Name: x.Name}, x.SubExprs)
	case *ast.AnonCallExpr:
		if x.VarArg || x.Go {
			return other("call-flags")
		}
		return callNode(conv(x.Expr), x.SubExprs)
	case *ast.MemberExpr:
		return &Node{Op: "member", Name: x.Name, Kids: []*Node{conv(x.Expr)}}
	case *ast.ItemExpr:
		return &Node{Op: "index", Kids: []*Node{conv(x.Item), conv(x.Index)}}
	case *ast.SliceExpr:
		b, en, c := !isNilExpr(x.Begin), !isNilExpr(x.End), !isNilExpr(x.Cap)
		switch {
		case b && en && !c:
			return &Node{Op: "slice_be", Kids: []*Node{conv(x.Item), conv(x.Begin), conv(x.End)}}
		case b && !en && !c:
			return &Node{Op: "slice_b", Kids: []*Node{conv(x.Item), conv(x.Begin)}}
		case !b && en && !c:
			return &Node{Op: "slice_e", Kids: []*Node{conv(x.Item), conv(x.End)}}
		case b && en && c:
			return &Node{Op: "slice_bec", Kids: []*Node{conv(x.Item), conv(x.Begin), conv(x.End), conv(x.Cap)}}
		case !b && en && c:
			return &Node{Op: "slice_ec", Kids: []*Node{conv(x.Item), conv(x.End), conv(x.Cap)}}
		}
		return other("slice-shape")
	case *ast.ArrayExpr:
		if x.TypeData != nil {
			return other("typed-array")
		}
		n := &Node{Op: "arr"}
		for _, s := range x.Exprs {
			n.Kids = append(n.Kids, conv(s))
		}
		return n
	}
	return other(fmt.Sprintf("%T", e))
}

func callNode(callee *Node, args []ast.Expr) *Node {
	n := &Node{Op: "call" + strconv.Itoa(len(args)), Kids: []*Node{callee}}
	for _, a := range args {
		n.Kids = append(n.Kids, conv(a))
	}
	return n
}

// fold returns a copy of n in which unary minus applied directly to an
// unsigned number literal has become the negative literal (anko's grammar
// folds '-' NUMBER; the property's "literals denote what is written" makes
// both readings the same expression).
func fold(n *Node) *Node {
	c := &Node{Op: n.Op, Name: n.Name}
	for _, k := range n.Kids {
		c.Kids = append(c.Kids, fold(k))
	}
	if c.Op == "u-" && len(c.Kids) == 1 && c.Kids[0].Op == "num" && len(c.Kids[0].Name) > 0 && c.Kids[0].Name[0] != '-' {
		return &Node{Op: "num", Name: "-" + c.Kids[0].Name}
	}
	return c
}

// ---------- canonical text of a run-time value ----------

var addrRe = regexp.MustCompile(`0x[0-9a-f]{6,16}`)

func canon(v reflect.Value, depth int) string {
	if !v.IsValid() {
		return "nil"
	}
	if depth > 6 {
		return "..."
	}
	switch v.Kind() {
	case reflect.Interface:
		if v.IsNil() {
			return "nil"
		}
		return canon(v.Elem(), depth+1)
	case reflect.Ptr:
		if v.IsNil() {
			return "nilptr"
		}
		return "&" + canon(v.Elem(), depth+1)
	case reflect.Func:
		return "func"
	case reflect.Chan:
		return "chan"
	case reflect.Slice, reflect.Array:
		if v.Kind() == reflect.Slice && v.IsNil() {
			return "nilslice"
		}
		s := "["
		for i := 0; i < v.Len(); i++ {
			if i > 0 {
				s += ","
			}
			s += canon(v.Index(i), depth+1)
		}
		return s + "]"
	case reflect.Map:
		var items []string
		for _, k := range v.MapKeys() {
			items = append(items, canon(k, depth+1)+":"+canon(v.MapIndex(k), depth+1))
		}
		sortStrings(items)
		s := "{"
		for i, it := range items {
			if i > 0 {
				s += ","
			}
			s += it
		}
		return s + "}"
	case reflect.Float64, reflect.Float32:
		return v.Type().String() + ":" + strconv.FormatFloat(v.Float(), 'g', -1, 64)
	case reflect.String:
		// a pointer concatenated to a string prints its address: mask it
		return "string:" + strconv.Quote(addrRe.ReplaceAllString(v.String(), "0xADDR"))
	case reflect.Struct:
		return "struct:" + v.Type().String()
	}
	return fmt.Sprintf("%s:%v", v.Type(), v)
}

func sortStrings(s []string) {
	for i := 1; i < len(s); i++ {
		for j := i; j > 0 && s[j] < s[j-1]; j-- {
			s[j], s[j-1] = s[j-1], s[j]
		}
	}
}
