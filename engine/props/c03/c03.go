// Package c03: the parser builds the tree the source spells out.
//
// Bounded exhaustive exploration: every abstract expression tree of a bounded
// space over the operator table of property C03 is printed twice by refparse
// (minimal parentheses dictated by the table / every implied parenthesis
// explicit), embedded in every statement position that takes an expression,
// parsed by parser.ParseSrc, converted back and compared with the abstract
// tree; both spellings are executed in one fixed environment and must give the
// same value / error status.  Literal spellings are compared with strconv.
package c03

import (
	"fmt"
	"hash/fnv"
	"reflect"
	"regexp"
	"strings"
	"sync"
	"sync/atomic"

	"github.com/mattn/anko/ast"
	"github.com/mattn/anko/env"
	"github.com/mattn/anko/parser"
	"github.com/mattn/anko/vm"
	"verif/engine/common"
	"verif/engine/lib/stepctx"
)

// ---------- statement positions ----------

type ctxDef struct {
	ID        string
	Pre, Post string
	Colon     bool // ':' is a delimiter around the expression
	NoLeadIn  bool // "IDENT in ..." here is the for-in statement, not an expression
	Exec      bool
	Extract   func(ast.Stmt) (ast.Expr, bool)
}

func stmtAt(st ast.Stmt, i int) ast.Stmt {
	ss, ok := st.(*ast.StmtsStmt)
	if !ok || ss == nil || i >= len(ss.Stmts) {
		return nil
	}
	return ss.Stmts[i]
}

func exE(st ast.Stmt) (ast.Expr, bool) {
	if s, ok := stmtAt(st, 0).(*ast.ExprStmt); ok && s != nil {
		return s.Expr, true
	}
	return nil, false
}

func exLET(st ast.Stmt) (ast.Expr, bool) {
	if s, ok := stmtAt(st, 0).(*ast.LetsStmt); ok && s != nil && len(s.LHSS) == 1 && len(s.RHSS) == 1 {
		if id, ok := s.LHSS[0].(*ast.IdentExpr); ok && id.Lit == "x" {
			return s.RHSS[0], true
		}
	}
	return nil, false
}

func exLET2(st ast.Stmt) (ast.Expr, bool) {
	if s, ok := stmtAt(st, 0).(*ast.LetsStmt); ok && s != nil && len(s.LHSS) == 2 && len(s.RHSS) == 2 {
		return s.RHSS[1], true
	}
	return nil, false
}

func exVAR(st ast.Stmt) (ast.Expr, bool) {
	if s, ok := stmtAt(st, 0).(*ast.VarStmt); ok && s != nil && len(s.Names) == 1 && len(s.Exprs) == 1 {
		return s.Exprs[0], true
	}
	return nil, false
}

func exIF(st ast.Stmt) (ast.Expr, bool) {
	if s, ok := stmtAt(st, 0).(*ast.IfStmt); ok && s != nil {
		return s.If, true
	}
	return nil, false
}

func exELIF(st ast.Stmt) (ast.Expr, bool) {
	if s, ok := stmtAt(st, 0).(*ast.IfStmt); ok && s != nil && len(s.ElseIf) == 1 {
		if e, ok := s.ElseIf[0].(*ast.IfStmt); ok && e != nil {
			return e.If, true
		}
	}
	return nil, false
}

func exFOR(st ast.Stmt) (ast.Expr, bool) {
	if s, ok := stmtAt(st, 0).(*ast.LoopStmt); ok && s != nil {
		return s.Expr, true
	}
	return nil, false
}

func exCFOR(st ast.Stmt) (ast.Expr, bool) {
	if s, ok := stmtAt(st, 0).(*ast.CForStmt); ok && s != nil && s.Stmt1 == nil && isNilExpr(s.Expr3) {
		return s.Expr2, true
	}
	return nil, false
}

func exSWITCH(st ast.Stmt) (ast.Expr, bool) {
	if s, ok := stmtAt(st, 0).(*ast.SwitchStmt); ok && s != nil {
		return s.Expr, true
	}
	return nil, false
}

func exCASE(i, n int) func(ast.Stmt) (ast.Expr, bool) {
	return func(st ast.Stmt) (ast.Expr, bool) {
		if s, ok := stmtAt(st, 0).(*ast.SwitchStmt); ok && s != nil && len(s.Cases) == 1 {
			if c, ok := s.Cases[0].(*ast.SwitchCaseStmt); ok && c != nil && len(c.Exprs) == n {
				return c.Exprs[i], true
			}
		}
		return nil, false
	}
}

func funcBody(st ast.Stmt) ast.Stmt {
	if s, ok := stmtAt(st, 0).(*ast.ExprStmt); ok && s != nil {
		if f, ok := s.Expr.(*ast.FuncExpr); ok && f != nil && f.Name == "fn" {
			return stmtAt(f.Stmt, 0)
		}
	}
	return nil
}

func exRET(i, n int) func(ast.Stmt) (ast.Expr, bool) {
	return func(st ast.Stmt) (ast.Expr, bool) {
		if r, ok := funcBody(st).(*ast.ReturnStmt); ok && r != nil && len(r.Exprs) == n {
			return r.Exprs[i], true
		}
		return nil, false
	}
}

func exTHROW(st ast.Stmt) (ast.Expr, bool) {
	if s, ok := stmtAt(st, 0).(*ast.ThrowStmt); ok && s != nil {
		return s.Expr, true
	}
	return nil, false
}

func callArg(e ast.Expr, name string, i, n int) (ast.Expr, bool) {
	if c, ok := e.(*ast.CallExpr); ok && c != nil && c.Name == name && len(c.SubExprs) == n && !c.VarArg {
		return c.SubExprs[i], true
	}
	return nil, false
}

func exARG(i int) func(ast.Stmt) (ast.Expr, bool) {
	return func(st ast.Stmt) (ast.Expr, bool) {
		e, ok := exE(st)
		if !ok {
			return nil, false
		}
		if i == 0 {
			return callArg(e, "f", 0, 1)
		}
		return callArg(e, "g", 1, 2)
	}
}

func exIDX(st ast.Stmt) (ast.Expr, bool) {
	if e, ok := exE(st); ok {
		if it, ok := e.(*ast.ItemExpr); ok && it != nil {
			return it.Index, true
		}
	}
	return nil, false
}

func exSLB(st ast.Stmt) (ast.Expr, bool) {
	if e, ok := exE(st); ok {
		if sl, ok := e.(*ast.SliceExpr); ok && sl != nil && isNilExpr(sl.End) && isNilExpr(sl.Cap) {
			return sl.Begin, true
		}
	}
	return nil, false
}

func exSLE(st ast.Stmt) (ast.Expr, bool) {
	if e, ok := exE(st); ok {
		if sl, ok := e.(*ast.SliceExpr); ok && sl != nil && !isNilExpr(sl.Begin) && isNilExpr(sl.Cap) {
			return sl.End, true
		}
	}
	return nil, false
}

func exLIST(i int) func(ast.Stmt) (ast.Expr, bool) {
	return func(st ast.Stmt) (ast.Expr, bool) {
		if e, ok := exE(st); ok {
			if a, ok := e.(*ast.ArrayExpr); ok && a != nil && len(a.Exprs) == i+1 && a.TypeData == nil {
				return a.Exprs[i], true
			}
		}
		return nil, false
	}
}

func exMAP(key bool) func(ast.Stmt) (ast.Expr, bool) {
	return func(st ast.Stmt) (ast.Expr, bool) {
		if e, ok := exLET(st); ok {
			if m, ok := e.(*ast.MapExpr); ok && m != nil && len(m.Keys) == 1 && len(m.Values) == 1 {
				if key {
					return m.Keys[0], true
				}
				return m.Values[0], true
			}
		}
		return nil, false
	}
}

func exDEFER(st ast.Stmt) (ast.Expr, bool) {
	if d, ok := funcBody(st).(*ast.DeferStmt); ok && d != nil {
		return callArg(d.Expr, "f", 0, 1)
	}
	return nil, false
}

func exGO(st ast.Stmt) (ast.Expr, bool) {
	if g, ok := stmtAt(st, 0).(*ast.GoroutineStmt); ok && g != nil {
		if c, ok := g.Expr.(*ast.CallExpr); ok && c != nil && c.Name == "f" && len(c.SubExprs) == 1 && !c.VarArg {
			return c.SubExprs[0], true
		}
	}
	return nil, false
}

func exLEN(st ast.Stmt) (ast.Expr, bool) {
	if e, ok := exE(st); ok {
		if l, ok := e.(*ast.LenExpr); ok && l != nil {
			return l.Expr, true
		}
	}
	return nil, false
}

// all statement positions; the first six are the quick set.
var allCtxs = []*ctxDef{
	{ID: "E", Exec: true, Extract: exE},
	{ID: "LET", Pre: "x = ", Exec: true, Extract: exLET},
	{ID: "IF", Pre: "if ", Post: " { }", Exec: true, Extract: exIF},
	{ID: "CASE", Pre: "switch 1 {\ncase ", Post: ":\n}", Colon: true, Exec: true, Extract: exCASE(0, 1)},
	{ID: "ARG", Pre: "f(", Post: ")", Exec: true, Extract: exARG(0)},
	{ID: "MAPV", Pre: "x = {\"k\": ", Post: "}", Colon: true, Exec: true, Extract: exMAP(false)},
	{ID: "VAR", Pre: "var x = ", Exec: true, Extract: exVAR},
	{ID: "LET2", Pre: "x, y = 1, ", Exec: true, Extract: exLET2},
	{ID: "ELIF", Pre: "if false { } else if ", Post: " { }", Exec: true, Extract: exELIF},
	{ID: "FOR", Pre: "for ", Post: " { break }", NoLeadIn: true, Exec: true, Extract: exFOR},
	{ID: "CFOR", Pre: "for ; ", Post: " ; { break }", Exec: true, Extract: exCFOR},
	{ID: "SWITCH", Pre: "switch ", Post: " {\ncase 1:\n}", Exec: true, Extract: exSWITCH},
	{ID: "CASE2", Pre: "switch 1 {\ncase 1, ", Post: ":\n}", Colon: true, Exec: true, Extract: exCASE(1, 2)},
	{ID: "RET", Pre: "func fn() {\nreturn ", Post: "\n}\nfn()", Exec: true, Extract: exRET(0, 1)},
	{ID: "RET2", Pre: "func fn() {\nreturn 1, ", Post: "\n}\nfn()", Exec: true, Extract: exRET(1, 2)},
	{ID: "THROW", Pre: "throw ", Exec: true, Extract: exTHROW},
	{ID: "ARG2", Pre: "g(1, ", Post: ")", Exec: true, Extract: exARG(1)},
	{ID: "IDX", Pre: "s[", Post: "]", Exec: true, Extract: exIDX},
	{ID: "SLB", Pre: "s[", Post: ":]", Colon: true, Exec: true, Extract: exSLB},
	{ID: "SLE", Pre: "s[1:", Post: "]", Colon: true, Exec: true, Extract: exSLE},
	{ID: "LIST", Pre: "[", Post: "]", Exec: true, Extract: exLIST(0)},
	{ID: "LIST2", Pre: "[1, ", Post: "]", Exec: true, Extract: exLIST(1)},
	{ID: "MAPK", Pre: "x = {", Post: ": 1}", Colon: true, Exec: true, Extract: exMAP(true)},
	{ID: "DEFER", Pre: "func fn() {\ndefer f(", Post: ")\n}\nfn()", Exec: true, Extract: exDEFER},
	{ID: "GO", Pre: "go f(", Post: ")", Exec: false, Extract: exGO}, // parse only: a goroutine outlives the run
	{ID: "LEN", Pre: "len(", Post: ")", Exec: true, Extract: exLEN},
}

func ctxByID(id string) *ctxDef {
	for _, c := range allCtxs {
		if c.ID == id {
			return c
		}
	}
	return nil
}

var leadInRe = regexp.MustCompile(`^[A-Za-z_][A-Za-z0-9_]* in `)

// ---------- running anko ----------

func parseSrc(src string) (st ast.Stmt, err error, pan string) {
	defer func() {
		if r := recover(); r != nil {
			pan = fmt.Sprint(r)
		}
	}()
	st, err = parser.ParseSrc(src)
	return
}

var panicsSeen int64

func nameIndex(name string) (byte, int) {
	k := 0
	for i := 1; i < len(name); i++ {
		k = k*10 + int(name[i]-'0')
	}
	return name[0], k
}

// bind defines the fixed environment: the value of a name is a function of
// the name alone.
func bind(e *env.Env, name string) {
	c, k := nameIndex(name)
	switch c {
	case 's':
		e.Define(name, []interface{}{int64(2 + k), int64(4), int64(6), int64(8), int64(10), int64(12), int64(3)})
	case 'm':
		e.Define(name, map[string]interface{}{
			"x": map[string]interface{}{"x": int64(5 + k), "y": int64(6)},
			"y": map[string]interface{}{"x": int64(7), "y": int64(8 + k)},
		})
	case 'k':
		e.Define(name, func() int64 { return int64(7 + k) })
	case 'f':
		e.Define(name, func(v interface{}) interface{} { return v })
	case 'g':
		e.Define(name, func(v, w interface{}) interface{} { return []interface{}{v, w} })
	case 'p':
		p := new(int64)
		*p = int64(9 + k)
		e.Define(name, p)
	case 'u', 'x', 'y':
		// not bound
	default:
		li := strings.IndexByte(genericLetters, c)
		if li < 0 {
			return
		}
		idx := li + len(genericLetters)*k
		e.Define(name, int64((idx*5+3)%11+1))
	}
}

const fuel = 3000

// execStmt runs a parsed statement in a fresh copy of the fixed environment.
// status: "ok", "err", "interrupted" (fuel ran out: outside the compared set).
func execStmt(st ast.Stmt, names []string) (status string, val interface{}) {
	defer func() {
		if r := recover(); r != nil {
			atomic.AddInt64(&panicsSeen, 1)
			status, val = "err", nil
		}
	}()
	e := env.NewEnv()
	for _, n := range []string{"f", "g", "s"} {
		bind(e, n)
	}
	for _, n := range names {
		bind(e, n)
	}
	ctx := stepctx.Fuel(fuel)
	v, err := vm.RunContext(ctx, e, &vm.Options{Debug: false}, st)
	if err != nil {
		if err == vm.ErrInterrupt || err.Error() == vm.ErrInterrupt.Error() || ctx.Cancelled() {
			return "interrupted", nil
		}
		return "err", nil
	}
	if ctx.Cancelled() {
		return "interrupted", nil
	}
	return "ok", v
}

func execCanon(st ast.Stmt, names []string) string {
	s, v := execStmt(st, names)
	if s != "ok" {
		return s
	}
	return "ok " + canon(reflect.ValueOf(v), 0)
}

// ---------- the oracle for one (tree, position) ----------

type caseResult struct {
	skipped     bool
	class       string // "" = held
	detail      string
	nontrivial  bool
	interrupted bool
	unstable    bool // value not reproducible run to run (contains an address): not compared
}

func leaf(n *Node) bool { return n.Op == "id" || n.Op == "num" || n.Op == "str" }

func level(op string) int {
	if i, ok := opByKey[op]; ok {
		return i.Level
	}
	return -1
}

// mismatchClass names the operator neighbourhood at the first (top-most,
// left-most) place where the parsed tree leaves the dictated one.
func mismatchClass(exp, got *Node) string {
	if strings.HasPrefix(got.Op, "other:") {
		return "foreign-node/" + exp.Op + "~" + strings.TrimPrefix(got.Op, "other:")
	}
	if exp.Op != got.Op {
		return "root/" + exp.Op + "~" + got.Op
	}
	if len(exp.Kids) != len(got.Kids) {
		return "arity/" + exp.Op
	}
	if exp.Name != got.Name {
		return "operands/" + exp.Op
	}
	for i := range exp.Kids {
		ek, gk := exp.Kids[i], got.Kids[i]
		if ek.equal(gk) {
			continue
		}
		if ek.Op == gk.Op && !leaf(ek) && len(ek.Kids) == len(gk.Kids) {
			return mismatchClass(ek, gk)
		}
		if leaf(ek) && leaf(gk) {
			return "operands/" + exp.Op
		}
		if exp.info().Kind == kPostfix && i > 0 {
			return "operands/" + exp.Op // a bracketed argument holds the wrong expression
		}
		if strings.HasPrefix(gk.Op, "other:") {
			return "foreign-node/" + exp.Op + "-" + ek.Op + "~" + strings.TrimPrefix(gk.Op, "other:")
		}
		c := ek.Op
		if leaf(ek) {
			c = gk.Op
		}
		if level(exp.Op) == level(c) {
			return "assoc/" + exp.Op + "-" + c
		}
		return "prec/" + exp.Op + "-" + c
	}
	return "operands/" + exp.Op
}

func evalCase(t *Node, names []string, cx *ctxDef) (r caseResult) {
	minS := render(t, false, cx.Colon)
	if cx.NoLeadIn && leadInRe.MatchString(minS) {
		r.skipped = true
		return
	}
	fullS := render(t, true, cx.Colon)
	srcMin, srcFull := cx.Pre+minS+cx.Post, cx.Pre+fullS+cx.Post
	stMin, errMin, panMin := parseSrc(srcMin)
	stFull, errFull, panFull := parseSrc(srcFull)
	if panMin != "" || panFull != "" {
		r.class = "parser-panic"
		r.detail = fmt.Sprintf("minimal %q: %s; full %q: %s", srcMin, panMin, srcFull, panFull)
		return
	}
	if errMin != nil || errFull != nil {
		switch {
		case errMin != nil && errFull != nil:
			r.class = "reject/both"
		case errMin != nil:
			r.class = "reject/min"
		default:
			r.class = "reject/full"
		}
		r.detail = fmt.Sprintf("the table dictates %s; minimal spelling %q: %v; explicit spelling %q: %v", t.sexpr(), srcMin, errText(errMin), srcFull, errText(errFull))
		return
	}
	eMin, ok1 := cx.Extract(stMin)
	eFull, ok2 := cx.Extract(stFull)
	if !ok1 || !ok2 {
		r.class = "shape/" + cx.ID
		r.detail = fmt.Sprintf("statement shape of position %s not recognised: minimal %q ok=%v, explicit %q ok=%v", cx.ID, srcMin, ok1, srcFull, ok2)
		return
	}
	exp := fold(t)
	tMin, tFull := fold(conv(eMin)), fold(conv(eFull))
	if !tMin.equal(exp) {
		r.class = mismatchClass(exp, tMin)
		r.detail = fmt.Sprintf("%q parses as %s; the table dictates %s (explicit spelling %q parses as %s)", srcMin, tMin.sexpr(), exp.sexpr(), srcFull, tFull.sexpr())
		return
	}
	if !tFull.equal(exp) {
		r.class = "explicit/" + mismatchClass(exp, tFull)
		r.detail = fmt.Sprintf("explicit spelling %q parses as %s; written tree %s", srcFull, tFull.sexpr(), exp.sexpr())
		return
	}
	if !cx.Exec {
		r.nontrivial = true
		return
	}
	vMin := execCanon(stMin, names)
	vFull := execCanon(stFull, names)
	if vMin == "interrupted" || vFull == "interrupted" {
		r.interrupted = true
		return
	}
	if vMin != vFull {
		// guard against address-dependent values: each spelling must reproduce
		// its own value in a second fresh environment before it is compared
		if execCanon(stMin, names) != vMin || execCanon(stFull, names) != vFull {
			r.unstable = true
			return
		}
		r.class = "value"
		r.detail = fmt.Sprintf("%q evaluates to [%s] but %q to [%s]", srcMin, vMin, srcFull, vFull)
		return
	}
	r.nontrivial = true
	return
}

func errText(e error) string {
	if e == nil {
		return "accepted"
	}
	return "parse error: " + e.Error()
}

// ---------- minimisation of a failing case (deterministic, greedy) ----------

func valid(n *Node) bool {
	info := n.info()
	if len(n.Kids) != info.Arity && n.Op != "id" {
		return false
	}
	for i, k := range n.Kids {
		if k.Op != "id" && !allowed(info, i, k.info()) {
			return false
		}
		if !valid(k) {
			return false
		}
	}
	return true
}

// candidates: every tree obtained by hoisting one operand over its parent or
// by replacing one operator node (not the root) by an identifier.
func candidates(root *Node) []*Node {
	var out []*Node
	var paths [][]int
	var walk func(n *Node, p []int)
	walk = func(n *Node, p []int) {
		if n.Op == "id" {
			return
		}
		paths = append(paths, append([]int{}, p...))
		for i, k := range n.Kids {
			walk(k, append(p, i))
		}
	}
	walk(root, nil)
	at := func(r *Node, p []int) *Node {
		for _, i := range p {
			r = r.Kids[i]
		}
		return r
	}
	replace := func(p []int, with *Node) *Node {
		c := root.clone()
		if len(p) == 0 {
			return with.clone()
		}
		par := at(c, p[:len(p)-1])
		par.Kids[p[len(p)-1]] = with.clone()
		return c
	}
	for _, p := range paths {
		n := at(root, p)
		for _, k := range n.Kids {
			if k.Op != "id" {
				out = append(out, replace(p, k))
			}
		}
	}
	for _, p := range paths {
		if len(p) > 0 {
			out = append(out, replace(p, &Node{Op: "id"}))
		}
	}
	var ok []*Node
	for _, c := range out {
		if valid(c) {
			ok = append(ok, c)
		}
	}
	return ok
}

// family groups the classes a failing case may move between while it is
// being minimised: all "the parsed tree is not the dictated one" classes are
// one family (the class of the minimal case is the one reported).
func family(class string) string {
	for _, p := range []string{"assoc/", "prec/", "operands/", "root/", "foreign-node/", "arity/"} {
		if strings.HasPrefix(class, p) {
			return "tree"
		}
	}
	if strings.HasPrefix(class, "explicit/") {
		return "explicit"
	}
	return class
}

// minMemo caches oracle results of the (small) trees visited while failing
// cases are minimised; the minimal spelling identifies the tree.
var minMemo sync.Map

func evalMemo(t *Node, names []string, cx *ctxDef) caseResult {
	k := cx.ID + "\x00" + render(t, false, cx.Colon)
	if v, ok := minMemo.Load(k); ok {
		return v.(caseResult)
	}
	r := evalCase(t, names, cx)
	if !r.unstable && !r.interrupted {
		minMemo.Store(k, r)
	}
	return r
}

func minimise(t *Node, cx *ctxDef, fam string) (*Node, *ctxDef, caseResult) {
	cur := t.clone()
	names := nameLeaves(cur)
	res := evalCase(cur, names, cx)
	for {
		changed := false
		for _, c := range candidates(cur) {
			cn := nameLeaves(c)
			r := evalMemo(c, cn, cx)
			if !r.skipped && r.class != "" && family(r.class) == fam {
				cur, res, changed = c, r, true
				break
			}
		}
		if !changed {
			break
		}
	}
	if cx.ID != "E" {
		e := ctxByID("E")
		r := evalMemo(cur, nameLeaves(cur), e)
		if r.class != "" && family(r.class) == fam {
			// re-minimise in the plain position
			return minimise(cur, e, fam)
		}
	}
	nameLeaves(cur)
	return cur, cx, res
}

func finalClass(base string, t *Node, cx *ctxDef) string {
	cl := base
	if base == "value" || strings.HasPrefix(base, "reject/") || base == "parser-panic" || strings.HasPrefix(base, "shape/") {
		cl = base + "/" + t.sig()
	}
	if cx.ID != "E" {
		cl += "@" + cx.ID
	}
	return cl
}

type treeReplay struct {
	Kind string   `json:"kind"` // "tree" | "lit"
	Ctx  string   `json:"ctx"`
	Tree *Node    `json:"tree,omitempty"`
	Lit  *litCase `json:"lit,omitempty"`
}

// ---------- distinct counting ----------

type hashSet struct {
	shards [256]struct {
		mu sync.Mutex
		m  map[uint64]struct{}
	}
}

func newHashSet() *hashSet {
	h := &hashSet{}
	for i := range h.shards {
		h.shards[i].m = map[uint64]struct{}{}
	}
	return h
}

func (h *hashSet) add(s string) bool {
	f := fnv.New64a()
	f.Write([]byte(s))
	k := f.Sum64()
	sh := &h.shards[k&255]
	sh.mu.Lock()
	_, dup := sh.m[k]
	if !dup {
		sh.m[k] = struct{}{}
	}
	sh.mu.Unlock()
	return !dup
}

func (h *hashSet) size() int64 {
	var n int64
	for i := range h.shards {
		n += int64(len(h.shards[i].m))
	}
	return n
}

// ---------- the run ----------

type plan struct {
	sp   *space
	ctxs []*ctxDef
}

func plans(thorough bool) []plan {
	all := opTable
	reps := repOps()
	if !thorough {
		q := allCtxs[:6]
		return []plan{
			{&space{"A:all-ops depth<=2 nodes<=3", all, 2, 3}, q},
			{&space{"A4:all-ops depth<=2 nodes<=4", all, 2, 4}, q[:2]},
			{&space{"B:all-ops depth<=3 nodes<=3", all, 3, 3}, q[:2]},
			{&space{"C:level-representatives depth<=3 nodes<=4", reps, 3, 4}, q[:2]},
		}
	}
	return []plan{
		{&space{"A:all-ops depth<=2 nodes<=3", all, 2, 3}, allCtxs},
		{&space{"A4:all-ops depth<=2 nodes<=4", all, 2, 4}, allCtxs[:6]},
		{&space{"B:all-ops depth<=3 nodes<=3", all, 3, 3}, allCtxs[:6]},
		{&space{"C:all-ops depth<=3 nodes<=4", all, 3, 4}, allCtxs[:1]},
		{&space{"D:level-representatives depth<=4 nodes<=5", reps, 4, 5}, allCtxs[:1]},
	}
}

type counters struct {
	trees, evals, nontrivial, skippedIn, interrupted, unstable, failing int64
}

// doTree checks one named tree in every position of ctxs.
func doTree(res *common.Result, seen *hashSet, report func(common.Violation), root *Node, names []string, spName string, ctxs []*ctxDef, seq int64, cn *counters) {
	for ci, cx := range ctxs {
		r := evalCase(root, names, cx)
		if r.skipped {
			cn.skippedIn++
			continue
		}
		cn.evals++
		if r.interrupted {
			cn.interrupted++
		}
		if r.unstable {
			cn.unstable++
		}
		if r.nontrivial {
			if seen.add(cx.ID + "\x00" + render(root, false, cx.Colon)) {
				cn.nontrivial++
			}
			if seq%40009 == 11 && ci == int(seq/40009)%len(ctxs) {
				res.Sample(map[string]interface{}{"space": spName, "position": cx.ID, "tree": root.sexpr(),
					"minimal": cx.Pre + render(root, false, cx.Colon) + cx.Post, "explicit": cx.Pre + render(root, true, cx.Colon) + cx.Post})
			}
		}
		if r.class != "" {
			cn.failing++
			mt, mcx, mr := minimise(root, cx, family(r.class))
			report(common.Violation{
				Class:  finalClass(mr.class, mt, mcx),
				Case:   mcx.Pre + render(mt, false, mcx.Colon) + mcx.Post,
				Detail: mr.detail,
				Replay: treeReplay{Kind: "tree", Ctx: mcx.ID, Tree: mt},
			})
		}
	}
}

func (cn *counters) flush(res *common.Result, spName string) {
	res.Add("trees", cn.trees)
	res.Add("trees:"+spName, cn.trees)
	res.Add("evaluations", cn.evals)
	res.Add("evaluations:"+spName, cn.evals)
	res.Add("nontrivial", cn.nontrivial)
	res.Add("skipped_for_in_head", cn.skippedIn)
	res.Add("fuel_exhausted", cn.interrupted)
	res.Add("address_dependent_values_not_compared", cn.unstable)
	res.Add("failing_cases_before_minimisation", cn.failing)
}

func run(c *common.Ctx) *common.Result {
	res := common.NewResult()
	seen := newHashSet()
	reported := map[string]bool{}
	var rmu sync.Mutex
	report := func(v common.Violation) {
		rmu.Lock()
		k := v.Class + "\x00" + v.Case
		dup := reported[k]
		reported[k] = true
		rmu.Unlock()
		if !dup {
			res.Violate(v)
		}
	}

	runLiterals(c, res, seen, report)
	runTight(c, res, seen, report)

	ps := plans(c.Thorough())
	type batch struct {
		seq   int64
		trees []*Node
	}
	for pi, p := range ps {
		p := p
		ch := make(chan batch, 64)
		var capped int32
		go func() { // producer: enumerates the space once, in a fixed order
			defer close(ch)
			var seq int64
			cur := batch{}
			for _, it := range p.sp.items() {
				if c.Expired() {
					atomic.StoreInt32(&capped, 1)
					return
				}
				p.sp.enumItem(it, func(root *Node) {
					d, n := root.depth(), root.nodes()
					for _, q := range ps[:pi] { // already explored (earlier spaces use all operators and a superset of positions)
						if d <= q.sp.maxDepth && n <= q.sp.maxNodes {
							return
						}
					}
					cur.trees = append(cur.trees, root.clone())
					seq++
					if len(cur.trees) == 256 {
						ch <- cur
						cur = batch{seq: seq}
					}
				})
			}
			if len(cur.trees) > 0 {
				ch <- cur
			}
		}()
		common.ParallelFor(c, c.J, func(int) {
			var cn counters
			var maxDepth, maxNodes int64
			for b := range ch {
				if c.Expired() {
					atomic.StoreInt32(&capped, 1)
					continue // drain
				}
				for ti, root := range b.trees {
					seq := b.seq + int64(ti)
					d, n := root.depth(), root.nodes()
					names := nameLeaves(root)
					cn.trees++
					if int64(d) > maxDepth {
						maxDepth = int64(d)
					}
					if int64(n) > maxNodes {
						maxNodes = int64(n)
					}
					doTree(res, seen, report, root, names, p.sp.name, p.ctxs, seq, &cn)
				}
			}
			cn.flush(res, p.sp.name)
			res.Max("depth", maxDepth)
			res.Max("operator_nodes", maxNodes)
		})
		if capped != 0 {
			res.Cap("soft deadline reached in space " + p.sp.name)
			break
		}
	}
	res.Add("panics_inside_vm_recovered_by_harness", atomic.LoadInt64(&panicsSeen))
	res.Add("distinct_nontrivial_measured", seen.size())
	return res
}

var litSamples int64

func runLiterals(c *common.Ctx, res *common.Result, seen *hashSet, report func(common.Violation)) {
	maxStr := 3
	if c.Thorough() {
		maxStr = 4
	}
	nums, scanned := numberCases(5)
	strs := stringCases(maxStr)
	res.Add("literal_strings_scanned", scanned)
	res.Add("number_spellings", int64(len(nums)))
	res.Add("string_spellings", int64(len(strs)))
	cases := append(nums, strs...)
	common.ParallelFor(c, len(cases), func(i int) {
		lc := &cases[i]
		var evals, nontriv int64
		for _, cx := range litCtxs {
			if (cx.ID == "SUBR" || cx.ID == "ADDL") && lc.Want == "string" {
				continue
			}
			evals++
			class, detail, nt := checkLit(lc, cx)
			if nt && seen.add("lit\x00"+cx.ID+"\x00"+lc.Src) {
				nontriv++
			}
			if class != "" {
				cs := lc.Src
				if cx.ID != "E" {
					class += "@" + cx.ID
					cs = cx.Pre + lc.Src + cx.Post
				}
				report(common.Violation{Class: class, Case: cs, Detail: detail, Replay: treeReplay{Kind: "lit", Ctx: cx.ID, Lit: lc}})
				break // one report per spelling: the first position where it fails
			}
		}
		res.Add("evaluations", evals)
		res.Add("evaluations:literals", evals)
		res.Add("nontrivial", nontriv)
		if i%4001 == 3 && atomic.AddInt64(&litSamples, 1) <= 4 {
			res.Sample(map[string]interface{}{"space": "literals", "spelling": lc.Src, "form": lc.Form, "denotes": wantText(lc)})
		}
	})
}

func coverage(c *common.Ctx, r *common.Result) map[string]interface{} {
	cov := map[string]interface{}{
		"evaluations":         r.Counts["evaluations"],
		"distinct_nontrivial": r.Counts["distinct_nontrivial_measured"],
		"rule":                "a case is (abstract tree, statement position) or (literal spelling, position); it is counted as non-trivial when both spellings parsed, both parsed trees were converted and found equal to the abstract tree, and (in executing positions) both executions ended before the fuel ran out with equal value/error status — for literals: the spelling was parsed and its value compared with strconv's (or it had to be rejected and was); distinctness is measured with a hash set over position+minimal spelling",
		"trees":               r.Counts["trees"],
		"max_depth":           r.GetMax("depth"),
		"max_operator_nodes":  r.GetMax("operator_nodes"),
		"operators":           len(opTable),
	}
	var spaces []string
	for _, p := range plans(c.Thorough()) {
		var ids []string
		for _, cx := range p.ctxs {
			ids = append(ids, cx.ID)
		}
		spaces = append(spaces, fmt.Sprintf("%s: %d trees x positions %v = %d evaluations", p.sp.name, r.Counts["trees:"+p.sp.name], ids, r.Counts["evaluations:"+p.sp.name]))
	}
	spaces = append(spaces, fmt.Sprintf("%s: %d literals x 18 operators x operands/shapes = %d trees x %d positions = %d evaluations", tightName, len(tightLiterals), r.Counts["trees:"+tightName], len(tightCtxs(c.Thorough())), r.Counts["evaluations:"+tightName]))
	spaces = append(spaces, fmt.Sprintf("literals: %d number spellings (all %d strings of length<=5 over %q classified, plus boundaries), %d string spellings = %d evaluations",
		r.Counts["number_spellings"], r.Counts["literal_strings_scanned"], numAlphabet, r.Counts["string_spellings"], r.Counts["evaluations:literals"]))
	cov["spaces"] = spaces
	return cov
}

func replay(c *common.Ctx, path string) int {
	var rp treeReplay
	if _, _, err := common.ReadReplay(path, &rp); err != nil {
		fmt.Println("cannot read replay:", err)
		return 2
	}
	var first string
	for round := 0; round < 2; round++ {
		var obs string
		switch rp.Kind {
		case "tree":
			cx := ctxByID(rp.Ctx)
			if cx == nil || rp.Tree == nil || !valid(rp.Tree) {
				fmt.Println("bad replay file")
				return 2
			}
			t := rp.Tree.clone()
			names := nameLeaves(t)
			r := evalCase(t, names, cx)
			if round == 0 {
				fmt.Printf("position %s, tree %s\nminimal : %s\nexplicit: %s\n", cx.ID, t.sexpr(), cx.Pre+render(t, false, cx.Colon)+cx.Post, cx.Pre+render(t, true, cx.Colon)+cx.Post)
			}
			obs = r.class + " | " + r.detail
			if r.class == "" {
				obs = ""
			}
		case "lit":
			var cx *litCtx
			for _, l := range litCtxs {
				if l.ID == rp.Ctx {
					cx = l
				}
			}
			if cx == nil || rp.Lit == nil {
				fmt.Println("bad replay file")
				return 2
			}
			class, detail, _ := checkLit(rp.Lit, cx)
			if round == 0 {
				fmt.Printf("literal %q (%s) in position %s\n", rp.Lit.Src, rp.Lit.Form, cx.ID)
			}
			if class != "" {
				obs = class + " | " + detail
			}
		default:
			fmt.Println("bad replay kind")
			return 2
		}
		if round == 0 {
			first = obs
		} else if obs != first {
			fmt.Printf("NONDETERMINISTIC replay: %q vs %q\n", first, obs)
			return 2
		}
	}
	if first == "" {
		fmt.Println("replay: the parser agrees with the table")
		return 0
	}
	fmt.Println("divergence:", first)
	return 1
}

func init() {
	common.Register(&common.Prop{
		ID: "C03", Level: "exploration", Run: run, Coverage: coverage, Replay: replay,
		Assumptions: []string{
			"operator table exactly as written in the property: ?: and ?? (right-assoc) < || < && < comparisons < + - | < * / % << >> & < in < unary - ! ^ & * < postfix call/index/slice/member; binary operators left-associative; the middle operand of ?: is bracketed by ? and :",
			"alphabet: 20 binary operators, ?:, 5 unary operators, call with 0/1/2 arguments, index, the five slice forms, member, number/string literals and a 2-element list literal; identifiers elsewhere; outside the alphabet: <- ++ -- op= binary ^ (the table does not mention them), map literals as operands",
			"a number literal is never the direct base of a postfix form and '-' applied to an unsigned number literal is identified with the negative literal (anko folds '-' NUMBER); both readings of -1[0] are allowed by the property",
			"a ternary is parenthesised where ':' delimits (slice bounds, map entries, case heads); an expression whose minimal spelling starts with 'IDENT in' is not placed in a for head; binary operators are printed with blanks around them",
			"values: one fixed environment (int64 identifiers, slices, nested maps, Go functions of arity 0/1/2, a pointer, one unbound name); error messages are not compared, only value or error-vs-success; runs that exhaust the fuel of 3000 polls are outside the compared set; 'go' position is parsed but not executed",
			"literals: the checker's own classifier (decimal (redundant leading zeros allowed and read in base 10: the language has no octal form), 0x/0X hex, 0b/0B binary, float = digits '.' digits [exp] or digits exp, optional leading '-'); strings over plain characters and the escapes \\\\ \\\" \\' \\n \\t \\r \\b \\f; other backslash pairs, '1.' and '.5' are under-determined and not generated",
		},
	})
}
