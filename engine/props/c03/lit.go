package c03

import (
	"fmt"
	"reflect"
	"strconv"
	"strings"

	"github.com/mattn/anko/ast"
)

// litCase is one literal spelling with what the property says it denotes.
type litCase struct {
	Src  string  `json:"src"`
	Form string  `json:"form"` // dec hex bin float (prefixed "neg" when signed) dq sq raw
	Want string  `json:"want"` // int float string reject
	I    int64   `json:"i,omitempty"`
	F    float64 `json:"f,omitempty"`
	S    string  `json:"s,omitempty"`
}

const numAlphabet = "0179afFxXbBeE.+-_"

func isDigits(s string, set string) bool {
	if s == "" {
		return false
	}
	for i := 0; i < len(s); i++ {
		if strings.IndexByte(set, s[i]) < 0 {
			return false
		}
	}
	return true
}

// decimal digit string.  Redundant leading zeros are allowed: the language has
// decimal, hexadecimal (0x) and binary (0b) integers and no octal form, so
// "010" is written in base 10 and denotes ten ("literals denote exactly what is
// written"); the reference is strconv.ParseInt(s, 10, 64).
func isDecInt(s string) bool {
	return isDigits(s, "0123456789")
}

func leadingZero(s string) bool { return len(s) > 1 && s[0] == '0' }

// classify is the checker's own literal grammar:
//
//	dec   = digit { digit }                   (leading zeros allowed, still base 10)
//	hex   = "0" ("x"|"X") hexdigit+          bin = "0" ("b"|"B") ("0"|"1")+
//	float = dec "." digit+ [exp] | dec exp    exp = ("e"|"E") ["+"|"-"] digit+
//
// optionally preceded by one "-".  Everything else is not a literal spelling
// of the property's four number forms.
func classify(s string) (lc litCase, ok bool) {
	lc.Src = s
	body, neg := s, false
	if strings.HasPrefix(s, "-") {
		body, neg = s[1:], true
	}
	sign := ""
	if neg {
		sign = "-"
	}
	form := ""
	switch {
	case isDecInt(body):
		form = "dec"
		if leadingZero(body) {
			form = "dec0" // decimal with redundant leading zeros
		}
		v, err := strconv.ParseInt(sign+body, 10, 64)
		lc.Want, lc.I = "int", v
		if err != nil {
			lc.Want = "reject"
		}
	case len(body) > 2 && body[0] == '0' && (body[1] == 'x' || body[1] == 'X') && isDigits(body[2:], "0123456789abcdefABCDEF"):
		form = "hex"
		v, err := strconv.ParseInt(sign+body[2:], 16, 64)
		lc.Want, lc.I = "int", v
		if err != nil {
			lc.Want = "reject"
		}
	case len(body) > 2 && body[0] == '0' && (body[1] == 'b' || body[1] == 'B') && isDigits(body[2:], "01"):
		form = "bin"
		v, err := strconv.ParseInt(sign+body[2:], 2, 64)
		lc.Want, lc.I = "int", v
		if err != nil {
			lc.Want = "reject"
		}
	default:
		mant, exp := body, ""
		if i := strings.IndexAny(body, "eE"); i >= 0 {
			mant, exp = body[:i], body[i+1:]
			if exp != "" && (exp[0] == '+' || exp[0] == '-') {
				exp = exp[1:]
			}
			if !isDigits(exp, "0123456789") {
				return lc, false
			}
		}
		ip, fp, hasDot := mant, "", false
		if i := strings.IndexByte(mant, '.'); i >= 0 {
			ip, fp, hasDot = mant[:i], mant[i+1:], true
		}
		if !isDecInt(ip) || (hasDot && !isDigits(fp, "0123456789")) || (!hasDot && exp == "") {
			return lc, false
		}
		form = "float"
		v, err := strconv.ParseFloat(s, 64)
		lc.Want, lc.F = "float", v
		if err != nil {
			lc.Want, lc.F = "reject", 0
		}
	}
	if neg {
		form = "neg" + form
	}
	lc.Form = form
	return lc, true
}

var boundarySpellings = []string{
	"9223372036854775807", "9223372036854775808", "-9223372036854775808", "-9223372036854775809",
	"18446744073709551615", "18446744073709551616", "-18446744073709551616", "99999999999999999999",
	"0x7fffffffffffffff", "0x7FFFFFFFFFFFFFFF", "0x8000000000000000", "-0x8000000000000000", "-0x8000000000000001",
	"0xffffffffffffffff", "0x10000000000000000", "-0x7fffffffffffffff", "0X7fffffffffffffff",
	"0b" + strings.Repeat("1", 63), "0b1" + strings.Repeat("0", 63), "-0b1" + strings.Repeat("0", 63), "-0b" + strings.Repeat("1", 63),
	"0b" + strings.Repeat("1", 64), "0B" + strings.Repeat("1", 63),
	"1e308", "1.7976931348623157e308", "1.7976931348623158e308", "1.7976931348623159e308", "1e309", "-1e309", "-1e308", "1E308", "1E309",
	"1.0e+308", "1.0e+309", "17976931348623157e292", "2e308",
	"4.9e-324", "5e-324", "2e-324", "1e-323", "1e-400", "-1e-400", "2.2250738585072014e-308",
	"9007199254740993", "9007199254740993.0", "9007199254740992.0", "0.1", "0.30000000000000004", "123456789.125", "1.5e3", "1.5E-3",
	"08", "09", "00", "000", "010", "0777", "0008", "0089", "-010", "-0019", "-08", "-00", "0123456789", "00000000000000000009", "-00000000000000000008",
	"09223372036854775807", "09223372036854775808", "-09223372036854775808", "010.5", "01e1", "08.5", "-09e1", "00.0",
	"0.0", "-0.0", "0e0", "10", "100", "255", "0xff", "0XFF", "0xFf", "0b1010", "0B1010", "-0b1010", "-0B11", "-0xff", "-255", "-1.25", "-1e2",
}

// numberCases: every string of length <= maxLen over numAlphabet that
// classify accepts, plus the boundary spellings.
func numberCases(maxLen int) (cases []litCase, scanned int64) {
	seen := map[string]bool{}
	buf := make([]byte, 0, maxLen)
	var rec func()
	rec = func() {
		if len(buf) > 0 {
			scanned++
			if lc, ok := classify(string(buf)); ok {
				seen[lc.Src] = true
				cases = append(cases, lc)
			}
		}
		if len(buf) == maxLen {
			return
		}
		for i := 0; i < len(numAlphabet); i++ {
			buf = append(buf, numAlphabet[i])
			rec()
			buf = buf[:len(buf)-1]
		}
	}
	rec()
	for _, s := range boundarySpellings {
		if seen[s] {
			continue
		}
		lc, ok := classify(s)
		if !ok {
			panic("c03: boundary spelling not a literal of the checker's grammar: " + s)
		}
		seen[s] = true
		cases = append(cases, lc)
	}
	return cases, scanned
}

// ---------- strings ----------

type atom struct{ src, val string }

var escAtoms = []atom{{`\\`, "\\"}, {`\"`, `"`}, {`\'`, `'`}, {`\n`, "\n"}, {`\t`, "\t"}, {`\r`, "\r"}, {`\b`, "\b"}, {`\f`, "\f"}}

func plainAtoms(chars string) []atom {
	var a []atom
	for _, r := range chars {
		a = append(a, atom{string(r), string(r)})
	}
	return a
}

// stringCases: all sequences of at most maxLen atoms inside "..." , '...'
// (plain characters and the eight escapes that anko's lexer and Go define the
// same way) and `...` (no escapes; everything verbatim, including a newline).
func stringCases(maxLen int) []litCase {
	var out []litCase
	build := func(form, open, cls string, atoms []atom) {
		var rec func(src, val string, n int)
		rec = func(src, val string, n int) {
			out = append(out, litCase{Src: open + src + cls, Form: form, Want: "string", S: val})
			if n == maxLen {
				return
			}
			for _, a := range atoms {
				rec(src+a.src, val+a.val, n+1)
			}
		}
		rec("", "", 0)
	}
	build("dq", `"`, `"`, append(plainAtoms("a #/*`'"), escAtoms...))
	build("sq", `'`, `'`, append(plainAtoms("a #/*`\""), escAtoms...))
	build("raw", "`", "`", plainAtoms("an #/*\\\"'\n"))
	return out
}

// ---------- the literal oracle ----------

type litCtx struct {
	ID, Pre, Post string
	Exec          bool
	Extract       func(ast.Stmt) (ast.Expr, bool)
}

var litCtxs = []*litCtx{
	{ID: "E", Exec: true, Extract: exE},
	{ID: "LET", Pre: "x = ", Exec: true, Extract: exLET},
	{ID: "LIST2", Pre: "[1, ", Post: "]", Extract: exLIST(1)},
	{ID: "ARG", Pre: "f(", Post: ")", Extract: exARG(0)},
	{ID: "SUBR", Pre: "1 - ", Post: "", Extract: exBinRHS},
	{ID: "ADDL", Pre: "", Post: " + 1", Exec: true, Extract: exAddLHS},
}

// exAddLHS: the literal is the left operand of "L + 1"; executing it must give
// the literal's value plus one (checked by execAdd1).
func exAddLHS(st ast.Stmt) (ast.Expr, bool) {
	e, ok := exE(st)
	if !ok {
		return nil, false
	}
	o, ok := e.(*ast.OpExpr)
	if !ok {
		return nil, false
	}
	a, ok := o.Op.(*ast.AddOperator)
	if !ok || a.Operator != "+" {
		return nil, false
	}
	if r, ok := a.RHS.(*ast.LiteralExpr); !ok || !r.Literal.IsValid() || r.Literal.Kind() != reflect.Int64 || r.Literal.Int() != 1 {
		return nil, false
	}
	return a.LHS, true
}

func exBinRHS(st ast.Stmt) (ast.Expr, bool) {
	e, ok := exE(st)
	if !ok {
		return nil, false
	}
	o, ok := e.(*ast.OpExpr)
	if !ok {
		return nil, false
	}
	a, ok := o.Op.(*ast.AddOperator)
	if !ok || a.Operator != "-" {
		return nil, false
	}
	if l, ok := a.LHS.(*ast.LiteralExpr); !ok || !l.Literal.IsValid() || l.Literal.Kind() != reflect.Int64 || l.Literal.Int() != 1 {
		return nil, false
	}
	return a.RHS, true
}

// litValue reads the value an expression that spells a literal denotes: the
// literal node itself, or unary minus applied to a numeric literal node.
func litValue(e ast.Expr) (interface{}, bool) {
	switch x := e.(type) {
	case *ast.ParenExpr:
		return litValue(x.SubExpr)
	case *ast.LiteralExpr:
		if !x.Literal.IsValid() || !x.Literal.CanInterface() {
			return nil, false
		}
		return x.Literal.Interface(), true
	case *ast.UnaryExpr:
		if x.Operator != "-" {
			return nil, false
		}
		v, ok := litValue(x.Expr)
		if !ok {
			return nil, false
		}
		switch n := v.(type) {
		case int64:
			return -n, true
		case float64:
			return -n, true
		}
	}
	return nil, false
}

func sameLit(lc *litCase, v interface{}) (bool, string) {
	switch lc.Want {
	case "int":
		if i, ok := v.(int64); ok && i == lc.I {
			return true, ""
		}
		return false, fmt.Sprintf("want int64 %d, got %T %v", lc.I, v, v)
	case "float":
		if f, ok := v.(float64); ok && f == lc.F {
			return true, ""
		}
		return false, fmt.Sprintf("want float64 %v, got %T %v", lc.F, v, v)
	case "string":
		if s, ok := v.(string); ok && s == lc.S {
			return true, ""
		}
		return false, fmt.Sprintf("want string %q, got %T %#v", lc.S, v, v)
	}
	return false, "bad case"
}

// checkLit: class "" when the literal behaves as the property says in cx.
func checkLit(lc *litCase, cx *litCtx) (class, detail string, nontrivial bool) {
	src := cx.Pre + lc.Src + cx.Post
	st, err, pan := parseSrc(src)
	if pan != "" {
		return "literal/" + lc.Form + "/panic", "parser panicked on " + strconv.Quote(src) + ": " + pan, false
	}
	if lc.Want == "reject" {
		if err == nil {
			return "literal/" + lc.Form + "/accepted", fmt.Sprintf("%q is not representable but the parser accepted %q", lc.Src, src), false
		}
		return "", "", true
	}
	if err != nil {
		return "literal/" + lc.Form + "/rejected", fmt.Sprintf("%q should denote %s but %q is rejected: %v", lc.Src, wantText(lc), src, err), false
	}
	e, ok := cx.Extract(st)
	if !ok {
		return "literal/" + lc.Form + "/shape", fmt.Sprintf("%q did not parse to the statement shape of context %s", src, cx.ID), false
	}
	v, ok := litValue(e)
	if !ok {
		return "literal/" + lc.Form + "/shape", fmt.Sprintf("%q in %q did not parse to a literal (got %s)", lc.Src, src, conv(e).sexpr()), false
	}
	if ok, d := sameLit(lc, v); !ok {
		return "literal/" + lc.Form + "/value", fmt.Sprintf("%q parsed in %q: %s", lc.Src, src, d), false
	}
	if cx.Exec {
		out, rv := execStmt(st, nil)
		if out != "ok" {
			return "literal/" + lc.Form + "/exec", fmt.Sprintf("%q executed: %s", src, out), false
		}
		want := *lc
		if cx.ID == "ADDL" {
			switch lc.Want {
			case "int":
				want.I = lc.I + 1 // wraps like the VM's int64 addition
			case "float":
				want.F = lc.F + 1
			}
		}
		if ok, d := sameLit(&want, rv); !ok {
			return "literal/" + lc.Form + "/exec-value", fmt.Sprintf("%q executed: %s", src, d), false
		}
	}
	return "", "", true
}

func wantText(lc *litCase) string {
	switch lc.Want {
	case "int":
		return fmt.Sprintf("int64 %d", lc.I)
	case "float":
		return fmt.Sprintf("float64 %v", lc.F)
	case "string":
		return fmt.Sprintf("string %q", lc.S)
	}
	return lc.Want
}
