package c03

import (
	"strconv"

	"verif/engine/common"
)

// The "tight" space: number literals of every base, chosen so that their LAST
// character is each character that has a meaning elsewhere in number syntax
// (e E b B x-prefix digits, a-f A-F, plain digits, exponent digits), written
// WITHOUT blanks next to every symbolic binary operator and an operand, and
// next to the brackets, commas and colons of the statement positions.  The
// reference tokenisation is maximal munch per base: after 0x only hex digits
// (never a sign), after 0b only 0/1, a decimal mantissa may take e/E, an
// optional sign and digits.  Every literal here is a complete literal of the
// checker's classifier, and no operator starts with a character that could
// continue it, so the token boundary is not in doubt.

var tightLiterals = []string{
	// hex: last character e E b B a f F d digit
	"0x1e", "0xe", "0xee", "0x1E", "0xE", "0X1e", "0x1b", "0xb", "0x1B", "0x1a", "0x1f", "0xF", "0xd", "0x10", "0x9", "0x0", "0xbe", "0xeb",
	// binary
	"0b1", "0b0", "0b10", "0b11", "0B1", "0B10",
	// decimal
	"1", "0", "9", "10", "19", "010",
	// floats: exponent forms and fractions
	"1e1", "1E1", "1e+1", "1e-1", "1E+1", "1e10", "2E-1", "1.5", "1.0", "0.5", "1.5e1", "1.5e+1", "1.5E-1",
}

func spelledNum(sp string) *Node {
	lc, ok := classify(sp)
	if !ok || lc.Want == "reject" {
		panic("c03: bad tight literal " + sp)
	}
	n := &Node{Op: "num", Spell: sp}
	if lc.Want == "int" {
		n.Name = strconv.FormatInt(lc.I, 10)
	} else {
		n.Name = strconv.FormatFloat(lc.F, 'g', -1, 64)
	}
	return n
}

func tightTrees() []*Node {
	var ops []*opInfo
	for _, o := range opTable {
		if o.Kind == kBinary && o.Op != "in" {
			ops = append(ops, o)
		}
	}
	bin := func(op string, l, r *Node) *Node { return &Node{Op: op, Tight: true, Kids: []*Node{l, r}} }
	id := func() *Node { return &Node{Op: "id"} }
	operands := func() []*Node {
		return []*Node{
			id(),                                // identifier a
			{Op: "id", Name: "e1", Fixed: true}, // identifier that starts like an exponent
			{Op: "id", Name: "b", Fixed: true},  // identifier that is a base letter
			spelledNum("1"),                     // literal
			spelledNum("0x1e"),                  // hex literal ending in e
			{Op: "u-", Kids: []*Node{spelledNum("1")}}, // -1 (a blank is kept where "--", "<-" would appear)
		}
	}
	var out []*Node
	for _, sp := range tightLiterals {
		out = append(out, spelledNum(sp)) // the literal alone, next to the delimiters of every position
		zero := spelledNum(sp).Name == "0"
		for _, o := range ops {
			for _, r := range operands() {
				out = append(out, bin(o.Op, spelledNum(sp), r)) // L op R
			}
			for _, l := range operands() {
				out = append(out, bin(o.Op, l, spelledNum(sp))) // R op L
			}
			// a*L op R : the literal between two operators
			out = append(out, bin(o.Op, bin("*", id(), spelledNum(sp)), spelledNum("1")))
			out = append(out, bin(o.Op, bin("*", id(), spelledNum(sp)), id()))
			if !zero {
				// -L op 1 : folded negative literal followed by an operator
				out = append(out, bin(o.Op, &Node{Op: "u-", Kids: []*Node{spelledNum(sp)}}, spelledNum("1")))
			}
		}
		// literal as slice bounds and call arguments next to ':' ',' ')'
		out = append(out, &Node{Op: "slice_be", Kids: []*Node{id(), spelledNum(sp), spelledNum(sp)}})
		out = append(out, &Node{Op: "call2", Kids: []*Node{id(), spelledNum(sp), spelledNum(sp)}})
		out = append(out, &Node{Op: "?:", Kids: []*Node{id(), spelledNum(sp), spelledNum(sp)}})
	}
	return out
}

func tightCtxs(thorough bool) []*ctxDef {
	if thorough {
		return allCtxs
	}
	var out []*ctxDef
	for _, id := range []string{"E", "LET", "IDX", "SLB", "SLE", "LIST", "LIST2", "ARG", "ARG2", "MAPK", "MAPV", "CASE"} {
		out = append(out, ctxByID(id))
	}
	return out
}

const tightName = "T:number literals written tight against operators and delimiters"

func runTight(c *common.Ctx, res *common.Result, seen *hashSet, report func(common.Violation)) {
	trees := tightTrees()
	ctxs := tightCtxs(c.Thorough())
	common.ParallelFor(c, len(trees), func(i int) {
		var cn counters
		root := trees[i]
		names := nameLeaves(root)
		cn.trees++
		doTree(res, seen, report, root, names, tightName, ctxs, sampleSeq(i), &cn)
		cn.flush(res, tightName)
	})
}

// sampleSeq makes every 1500th tree a candidate for the evidence samples.
func sampleSeq(i int) int64 {
	if i%1500 == 7 {
		return 11 + 40009*int64(i/1500)
	}
	return 1
}
