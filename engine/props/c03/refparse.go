// refparse: the operator table AS WRITTEN IN PROPERTY C03 (data: level,
// associativity), abstract expression trees over it, a printer that uses the
// minimal parentheses the table requires, a printer that makes every implied
// parenthesis explicit, and a complete enumerator of bounded tree spaces.
// Nothing in this file looks at anko's grammar.
package c03

import (
	"strconv"
	"strings"
)

// Levels, loosest to tightest, exactly in the order of the property text.
const (
	lvTern    = 1 // ?: and ??   (right-associative)
	lvOr      = 2 // ||
	lvAnd     = 3 // &&
	lvCmp     = 4 // == != < <= > >=
	lvAdd     = 5 // + - |
	lvMul     = 6 // * / % << >> &
	lvIn      = 7 // in
	lvUnary   = 8 // - ! ^ & *
	lvPostfix = 9 // call index slice member
	lvPrimary = 10
)

type opKind int

const (
	kBinary opKind = iota
	kTernary
	kUnary
	kPostfix
	kPrimary
)

type opInfo struct {
	Op    string // unique key
	Sym   string // spelling of the operator token
	Level int
	Kind  opKind
	Arity int
	Right bool // right-associative (only level 1)
	Rep   bool // representative of its level
}

var opTable = []*opInfo{
	{Op: "?:", Sym: "?", Level: lvTern, Kind: kTernary, Arity: 3, Right: true, Rep: true},
	{Op: "??", Sym: "??", Level: lvTern, Kind: kBinary, Arity: 2, Right: true, Rep: true},
	{Op: "||", Sym: "||", Level: lvOr, Kind: kBinary, Arity: 2, Rep: true},
	{Op: "&&", Sym: "&&", Level: lvAnd, Kind: kBinary, Arity: 2, Rep: true},
	{Op: "==", Sym: "==", Level: lvCmp, Kind: kBinary, Arity: 2},
	{Op: "!=", Sym: "!=", Level: lvCmp, Kind: kBinary, Arity: 2},
	{Op: "<", Sym: "<", Level: lvCmp, Kind: kBinary, Arity: 2, Rep: true},
	{Op: "<=", Sym: "<=", Level: lvCmp, Kind: kBinary, Arity: 2},
	{Op: ">", Sym: ">", Level: lvCmp, Kind: kBinary, Arity: 2},
	{Op: ">=", Sym: ">=", Level: lvCmp, Kind: kBinary, Arity: 2},
	{Op: "+", Sym: "+", Level: lvAdd, Kind: kBinary, Arity: 2},
	{Op: "-", Sym: "-", Level: lvAdd, Kind: kBinary, Arity: 2, Rep: true},
	{Op: "|", Sym: "|", Level: lvAdd, Kind: kBinary, Arity: 2},
	{Op: "*", Sym: "*", Level: lvMul, Kind: kBinary, Arity: 2, Rep: true},
	{Op: "/", Sym: "/", Level: lvMul, Kind: kBinary, Arity: 2},
	{Op: "%", Sym: "%", Level: lvMul, Kind: kBinary, Arity: 2},
	{Op: "<<", Sym: "<<", Level: lvMul, Kind: kBinary, Arity: 2},
	{Op: ">>", Sym: ">>", Level: lvMul, Kind: kBinary, Arity: 2},
	{Op: "&", Sym: "&", Level: lvMul, Kind: kBinary, Arity: 2},
	{Op: "in", Sym: "in", Level: lvIn, Kind: kBinary, Arity: 2, Rep: true},
	{Op: "u-", Sym: "-", Level: lvUnary, Kind: kUnary, Arity: 1, Rep: true},
	{Op: "u!", Sym: "!", Level: lvUnary, Kind: kUnary, Arity: 1},
	{Op: "u^", Sym: "^", Level: lvUnary, Kind: kUnary, Arity: 1},
	{Op: "u&", Sym: "&", Level: lvUnary, Kind: kUnary, Arity: 1},
	{Op: "u*", Sym: "*", Level: lvUnary, Kind: kUnary, Arity: 1},
	{Op: "call0", Level: lvPostfix, Kind: kPostfix, Arity: 1},
	{Op: "call1", Level: lvPostfix, Kind: kPostfix, Arity: 2},
	{Op: "call2", Level: lvPostfix, Kind: kPostfix, Arity: 3},
	{Op: "index", Level: lvPostfix, Kind: kPostfix, Arity: 2, Rep: true},
	{Op: "slice_be", Level: lvPostfix, Kind: kPostfix, Arity: 3},
	{Op: "slice_b", Level: lvPostfix, Kind: kPostfix, Arity: 2},
	{Op: "slice_e", Level: lvPostfix, Kind: kPostfix, Arity: 2},
	{Op: "slice_bec", Level: lvPostfix, Kind: kPostfix, Arity: 4},
	{Op: "slice_ec", Level: lvPostfix, Kind: kPostfix, Arity: 3},
	{Op: "member", Level: lvPostfix, Kind: kPostfix, Arity: 1},
	{Op: "num", Level: lvPrimary, Kind: kPrimary, Arity: 0, Rep: true},
	{Op: "str", Level: lvPrimary, Kind: kPrimary, Arity: 0},
	{Op: "arr", Level: lvPrimary, Kind: kPrimary, Arity: 2},
}

var idInfo = &opInfo{Op: "id", Level: lvPrimary, Kind: kPrimary}

var opByKey = func() map[string]*opInfo {
	m := map[string]*opInfo{"id": idInfo}
	for _, o := range opTable {
		m[o.Op] = o
	}
	return m
}()

func repOps() []*opInfo {
	var r []*opInfo
	for _, o := range opTable {
		if o.Rep {
			r = append(r, o)
		}
	}
	return r
}

// Node is an abstract expression tree.  Leaves: Op "id" (identifier Name),
// "num" (Name = decimal text), "str" (Name = content).  "member" carries the
// member name in Name.
type Node struct {
	Op   string  `json:"op"`
	Name string  `json:"name,omitempty"`
	Kids []*Node `json:"kids,omitempty"`
	// Spell: for a "num" leaf, the spelling to print (Name stays the canonical
	// text of the value it denotes, e.g. Spell "0x1e", Name "30").
	Spell string `json:"spell,omitempty"`
	// Tight: print this binary operator without blanks around it in the
	// minimal spelling (the explicit spelling always has blanks).
	Tight bool `json:"tight,omitempty"`
	// Fixed: an identifier whose Name is part of the case (not re-assigned by nameLeaves).
	Fixed bool `json:"fixed,omitempty"`
}

func (n *Node) info() *opInfo {
	if i, ok := opByKey[n.Op]; ok {
		return i
	}
	return &opInfo{Op: n.Op, Level: lvPrimary, Kind: kPrimary}
}

func (n *Node) clone() *Node {
	c := &Node{Op: n.Op, Name: n.Name, Spell: n.Spell, Tight: n.Tight, Fixed: n.Fixed}
	if len(n.Kids) > 0 {
		c.Kids = make([]*Node, len(n.Kids))
		for i, k := range n.Kids {
			c.Kids[i] = k.clone()
		}
	}
	return c
}

func (n *Node) equal(o *Node) bool {
	if n == nil || o == nil {
		return n == o
	}
	if n.Op != o.Op || n.Name != o.Name || len(n.Kids) != len(o.Kids) {
		return false
	}
	for i := range n.Kids {
		if !n.Kids[i].equal(o.Kids[i]) {
			return false
		}
	}
	return true
}

// depth: identifier 0, an operator (also a 0-ary literal) 1 + max over kids.
func (n *Node) depth() int {
	if n.Op == "id" {
		return 0
	}
	d := 0
	for _, k := range n.Kids {
		if kd := k.depth(); kd > d {
			d = kd
		}
	}
	return d + 1
}

// nodes counts operator nodes (everything but identifiers).
func (n *Node) nodes() int {
	if n.Op == "id" {
		return 0
	}
	c := 1
	for _, k := range n.Kids {
		c += k.nodes()
	}
	return c
}

// sexpr is a compact structural rendering (used in details and signatures).
func (n *Node) sexpr() string {
	switch n.Op {
	case "id":
		return n.Name
	case "num":
		if n.Spell != "" && n.Spell != n.Name {
			return "#" + n.Name + "{" + n.Spell + "}"
		}
		return "#" + n.Name
	case "str":
		return strconv.Quote(n.Name)
	}
	var b strings.Builder
	b.WriteString("(")
	b.WriteString(n.Op)
	if n.Op == "member" {
		b.WriteString(":" + n.Name)
	}
	for _, k := range n.Kids {
		b.WriteString(" ")
		b.WriteString(k.sexpr())
	}
	b.WriteString(")")
	return b.String()
}

// sig: operator keys in preorder (at most 6).
func (n *Node) sig() string {
	var ops []string
	var walk func(x *Node)
	walk = func(x *Node) {
		if x.Op != "id" {
			ops = append(ops, x.Op)
		}
		for _, k := range x.Kids {
			walk(k)
		}
	}
	walk(n)
	if len(ops) == 0 {
		return "id"
	}
	if len(ops) > 6 {
		ops = ops[:6]
	}
	return strings.Join(ops, ",")
}

// ---------- the two printers ----------

// needParen: does child c in slot i of parent p need parentheses according to
// the property's table?  (Bracketed operand slots never do.)
func needParen(p *opInfo, i int, c *opInfo) bool {
	switch p.Kind {
	case kBinary:
		if p.Right { // level 1, right-associative
			if i == 0 {
				return c.Level <= p.Level
			}
			return c.Level < p.Level
		}
		if i == 0 { // left-associative
			return c.Level < p.Level
		}
		return c.Level <= p.Level
	case kTernary:
		if i == 0 {
			return c.Level <= p.Level
		}
		return false // the middle is bracketed by ? and :, the last operand is the right operand of a right-associative operator of the loosest level
	case kUnary:
		return c.Level < p.Level
	case kPostfix:
		if i == 0 {
			return c.Level < p.Level
		}
		return false
	}
	return false
}

// render prints n.  full: every operator application is wrapped in
// parentheses.  colon: n stands where ':' is a delimiter of the enclosing
// construct and n is not enclosed in brackets of its own (slice bounds, map
// literal entries, case heads): a ternary is parenthesised there.
func render(n *Node, full bool, colon bool) string {
	switch n.Op {
	case "id":
		return n.Name
	case "num":
		if n.Spell != "" {
			return n.Spell
		}
		return n.Name
	case "str":
		return quoteDQ(n.Name)
	}
	info := n.info()
	body := renderBody(n, info, full, colon && !full)
	if full {
		return "(" + body + ")"
	}
	if colon && info.Kind == kTernary {
		return "(" + body + ")"
	}
	return body
}

func renderKid(p *Node, pi *opInfo, i int, full, colon bool) string {
	k := p.Kids[i]
	if full {
		return render(k, true, false)
	}
	if k.Op != "id" && k.Op != "num" && k.Op != "str" && needParen(pi, i, k.info()) {
		return "(" + render(k, false, false) + ")"
	}
	return render(k, false, colon)
}

func renderBody(n *Node, info *opInfo, full, colon bool) string {
	if colon && info.Kind == kTernary {
		colon = false // the whole ternary gets parentheses
	}
	switch info.Kind {
	case kBinary:
		l, r := renderKid(n, info, 0, full, colon), renderKid(n, info, 1, full, colon)
		if n.Tight && !full && info.Op != "in" {
			return l + info.Sym + tightGap(info.Sym, r) + r
		}
		return l + " " + info.Sym + " " + r
	case kTernary:
		return renderKid(n, info, 0, full, false) + " ? " + renderKid(n, info, 1, full, false) + " : " + renderKid(n, info, 2, full, false)
	case kUnary:
		o := renderKid(n, info, 0, full, colon)
		if (info.Sym == "-" || info.Sym == "&") && strings.HasPrefix(o, info.Sym) {
			return info.Sym + " " + o // keep "- -", "& &" from fusing into the tokens "--", "&&"
		}
		return info.Sym + o
	case kPostfix:
		base := renderKid(n, info, 0, full, colon)
		arg := func(i int, c bool) string { return renderKid(n, info, i, full, c) }
		switch n.Op {
		case "call0":
			return base + "()"
		case "call1":
			return base + "(" + arg(1, false) + ")"
		case "call2":
			return base + "(" + arg(1, false) + ", " + arg(2, false) + ")"
		case "index":
			return base + "[" + arg(1, false) + "]"
		case "slice_be":
			return base + "[" + arg(1, true) + ":" + arg(2, true) + "]"
		case "slice_b":
			return base + "[" + arg(1, true) + ":]"
		case "slice_e":
			return base + "[:" + arg(1, true) + "]"
		case "slice_bec":
			return base + "[" + arg(1, true) + ":" + arg(2, true) + ":" + arg(3, true) + "]"
		case "slice_ec":
			return base + "[:" + arg(1, true) + ":" + arg(2, true) + "]"
		case "member":
			return base + "." + n.Name
		}
	case kPrimary:
		if n.Op == "arr" {
			return "[" + renderKid(n, info, 0, full, false) + ", " + renderKid(n, info, 1, full, false) + "]"
		}
	}
	return "<?" + n.Op + "?>"
}

// tightGap: the blank that must stay between an operator and its right
// operand because the two would otherwise spell another token of the language
// ("--", "<-", "&&", "//", "/*").
func tightGap(sym, right string) string {
	if right == "" {
		return ""
	}
	last, first := sym[len(sym)-1], right[0]
	switch {
	case first == '-' && (last == '-' || sym == "<"):
		return " "
	case first == '&' && last == '&':
		return " "
	case sym == "/" && (first == '*' || first == '/'):
		return " "
	}
	return ""
}

func quoteDQ(s string) string {
	var b strings.Builder
	b.WriteByte('"')
	for _, r := range s {
		switch r {
		case '"', '\\':
			b.WriteByte('\\')
			b.WriteRune(r)
		case '\n':
			b.WriteString(`\n`)
		default:
			b.WriteRune(r)
		}
	}
	b.WriteByte('"')
	return b.String()
}

// ---------- leaf roles and naming ----------

type role int

const (
	rGeneric role = iota // int64
	rSlice               // []interface{}
	rMap                 // map[string]interface{}
	rFn0
	rFn1
	rFn2
	rPtr   // *int64
	rUndef // not bound
)

var rolePrefix = map[role]string{rSlice: "s", rMap: "m", rFn0: "k", rFn1: "f", rFn2: "g", rPtr: "p", rUndef: "u"}

const genericLetters = "abcdehij"

func slotRole(p *opInfo, i int) role {
	switch p.Op {
	case "call0":
		if i == 0 {
			return rFn0
		}
	case "call1":
		if i == 0 {
			return rFn1
		}
	case "call2":
		if i == 0 {
			return rFn2
		}
	case "index", "slice_be", "slice_b", "slice_e", "slice_bec", "slice_ec":
		if i == 0 {
			return rSlice
		}
	case "member":
		if i == 0 {
			return rMap
		}
	case "in":
		if i == 1 {
			return rSlice
		}
	case "u*":
		return rPtr
	case "??":
		if i == 0 {
			return rUndef
		}
	}
	return rGeneric
}

func leafName(r role, k int) string {
	if r == rGeneric {
		s := string(genericLetters[k%len(genericLetters)])
		if k >= len(genericLetters) {
			s += strconv.Itoa(k / len(genericLetters))
		}
		return s
	}
	s := rolePrefix[r]
	if k > 0 {
		s += strconv.Itoa(k)
	}
	return s
}

func memberName(k int) string {
	s := string("xy"[k%2])
	if k >= 2 {
		s += strconv.Itoa(k / 2)
	}
	return s
}

// nameLeaves assigns distinct names to all leaves (in order of appearance;
// the name encodes the role, hence the value it is bound to) and returns the
// identifiers used.
func nameLeaves(root *Node) []string {
	var cnt [8]int
	nNum, nStr, nMem := 0, 0, 0
	var names []string
	var walk func(n *Node, r role)
	walk = func(n *Node, r role) {
		switch n.Op {
		case "id":
			if n.Fixed {
				names = append(names, n.Name)
				return
			}
			n.Name = leafName(r, cnt[r])
			cnt[r]++
			names = append(names, n.Name)
			return
		case "num":
			if n.Spell != "" {
				return // a spelled literal keeps its value
			}
			nNum++
			n.Name = strconv.Itoa(nNum)
			return
		case "str":
			n.Name = string("qrvw"[nStr%4])
			nStr++
			return
		case "member":
			n.Name = memberName(nMem)
			nMem++
		}
		info := n.info()
		for i, k := range n.Kids {
			walk(k, slotRole(info, i))
		}
	}
	walk(root, rGeneric)
	return names
}

// ---------- enumeration ----------

// space: all trees whose operator nodes are drawn from ops, with depth <=
// maxDepth and at most maxNodes operator nodes; every other operand slot holds
// an identifier.
type space struct {
	name     string
	ops      []*opInfo
	maxDepth int
	maxNodes int
}

// allowed: restrictions of the generator that are NOT parenthesisation
// questions (see notes): a number literal is never the direct base of a
// postfix form (anko folds '-' NUMBER into one literal token pair, so the
// reading of -1[0] is under-determined; "1.x" is one malformed number token).
func allowed(p *opInfo, slot int, c *opInfo) bool {
	if c.Op == "num" && p.Kind == kPostfix && slot == 0 {
		return false
	}
	return true
}

func newOpNode(o *opInfo) *Node {
	n := &Node{Op: o.Op}
	if o.Arity > 0 {
		n.Kids = make([]*Node, o.Arity)
	}
	return n
}

// gen enumerates every subtree for *dst within depth d and node budget b and
// calls k(remaining budget) for each, with *dst set.
func (sp *space) gen(dst **Node, p *opInfo, slot int, d, b int, k func(b int)) {
	*dst = &Node{Op: "id"}
	k(b)
	if d <= 0 || b <= 0 {
		return
	}
	for _, o := range sp.ops {
		if !allowed(p, slot, o) {
			continue
		}
		n := newOpNode(o)
		*dst = n
		sp.genKids(n, o, 0, d-1, b-1, k)
	}
}

func (sp *space) genKids(n *Node, info *opInfo, i, d, b int, k func(b int)) {
	if i == len(n.Kids) {
		k(b)
		return
	}
	sp.gen(&n.Kids[i], info, i, d, b, func(b2 int) { sp.genKids(n, info, i+1, d, b2, k) })
}

// items: the work items of the space: (root operator, alternative for its
// first operand).  alt 0 = identifier, alt j>0 = ops[j-1].
func (sp *space) items() [][2]int {
	var it [][2]int
	for r := range sp.ops {
		if sp.ops[r].Arity == 0 {
			it = append(it, [2]int{r, 0})
			continue
		}
		for a := 0; a <= len(sp.ops); a++ {
			it = append(it, [2]int{r, a})
		}
	}
	return it
}

// enumItem enumerates all trees of one work item; the tree passed to emit is
// reused (clone it to keep it).
func (sp *space) enumItem(item [2]int, emit func(root *Node)) {
	ro := sp.ops[item[0]]
	if sp.maxDepth < 1 || sp.maxNodes < 1 {
		return
	}
	root := newOpNode(ro)
	if ro.Arity == 0 {
		emit(root)
		return
	}
	rest := func(b int) {
		sp.genKids(root, ro, 1, sp.maxDepth-1, b, func(int) { emit(root) })
	}
	if item[1] == 0 {
		root.Kids[0] = &Node{Op: "id"}
		rest(sp.maxNodes - 1)
		return
	}
	co := sp.ops[item[1]-1]
	if !allowed(ro, 0, co) || sp.maxDepth < 2 || sp.maxNodes < 2 {
		return
	}
	c := newOpNode(co)
	root.Kids[0] = c
	sp.genKids(c, co, 0, sp.maxDepth-2, sp.maxNodes-2, rest)
}
