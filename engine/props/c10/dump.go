package c10

import (
	"fmt"
	"reflect"
	"sort"
	"strings"
)

// The dumper renders a set of named Go values (the variables of the reference
// model, or the values env.Get returns for the same variables) as a canonical
// text that contains
//   - the contents of every variable, with the dynamic Go type of every scalar
//     and the static type of every container,
//   - for every slice the backing array it uses, its offset in it, its len and
//     cap, so that two slices that share storage are printed as two windows on
//     the same array (and print differently when they do not share),
//   - for every map its identity, so that aliases of one map are visible.
//
// Backing arrays are recovered from the element pointers: two slices use the
// same array iff their capacity ranges overlap (ranges that do not overlap can
// never influence each other, whatever array they came from).  Only the cells
// that are inside the len-window of some reachable slice are printed; cells that
// are only inside a capacity are invisible to a script (anko refuses to
// re-slice beyond len) and are always overwritten by append before they become
// visible.  Addresses never appear in the text, only offsets.
//
// The same function is applied to the model and to the implementation, so the
// two texts are equal iff contents AND sharing structure agree.

type root struct {
	name string
	v    interface{}
}

type sliceRec struct {
	v        reflect.Value
	ptr      uintptr
	ln, cp   int
	esz      uintptr
	typ      reflect.Type
	order    int
	cluster  int
	clOffset int
}

type clusterRec struct {
	lo, hi uintptr
	esz    uintptr
	typ    reflect.Type
	first  int // smallest encounter order of a member
	id     int
	membs  []*sliceRec
}

type sliceKey struct {
	ptr    uintptr
	ln, cp int
	typ    reflect.Type
}

type dumper struct {
	strict   bool
	slices   []*sliceRec
	sliceIdx map[sliceKey]*sliceRec
	maps     []reflect.Value
	mapIdx   map[uintptr]int
	clusters []*clusterRec
}

func scalarString(v reflect.Value) string {
	switch v.Kind() {
	case reflect.Int64:
		if v.Type() == tInt64 {
			return fmt.Sprintf("i:%d", v.Int())
		}
	case reflect.Float64:
		if v.Type() == tFloat64 {
			return fmt.Sprintf("f:%v", v.Float())
		}
	case reflect.String:
		if v.Type() == tString {
			return fmt.Sprintf("s:%q", v.String())
		}
	case reflect.Bool:
		if v.Type() == tBool {
			return fmt.Sprintf("b:%v", v.Bool())
		}
	}
	if v.CanInterface() {
		return fmt.Sprintf("%s:%v", v.Type(), v.Interface())
	}
	return fmt.Sprintf("%s:?", v.Type())
}

func (d *dumper) walk(v reflect.Value) {
	if !v.IsValid() {
		return
	}
	switch v.Kind() {
	case reflect.Interface, reflect.Ptr:
		if v.IsNil() {
			return
		}
		d.walk(v.Elem())
	case reflect.Slice:
		if v.IsNil() || v.Cap() == 0 {
			return
		}
		k := sliceKey{v.Pointer(), v.Len(), v.Cap(), v.Type()}
		if _, ok := d.sliceIdx[k]; ok {
			return
		}
		r := &sliceRec{v: v, ptr: k.ptr, ln: k.ln, cp: k.cp, esz: v.Type().Elem().Size(), typ: v.Type(), order: len(d.slices)}
		d.sliceIdx[k] = r
		d.slices = append(d.slices, r)
		for i := 0; i < v.Len(); i++ {
			d.walk(v.Index(i))
		}
	case reflect.Map:
		if v.IsNil() || (!d.strict && v.Len() == 0) {
			return
		}
		p := v.Pointer()
		if _, ok := d.mapIdx[p]; ok {
			return
		}
		d.mapIdx[p] = len(d.maps)
		d.maps = append(d.maps, v)
		for _, k := range sortedMapKeys(v) {
			d.walk(v.MapIndex(k.v))
		}
	case reflect.Struct:
		for i := 0; i < v.NumField(); i++ {
			d.walk(v.Field(i))
		}
	}
}

type keyRec struct {
	s string
	v reflect.Value
}

func keyString(k reflect.Value) string {
	if k.Kind() == reflect.Interface {
		if k.IsNil() {
			return "nil"
		}
		k = k.Elem()
	}
	return scalarString(k)
}

func sortedMapKeys(m reflect.Value) []keyRec {
	ks := m.MapKeys()
	out := make([]keyRec, len(ks))
	for i, k := range ks {
		out[i] = keyRec{keyString(k), k}
	}
	sort.Slice(out, func(i, j int) bool { return out[i].s < out[j].s })
	return out
}

func (d *dumper) cluster() {
	if len(d.slices) == 0 {
		return
	}
	byPtr := append([]*sliceRec{}, d.slices...)
	sort.Slice(byPtr, func(i, j int) bool {
		if byPtr[i].ptr != byPtr[j].ptr {
			return byPtr[i].ptr < byPtr[j].ptr
		}
		return byPtr[i].order < byPtr[j].order
	})
	var cur *clusterRec
	for _, r := range byPtr {
		end := r.ptr + uintptr(r.cp)*r.esz
		if cur != nil && r.ptr < cur.hi && r.esz == cur.esz {
			if end > cur.hi {
				cur.hi = end
			}
			if r.order < cur.first {
				cur.first = r.order
			}
			cur.membs = append(cur.membs, r)
			continue
		}
		cur = &clusterRec{lo: r.ptr, hi: end, esz: r.esz, typ: r.typ, first: r.order, membs: []*sliceRec{r}}
		d.clusters = append(d.clusters, cur)
	}
	sort.Slice(d.clusters, func(i, j int) bool { return d.clusters[i].first < d.clusters[j].first })
	for i, c := range d.clusters {
		c.id = i
		for _, r := range c.membs {
			r.cluster = i
			r.clOffset = int((r.ptr - c.lo) / c.esz)
		}
	}
}

func (d *dumper) format(v reflect.Value) string {
	if !v.IsValid() {
		return "nil"
	}
	switch v.Kind() {
	case reflect.Interface:
		if v.IsNil() {
			return "nil"
		}
		return d.format(v.Elem())
	case reflect.Ptr:
		if v.IsNil() {
			return "nilptr:" + v.Type().String()
		}
		if v.Elem().Kind() == reflect.Struct {
			return d.format(v.Elem())
		}
		return "ptr:" + v.Type().String()
	case reflect.Slice:
		if v.IsNil() || v.Cap() == 0 {
			if d.strict && v.IsNil() {
				return "S-nil(" + v.Type().String() + ")"
			}
			return "S-(" + v.Type().String() + ")"
		}
		r := d.sliceIdx[sliceKey{v.Pointer(), v.Len(), v.Cap(), v.Type()}]
		if r == nil {
			return "S?(" + v.Type().String() + ")"
		}
		return fmt.Sprintf("S%d[%d:%d:%d]", r.cluster, r.clOffset, r.clOffset+r.ln, r.clOffset+r.cp)
	case reflect.Map:
		if v.IsNil() {
			if d.strict {
				return "M-nil(" + v.Type().String() + ")"
			}
			return "M-(" + v.Type().String() + "){}"
		}
		if !d.strict && v.Len() == 0 {
			// an empty map prints like a nil map of its type, but keeps its
			// identity visible through later writes (which are then compared)
			return "M-(" + v.Type().String() + "){}"
		}
		return fmt.Sprintf("M%d", d.mapIdx[v.Pointer()])
	case reflect.Struct:
		var b strings.Builder
		b.WriteString("{")
		for i := 0; i < v.NumField(); i++ {
			if i > 0 {
				b.WriteString(" ")
			}
			b.WriteString(v.Type().Field(i).Name + ":" + d.format(v.Field(i)))
		}
		b.WriteString("}(" + v.Type().String() + ")")
		return b.String()
	case reflect.Func, reflect.Chan:
		return v.Type().String()
	}
	return scalarString(v)
}

func dumpRoots(roots []root, strict bool) string {
	d := &dumper{strict: strict, sliceIdx: map[sliceKey]*sliceRec{}, mapIdx: map[uintptr]int{}}
	vals := make([]reflect.Value, len(roots))
	for i, r := range roots {
		if r.v == nil {
			continue
		}
		vals[i] = reflect.ValueOf(r.v)
		d.walk(vals[i])
	}
	d.cluster()
	var b strings.Builder
	for i, r := range roots {
		b.WriteString(r.name + "=" + d.format(vals[i]) + "\n")
	}
	for _, c := range d.clusters {
		n := int((c.hi - c.lo) / c.esz)
		fmt.Fprintf(&b, "S%d %s cells=%d:", c.id, c.typ, n)
		for k := 0; k < n; k++ {
			p := c.lo + uintptr(k)*c.esz
			cell := "_"
			for _, r := range c.membs {
				if p >= r.ptr && p < r.ptr+uintptr(r.ln)*r.esz {
					cell = d.format(r.v.Index(int((p - r.ptr) / r.esz)))
					break
				}
			}
			b.WriteString(" " + cell)
		}
		b.WriteString("\n")
	}
	for i, m := range d.maps {
		fmt.Fprintf(&b, "M%d %s:", i, m.Type())
		for _, k := range sortedMapKeys(m) {
			b.WriteString(" " + k.s + "=>" + d.format(m.MapIndex(k.v)))
		}
		b.WriteString("\n")
	}
	return b.String()
}
