package c10

import (
	"fmt"
	"reflect"
	"strings"

	"github.com/mattn/anko/env"
	"github.com/mattn/anko/parser"
	"github.com/mattn/anko/vm"
	"verif/engine/common"
)

// Type names are resolved through the scope every time a type expression is
// evaluated, so ONE type expression in a function body (or loop body) denotes a
// different container type in each invocation when the name is bound
// differently.  "Typed containers only ever hold values of their declared type"
// must hold for the second evaluation of the node as for the first: the value
// built by the k-th evaluation is compared with the value a freshly parsed
// straight-line program builds for the same binding (differential oracle: the
// state reached through an earlier evaluation against the state reached from
// the initial state), and the element type of the result is checked against
// the binding directly.

var rebindBodies = []struct{ name, body string }{
	{"slice-make", "s = make([]T, 0)\ns += v\ns"},
	{"slice-literal", "s = []T{v}\ns"},
	{"slice-index-len", "s = make([]T, 0)\ns[0] = v\ns"},
	{"map-make", "m = make(map[string]T)\nm[\"k\"] = v\nm"},
	{"map-literal", "m = map[string]T{\"k\": v}\nm"},
	{"map-key", "m = make(map[T]string)\nm[v] = \"k\"\nm"},
	{"struct-field", "x = make(struct { F T })\nx.F = v\nx"},
	{"chan", "c = make(chan T, 1)\nc <- v\n<-c"},
	{"pointer", "p = new(T)\n*p = v\n*p"},
	{"nested-slice", "s = make([][]T, 1)\ns[0] = make([]T, 0)\ns[0] += v\ns"},
	{"zero", "make(T)"},
	{"slice-of-pointer", "s = make([]*T, 1)\ns"},
}

var rebindVals = []string{"1", "\"x\"", "1.5", "true"}

func rebindRender(v interface{}, err error) string {
	if err != nil {
		return "error"
	}
	if v == nil {
		return "nil"
	}
	rv := reflect.ValueOf(v)
	if rv.Kind() == reflect.Ptr && !rv.IsNil() {
		return fmt.Sprintf("%v -> %#v", rv.Type(), rv.Elem().Interface())
	}
	return fmt.Sprintf("%v %#v", rv.Type(), v)
}

func rebindExec(src string) (res string) {
	defer func() {
		if r := recover(); r != nil {
			res = fmt.Sprint("panic: ", r)
		}
	}()
	st, err := parser.ParseSrc(src)
	if err != nil {
		return "machinery: does not parse: " + err.Error()
	}
	v, err := vm.Run(env.NewEnv(), &vm.Options{Debug: false}, st)
	if err != nil {
		return "error"
	}
	l, ok := v.([]interface{})
	if !ok {
		return rebindRender(v, nil)
	}
	out := ""
	for i, x := range l {
		if i > 0 {
			out += " ;; "
		}
		out += rebindRender(x, nil)
	}
	return out
}

func typeRebind(res *common.Result) {
	indent := func(s string) string { return "\t" + replaceNL(s, "\n\t") }
	for _, b := range rebindBodies {
		for i, v1 := range rebindVals {
			for j, v2 := range rebindVals {
				if i == j {
					continue
				}
				w1, w2 := rebindExec("v = "+v1+"\nmake(type T, v)\n"+b.body), rebindExec("v = "+v2+"\nmake(type T, v)\n"+b.body)
				if w1 == "error" || w2 == "error" || strings.HasPrefix(w1, "panic") || strings.HasPrefix(w2, "panic") || strings.HasPrefix(w1, "machinery") || strings.HasPrefix(w2, "machinery") {
					// the form is not defined for this binding: nothing to compare
					res.Add("rebind_skipped", 1)
					if strings.HasPrefix(w1, "machinery") {
						res.Note("type-rebind: " + w1)
					}
					continue
				}
				want := w1 + " ;; " + w2
				forms := []struct{ name, src string }{
					{"function called twice", "func mk(v) {\n\tmake(type T, v)\n" + indent(b.body) + "\n}\nr1 = mk(" + v1 + ")\nr2 = mk(" + v2 + ")\n[r1, r2]"},
					{"loop body run twice", "r = []\nfor v in [" + v1 + ", " + v2 + "] {\n\tmake(type T, v)\n\tr += [func() {\n\t" + indent(b.body) + "\n\t}()]\n}\nr"},
					{"closure called twice", "mk = func(v) {\n\tmake(type T, v)\n" + indent(b.body) + "\n}\n[mk(" + v1 + "), mk(" + v2 + ")]"},
				}
				for _, f := range forms {
					res.Add("rebind_programs", 1)
					got := rebindExec(f.src)
					if got != want {
						res.Violate(common.Violation{Class: "type-rebind/" + b.name, Case: f.name + ": " + f.src,
							Detail: "one type expression evaluated twice with T bound to the type of " + v1 + " and then of " + v2 + " builds {" + got + "}; fresh straight-line programs build {" + want + "}",
							Replay: map[string]interface{}{"typeRebind": f.src}})
					}
				}
			}
		}
	}
}

func replaceNL(s, by string) string {
	out := ""
	for _, r := range s {
		if r == '\n' {
			out += by
		} else {
			out += string(r)
		}
	}
	return out
}
