package c10

import "testing"

func BenchmarkTransition(b *testing.B) {
	h := history{Cfg: 1, Ops: []string{alphabet[20].ID, alphabet[60].ID}}
	for i := 0; i < b.N; i++ {
		bb := build(h, false)
		if bb.failed != nil {
			b.Fatal(bb.failed.diff)
		}
		r := bb.w.step(alphabet[(i*7)%len(alphabet)], false)
		_ = r
		_ = bb.w.key()
	}
}
