package c10

import (
	"reflect"
	"strconv"
	"strings"
)

// ---------------------------------------------------------------------------
// The reference model: the variables hold REAL Go values ([]interface{},
// map[interface{}]interface{}, string, int64, float64, bool, nil, []int64,
// []string, map[string]int64 and one struct), and every operation is written
// with Go's own indexing, slicing, append, delete and conversions.  Variables
// that share a backing array in Go share it here, because they are Go slices.
// ---------------------------------------------------------------------------

var (
	tInt64   = reflect.TypeOf(int64(0))
	tFloat64 = reflect.TypeOf(float64(0))
	tString  = reflect.TypeOf("")
	tBool    = reflect.TypeOf(true)
)

// mst is the struct value `st`; an alias of the anonymous struct type so that
// its type prints exactly like the type anko builds with reflect.StructOf.
type mst = struct {
	A int64
	B string
	C []interface{}
	D map[string]int64
}

const stTypeString = "struct { A int64; B string; C []interface {}; D map[string]int64 }"

type convRes int

const (
	cOK convRes = iota
	cFail
	cUndet
)

type tkind int

const (
	kIface tkind = iota
	kInt64
	kString
	kSliceIface
	kMapSI
	kFloat64
)

// conv is the (value, T) table: what Go's conversion (or assignability) of the
// dynamic value to T yields, cFail when Go has no such conversion, cUndet where
// anko does something Go has no counterpart for (nil into a scalar slot becomes
// the zero value; container-to-container conversions go element by element).
func conv(v interface{}, t tkind) (interface{}, convRes) {
	switch t {
	case kIface:
		return v, cOK
	case kInt64:
		switch x := v.(type) {
		case int64:
			return x, cOK
		case float64:
			return int64(x), cOK // Go: the fraction is discarded
		case nil:
			return int64(0), cUndet
		}
		return nil, cFail
	case kFloat64:
		switch x := v.(type) {
		case float64:
			return x, cOK
		case int64:
			return float64(x), cOK
		case nil:
			return float64(0), cUndet
		}
		return nil, cFail
	case kString:
		switch x := v.(type) {
		case string:
			return x, cOK
		case int64:
			return string(rune(x)), cOK // Go: string(i) is the UTF-8 of code point i
		case nil:
			return "", cUndet
		}
		return nil, cFail
	case kSliceIface:
		switch x := v.(type) {
		case []interface{}:
			return x, cOK
		case nil:
			return []interface{}(nil), cOK // nil is assignable to a slice type
		case []int64, []string, []float64:
			return nil, cUndet
		}
		return nil, cFail
	case kMapSI:
		switch x := v.(type) {
		case map[string]int64:
			return x, cOK
		case nil:
			return map[string]int64(nil), cOK
		case map[interface{}]interface{}:
			return nil, cUndet
		}
		return nil, cFail
	}
	return nil, cFail
}

// Host-defined struct types of the state (embedded structs by value, by
// pointer, two levels, a shadowing outer field; struct keys).
type Base struct {
	ID   int64
	Name string
}
type User struct {
	Base
	Age int64
}
type PUser struct {
	*Base
	Age int64
}
type Deep struct {
	User
	Tag string
}
type Shadow struct {
	Base
	ID int64
}
type HostS struct {
	N int64
	L []int64
}
type HostI struct{ V interface{} }

// script-made struct values used as map keys
type skT = struct {
	A int64
	B string
}
type suT = struct {
	A []int64
	B int64
}

// hashable: can v be a key of a Go map[interface{}]...?  Decided by Go itself.
func hashable(v interface{}) (ok bool) {
	defer func() {
		if recover() != nil {
			ok = false
		}
	}()
	probe := map[interface{}]struct{}{}
	probe[v] = struct{}{}
	return true
}

// keyOf: the model keeps script-made (addressable) struct values behind a
// pointer; used as a map key it is the struct VALUE, as in anko and in Go.
func keyOf(v interface{}) interface{} {
	switch p := v.(type) {
	case *HostI:
		return *p
	case *mst:
		return *p
	case *User:
		return v // a real pointer handed in by the host stays a pointer
	}
	return v
}

// control flow inside the evaluator
type mErr struct{}               // the operation yields an error
type mUndet struct{ why string } // the property does not determine the result

func fail()            { panic(mErr{}) }
func undet(why string) { panic(mUndet{why}) }

type machine struct {
	g     map[string]interface{}
	local map[string]interface{}
	// taintRoot: the variable the slot lives in (st, rows, ts, t, ...);
	// taintDirty: that variable was stored to (or passed to a function) since x
	// was bound.  anko's x then follows the slot's NEW content, Go's x is the old
	// copy: what an operation through x does is then not determined by the
	// property, and such operations are skipped.
	taintRoot  string
	taintDirty bool
	taintX     bool // x was bound to a scalar read from a typed container / struct field (see notes: aliasing of x with that slot is not compared)
	// hintErr: the implementation reported an error for the current operation;
	// used ONLY to pick a resolution where the property allows two (a slice
	// bound in (len, cap]).
	hintErr bool
	usedAlt bool
}

func (m *machine) lookup(name string) interface{} {
	if m.local != nil {
		if v, ok := m.local[name]; ok {
			return v
		}
	}
	v, ok := m.g[name]
	if !ok {
		fail()
	}
	return v
}

func (m *machine) setVar(name string, v interface{}) {
	if m.local != nil {
		if _, ok := m.local[name]; ok {
			m.local[name] = v
			return
		}
	}
	if _, ok := m.g[name]; ok || m.local == nil {
		m.g[name] = v
		return
	}
	m.local[name] = v
}

func looksNumeric(s string) bool {
	s = strings.TrimSpace(s)
	if s == "" {
		return false
	}
	if _, err := strconv.ParseFloat(s, 64); err == nil {
		return true
	}
	if strings.HasPrefix(s, "0x") || strings.HasPrefix(s, "0b") {
		return true
	}
	switch strings.ToLower(s) {
	case "true", "false", "t", "f":
		return true
	}
	return false
}

// toIndex: an int64 is an index; nil, containers and clearly non-numeric strings
// are not (error); floats, bools and numeric strings are under-determined.
func toIndex(i interface{}) int {
	switch x := i.(type) {
	case int64:
		return int(x)
	case float64, bool:
		undet("index operand of kind float/bool")
	case string:
		if looksNumeric(x) {
			undet("numeric string as index")
		}
		fail()
	}
	fail()
	return 0
}

func lenOf(v interface{}) (int, bool) {
	switch c := v.(type) {
	case []interface{}:
		return len(c), true
	case []int64:
		return len(c), true
	case []string:
		return len(c), true
	case []float64:
		return len(c), true
	case [][]int64:
		return len(c), true
	case string:
		return len(c), true
	case map[interface{}]interface{}:
		return len(c), true
	case map[string]int64:
		return len(c), true
	}
	return 0, false
}

func capOf(v interface{}) int {
	switch c := v.(type) {
	case []interface{}:
		return cap(c)
	case []int64:
		return cap(c)
	case []string:
		return cap(c)
	case []float64:
		return cap(c)
	case [][]int64:
		return cap(c)
	}
	return 0
}

func (m *machine) eval(e expr) interface{} {
	switch x := e.(type) {
	case eVar:
		return m.lookup(x.name)
	case eLit:
		return x.mk()
	case eSym:
		return int64(m.symValue(x))
	case eIdx:
		c := m.eval(x.c)
		i := m.eval(x.i)
		return m.index(c, i)
	case eSlc:
		c := m.eval(x.c)
		var lo, hi, cp interface{}
		if x.lo != nil {
			lo = m.eval(x.lo)
		}
		if x.hi != nil {
			hi = m.eval(x.hi)
		}
		if x.cp != nil {
			cp = m.eval(x.cp)
		}
		return m.slice(c, x.lo != nil, lo, x.hi != nil, hi, x.cp != nil, cp)
	case eLen:
		c := m.eval(x.c)
		n, ok := lenOf(c)
		if !ok {
			fail()
		}
		return int64(n)
	case eIn:
		k := m.eval(x.k)
		c := m.eval(x.c)
		return m.in(k, c)
	case eMem:
		c := m.eval(x.c)
		return m.member(c, x.name)
	case eAdd:
		l := m.eval(x.l)
		r := m.eval(x.r)
		return m.add(l, r)
	case eMapLit:
		k := keyOf(m.eval(x.k))
		if !hashable(k) {
			fail() // an unhashable key in a map literal is an error
		}
		return map[interface{}]interface{}{k: m.eval(x.v)}
	}
	panic("c10 model: unknown expression")
}

func (m *machine) symValue(s eSym) int {
	v := m.lookup(s.of)
	n, _ := lenOf(v)
	if s.base == "cap" {
		n = capOf(v)
	}
	return n + s.off
}

func (m *machine) index(c, i interface{}) interface{} {
	switch cv := c.(type) {
	case []interface{}:
		k := toIndex(i)
		if k < 0 || k >= len(cv) {
			fail()
		}
		return cv[k]
	case []int64:
		k := toIndex(i)
		if k < 0 || k >= len(cv) {
			fail()
		}
		return cv[k]
	case []string:
		k := toIndex(i)
		if k < 0 || k >= len(cv) {
			fail()
		}
		return cv[k]
	case []float64:
		k := toIndex(i)
		if k < 0 || k >= len(cv) {
			fail()
		}
		return cv[k]
	case [][]int64:
		k := toIndex(i)
		if k < 0 || k >= len(cv) {
			fail()
		}
		return cv[k] // a copy of the element's slice header, as in Go
	case string:
		k := toIndex(i)
		if k < 0 || k >= len(cv) {
			fail()
		}
		return cv[k : k+1] // the addressed byte, as a string
	case map[interface{}]interface{}:
		i = keyOf(i)
		if !hashable(i) {
			return nil // an unhashable key reads as nil
		}
		v, ok := cv[i]
		if !ok {
			return nil // a missing key reads as nil
		}
		return v
	case map[string]int64:
		k, r := conv(i, kString)
		if r == cFail {
			return nil // a key that cannot be a key of this map reads as nil
		}
		if r == cUndet {
			undet("nil key on a typed map")
		}
		v, ok := cv[k.(string)]
		if !ok {
			return nil
		}
		return v
	}
	fail()
	return nil
}

func (m *machine) slice(c interface{}, hasLo bool, lo interface{}, hasHi bool, hi interface{}, hasCp bool, cp interface{}) interface{} {
	if s, ok := c.(string); ok {
		l, h := 0, len(s)
		if hasLo {
			l = toIndex(lo)
		}
		if hasHi {
			h = toIndex(hi)
		}
		if hasCp {
			fail() // Go has no 3-index slice of a string
		}
		if l < 0 || h > len(s) || l > h {
			fail()
		}
		return s[l:h]
	}
	n, ok := lenOf(c)
	cpc := capOf(c)
	switch c.(type) {
	case []interface{}, []int64, []string, []float64, [][]int64:
	default:
		ok = false
	}
	if !ok {
		fail()
	}
	l, h, mx := 0, n, cpc
	if hasLo {
		l = toIndex(lo)
	}
	if hasHi {
		h = toIndex(hi)
	}
	if hasCp {
		mx = toIndex(cp)
	}
	// Go: 0 <= low <= high <= max <= cap(a)
	if l < 0 || l > h || h > mx || mx > cpc {
		fail()
	}
	if h > n {
		// Go allows a bound in (len, cap]; anko documents high <= len.  The
		// property does not decide between the two: follow the implementation.
		m.usedAlt = true
		if m.hintErr {
			fail()
		}
	}
	switch cv := c.(type) {
	case []interface{}:
		return cv[l:h:mx]
	case []int64:
		return cv[l:h:mx]
	case []string:
		return cv[l:h:mx]
	case []float64:
		return cv[l:h:mx]
	case [][]int64:
		return cv[l:h:mx]
	}
	fail()
	return nil
}

type valUndet struct{}

// decimalNumeral: is s written as -?digits(.digits)? (then it denotes a number
// without any doubt); strings that merely look numeric to some parser (" 1",
// "+1", "1e3", "0x10", "true") are left open.
func decimalNumeral(s string) (f float64, isNumeral, open bool) {
	t := strings.TrimPrefix(s, "-")
	digits := func(x string) bool {
		if x == "" {
			return false
		}
		for _, c := range x {
			if c < '0' || c > '9' {
				return false
			}
		}
		return true
	}
	parts := strings.SplitN(t, ".", 2)
	if digits(parts[0]) && (len(parts) == 1 || digits(parts[1])) && len(t) <= 15 {
		f, _ = strconv.ParseFloat(s, 64)
		return f, true, false
	}
	if looksNumeric(s) {
		return 0, false, true
	}
	return 0, false, false
}

// langEq is the language's equality as property C06 states it: two values of
// the same primitive type are equal exactly when Go's == says so; an integer
// and a float are equal when they are numerically equal; a string and a number
// are equal exactly when the string is a decimal numeral denoting that number;
// nil equals only nil.  determined=false where the properties leave the answer
// open (bool against another kind, container against container, odd numerals).
func langEq(a, b interface{}) (eq, determined bool) {
	if a == nil || b == nil {
		return a == nil && b == nil, true
	}
	num := func(v interface{}) (float64, bool) {
		switch x := v.(type) {
		case int64:
			if x > 1<<52 || x < -(1<<52) {
				return 0, false
			}
			return float64(x), true
		case float64:
			return x, true
		}
		return 0, false
	}
	switch x := a.(type) {
	case int64, float64:
		fa, ok := num(x)
		if !ok {
			return false, false
		}
		switch y := b.(type) {
		case int64, float64:
			fb, ok := num(y)
			if !ok {
				return false, false
			}
			return fa == fb, true
		case string:
			fb, isNum, open := decimalNumeral(y)
			if open {
				return false, false
			}
			return isNum && fa == fb, true
		case bool:
			return false, false
		}
		return false, true // a number against a container
	case string:
		switch y := b.(type) {
		case string:
			return x == y, true
		case int64, float64:
			return langEq(b, a)
		case bool:
			return false, false
		}
		return false, true
	case bool:
		if y, ok := b.(bool); ok {
			return x == y, true
		}
		return false, false
	}
	// a is a container
	switch b.(type) {
	case int64, float64, string:
		return false, true
	}
	return false, false
}

// in: membership in a slice, element by element with langEq on the CURRENT
// contents (never by converting the item to the element type).  When no
// element is certainly equal and some comparison is open, the result is not
// compared (valUndet).
func (m *machine) in(k, c interface{}) interface{} {
	var elems []interface{}
	switch cv := c.(type) {
	case []interface{}:
		elems = cv
	case []int64:
		for _, e := range cv {
			elems = append(elems, e)
		}
	case []string:
		for _, e := range cv {
			elems = append(elems, e)
		}
	case []float64:
		for _, e := range cv {
			elems = append(elems, e)
		}
	default:
		fail()
	}
	open := false
	for _, e := range elems {
		eq, det := langEq(k, e)
		if !det {
			open = true
			continue
		}
		if eq {
			return true
		}
	}
	if open {
		return valUndet{}
	}
	return false
}

func (m *machine) member(c interface{}, name string) interface{} {
	switch cv := c.(type) {
	case *mst:
		switch name {
		case "A":
			return cv.A
		case "B":
			return cv.B
		case "C":
			return cv.C
		case "D":
			return cv.D
		}
		fail() // unknown field
	case map[interface{}]interface{}:
		v, ok := cv[name]
		if !ok {
			return nil
		}
		return v
	case map[string]int64:
		v, ok := cv[name]
		if !ok {
			return nil
		}
		return v
	}
	// any other struct (value or pointer): Go's own field selection, which
	// includes fields promoted from embedded structs and lets an outer field
	// shadow an embedded one
	if f, ok := structField(c, name); ok {
		if f.Kind() == reflect.Struct && f.CanAddr() {
			return f.Addr().Interface() // keep the field addressable for a later store
		}
		return f.Interface()
	}
	fail()
	return nil
}

// structField selects field name of the struct c is or points to.
func structField(c interface{}, name string) (f reflect.Value, ok bool) {
	defer func() {
		if recover() != nil { // nil embedded pointer on the path
			ok = false
			undet("field selection through a nil embedded pointer")
		}
	}()
	if c == nil {
		return f, false
	}
	rv := reflect.ValueOf(c)
	for rv.Kind() == reflect.Ptr {
		if rv.IsNil() {
			return f, false
		}
		rv = rv.Elem()
	}
	if rv.Kind() != reflect.Struct {
		return f, false
	}
	f = rv.FieldByName(name)
	return f, f.IsValid()
}

func mustConv(v interface{}, t tkind) interface{} {
	x, r := conv(v, t)
	switch r {
	case cFail:
		fail()
	case cUndet:
		undet("conversion without a Go counterpart")
	}
	return x
}

// convElems converts the elements of an untyped list for an append to a typed
// slice.  An element without a Go conversion is an error, and "an ill-typed
// operand yields an error and leaves the container unchanged": nothing is written,
// also not into spare capacity that another slice can see (until round 7 a
// non-first failing element was treated as under-determined; the implementation
// did write the elements before it - a genuine defect, repaired in /repo).
func convElems(rv []interface{}, t tkind) []interface{} {
	out := make([]interface{}, len(rv))
	for i, e := range rv {
		x, r := conv(e, t)
		switch r {
		case cFail:
			fail()
		case cUndet:
			undet("conversion without a Go counterpart")
		}
		out[i] = x
	}
	return out
}

// add is `+` on slices (and strings): Go's append.  When the operands have
// different static element types Go has no single append; the model is the
// loop `for _, e := range r { l = append(l, T(e)) }`, which appends in place
// while the capacity lasts exactly like append(l, r...) does.
func (m *machine) add(l, r interface{}) interface{} {
	switch lv := l.(type) {
	case []interface{}:
		switch rv := r.(type) {
		case []interface{}:
			return append(lv, rv...)
		case []int64:
			for _, e := range rv {
				lv = append(lv, e)
			}
			return lv
		case []float64:
			for _, e := range rv {
				lv = append(lv, e)
			}
			return lv
		case []string:
			for _, e := range rv {
				lv = append(lv, e)
			}
			return lv
		}
		return append(lv, r)
	case []int64:
		switch rv := r.(type) {
		case []int64:
			return append(lv, rv...)
		case []float64:
			for _, e := range rv {
				lv = append(lv, int64(e))
			}
			return lv
		case []interface{}:
			for _, e := range convElems(rv, kInt64) {
				lv = append(lv, e.(int64))
			}
			return lv
		case []string:
			if len(rv) == 0 {
				return lv
			}
			fail()
		}
		return append(lv, mustConv(r, kInt64).(int64))
	case []float64:
		switch rv := r.(type) {
		case []float64:
			return append(lv, rv...)
		case []int64:
			for _, e := range rv {
				lv = append(lv, float64(e))
			}
			return lv
		case []interface{}:
			for _, e := range convElems(rv, kFloat64) {
				lv = append(lv, e.(float64))
			}
			return lv
		case []string:
			if len(rv) == 0 {
				return lv
			}
			fail()
		}
		return append(lv, mustConv(r, kFloat64).(float64))
	case []string:
		switch rv := r.(type) {
		case []string:
			return append(lv, rv...)
		case []interface{}:
			for _, e := range convElems(rv, kString) {
				lv = append(lv, e.(string))
			}
			return lv
		case []int64, []float64:
			undet("append of a numeric slice to a string slice")
		}
		return append(lv, mustConv(r, kString).(string))
	case [][]int64:
		// a list of lists appended to a typed slice of slices: every inner list is
		// converted as a whole (a fresh []int64 each); one inconvertible element
		// anywhere fails the append before anything is stored
		if rv, ok := r.([]interface{}); ok {
			var conv [][]int64
			for _, e := range rv {
				inner, isList := e.([]interface{})
				if !isList {
					undet("append of a non-list element to a slice of slices")
				}
				row := make([]int64, 0, len(inner))
				for _, x := range convElems(inner, kInt64) {
					row = append(row, x.(int64))
				}
				conv = append(conv, row)
			}
			// (as for flat lists of another element type: the Go loop
			// `for _, e := range r { l = append(l, T(e)) }`, in place while the capacity lasts)
			for _, row := range conv {
				lv = append(lv, row)
			}
			return lv
		}
		undet("append to a slice of slices: right side outside the alphabet")
	case string:
		if rs, ok := r.(string); ok {
			return lv + rs
		}
	}
	undet("+ outside containers belongs to C05")
	return nil
}

func (m *machine) assign(lhs expr, v interface{}) {
	switch l := lhs.(type) {
	case eVar:
		m.setVar(l.name, v)
	case eIdx:
		c := m.eval(l.c)
		i := m.eval(l.i)
		switch cv := c.(type) {
		case []interface{}:
			k := toIndex(i)
			if k == len(cv) {
				m.assign(l.c, append(cv, v)) // assignment at index len appends
				return
			}
			if k < 0 || k > len(cv) {
				fail()
			}
			cv[k] = v
		case []int64:
			k := toIndex(i)
			if k < 0 || k > len(cv) {
				fail()
			}
			x := mustConv(v, kInt64).(int64)
			if k == len(cv) {
				m.assign(l.c, append(cv, x))
				return
			}
			cv[k] = x
		case []string:
			k := toIndex(i)
			if k < 0 || k > len(cv) {
				fail()
			}
			x := mustConv(v, kString).(string)
			if k == len(cv) {
				m.assign(l.c, append(cv, x))
				return
			}
			cv[k] = x
		case [][]int64:
			k := toIndex(i)
			if k < 0 || k > len(cv) {
				fail()
			}
			var x []int64
			switch e := v.(type) {
			case []int64:
				x = e
			case nil:
				x = nil
			case []interface{}, []float64, []string:
				undet("conversion without a Go counterpart")
			default:
				fail()
			}
			if k == len(cv) {
				m.assign(l.c, append(cv, x))
				return
			}
			cv[k] = x
		case []float64:
			k := toIndex(i)
			if k < 0 || k > len(cv) {
				fail()
			}
			x := mustConv(v, kFloat64).(float64)
			if k == len(cv) {
				m.assign(l.c, append(cv, x))
				return
			}
			cv[k] = x
		case string:
			k := toIndex(i)
			sv, isStr := v.(string)
			switch v.(type) {
			case string, int64, nil:
			default:
				fail() // no Go conversion of this value to string
			}
			if k < 0 || k > len(cv) {
				fail()
			}
			if !isStr || len(sv) != 1 {
				undet("string element store of something that is not one character")
			}
			if k == len(cv) {
				m.assign(l.c, cv+sv)
				return
			}
			m.assign(l.c, cv[:k]+sv+cv[k+1:])
		case map[interface{}]interface{}:
			i = keyOf(i)
			if !hashable(i) {
				fail()
			}
			if cv == nil {
				undet("write to a nil map")
			}
			cv[i] = v
		case map[string]int64:
			k, r := conv(i, kString)
			if r == cFail {
				fail()
			}
			if r == cUndet {
				undet("nil key on a typed map")
			}
			x := mustConv(v, kInt64).(int64)
			if cv == nil {
				undet("write to a nil map")
			}
			cv[k.(string)] = x
		default:
			fail()
		}
	case eMem:
		c := m.eval(l.c)
		switch cv := c.(type) {
		case *mst:
			switch l.name {
			case "A":
				cv.A = mustConv(v, kInt64).(int64)
			case "B":
				cv.B = mustConv(v, kString).(string)
			case "C":
				cv.C = mustConv(v, kSliceIface).([]interface{})
			case "D":
				cv.D = mustConv(v, kMapSI).(map[string]int64)
			default:
				fail()
			}
		case map[interface{}]interface{}:
			if cv == nil {
				undet("write to a nil map")
			}
			cv[l.name] = v
		case map[string]int64:
			x := mustConv(v, kInt64).(int64)
			if cv == nil {
				undet("write to a nil map")
			}
			cv[l.name] = x
		default:
			f, ok := structField(c, l.name)
			if !ok {
				fail()
			}
			if !f.CanSet() {
				undet("store into a struct held by value")
			}
			switch {
			case f.Type() == tInt64:
				f.SetInt(mustConv(v, kInt64).(int64))
			case f.Type() == tString:
				f.SetString(mustConv(v, kString).(string))
			case f.Kind() == reflect.Interface:
				if v == nil {
					f.Set(reflect.Zero(f.Type()))
				} else {
					f.Set(reflect.ValueOf(v))
				}
			default:
				undet("store into a field of a type outside the conversion table")
			}
		}
	default:
		undet("assignment target outside the alphabet")
	}
}

// typedRead: is e a read of an element of a typed slice or of a struct field
// (a location anko hands out as an addressable reflect.Value)?
func (m *machine) typedRead(e expr) bool {
	var c expr
	switch x := e.(type) {
	case eIdx:
		c = x.c
	case eMem:
		c = x.c
	default:
		return false
	}
	switch m.eval(c).(type) {
	case []int64, []string, []float64, [][]int64, *mst:
		return true
	}
	return false
}

// rootVar: the variable an index / member / slice chain starts from.
func rootVar(e expr) string {
	switch x := e.(type) {
	case eVar:
		return x.name
	case eIdx:
		return rootVar(x.c)
	case eMem:
		return rootVar(x.c)
	case eSlc:
		return rootVar(x.c)
	}
	return ""
}

// storesInto: may s change something reachable from variable name by a store
// that starts at that variable (assignment target, delete, call argument)?
func storesInto(s stmt, name string) bool {
	switch x := s.(type) {
	case sLet:
		return rootVar(x.lhs) == name
	case sLet2:
		return rootVar(x.l1) == name || rootVar(x.l2) == name
	case sAddEq:
		return rootVar(x.lhs) == name
	case sMapItem:
		return rootVar(x.v) == name || rootVar(x.ok) == name
	case sDel:
		return rootVar(x.m) == name
	case sCall:
		return rootVar(x.arg) == name
	}
	return false
}

func (m *machine) run(s stmt) (val interface{}, hasVal bool) {
	switch x := s.(type) {
	case sExpr:
		return m.eval(x.e), true
	case sLet:
		v := m.eval(x.rhs)
		m.assign(x.lhs, v)
		if lv, ok := x.lhs.(eVar); ok && lv.name == "x" && m.local == nil {
			m.taintX = false && m.typedRead(x.rhs) // since the round-7 repair (/repo e62c826) x is a copy of the slot: determined, compared
			m.taintRoot, m.taintDirty = rootVar(x.rhs), false
		}
		return nil, false
	case sLet2:
		v1 := m.eval(x.r1)
		v2 := m.eval(x.r2)
		m.assign(x.l1, v1)
		m.assign(x.l2, v2)
		return nil, false
	case sAddEq:
		v := m.eval(eAdd{x.lhs, x.rhs})
		m.assign(x.lhs, v)
		return nil, false
	case sMapItem:
		// v, ok = m[k]: the value and whether the key is there; an unhashable
		// key is (nil, false) like any key that is not in the map
		v := m.eval(x.rhs)
		if v == nil {
			if c, isMap := m.eval(x.rhs.c).(map[interface{}]interface{}); isMap {
				k := keyOf(m.eval(x.rhs.i))
				if hashable(k) {
					if _, present := c[k]; present {
						undet("v, ok = m[k] for an entry that holds nil")
					}
				}
			}
		}
		m.assign(x.v, v)
		m.assign(x.ok, v != nil)
		if lv, isVar := x.v.(eVar); isVar && lv.name == "x" && m.local == nil {
			m.taintX = false && m.typedRead(x.rhs) // since the round-7 repair (/repo e62c826) x is a copy of the slot: determined, compared
			m.taintRoot, m.taintDirty = rootVar(x.rhs), false
		}
		return nil, false
	case sDel:
		c := m.eval(x.m)
		if x.k == nil {
			switch c.(type) {
			case string:
				undet("delete of a variable by name")
			}
			fail()
		}
		k := m.eval(x.k)
		switch cv := c.(type) {
		case map[interface{}]interface{}:
			k = keyOf(k)
			if !hashable(k) {
				fail()
			}
			delete(cv, k)
		case map[string]int64:
			ks, r := conv(k, kString)
			if r == cFail {
				fail()
			}
			if r == cUndet {
				undet("nil key on a typed map")
			}
			delete(cv, ks.(string))
		case string:
			undet("delete of a variable by name")
		default:
			fail()
		}
		return nil, false
	case sCall:
		arg := m.eval(x.arg)
		saved := m.local
		m.local = map[string]interface{}{x.param: arg}
		defer func() { m.local = saved }()
		for _, b := range x.body {
			m.run(b)
		}
		return nil, false
	}
	panic("c10 model: unknown statement")
}

type outcome struct {
	err      bool
	undet    string // non-empty: nothing is compared, the history is not extended
	hasVal   bool
	val      interface{}
	valUndet bool
	alt      bool
}

// exec runs one operation on the model.  implErr is the hint described at
// machine.hintErr.
func (m *machine) exec(s stmt, implErr bool) (out outcome) {
	m.hintErr, m.usedAlt = implErr, false
	if m.taintX && m.taintRoot != "" && storesInto(s, m.taintRoot) {
		defer func() { m.taintDirty = true }()
	}
	defer func() {
		out.alt = m.usedAlt
		if r := recover(); r != nil {
			switch x := r.(type) {
			case mErr:
				out = outcome{err: true, alt: m.usedAlt}
			case mUndet:
				out = outcome{undet: x.why}
			default:
				panic(r)
			}
		}
	}()
	v, has := m.run(s)
	if _, u := v.(valUndet); u {
		return outcome{valUndet: true}
	}
	return outcome{hasVal: has, val: v}
}
