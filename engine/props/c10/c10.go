// Package c10: slices, maps, strings and struct fields behave like their Go
// models.  Explicit-state breadth-first search over histories of container
// operations; every operation is executed by the interpreter (vm.Execute on one
// environment) and by a reference model made of real Go values, and the whole
// variable state (contents AND which slices share which backing array at which
// offset/len/cap, which variables are the same map) is compared after every
// operation.
package c10

import (
	"crypto/sha1"
	"fmt"
	"reflect"
	"sort"
	"strings"
	"sync"
	"time"

	"github.com/mattn/anko/ast"
	"github.com/mattn/anko/env"
	"github.com/mattn/anko/parser"
	"github.com/mattn/anko/vm"
	"verif/engine/common"
)

var alphabet = buildAlphabet()
var opByID = func() map[string]int {
	m := map[string]int{}
	for i, o := range alphabet {
		m[o.ID] = i
	}
	return m
}()

var varNames = []string{"a", "b", "m", "s", "x", "t", "ts", "tm", "st", "u", "tf", "st2", "rows", "ok", "si", "up", "uk", "pp", "dp", "sh"}

// ---------- one world: an anko environment and the model, side by side ----------

type world struct {
	e     *env.Env
	m     *machine
	plain bool // use vm.Execute (parse every time) instead of cached trees
}

type implOut struct {
	err   bool
	panic string
	val   interface{}
	msg   string
}

// parsed caches parser.ParseSrc per source text: vm.Execute is exactly
// ParseSrc followed by vm.Run, and the same few hundred statements are executed
// millions of times.  Every divergence found with cached trees is confirmed
// with plain vm.Execute on a fresh environment before it is reported (plain
// mode), so the cache can never be the cause of a verdict.
var parsed sync.Map // string -> ast.Stmt

func runImpl(e *env.Env, src string, plain bool) (out implOut) {
	defer func() {
		if r := recover(); r != nil {
			out = implOut{panic: fmt.Sprint(r)}
		}
	}()
	var v interface{}
	var err error
	if plain {
		v, err = vm.Execute(e, &vm.Options{Debug: false}, src)
	} else {
		var st ast.Stmt
		if c, ok := parsed.Load(src); ok {
			st = c.(ast.Stmt)
		} else {
			st, err = parser.ParseSrc(src)
			if err != nil {
				panic(fmt.Sprintf("c10 machinery: %q does not parse: %v", src, err))
			}
			parsed.Store(src, st)
		}
		v, err = vm.Run(e, &vm.Options{Debug: false}, st)
	}
	if err != nil {
		return implOut{err: true, msg: err.Error()}
	}
	return implOut{val: v}
}

func newWorld(cfg int, plain bool) (*world, string) {
	w := &world{e: env.NewEnv(), m: &machine{g: configs[cfg].model()}, plain: plain}
	for k, v := range hostValues() {
		if err := w.e.Define(k, v); err != nil {
			return w, "Define failed: " + err.Error()
		}
	}
	w.e.DefineType("User", User{})
	w.e.DefineType("HostI", HostI{})
	src := strings.Join(append(append([]string{}, baseSetup...), configs[cfg].setup...), "\n")
	if o := runImpl(w.e, src, plain); o.err || o.panic != "" {
		return w, fmt.Sprintf("setup script failed: %s%s", o.msg, o.panic)
	}
	return w, ""
}

func (w *world) modelRoots() []root {
	var rs []root
	for _, n := range varNames {
		if n == "x" && w.m.taintX {
			continue
		}
		rs = append(rs, root{n, w.m.g[n]})
	}
	return rs
}

func (w *world) implRoots() (rs []root, problem string) {
	defer func() {
		if r := recover(); r != nil {
			problem = fmt.Sprintf("panic in env.Get: %v", r)
		}
	}()
	for _, n := range varNames {
		if n == "x" && w.m.taintX {
			continue
		}
		v, err := w.e.Get(n)
		if err != nil {
			return nil, fmt.Sprintf("variable %s is gone: %v", n, err)
		}
		rs = append(rs, root{n, v})
	}
	return rs, ""
}

// initialDiff compares a world on which nothing was executed yet with the model.
func (w *world) initialDiff() (diff, where string) {
	ir, p := w.implRoots()
	if p != "" {
		return p, "?"
	}
	mr := w.modelRoots()
	if md, id := dumpRoots(mr, false), dumpRoots(ir, false); md != id {
		return fmt.Sprintf("a fresh environment does not start in the initial state: %s\n--- model\n%s--- implementation\n%s", lineDiff(md, id), md, id), diffVars(mr, ir)
	}
	return "", ""
}

// key is the canonical form of the model state (strict: nil-ness included).
func (w *world) key() [20]byte {
	rs := w.modelRoots()
	if w.m.taintX {
		rs = append(rs, root{fmt.Sprintf("x(tainted from %s, dirty=%v)", w.m.taintRoot, w.m.taintDirty), w.m.g["x"]})
	}
	return sha1.Sum([]byte(dumpRoots(rs, true)))
}

// diffVars names the first variable (in the fixed order a, b, m, s, x, t, ts, tm,
// st, $value) whose own contents differ; "sharing" when every variable on its
// own agrees and only the sharing structure between variables differs.
func diffVars(mr, ir []root) string {
	for i := range mr {
		if i < len(ir) && dumpRoots(mr[i:i+1], false) != dumpRoots(ir[i:i+1], false) {
			return mr[i].name
		}
	}
	return "sharing"
}

type stepResult struct {
	where string // which variables differ (state/value divergences)
	src   string // concrete source executed
	kind  string // "", "undet", "outcome", "value", "state", "panic", "types"
	diff  string
	alt   bool
	mo    outcome
	ro    implOut
}

// step executes one operation on both sides and compares (fast: only executes;
// used to re-create a state that was already validated).
func (w *world) step(o op, fast bool) stepResult {
	src := renderStmt(o.S, w.m)
	if w.plain {
		if _, err := parser.ParseSrc(src); err != nil {
			panic(fmt.Sprintf("c10 machinery: operation %q does not parse: %v", src, err))
		}
	}
	// while x is bound to a typed slot (see machine.taintX) what x itself reads
	// is not determined by the property: operations through x are executed and
	// every OTHER variable is compared, but not their outcome or value
	throughTaintedX := w.m.taintX && stmtUses(o.S, "x")
	if l, ok := o.S.(sLet); ok {
		if lv, ok := l.lhs.(eVar); ok && lv.name == "x" && !exprUses(l.rhs, "x") {
			throughTaintedX = false // x is simply re-bound
		}
	}
	if throughTaintedX && w.m.taintDirty {
		// the slot x was read from has been re-stored since: anko's x follows
		// the slot, Go's x is the old copy; not determined by the property
		return stepResult{src: src, kind: "undet", mo: outcome{undet: "operation through x after the typed slot it was read from was stored to again"}}
	}
	ro := runImpl(w.e, src, w.plain)
	mo := w.m.exec(o.S, ro.err)
	r := stepResult{src: src, mo: mo, ro: ro, alt: mo.alt}
	if mo.undet != "" {
		r.kind = "undet"
		return r
	}
	if fast {
		return r
	}
	if ro.panic != "" {
		r.kind = "panic"
		r.diff = fmt.Sprintf("%s: the interpreter panicked (%s); the model says %s", src, ro.panic, outcomeWord(mo.err))
		return r
	}
	if ro.err != mo.err && !throughTaintedX {
		r.kind = "outcome"
		r.diff = fmt.Sprintf("%s: model %s, implementation %s", src, outcomeWord(mo.err), implWord(ro))
		return r
	}
	mr := w.modelRoots()
	ir, problem := w.implRoots()
	if problem != "" {
		r.kind = "state"
		r.diff = src + ": " + problem
		return r
	}
	compareVal := !mo.err && !ro.err && mo.hasVal && !mo.valUndet && !throughTaintedX
	if compareVal {
		mr = append(mr, root{"$value", mo.val})
		ir = append(ir, root{"$value", ro.val})
	}
	md, id := dumpRoots(mr, false), dumpRoots(ir, false)
	if md != id {
		r.kind = "state"
		if compareVal && dumpRoots(mr[:len(mr)-1], false) == dumpRoots(ir[:len(ir)-1], false) {
			r.kind = "value"
		}
		r.where = diffVars(mr, ir)
		r.diff = fmt.Sprintf("%s (%s): state differs: %s\n--- model\n%s--- implementation\n%s", src, outcomeWord(mo.err), lineDiff(md, id), md, id)
		return r
	}
	return r
}

// lineDiff lists the dump lines that only one side has.
func lineDiff(md, id string) string {
	ml, il := strings.Split(strings.TrimSpace(md), "\n"), strings.Split(strings.TrimSpace(id), "\n")
	in := func(l string, ls []string) bool {
		for _, x := range ls {
			if x == l {
				return true
			}
		}
		return false
	}
	var parts []string
	for _, l := range ml {
		if !in(l, il) {
			parts = append(parts, "model{"+l+"}")
		}
	}
	for _, l := range il {
		if !in(l, ml) {
			parts = append(parts, "impl{"+l+"}")
		}
	}
	return strings.Join(parts, " ")
}

func outcomeWord(err bool) string {
	if err {
		return "error"
	}
	return "success"
}

func implWord(o implOut) string {
	if o.err {
		return "error (" + o.msg + ")"
	}
	return "success"
}

// ---------- histories ----------

type history struct {
	Cfg int      `json:"cfg"`
	Ops []string `json:"ops"` // operation identifiers (symbolic source)
	// Pre: a history executed first, on ANOTHER fresh environment of the same
	// process (isolation violations: state leaking between environments)
	Pre *history `json:"pre,omitempty"`
}

type built struct {
	w      *world
	srcs   []string
	failed *stepResult // first divergence or undetermined step
	at     int
}

// build re-creates the state reached by h.  plain: parse and compare at every
// step (used for confirmation and replay); otherwise cached trees, no compares.
func build(h history, plain bool) built {
	w, problem := newWorld(h.Cfg, plain)
	b := built{w: w}
	if problem != "" {
		b.failed = &stepResult{kind: "setup", diff: problem}
		return b
	}
	if plain {
		if d, where := w.initialDiff(); d != "" {
			b.failed = &stepResult{kind: "initial-state", where: where, diff: d}
			b.at = -1
			return b
		}
	}
	for i, id := range h.Ops {
		oi, ok := opByID[id]
		if !ok {
			b.failed = &stepResult{kind: "machinery", diff: "unknown operation " + id}
			b.at = i
			return b
		}
		r := w.step(alphabet[oi], !plain)
		b.srcs = append(b.srcs, r.src)
		if r.kind != "" {
			b.failed = &r
			b.at = i
			return b
		}
	}
	return b
}

func caseString(cfg int, srcs []string) string {
	parts := append(append([]string{}, configs[cfg].setup...), srcs...)
	return strings.Join(parts, "; ")
}

func less(a, b []int) bool {
	for i := range a {
		if i >= len(b) {
			return false
		}
		if a[i] != b[i] {
			return a[i] < b[i]
		}
	}
	return len(a) < len(b)
}

func (r *stepResult) class(o op) string {
	c := o.Kind + "/" + r.kind
	if r.where != "" {
		c += "[" + r.where + "]"
	}
	return c
}

// shrink removes operations (and falls back to configuration 0) as long as the
// last operation still diverges in the same class; deterministic.
func shrink(h history, class string) (history, built) {
	same := func(c history) (built, bool) {
		b := build(c, true)
		if b.failed == nil || b.at != len(c.Ops)-1 {
			return b, false
		}
		return b, b.failed.class(alphabet[opByID[c.Ops[len(c.Ops)-1]]]) == class
	}
	cur := h
	curB, _ := same(cur)
	for changed := true; changed; {
		changed = false
		for i := 0; i < len(cur.Ops)-1; i++ {
			cand := history{Cfg: cur.Cfg}
			cand.Ops = append(append([]string{}, cur.Ops[:i]...), cur.Ops[i+1:]...)
			if b, ok := same(cand); ok {
				cur, curB, changed = cand, b, true
				break
			}
		}
	}
	if cur.Cfg != 0 {
		cand := history{Cfg: 0, Ops: cur.Ops}
		if b, ok := same(cand); ok {
			cur, curB = cand, b
		}
	}
	return cur, curB
}

type node struct {
	cfg int
	idx []int
}

func (n node) hist() history {
	h := history{Cfg: n.cfg}
	for _, i := range n.idx {
		h.Ops = append(h.Ops, alphabet[i].ID)
	}
	return h
}

// appendGrowthAgrees: the model appends with Go's builtin, the interpreter with
// reflect.Append; both must pick the same capacities for the model's sharing
// structure to be comparable (they do in every Go release that routes
// reflect.Append through runtime.growslice).
func appendGrowthAgrees() bool {
	for n := 0; n <= 12; n++ {
		for k := 1; k <= 4; k++ {
			s := make([]interface{}, n)
			add := make([]interface{}, k)
			if cap(append(s, add...)) != reflect.AppendSlice(reflect.ValueOf(make([]interface{}, n)), reflect.ValueOf(add)).Cap() {
				return false
			}
			t := make([]int64, n)
			rt := reflect.ValueOf(make([]int64, n))
			for j := 0; j < k; j++ {
				t = append(t, 1)
				rt = reflect.Append(rt, reflect.ValueOf(int64(1)))
			}
			if cap(t) != rt.Cap() {
				return false
			}
			u := make([]string, n)
			ru := reflect.ValueOf(make([]string, n))
			for j := 0; j < k; j++ {
				u = append(u, "")
				ru = reflect.Append(ru, reflect.ValueOf(""))
			}
			if cap(u) != ru.Cap() {
				return false
			}
			v := make([]interface{}, n)
			rv := reflect.ValueOf(make([]interface{}, n))
			for j := 0; j < k; j++ {
				v = append(v, 1)
				rv = reflect.Append(rv, reflect.ValueOf(1))
			}
			if cap(v) != rv.Cap() {
				return false
			}
		}
	}
	return true
}

func run(c *common.Ctx) *common.Result {
	res := common.NewResult()
	if !appendGrowthAgrees() {
		res.Cap("reflect.Append and the builtin append grow differently in this Go release; the model cannot predict capacities (no verdict)")
		return res
	}
	// quick: every history of depth <= 2 over the full alphabet, then one more
	// level with the reduced (core) alphabet; thorough: depth <= 3 over the full
	// alphabet.
	fullDepth, coreDepth := 2, 3
	deadline := c.Deadline
	if c.Thorough() {
		fullDepth, coreDepth = 3, 3
		if deadline.IsZero() {
			deadline = c.Start.Add(9 * time.Minute)
		}
	}
	expired := func() bool { return c.Expired() || (!deadline.IsZero() && time.Now().After(deadline)) }

	var coreOps []int
	for i, o := range alphabet {
		if o.Core {
			coreOps = append(coreOps, i)
		}
	}
	allOps := make([]int, len(alphabet))
	for i := range allOps {
		allOps[i] = i
	}
	res.Add("alphabet", int64(len(alphabet)))
	res.Add("alphabet_core", int64(len(coreOps)))

	seen := map[[20]byte]bool{}
	var frontier []node
	for cfg := range configs {
		w, problem := newWorld(cfg, true)
		diff := problem
		if diff == "" {
			diff, _ = w.initialDiff()
		}
		if diff != "" {
			res.Violate(common.Violation{Class: "initial/state", Case: caseString(cfg, nil), Detail: diff, Replay: history{Cfg: cfg}})
			continue
		}
		seen[w.key()] = true
		frontier = append(frontier, node{cfg: cfg})
	}
	res.Add("states", int64(len(frontier)))

	violCases := map[string]bool{}
	var vmu sync.Mutex

	// Sequential pre-pass, in this process, before any goroutine is started:
	// every depth-1 history, twice over, each on a fresh environment and a fresh
	// model.  Fresh environments must be independent of everything executed
	// before in the process; state that leaks from one environment into the
	// next (a process-wide cache handing out shared maps, ...) shows up here as
	// a fresh environment that does not start in the initial state.  The
	// parallel search relies on that independence (histories run concurrently),
	// so it is skipped when the pre-pass finds a leak.
	if !c.Worker || c.Shard == 0 {
		typeRebind(res)
	}
	if prepass(res, violCases) {
		res.Cap("environments of one process are not isolated (see the isolation/... violation): the parallel search was skipped")
		return res
	}
	maxDepth := fullDepth
	if coreDepth > maxDepth {
		maxDepth = coreDepth
	}
	for d := 1; d <= maxDepth && len(frontier) > 0; d++ {
		ops := allOps
		if d > fullDepth {
			ops = coreOps
		}
		var mu sync.Mutex
		next := map[[20]byte]node{}
		capped := false
		common.ParallelFor(c, len(frontier), func(i int) {
			if expired() {
				mu.Lock()
				capped = true
				mu.Unlock()
				return
			}
			nd := frontier[i]
			h := nd.hist()
			local := map[[20]byte]node{}
			for _, oi := range ops {
				o := alphabet[oi]
				b := build(h, false)
				if b.failed != nil {
					return // cannot happen: only clean states are kept
				}
				r := b.w.step(o, false)
				res.Add("transitions", 1)
				res.Add("ops/"+o.Kind, 1)
				if r.alt {
					res.Add("resolved_by_implementation(slice bound in (len,cap])", 1)
				}
				switch r.kind {
				case "undet":
					res.Add("transitions_underdetermined_skipped", 1)
					res.Distinct("underdetermined_reasons", r.mo.undet)
					continue
				case "":
					if r.mo.err {
						res.Add("transitions_error_and_unchanged", 1)
					} else {
						res.Add("transitions_success", 1)
					}
					if r.mo.hasVal && !r.mo.err && !r.mo.valUndet {
						res.Add("values_compared", 1)
					}
				default:
					// confirm with plain vm.Execute on a fresh environment
					hh := history{Cfg: h.Cfg, Ops: append(append([]string{}, h.Ops...), o.ID)}
					cb := build(hh, true)
					if cb.failed == nil || cb.failed.kind != r.kind || cb.at != len(h.Ops) {
						res.Add("unconfirmed_divergences(machinery)", 1)
						res.Cap("a divergence seen with cached syntax trees was not confirmed by plain vm.Execute: " + caseString(nd.cfg, append(append([]string{}, b.srcs...), r.src)))
						continue
					}
					res.Add("diverging_transitions", 1)
					class := cb.failed.class(o)
					sh, sb := shrink(hh, class)
					cs := caseString(sh.Cfg, sb.srcs)
					vmu.Lock()
					dup := violCases[cs]
					violCases[cs] = true
					vmu.Unlock()
					if !dup {
						res.Violate(common.Violation{Class: class, Case: cs, Detail: sb.failed.diff, Replay: sh})
					}
					continue // do not extend a history past a divergence
				}
				k := b.w.key()
				idx := append(append([]int{}, nd.idx...), oi)
				if old, ok := local[k]; !ok || less(idx, old.idx) {
					local[k] = node{cfg: nd.cfg, idx: idx}
				}
			}
			mu.Lock()
			for k, n := range local {
				if seen[k] {
					continue
				}
				if old, ok := next[k]; !ok || n.cfg < old.cfg || (n.cfg == old.cfg && less(n.idx, old.idx)) {
					next[k] = n
				}
			}
			mu.Unlock()
		})
		if capped {
			res.Cap(fmt.Sprintf("soft deadline reached at depth %d", d))
			break
		}
		frontier = frontier[:0]
		for k, n := range next {
			seen[k] = true
			frontier = append(frontier, n)
		}
		sort.Slice(frontier, func(i, j int) bool {
			if frontier[i].cfg != frontier[j].cfg {
				return frontier[i].cfg < frontier[j].cfg
			}
			return less(frontier[i].idx, frontier[j].idx)
		})
		res.Add("states", int64(len(frontier)))
		res.Max("depth", int64(d))
		res.Add(fmt.Sprintf("new_states_depth_%d", d), int64(len(frontier)))
		if d <= fullDepth {
			res.Max("depth_full_alphabet", int64(d))
		}
		if len(frontier) > 0 {
			for _, n := range []node{frontier[len(frontier)/3], frontier[(2*len(frontier))/3], frontier[len(frontier)-1]} {
				b := build(n.hist(), false)
				res.Sample(map[string]interface{}{"depth": d, "history": caseString(n.cfg, b.srcs), "state": strings.Split(strings.TrimSpace(dumpRoots(b.w.modelRoots(), false)), "\n")})
			}
		}
	}
	return res
}

func prepass(res *common.Result, violCases map[string]bool) (leak bool) {
	var prev *history
	var prevSrcs []string
	inCfg0 := map[string]bool{}
	for round := 0; round < 2; round++ {
		for cfg := range configs {
			for _, o := range alphabet {
				h := history{Cfg: cfg, Ops: []string{o.ID}}
				b := build(h, true)
				res.Add("prepass_transitions", 1)
				if b.failed != nil && b.failed.kind == "initial-state" {
					cs := "fresh environment: " + caseString(cfg, nil)
					rp := history{Cfg: cfg}
					if prev != nil {
						cs = "one environment: " + caseString(prev.Cfg, prevSrcs) + " || then a fresh environment: " + caseString(cfg, nil)
						rp.Pre = prev
					}
					res.Violate(common.Violation{Class: "isolation/initial-state[" + b.failed.where + "]", Case: cs, Detail: b.failed.diff, Replay: rp})
					return true
				}
				hh := h
				prev, prevSrcs = &hh, b.srcs
				if b.failed == nil || b.failed.kind == "undet" {
					continue
				}
				// depth-1 histories are minimal already (no re-execution here: a
				// leak found later must not be mixed into this case); a
				// divergence already reported for configuration 0 is not
				// repeated for the others, as the shrinker of the search does
				class := b.failed.class(o)
				if cfg == 0 {
					inCfg0[class+"|"+o.ID] = true
				} else if inCfg0[class+"|"+o.ID] {
					continue
				}
				cs := caseString(cfg, b.srcs)
				if !violCases[cs] {
					violCases[cs] = true
					res.Violate(common.Violation{Class: class, Case: cs, Detail: b.failed.diff, Replay: h})
				}
			}
		}
	}
	return false
}

func coverage(c *common.Ctx, r *common.Result) map[string]interface{} {
	perKind := map[string]int64{}
	for k, v := range r.Counts {
		if strings.HasPrefix(k, "ops/") {
			perKind[strings.TrimPrefix(k, "ops/")] = v
		}
	}
	return map[string]interface{}{
		"states":                         r.Counts["states"],
		"transitions":                    r.Counts["transitions"],
		"traces_validated_against_impl":  r.Counts["transitions"] - r.Counts["transitions_underdetermined_skipped"],
		"max_depth":                      r.GetMax("depth"),
		"max_depth_full_alphabet":        r.GetMax("depth_full_alphabet"),
		"alphabet_size":                  r.Counts["alphabet"],
		"alphabet_core_size":             r.Counts["alphabet_core"],
		"transitions_per_operation_kind": perKind,
		"underdetermined_reasons":        r.SetMembers("underdetermined_reasons"),
		"rule": "breadth-first search over histories of container operations (anko statements executed with vm.Execute on ONE environment) from three initial configurations; " +
			"states are de-duplicated on the canonical form of the reference model (contents of all variables + which slices share which backing array at which offset/len/cap + which variables are the same map); " +
			"a successor is computed by replaying the history on a fresh environment and a fresh model and executing one more operation; after every operation: same error-vs-success, same value (for reads), same canonical dump of all variables obtained with env.Get",
		"explanation": "a state is the model's variable store; a transition is one operation executed by the interpreter and by the Go model in lock-step, so every compared transition is a model trace step validated against the implementation",
	}
}

func replay(c *common.Ctx, path string) int {
	var h history
	if _, _, err := common.ReadReplay(path, &h); err != nil {
		fmt.Println("cannot read replay:", err)
		return 2
	}
	var first string
	var srcs []string
	for round := 0; round < 2; round++ {
		if h.Pre != nil {
			pb := build(*h.Pre, true)
			if round == 0 {
				fmt.Println("first, on another environment of this process:", caseString(h.Pre.Cfg, pb.srcs))
			}
		}
		b := build(h, true)
		d := ""
		if b.failed != nil {
			d = b.failed.kind + ": " + b.failed.diff
		}
		srcs = b.srcs
		if round == 0 {
			first = d
		} else if d != first {
			fmt.Printf("NONDETERMINISTIC replay: %q vs %q\n", first, d)
			return 2
		}
	}
	fmt.Println("history:", caseString(h.Cfg, srcs))
	if first == "" {
		fmt.Println("replay: model and implementation agree")
		return 0
	}
	if strings.HasPrefix(first, "undet:") {
		fmt.Println("replay: the history contains an under-determined step; nothing to compare")
		return 0
	}
	fmt.Println("divergence:", first)
	return 1
}

func init() {
	common.Register(&common.Prop{
		ID: "C10", Level: "model_checking", Run: run, Coverage: coverage, Replay: replay,
		Assumptions: []string{
			"variables: untyped slice a, alias/sub-slice b, untyped map m, string s, scratch x, typed t []int64, ts []string, tm map[string]int64, st = make(struct{A int64, B string, C []interface, D map[string]int64}); three initial configurations (b aliases a; a with spare capacity and b a window on it; a holding a nested slice and the map)",
			"quick: all histories of depth <= 2 over the full alphabet plus depth 3 over the reduced (core) alphabet; thorough: all histories of depth <= 3 over the full alphabet (9 minute soft deadline => exhaustive:false)",
			"index operands are int64 literals, a clearly non-numeric string, nil and a list; floats, bools and numeric strings as indices are not generated (under-determined)",
			"not compared: error messages; the value of assignment statements; `k in c` when an element of c has another scalar kind than k (equality across kinds is C06); a store of nil into an int64/string slot and container-to-container conversions (Go has no such conversion; anko has); writes through a nil map; a slice bound in (len, cap] (Go accepts, anko documents high <= len: the implementation's choice is followed, and when it succeeds the result must be Go's); single-character stores only for s[i] = v",
			"the variable x is not compared while it is bound to a value read from a typed slice element or struct field (anko binds the addressable slot, Go copies; the property only constrains the field/element itself), but everything else is, so a store through x that changes the field is reported",
			"the model appends with Go's builtin append; a start-up self-check confirms that reflect.Append (used by the interpreter) picks the same capacities in this Go release",
			"a panic escaping vm.Execute is reported as a violation (the property demands an error)",
			"also in the state: u (alias / sub-slice of the typed slice t), tf = make([]float64, 1, 4), st2 (a second value of st's struct type); `+`/`+=` between slices of different static element types is modelled as the Go loop `for _, e := range r { l = append(l, T(e)) }` (appends in place while the capacity lasts)",
			"before the parallel search a sequential pre-pass executes every depth-1 history twice on fresh environments in this process; a fresh environment that does not start in the initial state is an isolation/... violation and the parallel search is then skipped (exhaustive:false)",
		},
	})
}
