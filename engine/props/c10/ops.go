package c10

import (
	"fmt"
	"strconv"
	"strings"
)

// ---------- the little operation language ----------

type expr interface{}
type stmt interface{}

type eVar struct{ name string }
type eLit struct {
	src string
	mk  func() interface{}
}

// eSym is an integer literal whose value is taken from the model's state when
// the operation is rendered: len(of)+off or cap(of)+off.
type eSym struct {
	of   string
	base string // "len" | "cap"
	off  int
}
type eIdx struct{ c, i expr }
type eSlc struct{ c, lo, hi, cp expr } // nil = omitted
type eLen struct{ c expr }
type eIn struct{ k, c expr }
type eMem struct {
	c    expr
	name string
}
type eAdd struct{ l, r expr }
type eMapLit struct{ k, v expr } // {k: v}

type sExpr struct{ e expr }
type sLet struct{ lhs, rhs expr }
type sAddEq struct{ lhs, rhs expr }

// sLet2 is `l1, l2 = r1, r2`: both right sides are evaluated (their values taken)
// before anything is stored, as in Go (`a[0], a[1] = a[1], a[0]` swaps)
type sLet2 struct{ l1, l2, r1, r2 expr }
type sDel struct{ m, k expr }
type sMapItem struct { // v, ok = m[k]
	v, ok expr
	rhs   eIdx
}
type sCall struct {
	param string
	body  []stmt
	arg   expr
}

// render prints e as anko source; with m == nil symbolic literals are printed
// symbolically (that text is the stable identifier of the operation).
func render(e expr, m *machine) string {
	switch x := e.(type) {
	case eVar:
		return x.name
	case eLit:
		return x.src
	case eSym:
		if m == nil {
			s := "<" + x.base + " " + x.of
			if x.off > 0 {
				s += "+" + strconv.Itoa(x.off)
			} else if x.off < 0 {
				s += strconv.Itoa(x.off)
			}
			return s + ">"
		}
		return strconv.Itoa(m.symValue(x))
	case eIdx:
		return render(x.c, m) + "[" + render(x.i, m) + "]"
	case eSlc:
		s := render(x.c, m) + "["
		if x.lo != nil {
			s += render(x.lo, m)
		}
		s += ":"
		if x.hi != nil {
			s += render(x.hi, m)
		}
		if x.cp != nil {
			s += ":" + render(x.cp, m)
		}
		return s + "]"
	case eLen:
		return "len(" + render(x.c, m) + ")"
	case eIn:
		return render(x.k, m) + " in " + render(x.c, m)
	case eMem:
		return render(x.c, m) + "." + x.name
	case eAdd:
		return render(x.l, m) + " + " + render(x.r, m)
	case eMapLit:
		return "{" + render(x.k, m) + ": " + render(x.v, m) + "}"
	}
	panic(fmt.Sprintf("c10: cannot render %T", e))
}

func renderStmt(s stmt, m *machine) string {
	switch x := s.(type) {
	case sExpr:
		return render(x.e, m)
	case sLet:
		return render(x.lhs, m) + " = " + render(x.rhs, m)
	case sLet2:
		return render(x.l1, m) + ", " + render(x.l2, m) + " = " + render(x.r1, m) + ", " + render(x.r2, m)
	case sAddEq:
		return render(x.lhs, m) + " += " + render(x.rhs, m)
	case sMapItem:
		return render(x.v, m) + ", " + render(x.ok, m) + " = " + render(x.rhs, m)
	case sDel:
		if x.k == nil {
			return "delete(" + render(x.m, m) + ")"
		}
		return "delete(" + render(x.m, m) + ", " + render(x.k, m) + ")"
	case sCall:
		var parts []string
		for _, b := range x.body {
			parts = append(parts, renderStmt(b, m))
		}
		return "func(" + x.param + ") { " + strings.Join(parts, "; ") + " }(" + render(x.arg, m) + ")"
	}
	panic(fmt.Sprintf("c10: cannot render %T", s))
}

func exprUses(e expr, name string) bool {
	switch x := e.(type) {
	case nil:
		return false
	case eVar:
		return x.name == name
	case eSym:
		return x.of == name
	case eIdx:
		return exprUses(x.c, name) || exprUses(x.i, name)
	case eSlc:
		return exprUses(x.c, name) || exprUses(x.lo, name) || exprUses(x.hi, name) || exprUses(x.cp, name)
	case eLen:
		return exprUses(x.c, name)
	case eIn:
		return exprUses(x.k, name) || exprUses(x.c, name)
	case eMem:
		return exprUses(x.c, name)
	case eAdd:
		return exprUses(x.l, name) || exprUses(x.r, name)
	case eMapLit:
		return exprUses(x.k, name) || exprUses(x.v, name)
	}
	return false
}

func stmtUses(s stmt, name string) bool {
	switch x := s.(type) {
	case sExpr:
		return exprUses(x.e, name)
	case sLet:
		return exprUses(x.lhs, name) || exprUses(x.rhs, name)
	case sLet2:
		return exprUses(x.l1, name) || exprUses(x.l2, name) || exprUses(x.r1, name) || exprUses(x.r2, name)
	case sAddEq:
		return exprUses(x.lhs, name) || exprUses(x.rhs, name)
	case sDel:
		return exprUses(x.m, name) || exprUses(x.k, name)
	case sMapItem:
		return exprUses(x.v, name) || exprUses(x.ok, name) || exprUses(x.rhs, name)
	case sCall:
		if exprUses(x.arg, name) {
			return true
		}
		for _, b := range x.body {
			if stmtUses(b, name) {
				return true
			}
		}
	}
	return false
}

// ---------- literals ----------

func litInt(n int64) expr {
	return eLit{strconv.FormatInt(n, 10), func() interface{} { return n }}
}
func litStr(s string) expr {
	return eLit{strconv.Quote(s), func() interface{} { return s }}
}

func litF(src string, f float64) expr {
	return eLit{src, func() interface{} { return f }}
}

var (
	litFloat = eLit{"2.5", func() interface{} { return float64(2.5) }}
	litTrue  = eLit{"true", func() interface{} { return true }}
	litNil   = eLit{"nil", func() interface{} { return nil }}
	litSl8   = eLit{"[8]", func() interface{} { return []interface{}{int64(8)} }}
	litSl1   = eLit{"[1]", func() interface{} { return []interface{}{int64(1)} }}
	litSl89  = eLit{"[8, 9]", func() interface{} { return []interface{}{int64(8), int64(9)} }}
	litSl7z  = eLit{"[7, \"z\"]", func() interface{} { return []interface{}{int64(7), "z"} }}
	litRows  = eLit{"[[5], [6]]", func() interface{} { return []interface{}{[]interface{}{int64(5)}, []interface{}{int64(6)}} }}
	litRowsZ = eLit{"[[5], [\"z\"]]", func() interface{} { return []interface{}{[]interface{}{int64(5)}, []interface{}{"z"}} }}
	litSl56  = eLit{"[5, 6]", func() interface{} { return []interface{}{int64(5), int64(6)} }}
	litSl777 = eLit{"[7, 7, 7]", func() interface{} { return []interface{}{int64(7), int64(7), int64(7)} }}
	litSl0   = eLit{"[]", func() interface{} { return []interface{}{} }}
	litMapQ  = eLit{`{"q": 8}`, func() interface{} { return map[interface{}]interface{}{"q": int64(8)} }}
)

func v(n string) expr               { return eVar{n} }
func ln(of string, off int) expr    { return eSym{of, "len", off} }
func cp(of string, off int) expr    { return eSym{of, "cap", off} }
func idx(c, i expr) expr            { return eIdx{c, i} }
func slc(c, lo, hi expr) expr       { return eSlc{c, lo, hi, nil} }
func slc3(c, lo, hi, cpx expr) expr { return eSlc{c, lo, hi, cpx} }
func mem(c expr, name string) expr  { return eMem{c, name} }

// ---------- the alphabet ----------

type op struct {
	ID   string // symbolic source text; stable
	Kind string // class label used in violation classes
	S    stmt
	Core bool // member of the reduced alphabet used for the deepest level of the quick tier
}

// the seven kinds of value stored into every slot
func storeValues() []expr {
	return []expr{litInt(9), litFloat, litStr("z"), litTrue, litNil, litSl8, litMapQ}
}

// index pool relative to a sliceable variable
func idxPool(c string) []expr {
	return []expr{litInt(-1), litInt(0), ln(c, -1), ln(c, 0), ln(c, 1), litStr("k"), litNil, litSl1}
}

func buildAlphabet() []op {
	var ops []op
	add := func(kind string, core bool, s stmt) {
		ops = append(ops, op{ID: renderStmt(s, nil), Kind: kind, S: s, Core: core})
	}
	a, b, mm, s, x := v("a"), v("b"), v("m"), v("s"), v("x")
	t, ts, tm, st := v("t"), v("ts"), v("tm"), v("st")

	// A. index reads on untyped slices
	for k, i := range idxPool("a") {
		add("slice/index-read", k == 1 || k == 3, sExpr{idx(a, i)})
	}
	for _, i := range []expr{litInt(0), ln("b", -1), ln("b", 0)} {
		add("slice/index-read", false, sExpr{idx(b, i)})
	}
	// B. index writes (incl. automatic append at len)
	for k, i := range idxPool("a") {
		add("slice/index-write", k >= 1 && k <= 4, sLet{idx(a, i), litInt(9)})
	}
	for _, i := range []expr{litInt(0), ln("b", -1), ln("b", 0), ln("b", 1)} {
		add("slice/index-write", true, sLet{idx(b, i), litInt(7)})
	}
	// C. every kind of value, and references to the other containers, into a[0]
	for _, val := range append(storeValues()[1:], b, mm, a) {
		add("slice/index-write", false, sLet{idx(a, litInt(0)), val})
	}
	// D. nested
	add("slice/nested-read", false, sExpr{idx(idx(a, litInt(0)), litInt(0))})
	add("slice/nested-write", false, sLet{idx(idx(a, litInt(0)), litInt(0)), litInt(6)})
	// E. two-index slicing
	type pr struct{ lo, hi expr }
	for k, p := range []pr{
		{litInt(0), litInt(1)}, {litInt(1), ln("a", 0)}, {litInt(0), ln("a", 0)}, {ln("a", 0), ln("a", 0)}, {litInt(1), litInt(1)},
		{litInt(0), ln("a", 1)}, {litInt(-1), litInt(1)}, {litInt(2), litInt(1)}, {ln("a", 1), ln("a", 1)},
		{litStr("k"), litInt(1)}, {litInt(0), litStr("k")}, {litNil, litInt(1)}, {litInt(0), litSl1},
		{nil, ln("a", -1)}, {litInt(1), nil},
	} {
		add("slice/slice2", k < 2 || k == 5, sLet{b, slc(a, p.lo, p.hi)})
	}
	add("slice/slice2", true, sLet{b, slc(b, litInt(1), nil)})
	add("slice/slice2", false, sLet{b, slc(b, litInt(0), litInt(1))})
	add("slice/slice2", false, sExpr{slc(a, litInt(0), litInt(2))})
	add("slice/slice2", false, sExpr{slc(a, litInt(1), ln("a", 0))})
	// F. three-index slicing
	type tr struct{ lo, hi, cp expr }
	for k, p := range []tr{
		{litInt(0), litInt(1), litInt(2)}, {litInt(0), litInt(1), litInt(1)}, {litInt(1), litInt(2), cp("a", 0)},
		{litInt(0), litInt(1), cp("a", 1)}, {litInt(0), litInt(2), litInt(1)}, {litInt(0), litInt(1), litStr("k")},
		{litInt(0), litInt(1), litInt(-1)}, {litInt(0), ln("a", 0), ln("a", 0)},
	} {
		add("slice/slice3", k == 0 || k == 3, sLet{b, slc3(a, p.lo, p.hi, p.cp)})
	}
	// G. aliasing through assignment
	add("alias", true, sLet{b, a})
	add("alias", false, sLet{x, a})
	add("alias", false, sLet{x, b})
	add("alias", false, sLet{x, idx(a, litInt(0))})
	add("alias", false, sLet{x, idx(a, ln("a", -1))})
	add("alias", true, sLet{x, mm})
	add("alias", false, sLet{x, idx(mm, litStr("k"))})
	add("alias", false, sLet{x, litNil})
	// H. append
	add("append", true, sAddEq{a, litInt(4)})
	add("append", false, sAddEq{a, litSl56})
	add("append", false, sAddEq{a, b})
	add("append", false, sAddEq{a, a})
	add("append", false, sAddEq{a, litSl0})
	add("append", false, sAddEq{a, litNil})
	add("append", false, sAddEq{a, mm})
	add("append", true, sAddEq{b, litInt(7)})
	add("append", false, sAddEq{b, litSl777})
	add("append", false, sAddEq{b, a})
	add("append", false, sLet{x, eAdd{a, litInt(4)}})
	add("append", true, sLet{x, eAdd{b, litInt(7)}})
	add("append", false, sExpr{eAdd{a, litInt(4)}})
	// I. len / in
	for _, c := range []expr{a, b, mm, s, x, litInt(9)} {
		add("len", false, sExpr{eLen{c}})
	}
	add("in", false, sExpr{eIn{litInt(2), a}})
	add("in", false, sExpr{eIn{litInt(9), a}})
	add("in", false, sExpr{eIn{litInt(7), b}})
	add("in", false, sExpr{eIn{litInt(2), mm}})
	add("in", false, sExpr{eIn{litStr("b"), s}})
	add("in", false, sExpr{eIn{litInt(2), litInt(9)}})
	// J. the untyped map
	for _, k := range []expr{litStr("k"), litStr("x"), litInt(2), litInt(-1), litNil, litSl1, litMapQ} {
		add("map/index-read", false, sExpr{idx(mm, k)})
	}
	for i, k := range []expr{litStr("k"), litStr("x"), litInt(2), litNil, litSl1, litMapQ} {
		add("map/index-write", i == 1 || i == 4, sLet{idx(mm, k), litInt(9)})
	}
	for _, val := range []expr{litNil, litSl8, a, mm, litStr("z")} {
		add("map/index-write", false, sLet{idx(mm, litStr("k")), val})
	}
	add("map/member-read", false, sExpr{mem(mm, "k")})
	add("map/member-read", false, sExpr{mem(mm, "zz")})
	add("map/member-write", false, sLet{mem(mm, "k"), litInt(5)})
	add("map/member-write", false, sLet{mem(mm, "n"), a})
	for i, k := range []expr{litStr("k"), litStr("x"), litInt(2), litNil, litSl1, litMapQ} {
		add("map/delete", i == 0 || i == 4, sDel{mm, k})
	}
	add("map/delete", false, sDel{mm, nil})
	add("map/delete", false, sDel{a, litInt(0)})
	add("map/delete", false, sDel{x, litStr("k")})
	// K. the string
	for k, i := range idxPool("s") {
		add("string/index-read", k == 3, sExpr{idx(s, i)})
	}
	for _, p := range []pr{
		{litInt(0), litInt(1)}, {litInt(1), ln("s", 0)}, {ln("s", 0), ln("s", 0)}, {litInt(0), ln("s", 1)},
		{litInt(2), litInt(1)}, {litInt(-1), litInt(1)}, {litStr("k"), litInt(1)},
	} {
		add("string/slice", false, sLet{x, slc(s, p.lo, p.hi)})
	}
	add("string/slice", false, sExpr{slc3(s, litInt(0), litInt(1), litInt(2))})
	add("string/slice", false, sExpr{slc(s, litInt(0), litInt(2))})
	for k, i := range idxPool("s") {
		add("string/index-write", k >= 2 && k <= 4, sLet{idx(s, i), litStr("z")})
	}
	for _, val := range []expr{litSl1, litTrue, litFloat} {
		add("string/index-write", false, sLet{idx(s, litInt(0)), val})
	}
	add("string/append", false, sAddEq{s, litStr("d")})
	// L. whatever x holds
	add("generic/index-read", false, sExpr{idx(x, litInt(0))})
	add("generic/index-read", false, sExpr{idx(x, litStr("k"))})
	add("generic/index-write", true, sLet{idx(x, litInt(0)), litInt(9)})
	add("generic/index-write", false, sLet{idx(x, litStr("n")), litInt(1)})
	add("generic/index-write", true, sLet{idx(x, litInt(0)), litStr("z")})
	add("generic/slice", false, sExpr{slc(x, litInt(0), litInt(1))})
	// M. every kind of value into every typed slot
	slots := []expr{idx(t, litInt(0)), idx(ts, litInt(0)), idx(tm, litStr("k")), mem(st, "A"), mem(st, "B"), mem(st, "C"), mem(st, "D")}
	for _, sl := range slots {
		for k, val := range storeValues() {
			add("typed/store", k == 0, sLet{sl, val})
		}
	}
	add("typed/store", false, sLet{mem(st, "B"), litStr("hello")})
	add("typed/store", true, sLet{mem(st, "C"), a})
	add("typed/store", false, sLet{mem(st, "C"), b})
	add("typed/store", false, sLet{mem(st, "D"), tm})
	// N. typed containers: reads, bounds, append, delete
	for _, i := range []expr{litInt(-1), litInt(0), ln("t", -1), ln("t", 0), litStr("k")} {
		add("typed/index-read", false, sExpr{idx(t, i)})
	}
	add("typed/index-read", false, sExpr{idx(ts, litInt(0))})
	add("typed/index-write", false, sLet{idx(t, ln("t", 0)), litInt(9)})
	add("typed/index-write", false, sLet{idx(t, ln("t", 1)), litInt(9)})
	add("typed/index-write", false, sLet{idx(t, litInt(-1)), litInt(9)})
	add("typed/index-write", false, sLet{idx(t, ln("t", 0)), litStr("z")})
	add("typed/index-write", false, sLet{idx(ts, ln("ts", 0)), litStr("w")})
	add("typed/append", false, sAddEq{t, litInt(9)})
	add("typed/append", false, sAddEq{t, litStr("z")})
	add("typed/append", false, sAddEq{ts, litStr("z")})
	add("typed/append", false, sAddEq{ts, litFloat})
	add("len", false, sExpr{eLen{t}})
	add("len", false, sExpr{eLen{tm}})
	add("in", false, sExpr{eIn{litInt(9), t}})
	add("typed/slice", false, sLet{x, slc(t, litInt(0), litInt(2))})
	add("typed/slice", false, sLet{x, t})
	add("typed/slice", false, sExpr{slc(t, litInt(1), ln("t", 1))})
	for _, k := range []expr{litStr("k"), litStr("x"), litSl1} {
		add("typed/map-read", false, sExpr{idx(tm, k)})
	}
	add("typed/map-read", false, sExpr{mem(tm, "k")})
	add("typed/map-read", false, sExpr{mem(tm, "zz")})
	add("typed/map-write", false, sLet{idx(tm, litStr("n")), litInt(5)})
	add("typed/map-write", false, sLet{idx(tm, litSl1), litInt(1)})
	add("typed/map-write", false, sLet{mem(tm, "n"), litInt(3)})
	add("typed/map-delete", false, sDel{tm, litStr("k")})
	add("typed/map-delete", false, sDel{tm, litSl1})
	for _, f := range []string{"A", "B", "C", "D", "Nope"} {
		add("struct/field-read", f == "B", sExpr{mem(st, f)})
	}
	add("struct/field-write", false, sLet{mem(st, "Nope"), litInt(1)})
	add("struct/field-elem", false, sExpr{idx(mem(st, "C"), litInt(0))})
	add("struct/field-elem", false, sLet{idx(mem(st, "C"), litInt(0)), litInt(9)})
	add("struct/field-elem", false, sAddEq{mem(st, "C"), litInt(5)})
	add("struct/field-elem", false, sLet{idx(mem(st, "D"), litStr("n")), litInt(5)})
	add("struct/field-elem", false, sExpr{idx(mem(st, "D"), litStr("n"))})
	add("struct/field-elem", false, sExpr{eLen{mem(st, "C")}})
	add("struct/field-elem", false, sExpr{idx(mem(st, "B"), litInt(0))})
	add("struct/field-elem", false, sLet{idx(mem(st, "B"), litInt(0)), litStr("j")})
	add("typed/index-write", false, sLet{idx(idx(ts, litInt(0)), litInt(0)), litStr("w")})
	add("alias/typed-string", true, sLet{x, mem(st, "B")})
	add("alias/typed-string", false, sLet{x, idx(ts, litInt(0))})
	// P. the typed slice through an alias / sub-slice u; append of operands with
	// different static element types, in both orders ([]int64 + untyped list,
	// untyped list + []int64, []float64 + []int64, []int64 + []float64)
	u, tf, st2 := v("u"), v("tf"), v("st2")
	add("typed/alias", false, sLet{u, t})
	add("typed/alias", false, sLet{u, slc(t, litInt(0), litInt(2))})
	add("typed/alias", false, sLet{u, slc(t, litInt(1), nil)})
	add("typed/alias", false, sLet{u, slc(u, litInt(0), litInt(1))})
	add("typed/index-write", false, sLet{idx(u, litInt(0)), litInt(7)})
	add("typed/index-write", false, sLet{idx(u, ln("u", 0)), litInt(9)})
	add("typed/append", false, sAddEq{u, litInt(9)})
	add("append/mixed", false, sLet{x, eAdd{u, litSl8}})
	add("append/mixed", false, sLet{x, eAdd{u, litSl89}})
	add("append/mixed", false, sAddEq{u, litSl8})
	// an element without a conversion AFTER a convertible one: the append fails and
	// nothing may have been stored (u's spare capacity is visible through t)
	// multiple assignment: the right side values are taken before anything is stored
	add("swap", true, sLet2{idx(a, litInt(0)), idx(a, litInt(1)), idx(a, litInt(1)), idx(a, litInt(0))})
	add("swap", false, sLet2{idx(a, litInt(0)), idx(a, litInt(2)), idx(a, litInt(2)), idx(a, litInt(0))})
	add("swap", false, sLet2{idx(b, litInt(0)), idx(a, litInt(1)), idx(a, litInt(1)), idx(b, litInt(0))})
	add("swap", false, sLet2{idx(t, litInt(0)), idx(t, litInt(1)), idx(t, litInt(1)), idx(t, litInt(0))})
	add("swap", false, sLet2{idx(u, litInt(0)), idx(t, litInt(1)), idx(t, litInt(1)), idx(u, litInt(0))})
	add("swap", false, sLet2{x, idx(a, litInt(0)), idx(a, litInt(0)), litInt(7)})
	add("swap", false, sLet2{idx(a, litInt(0)), x, litInt(7), idx(a, litInt(0))})
	add("append/mixed-fails", false, sLet{x, eAdd{u, litSl7z}})
	add("append/mixed-fails", false, sAddEq{u, litSl7z})
	add("append/mixed-fails", false, sLet{x, eAdd{t, litSl7z}})
	add("append/mixed", false, sLet{x, eAdd{t, litSl8}})
	add("append/mixed", false, sLet{x, eAdd{b, t}})
	add("append/mixed", false, sLet{x, eAdd{b, u}})
	add("append/mixed", false, sAddEq{b, u})
	add("append/mixed", false, sLet{x, eAdd{litSl8, t}})
	add("append/mixed", false, sLet{x, eAdd{tf, t}})
	add("append/mixed", false, sLet{x, eAdd{tf, u}})
	add("append/mixed", false, sAddEq{tf, u})
	add("append/mixed", false, sLet{x, eAdd{tf, litSl8}})
	add("append/mixed", false, sLet{x, eAdd{u, tf}})
	add("append/mixed", false, sLet{x, eAdd{u, t}})
	add("typed/store", false, sLet{idx(tf, litInt(0)), litInt(9)})
	add("typed/store", false, sLet{idx(tf, litInt(0)), litStr("z")})
	add("typed/index-read", false, sExpr{idx(tf, litInt(0))})
	add("len", false, sExpr{eLen{tf}})
	// Q. a second value of the same struct type: its fields are its own
	add("struct/second-value", false, sLet{idx(mem(st2, "D"), litStr("n")), litInt(7)})
	add("struct/second-value", false, sExpr{mem(st2, "D")})
	add("struct/second-value", false, sLet{mem(st2, "A"), litInt(9)})
	add("struct/second-value", false, sAddEq{mem(st2, "C"), litInt(6)})
	// S. membership on the typed containers: the language's equality applied to
	// the current contents, never a conversion of the item to the element type
	for _, it := range []expr{litF("-0.5", -0.5), litF("9.5", 9.5), litInt(0), litStr("0"), litStr("p"), litNil} {
		add("in/typed", false, sExpr{eIn{it, t}})
	}
	for _, it := range []expr{litStr("p"), litInt(112), litInt(1), litNil} {
		add("in/typed", false, sExpr{eIn{it, ts}})
	}
	for _, it := range []expr{litInt(0), litF("-0.5", -0.5), litStr("0"), litInt(9)} {
		add("in/typed", false, sExpr{eIn{it, tf}})
	}
	add("in/typed", false, sExpr{eIn{litF("-0.5", -0.5), u}})
	add("in/typed", false, sExpr{eIn{litInt(7), u}})
	add("in", false, sExpr{eIn{litF("2.0", 2), a}})
	add("in", false, sExpr{eIn{litStr("2"), a}})
	add("typed/store", false, sLet{idx(ts, litInt(1)), litStr("1")})
	// R. a typed slice that lives in a struct field or in an element of a
	// [][]int64, read into another name or passed to a function: an append
	// through that name (assignment at index len) works on a COPY of the slice
	// header, the field / element keeps its own len
	rows := v("rows")
	add("alias/typed-slice", true, sLet{x, mem(st, "C")})
	add("alias/typed-slice", false, sLet{x, idx(rows, litInt(0))})
	add("generic/index-write", true, sLet{idx(x, eLen{x}), litInt(9)})
	add("struct/field-elem", false, sLet{idx(mem(st, "C"), eLen{mem(st, "C")}), litInt(4)})
	add("typed/rows", false, sExpr{idx(rows, litInt(0))})
	add("typed/rows", false, sLet{idx(idx(rows, litInt(0)), eLen{idx(rows, litInt(0))}), litInt(9)})
	add("typed/rows", false, sLet{idx(rows, litInt(1)), t})
	add("typed/rows", false, sLet{idx(rows, litInt(0)), litInt(9)})
	// T. struct values as map keys: a struct with only comparable fields works
	// as a key; a struct with a slice field (script-made `su`, host-defined
	// `hs`), a struct whose interface{} field currently holds a slice (`si`
	// after `si.V = [8]`) and an array of slices (`ha`) are unhashable: error
	// when written or deleted, nil / false when read, never a panic
	okv := v("ok")
	for _, k := range []expr{v("sk"), v("su"), v("hs"), v("si"), v("ha")} {
		add("map/struct-key", false, sLet{idx(mm, k), litInt(9)})
		add("map/struct-key", false, sExpr{idx(mm, k)})
		add("map/struct-key", false, sDel{mm, k})
		add("map/struct-key", false, sLet{x, eMapLit{k, litInt(1)}})
		add("map/struct-key", false, sMapItem{x, okv, eIdx{mm, k}})
	}
	add("map/item-ok", false, sMapItem{x, okv, eIdx{mm, litStr("k")}})
	add("map/item-ok", false, sMapItem{x, okv, eIdx{mm, litStr("x")}})
	add("map/item-ok", false, sMapItem{x, okv, eIdx{mm, litSl1}})
	add("struct/iface-field", false, sLet{mem(v("si"), "V"), litSl8})
	add("struct/iface-field", false, sLet{mem(v("si"), "V"), litInt(1)})
	add("struct/iface-field", false, sExpr{mem(v("si"), "V")})
	add("typed/map-write", false, sLet{idx(tm, v("su")), litInt(1)})
	add("typed/map-read", false, sExpr{idx(tm, v("su"))})
	// U. host struct types with embedded structs: promoted fields are read and
	// written directly (by value `uv`, by pointer `up`, made from a defined type
	// `uk`, embedded by pointer `pp`, two levels `dp`, shadowing `sh`, held in a
	// list `ul = [up, uv]` and in a map `uh = {"p": up, "v": uv}`)
	uv, up, uk, pp, dp, sh, ul, uh := v("uv"), v("up"), v("uk"), v("pp"), v("dp"), v("sh"), v("ul"), v("uh")
	for _, e := range []expr{
		mem(uv, "ID"), mem(uv, "Name"), mem(mem(uv, "Base"), "ID"), mem(uv, "Age"), mem(uv, "Nope"),
		mem(up, "ID"), mem(mem(up, "Base"), "ID"), mem(up, "Name"),
		mem(uk, "ID"), mem(pp, "ID"), mem(mem(pp, "Base"), "ID"), mem(pp, "Name"),
		mem(dp, "ID"), mem(mem(dp, "User"), "ID"), mem(dp, "Name"), mem(dp, "Tag"),
		mem(sh, "ID"), mem(mem(sh, "Base"), "ID"), mem(sh, "Name"),
		mem(idx(ul, litInt(0)), "ID"), mem(idx(ul, litInt(1)), "ID"), mem(mem(uh, "p"), "ID"), mem(idx(uh, litStr("v")), "Name"),
	} {
		add("struct/embedded-read", false, sExpr{e})
	}
	type wr struct {
		l expr
		v expr
	}
	for _, w := range []wr{
		{mem(up, "ID"), litInt(7)}, {mem(mem(up, "Base"), "ID"), litInt(8)}, {mem(up, "Name"), litStr("n")}, {mem(up, "ID"), litStr("z")},
		{mem(up, "Nope"), litInt(1)}, {mem(up, "Age"), litFloat},
		{mem(uk, "ID"), litInt(7)}, {mem(uk, "Name"), litStr("n")},
		{mem(pp, "ID"), litInt(7)}, {mem(pp, "Name"), litInt(9)},
		{mem(dp, "ID"), litInt(7)}, {mem(mem(mem(dp, "User"), "Base"), "ID"), litInt(6)}, {mem(dp, "Name"), litStr("n")},
		{mem(sh, "ID"), litInt(7)}, {mem(mem(sh, "Base"), "ID"), litInt(6)}, {mem(sh, "Name"), litStr("n")},
		{mem(idx(ul, litInt(0)), "ID"), litInt(3)}, {mem(mem(uh, "p"), "Name"), litStr("q")},
	} {
		add("struct/embedded-write", false, sLet{w.l, w.v})
	}
	// O. script functions that mutate, append to or re-slice their parameter
	z := v("z")
	add("call", true, sCall{"z", []stmt{sLet{idx(z, litInt(0)), litInt(9)}}, a})
	add("call", false, sCall{"z", []stmt{sAddEq{z, litInt(9)}}, a})
	add("call", true, sCall{"z", []stmt{sAddEq{z, litInt(9)}}, b})
	add("call", false, sCall{"z", []stmt{sLet{z, slc(z, litInt(0), litInt(1))}, sLet{idx(z, litInt(0)), litInt(8)}}, a})
	add("call", false, sCall{"z", []stmt{sLet{idx(z, eLen{z}), litInt(9)}}, b})
	add("call", false, sCall{"z", []stmt{sLet{idx(z, litStr("n")), litInt(1)}}, mm})
	add("call", false, sCall{"z", []stmt{sDel{z, litStr("k")}}, mm})
	add("call", false, sCall{"z", []stmt{sLet{mem(z, "n"), litInt(2)}}, mm})
	add("call", false, sCall{"z", []stmt{sLet{idx(z, litInt(0)), litStr("y")}}, s})
	add("call", false, sCall{"z", []stmt{sLet{idx(z, litInt(0)), litInt(9)}}, t})
	// a parameter bound to a number read from a typed slot is a value of its own: a
	// store into the slot inside the callee does not change it
	add("call/param-value", false, sCall{"z", []stmt{sLet{idx(t, litInt(0)), litInt(9)}, sLet{idx(a, litInt(0)), z}}, idx(t, litInt(0))})
	add("call/param-value", false, sCall{"z", []stmt{sLet{mem(st, "A"), litInt(9)}, sLet{idx(a, litInt(1)), z}}, mem(st, "A")})
	add("call", false, sCall{"z", []stmt{sAddEq{z, litSl8}}, u})
	add("call", false, sCall{"z", []stmt{sLet{idx(z, eLen{z}), litInt(8)}}, mem(st, "C")})
	add("call", false, sCall{"z", []stmt{sLet{idx(z, eLen{z}), litInt(8)}}, idx(rows, litInt(0))})
	// lists of lists appended to a window of rows that has spare capacity behind it
	// (rows itself sees that capacity): fitting lists are stored in place, a list
	// with an inconvertible inner element stores nothing
	add("append/rows", false, sLet{x, eAdd{slc(rows, litInt(0), litInt(1)), litRows}})
	add("append/rows", false, sLet{x, eAdd{slc(rows, litInt(0), litInt(0)), litRows}})
	add("append/rows-fails", false, sLet{x, eAdd{slc(rows, litInt(0), litInt(1)), litRowsZ}})
	add("append/rows-fails", false, sLet{x, eAdd{slc(rows, litInt(0), litInt(0)), litRowsZ}})
	add("call", false, sCall{"z", []stmt{sLet{idx(z, eLen{z}), litInt(8)}}, x})

	seen := map[string]bool{}
	for i, o := range ops {
		if seen[o.ID] {
			panic("c10: duplicate operation " + o.ID)
		}
		seen[o.ID] = true
		ops[i].Core = coreIDs[o.ID]
	}
	for id := range coreIDs {
		if !seen[id] {
			panic("c10: core operation not in the alphabet: " + id)
		}
	}
	return ops
}

// coreIDs: the reduced alphabet used for the third level of the quick tier: one
// representative per mutating construct (the reads add no states).
var coreIDs = map[string]bool{
	`a[<len a>] = 9`: true, `b[0] = 7`: true, `b = a[0:1]`: true,
	`a += 4`: true, `b += 7`: true, `delete(m, "k")`: true,
	`x[0] = 9`: true, `st.C = a`: true,
	`x = st.C`: true, `x[len(x)] = 9`: true, `u = t[0:2]`: true, `x = u + [8]`: true,
	`func(z) { z[0] = 9 }(a)`: true, `func(z) { z += 9 }(b)`: true,
	`st.D["n"] = 5`: true, `m[si] = 9`: true, `si.V = [8]`: true,
}

// ---------- initial configurations ----------

type config struct {
	name  string
	setup []string // anko statements
	model func() map[string]interface{}
}

// hostValues: what the host defines in every fresh environment (and the model
// gets its own, equal, instances).
func hostValues() map[string]interface{} {
	up := &User{Base{2, "p"}, 40}
	uv := User{Base{1, "v"}, 30}
	return map[string]interface{}{
		"uv": uv,
		"up": up,
		"pp": &PUser{&Base{3, "pp"}, 50},
		"dp": &Deep{User{Base{4, "d"}, 60}, "t"},
		"sh": &Shadow{Base{5, "s"}, 55},
		"hs": HostS{1, []int64{1}},
		"ha": [1][]int64{nil},
	}
}

func baseModel() map[string]interface{} {
	g := baseModel0()
	for k, v := range hostValues() {
		g[k] = v
	}
	g["ul"] = []interface{}{g["up"], g["uv"]}
	g["uh"] = map[interface{}]interface{}{"p": g["up"], "v": g["uv"]}
	return g
}

func baseModel0() map[string]interface{} {
	return map[string]interface{}{
		"m":    map[interface{}]interface{}{"k": int64(1), int64(2): "v"},
		"s":    "abc",
		"x":    nil,
		"t":    make([]int64, 3),
		"ts":   []string{"p", "q"},
		"tm":   map[string]int64{"k": 1},
		"st":   &mst{C: []interface{}{}, D: map[string]int64{}},
		"tf":   make([]float64, 1, 4),
		"rows": make([][]int64, 2),
		"ok":   nil,
		"sk":   skT{},
		"su":   suT{A: []int64{}},
		"si":   &HostI{},
		"uk":   &User{},
		"st2":  &mst{C: []interface{}{}, D: map[string]int64{}},
	}
}

var baseSetup = []string{
	`m = {"k": 1, 2: "v"}`,
	`s = "abc"`,
	`x = nil`,
	`t = make([]int64, 3)`,
	`ts = []string{"p", "q"}`,
	`tm = map[string]int64{"k": 1}`,
	`st = make(struct { A int64, B string, C []interface, D map[string]int64 })`,
	`tf = make([]float64, 1, 4)`,
	`rows = make([][]int64, 2)`,
	`ok = nil`,
	`sk = make(struct { A int64, B string })`,
	`su = make(struct { A []int64, B int64 })`,
	`si = make(HostI)`,
	`uk = make(User)`,
	`ul = [up, uv]`,
	`uh = {"p": up, "v": uv}`,
	`st2 = make(struct { A int64, B string, C []interface, D map[string]int64 })`,
}

var configs = []config{
	{
		name:  "b aliases a",
		setup: []string{`a = [1, 2, 3]`, `b = a`, `u = t`},
		model: func() map[string]interface{} {
			g := baseModel()
			a := []interface{}{int64(1), int64(2), int64(3)}
			g["a"], g["b"] = a, a
			g["u"] = g["t"]
			return g
		},
	},
	{
		name:  "a has spare capacity, b is a window on it",
		setup: []string{`a = [1, 2, 3]`, `a += 4`, `b = a[1:3]`, `u = t[0:2]`},
		model: func() map[string]interface{} {
			g := baseModel()
			a := []interface{}{int64(1), int64(2), int64(3)}
			a = append(a, int64(4))
			g["a"], g["b"] = a, a[1:3]
			g["u"] = g["t"].([]int64)[0:2]
			return g
		},
	},
	{
		name:  "a holds a nested slice and the map; b is a one-element prefix",
		setup: []string{`a = [[5], 2, 3]`, `b = a[0:1]`, `a[1] = m`, `u = t[1:2]`},
		model: func() map[string]interface{} {
			g := baseModel()
			a := []interface{}{[]interface{}{int64(5)}, int64(2), int64(3)}
			g["a"], g["b"] = a, a[0:1]
			a[1] = g["m"]
			g["u"] = g["t"].([]int64)[1:2]
			return g
		},
	},
}
