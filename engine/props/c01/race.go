package c01

import (
	"context"
	"fmt"
	"time"

	"github.com/mattn/anko/env"
	"github.com/mattn/anko/parser"
	"github.com/mattn/anko/vm"
	"verif/engine/common"
)

// Free-running body of the supplementary race-detector pass (common/race.go).  The
// property excludes "unsynchronised sharing of one container between script
// goroutines", but scopes and modules are not script containers: the interpreter
// synchronises them itself, and an unsynchronised access there ends in Go's
// unrecoverable "concurrent map ..." fault, which no recover can stop.  Each
// program starts two or three script goroutines that share nothing but
// variables of an enclosing scope, a module, function values and channels, and is
// run on real goroutines in a -race build; a report of the detector (or the fatal
// fault itself) with a frame of mattn/anko is a violation.
var raceProgs = []string{
	// variables of the enclosing scope written and read by two goroutines
	"x = 0\ndone = make(chan int64)\ngo func() { for i = 0; i < 40; i++ { x = i }; done <- 1 }()\ngo func() { for i = 0; i < 40; i++ { y = x }; done <- 1 }()\n<-done\n<-done",
	// new names defined in the shared scope by both
	"done = make(chan int64)\nfunc w(k) { for i = 0; i < 40; i++ { if k == 1 { a1 = i } else { a2 = i } }; done <- 1 }\ngo w(1)\ngo w(2)\n<-done\n<-done",
	// a module written by one goroutine and copied by another (binding a scope to a name copies it)
	"module M { v = 0; w = 1 }\ndone = make(chan int64)\ngo func() { for i = 0; i < 40; i++ { M.v = i }; done <- 1 }()\ngo func() { for i = 0; i < 40; i++ { c = M }; done <- 1 }()\n<-done\n<-done",
	// var-declared copies and new members
	"module M { v = 0 }\ndone = make(chan int64)\ngo func() { for i = 0; i < 40; i++ { M.v = i }; done <- 1 }()\ngo func() { for i = 0; i < 40; i++ { var c = M; c.v = 1 }; done <- 1 }()\n<-done\n<-done",
	// module members read through the path while another goroutine defines members
	"module M { v = 0\n func get() { return v } }\ndone = make(chan int64)\ngo func() { for i = 0; i < 40; i++ { M.v = i }; done <- 1 }()\ngo func() { for i = 0; i < 40; i++ { y = M.get() + M.v }; done <- 1 }()\n<-done\n<-done",
	// a module copied while a variable of its PARENT scope is written
	"p = 0\nmodule M { v = 0 }\ndone = make(chan int64)\ngo func() { for i = 0; i < 40; i++ { p = i; q = i }; done <- 1 }()\ngo func() { for i = 0; i < 40; i++ { c = M }; done <- 1 }()\n<-done\n<-done",
	// one function value entered by three goroutines at once (fixed arity, five parameters, variadic)
	"done = make(chan int64)\nfunc f(a, b) { c = a + b; return c }\nfunc w() { for i = 0; i < 30; i++ { f(i, 1) }; done <- 1 }\ngo w()\ngo w()\ngo w()\n<-done\n<-done\n<-done",
	"done = make(chan int64)\nfunc f(a, b, c, d, e) { return a + e }\nfunc w() { for i = 0; i < 30; i++ { f(i, 1, 2, 3, 4) }; done <- 1 }\ngo w()\ngo w()\n<-done\n<-done",
	"done = make(chan int64)\nfunc f(a...) { return len(a) }\nfunc w(k) { for i = 0; i < 30; i++ { f(i, k); l = [i, k]; f(l...) }; done <- 1 }\ngo w(1)\ngo w(2)\n<-done\n<-done",
	// go statements on every call path, started back to back
	"out = make(chan int64, 8)\nfunc w(a, b, c, d, e) { out <- a }\nfor i = 0; i < 8; i++ { go w(i, 1, 2, 3, 4) }\ns = 0\nfor i = 0; i < 8; i++ { s += <-out }\ns",
	"out = make(chan int64, 8)\nfunc w(a...) { out <- a[0] }\nfor i = 0; i < 8; i++ { go w(i, 1) }\ns = 0\nfor i = 0; i < 8; i++ { s += <-out }\ns",
	// types defined and looked up concurrently in one scope
	"done = make(chan int64)\ngo func() { for i = 0; i < 20; i++ { x = make([]int64, 1); y = make(map[string]int64) }; done <- 1 }()\ngo func() { for i = 0; i < 20; i++ { x2 = make(struct { A int64 }); z = new(string) }; done <- 1 }()\n<-done\n<-done",
	// delete of names next to definitions
	"done = make(chan int64)\ngo func() { for i = 0; i < 40; i++ { t = i; delete(\"t\") }; done <- 1 }()\ngo func() { for i = 0; i < 40; i++ { u = i; delete(\"u\", true) }; done <- 1 }()\n<-done\n<-done",
	// closures made in a loop, each run by its own goroutine, sharing the loop's scope
	"done = make(chan int64)\nn = 0\nfor i = 0; i < 6; i++ { go func() { n = n + 1; done <- 1 }() }\nfor i = 0; i < 6; i++ { <-done }",
	// try/catch and defers inside goroutines that share the scope
	"done = make(chan int64)\nfunc w() { defer func() { done <- 1 }()\n for i = 0; i < 20; i++ { try { throw \"e\" } catch e { last = e } } }\ngo w()\ngo w()\n<-done\n<-done",
}

func raceBody(c *common.Ctx, rep *common.RaceReport) {
	reps := 4
	if c.Thorough() {
		reps = 12
	}
	common.ParallelFor(c, len(raceProgs), func(i int) {
		stmt, err := parser.ParseSrc(raceProgs[i])
		if err != nil {
			panic("race program does not parse: " + raceProgs[i] + ": " + err.Error())
		}
		for r := 0; r < reps; r++ {
			ctx, cancel := context.WithTimeout(context.Background(), 20*time.Second)
			t0 := time.Now()
			var rerr error
			func() {
				defer func() { recover() }()
				_, rerr = vm.RunContext(ctx, env.NewEnv(), nil, stmt)
			}()
			cancel()
			if rerr != nil || time.Since(t0) > 5*time.Second {
				// a program of this list that fails or blocks is a mistake in the list
				panic(fmt.Sprintf("race program %d: err=%v after %v", i, rerr, time.Since(t0)))
			}
		}
		rep.Add(1, int64(reps))
	})
	time.Sleep(50 * time.Millisecond) // let stragglers finish inside the detector's view
}
