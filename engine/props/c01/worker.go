package c01

import (
	"bufio"
	"encoding/gob"
	"hash/fnv"
	"os"
	"runtime"
	"runtime/debug"
	"sort"
	"syscall"

	"verif/engine/common"
)

const childName = "c01worker"

// request: run cases [Lo,Hi) of space Space, or the single source Single.
type request struct {
	Thorough bool
	Space    int
	Lo, Hi   int64
	Single   string
	IsSingle bool
}

type violation struct {
	Class  string
	Src    string
	Mode   string
	Detail string
}

type response struct {
	Next       int64  // first case not executed (== Hi unless the child stopped early)
	Poisoned   string // source text after which shared interpreter state was found changed
	Canary     string // non-empty: the end-of-batch canary failed (results of the batch are not trustworthy)
	Counts     map[string]int64
	Nontrivial []uint64    // hashes of the non-trivial sources of this batch
	Viols      []violation // per class the few smallest cases of this batch
	Info       []violation // panics when running a tree returned together with a parse error (not violations)
	Samples    []string
}

const keepPerClass = 4

// dieOn, when set through the environment, makes the child exit abruptly on
// that one source text: used only to exercise the crash-attribution path.
var dieOn = os.Getenv("C01_SELFTEST_DIE")

func srcHash(s string) uint64 {
	h := fnv.New64a()
	h.Write([]byte(s))
	return h.Sum64()
}

func lessCase(a, b string) bool {
	if len(a) != len(b) {
		return len(a) < len(b)
	}
	return a < b
}

// keepSmallest keeps, per class, the keepPerClass smallest distinct cases.
func keepSmallest(vs []violation) []violation {
	sort.SliceStable(vs, func(i, j int) bool {
		if vs[i].Class != vs[j].Class {
			return vs[i].Class < vs[j].Class
		}
		if vs[i].Src != vs[j].Src {
			return lessCase(vs[i].Src, vs[j].Src)
		}
		return vs[i].Mode < vs[j].Mode
	})
	var out []violation
	n := 0
	for i, v := range vs {
		if i > 0 && v.Class == vs[i-1].Class {
			if v.Src == vs[i-1].Src {
				continue
			}
			n++
		} else {
			n = 0
		}
		if n < keepPerClass {
			out = append(out, v)
		}
	}
	return out
}

func childMain() {
	// memory cap: a runaway allocation must kill this child, not the machine
	debug.SetMemoryLimit(3 << 30)
	lim := syscall.Rlimit{Cur: 4 << 30, Max: 4 << 30}
	syscall.Setrlimit(syscall.RLIMIT_AS, &lim)
	debug.SetMaxStack(256 << 20)
	runtime.GOMAXPROCS(2)

	in := gob.NewDecoder(bufio.NewReader(os.Stdin))
	w := bufio.NewWriter(os.Stdout)
	out := gob.NewEncoder(w)
	r := newRunner()
	var spaces []space
	spacesFor := -1
	for {
		var req request
		if err := in.Decode(&req); err != nil {
			return
		}
		resp := response{Counts: map[string]int64{}}
		r.runTree = req.Thorough || req.IsSingle
		var gen func(i int64) string
		name := "single"
		if !req.IsSingle {
			k := 0
			if req.Thorough {
				k = 1
			}
			if spacesFor != k {
				spaces = buildSpaces(req.Thorough)
				spacesFor = k
			}
			gen = spaces[req.Space].gen
			name = spaces[req.Space].name
		} else {
			gen = func(int64) string { return req.Single }
			req.Lo, req.Hi = 0, 1
		}
		resp.Next = req.Hi
		for i := req.Lo; i < req.Hi; i++ {
			src := gen(i)
			if dieOn != "" && src == dieOn {
				// machinery self-test only (C01_SELFTEST_DIE): simulate a fatal fault of the host
				os.Stderr.WriteString("fatal error: simulated fault\n")
				os.Exit(7)
			}
			cr := r.runCase(src)
			c := resp.Counts
			c["cases"]++
			c["cases:"+name]++
			c["executions"] += int64(cr.execs)
			c["returned"] += int64(cr.returned)
			if cr.parsed {
				c["parsed"]++
				c["parsed:"+name]++
			} else if cr.tree {
				c["tree_with_parse_error"]++
			}
			if cr.nontrivial {
				c["nontrivial:"+name]++
				resp.Nontrivial = append(resp.Nontrivial, srcHash(src))
				if (i-req.Lo)%997 == 0 && len(resp.Samples) < 2 {
					resp.Samples = append(resp.Samples, src)
				}
			}
			c["fuel_exhausted"] += int64(cr.interrupt)
			c["blocked"] += int64(cr.blocked)
			c["mem_guard"] += int64(cr.memGuard)
			c["run_errors"] += int64(cr.runErr)
			if cr.interrupt > 0 {
				c["cases_fuel_exhausted"]++
			}
			if cr.blocked > 0 {
				c["cases_blocked"]++
			}
			if len(cr.panics) > 0 {
				c["cases_with_panic"]++
				c["cases_with_panic:"+name]++
				seen := map[string]bool{}
				for _, p := range cr.panics {
					if seen[p.Class] {
						continue
					}
					seen[p.Class] = true
					c["class:"+p.Class]++
					if len(p.Class) > 8 && p.Class[:8] == "gopanic/" {
						c["goroutine_panics"]++
					} else {
						c["panics"]++
					}
					resp.Viols = append(resp.Viols, violation{Class: p.Class, Src: src, Mode: p.Mode, Detail: p.Detail})
				}
			}
			for _, p := range cr.info {
				c["panics_after_parse_error"]++
				c["infoclass:"+p.Class]++
				resp.Info = append(resp.Info, violation{Class: p.Class, Src: src, Mode: p.Mode, Detail: p.Detail})
			}
			if why := sentinelsChanged(); why != "" {
				// this script changed interpreter state shared by every run in the
				// process (not a crash: C14's business); this child is poisoned now
				resp.Poisoned = src
				resp.Next = i + 1
				c["state_poisonings"]++
				break
			}
			if len(resp.Viols) > 4096 {
				resp.Viols = keepSmallest(resp.Viols)
			}
			if len(resp.Info) > 4096 {
				resp.Info = keepSmallest(resp.Info)
			}
		}
		resp.Viols = keepSmallest(resp.Viols)
		resp.Info = keepSmallest(resp.Info)
		if resp.Poisoned == "" {
			resp.Canary = canary()
		}
		if err := out.Encode(&resp); err != nil {
			return
		}
		if err := w.Flush(); err != nil {
			return
		}
	}
}

func init() {
	common.RegisterChild(childName, childMain)
}
