// Package c01: a script can never crash the embedding Go program.
//
// Bounded exhaustive exploration of source texts (token strings, ill-typed
// operand combinations over every AST node kind, truncations, byte strings);
// every case is parsed and executed with Options{Debug:false} in a worker child
// process; the oracle is "every call returns": no panic reaches the harness
// frame, no panic reaches the top frame of a script-started goroutine, the
// child stays alive.
package c01

import (
	"bufio"
	"bytes"
	"encoding/gob"
	"encoding/json"
	"fmt"
	"io"
	"os"
	"os/exec"
	"regexp"
	"sort"
	"strings"
	"sync"
	"sync/atomic"
	"time"

	"verif/engine/common"
)

// ---------------------------------------------------------------------------
// child process handling
// ---------------------------------------------------------------------------

type tailBuf struct {
	mu sync.Mutex
	b  []byte
}

func (t *tailBuf) Write(p []byte) (int, error) {
	t.mu.Lock()
	t.b = append(t.b, p...)
	if len(t.b) > 1<<16 {
		t.b = append([]byte{}, t.b[len(t.b)-(1<<15):]...)
	}
	t.mu.Unlock()
	return len(p), nil
}

func (t *tailBuf) String() string {
	t.mu.Lock()
	defer t.mu.Unlock()
	return string(t.b)
}

type child struct {
	cmd *exec.Cmd
	in  io.WriteCloser
	w   *bufio.Writer
	enc *gob.Encoder
	dec *gob.Decoder
}

type headTail struct {
	mu   sync.Mutex
	head []byte
	tail *tailBuf
}

func (h *headTail) Write(p []byte) (int, error) {
	h.mu.Lock()
	if len(h.head) < 4096 {
		n := 4096 - len(h.head)
		if n > len(p) {
			n = len(p)
		}
		h.head = append(h.head, p[:n]...)
	}
	h.mu.Unlock()
	return h.tail.Write(p)
}

func (h *headTail) Head() string {
	h.mu.Lock()
	defer h.mu.Unlock()
	return string(h.head)
}

type proc struct {
	child
	ht *headTail
}

func startChild() (*proc, error) {
	cmd := common.SpawnChild(childName)
	cmd.Env = append(cmd.Env, "GOMAXPROCS=2", "GOTRACEBACK=single")
	in, err := cmd.StdinPipe()
	if err != nil {
		return nil, err
	}
	outp, err := cmd.StdoutPipe()
	if err != nil {
		return nil, err
	}
	ht := &headTail{tail: &tailBuf{}}
	cmd.Stderr = ht
	if err := cmd.Start(); err != nil {
		return nil, err
	}
	p := &proc{ht: ht}
	p.cmd = cmd
	p.in = in
	p.w = bufio.NewWriter(in)
	p.enc = gob.NewEncoder(p.w)
	p.dec = gob.NewDecoder(bufio.NewReader(outp))
	return p, nil
}

func (p *proc) kill() {
	if p == nil || p.cmd == nil {
		return
	}
	p.in.Close()
	p.cmd.Process.Kill()
	p.cmd.Wait()
}

type doErr struct {
	timeout bool
	msg     string // first fatal line of the child's stderr
	raw     string
}

var reFatal = regexp.MustCompile(`(?m)^(fatal error: .*|panic: .*|runtime: .*|SIGSEGV.*|signal .*)$`)

// do sends one request and waits for the response; on death or watchdog
// expiry the child is killed and a description returned.
func (p *proc) do(req request, timeout time.Duration) (*response, *doErr) {
	type res struct {
		r   *response
		err error
	}
	ch := make(chan res, 1)
	go func() {
		if err := p.enc.Encode(&req); err != nil {
			ch <- res{nil, err}
			return
		}
		if err := p.w.Flush(); err != nil {
			ch <- res{nil, err}
			return
		}
		var r response
		if err := p.dec.Decode(&r); err != nil {
			ch <- res{nil, err}
			return
		}
		ch <- res{&r, nil}
	}()
	t := time.NewTimer(timeout)
	defer t.Stop()
	select {
	case r := <-ch:
		if r.err == nil {
			return r.r, nil
		}
		p.in.Close()
		p.cmd.Process.Kill()
		p.cmd.Wait() // stderr is complete after Wait
		head := p.ht.Head()
		if i := strings.Index(head, machineryMark); i >= 0 {
			fmt.Fprintln(os.Stderr, "machinery error:", strings.SplitN(head[i:], "\n", 2)[0])
			os.Exit(2)
		}
		msg := reFatal.FindString(head)
		if msg == "" {
			msg = "child exited: " + p.cmd.ProcessState.String()
		}
		return nil, &doErr{msg: msg, raw: head}
	case <-t.C:
		p.kill()
		return nil, &doErr{timeout: true, msg: "watchdog"}
	}
}

// ---------------------------------------------------------------------------
// the run
// ---------------------------------------------------------------------------

type batch struct {
	space  int
	lo, hi int64
}

type state struct {
	c        *common.Ctx
	res      *common.Result
	spaces   []space
	mu       sync.Mutex
	hashes   map[uint64]struct{}
	viols    map[string][]violation // class -> candidates
	info     map[string][]violation
	died     []violation
	deadline time.Time
	capped   int32
	listed   []string // maintenance mode: only these sources
	poisoned []string // sources that changed interpreter state shared by all runs
}

func (s *state) expired() bool {
	return s.c.Expired() || time.Now().After(s.deadline)
}

func (s *state) merge(r *response) {
	for k, v := range r.Counts {
		s.res.Add(k, v)
	}
	s.mu.Lock()
	for _, h := range r.Nontrivial {
		s.hashes[h] = struct{}{}
	}
	for _, v := range r.Viols {
		s.viols[v.Class] = append(s.viols[v.Class], v)
		if len(s.viols[v.Class]) > 256 {
			s.viols[v.Class] = keepSmallest(s.viols[v.Class])
		}
	}
	for _, v := range r.Info {
		s.info[v.Class] = append(s.info[v.Class], v)
		if len(s.info[v.Class]) > 256 {
			s.info[v.Class] = keepSmallest(s.info[v.Class])
		}
	}
	s.mu.Unlock()
	for _, x := range r.Samples {
		s.res.Sample(x)
	}
}

var reOutside = regexp.MustCompile(`out of memory|cannot allocate memory|stack overflow|stack exceeds|concurrent map|memory limit`)

const batchTimeout = 90 * time.Second
const caseTimeout = 30 * time.Second

// worker owns one child process at a time.
type worker struct {
	s *state
	p *proc
}

func (w *worker) child() *proc {
	if w.p == nil {
		p, err := startChild()
		if err != nil {
			panic("c01 machinery: cannot start child: " + err.Error())
		}
		w.p = p
	}
	return w.p
}

func (w *worker) drop() {
	if w.p != nil {
		w.p.kill()
		w.p = nil
	}
}

func (w *worker) req(b batch) request {
	if w.s.listed != nil {
		return request{IsSingle: true, Single: w.s.listed[b.lo]}
	}
	return request{Thorough: w.s.c.Thorough(), Space: b.space, Lo: b.lo, Hi: b.hi}
}

func (w *worker) process(b batch) {
	for b.lo < b.hi {
		r, derr := w.child().do(w.req(b), batchTimeout)
		if derr == nil {
			if r.Canary != "" {
				// shared state changed without any of the known sentinels noticing:
				// drop the batch, say so, go on with a fresh child
				w.drop()
				w.s.res.Cap(fmt.Sprintf("batch %s[%d,%d) discarded: %s", w.s.spaces[b.space].name, b.lo, b.hi, r.Canary))
				return
			}
			w.s.merge(r)
			if r.Poisoned != "" {
				w.drop()
				w.s.mu.Lock()
				w.s.poisoned = append(w.s.poisoned, r.Poisoned)
				w.s.mu.Unlock()
				if w.s.listed != nil {
					return
				}
				b.lo = r.Next
				continue
			}
			return
		}
		w.p = nil // do() has killed it
		first := derr
		w.s.res.Add("child_restarts", 1)
		// find the case in flight: single-step through the batch in a fresh child
		i := b.lo
		for ; i < b.hi; i++ {
			r, derr = w.child().do(w.req(batch{b.space, i, i + 1}), caseTimeout)
			if derr != nil {
				w.p = nil
				break
			}
			w.s.merge(r)
			if r.Poisoned != "" || r.Canary != "" {
				w.drop()
				if r.Poisoned != "" {
					w.s.mu.Lock()
					w.s.poisoned = append(w.s.poisoned, r.Poisoned)
					w.s.mu.Unlock()
				}
			}
		}
		if i >= b.hi {
			// the batch ran clean one case at a time: the death did not reproduce
			w.s.res.Cap(fmt.Sprintf("a worker child died or was killed by the watchdog in %s[%d,%d) (%s) but no single case of the batch reproduces it", w.s.spaces[b.space].name, b.lo, b.hi, first.msg))
			return
		}
		// confirm: that single case alone in a fresh child
		src := w.s.spaces[b.space].gen(i)
		_, derr2 := w.child().do(w.req(batch{b.space, i, i + 1}), caseTimeout)
		if derr2 == nil {
			w.s.res.Cap(fmt.Sprintf("worker child death on case %q did not reproduce in a fresh child (%s)", src, derr.msg))
		} else {
			w.p = nil
			w.s.record(src, derr2)
		}
		w.s.res.Add("cases", 1)
		w.s.res.Add("cases:"+w.s.spaces[b.space].name, 1)
		b.lo = i + 1
	}
}

// record classifies a confirmed child death / hang on one case.
func (s *state) record(src string, d *doErr) {
	switch {
	case d.timeout:
		// a reproducible hang is non-termination, which C01 does not exclude
		s.res.Add("hung_cases", 1)
		s.res.Note(fmt.Sprintf("case %q does not return within %v (reproducible; not a C01 violation)", src, caseTimeout))
	case reOutside.MatchString(d.raw):
		s.res.Add("deaths_outside_guarantee", 1)
		s.res.Note(fmt.Sprintf("case %q kills the process by exhausting memory/stack or by unsynchronised sharing (%s): outside the guarantee", src, d.msg))
	default:
		s.res.Add("deaths", 1)
		s.mu.Lock()
		s.died = append(s.died, violation{Class: "died/" + normText(d.msg), Src: src, Mode: "child", Detail: trunc(d.raw, 1500)})
		s.mu.Unlock()
	}
}

func trunc(s string, n int) string {
	if len(s) > n {
		return s[:n]
	}
	return s
}

func run(c *common.Ctx) *common.Result {
	res := common.NewResult()
	s := &state{c: c, res: res, spaces: buildSpaces(c.Thorough()), hashes: map[uint64]struct{}{}, viols: map[string][]violation{}, info: map[string][]violation{}}
	if c.Thorough() {
		s.deadline = c.Start.Add(75 * time.Minute)
	} else {
		s.deadline = c.Start.Add(12 * time.Minute)
	}
	// self-check of the generator: every template must parse with a plain atom
	bad := 0
	if p, err := startChild(); err == nil {
		for _, t := range templates() {
			src := t.src
			for _, h := range []string{"$E", "$L", "$S", "$K"} {
				src = strings.ReplaceAll(src, h, "a")
			}
			src = strings.ReplaceAll(src, "$T", "int64")
			src = strings.ReplaceAll(src, "$R", "struct { A int64 }")
			for h := range fixedHoles {
				src = strings.ReplaceAll(src, h, "a")
			}
			r, derr := p.do(request{IsSingle: true, Single: src}, caseTimeout)
			if derr != nil {
				p, _ = startChild()
			}
			if derr != nil || r.Counts["parsed"] != 1 {
				bad++
				res.Note("template does not parse: " + t.name + ": " + src)
			}
		}
		p.kill()
	}
	res.Add("templates", int64(len(templates())))
	res.Add("templates_unparseable", int64(bad))

	// maintenance mode: `check.sh C01 quick cases=<file>` runs only the source
	// texts listed in the file (a JSON array of strings), one child request each
	for _, a := range c.Args {
		if strings.HasPrefix(a, "cases=") {
			var srcs []string
			b, err := os.ReadFile(strings.TrimPrefix(a, "cases="))
			if err == nil {
				err = json.Unmarshal(b, &srcs)
			}
			if err != nil {
				panic("c01: cannot read cases file: " + err.Error())
			}
			s.spaces = []space{{name: "cases", total: int64(len(srcs)), batch: 1, gen: func(i int64) string { return srcs[i] }}}
			s.listed = srcs
			res.Cap("only the listed cases were run (cases=...)")
		}
	}

	work := make(chan batch, 64)
	go func() {
		defer close(work)
		for si, sp := range s.spaces {
			for lo := int64(0); lo < sp.total; lo += sp.batch {
				if s.expired() {
					if atomic.CompareAndSwapInt32(&s.capped, 0, 1) {
						res.Cap(fmt.Sprintf("soft deadline reached in space %s at case %d of %d", sp.name, lo, sp.total))
					}
					return
				}
				hi := lo + sp.batch
				if hi > sp.total {
					hi = sp.total
				}
				work <- batch{si, lo, hi}
			}
		}
	}()
	nw := c.J
	if nw < 1 {
		nw = 1
	}
	if nw > 32 {
		nw = 32
	}
	var wg sync.WaitGroup
	for i := 0; i < nw; i++ {
		wg.Add(1)
		go func() {
			defer wg.Done()
			w := &worker{s: s}
			defer w.drop()
			for b := range work {
				w.process(b)
			}
		}()
	}
	wg.Wait()

	for _, sp := range s.spaces {
		res.Add("space_size:"+sp.name, sp.total)
	}
	res.Add("distinct_nontrivial", int64(len(s.hashes)))

	// report: per class the smallest cases, deterministically
	var classes []string
	for cl := range s.viols {
		classes = append(classes, cl)
	}
	sort.Strings(classes)
	for _, cl := range classes {
		vs := keepSmallest(s.viols[cl])
		for i, v := range vs {
			if i >= reportPerClass {
				break
			}
			res.Violate(common.Violation{Class: v.Class, Case: v.Src,
				Detail: fmt.Sprintf("[%d cases in this class] mode=%s %s", res.Counts["class:"+cl], v.Mode, v.Detail),
				Replay: replayRec{Src: v.Src}})
		}
	}
	sort.Slice(s.died, func(i, j int) bool {
		if s.died[i].Class != s.died[j].Class {
			return s.died[i].Class < s.died[j].Class
		}
		return lessCase(s.died[i].Src, s.died[j].Src)
	})
	nInClass := 0
	for i, v := range s.died {
		if i > 0 && s.died[i-1].Class == v.Class {
			if s.died[i-1].Src == v.Src {
				continue
			}
			nInClass++
		} else {
			nInClass = 0
		}
		res.Add("class:"+v.Class, 1)
		if nInClass >= reportPerClass {
			continue
		}
		res.Violate(common.Violation{Class: v.Class, Case: v.Src, Detail: "the worker process died while executing this case (confirmed alone in a fresh process): " + v.Detail, Replay: replayRec{Src: v.Src}})
	}
	if len(s.poisoned) > 0 {
		sort.Slice(s.poisoned, func(i, j int) bool { return lessCase(s.poisoned[i], s.poisoned[j]) })
		ex := s.poisoned
		if len(ex) > 4 {
			ex = ex[:4]
		}
		res.Note(fmt.Sprintf("not a C01 violation (nothing crashed) but a defect for C14: %d source texts overwrite a nil value shared by every run in the process (parser.nilValue / env.NilValue / vm.nilValue are addressable, `&x` hands out their address), e.g. %q; the worker child was replaced after each", len(s.poisoned), ex))
	}
	// informational: panics when running a tree that came with a parse error
	var icl []string
	for cl := range s.info {
		icl = append(icl, cl)
	}
	sort.Strings(icl)
	for _, cl := range icl {
		vs := keepSmallest(s.info[cl])
		res.Note(fmt.Sprintf("not a violation (vm.Execute never runs a tree that ParseSrc returned together with an error): RunContext on such a tree panics: %s, e.g. %q (%d cases)", cl, vs[0].Src, res.Counts["infoclass:"+cl]))
	}
	return res
}

const reportPerClass = 3

func coverage(c *common.Ctx, r *common.Result) map[string]interface{} {
	per := map[string]interface{}{}
	for _, n := range []string{"T", "T4", "G1", "G2", "D", "B"} {
		if r.Counts["space_size:"+n] == 0 && r.Counts["cases:"+n] == 0 {
			continue
		}
		per[n] = map[string]int64{
			"size":             r.Counts["space_size:"+n],
			"cases_executed":   r.Counts["cases:"+n],
			"parsed":           r.Counts["parsed:"+n],
			"nontrivial":       r.Counts["nontrivial:"+n],
			"cases_with_panic": r.Counts["cases_with_panic:"+n],
		}
	}
	classes := map[string]int64{}
	for k, v := range r.Counts {
		if strings.HasPrefix(k, "class:") {
			classes[strings.TrimPrefix(k, "class:")] = v
		}
	}
	return map[string]interface{}{
		"evaluations":         r.Counts["cases"],
		"distinct_nontrivial": r.Counts["distinct_nontrivial"],
		"rule": "a case is one source text, run through ParseSrc, ExecuteContext(fuel 200), Execute (only if the fuelled run terminated by itself and the text has no `go`), RunContext on the parsed tree (thorough tier; in both tiers when the tree came with a parse error), each on a fresh environment; " +
			"non-trivial = ParseSrc returned no error and a tree, and the fuelled run polled the context at least twice (the statement-list node and at least one statement past the prologue); distinct = distinct source texts (64-bit FNV-1a), counted over all spaces",
		"executions":                r.Counts["executions"],
		"executions_returned":       r.Counts["returned"],
		"per_space":                 per,
		"parsed":                    r.Counts["parsed"],
		"panics":                    r.Counts["panics"],
		"goroutine_panics":          r.Counts["goroutine_panics"],
		"cases_with_panic":          r.Counts["cases_with_panic"],
		"deaths":                    r.Counts["deaths"],
		"deaths_outside_guarantee":  r.Counts["deaths_outside_guarantee"],
		"hung_cases":                r.Counts["hung_cases"],
		"blocked_executions":        r.Counts["blocked"],
		"fuel_exhausted_executions": r.Counts["fuel_exhausted"],
		"mem_guard_executions":      r.Counts["mem_guard"],
		"panics_after_parse_error_not_violations": r.Counts["panics_after_parse_error"],
		"child_restarts":                  r.Counts["child_restarts"],
		"state_poisonings_not_violations": r.Counts["state_poisonings"],
		"violation_classes":               classes,
		"token_alphabet":                  len(tokenAlphabet()),
		"templates":                       r.Counts["templates"],
		"atoms":                           len(atomsFull),
		"fuel":                            fuel,
	}
}

type replayRec struct {
	Src string `json:"src"`
}

// observe runs one source alone in a fresh child and returns the sorted list
// of violation classes it shows.
func observe(src string) ([]string, string) {
	p, err := startChild()
	if err != nil {
		return nil, "cannot start child: " + err.Error()
	}
	defer p.kill()
	r, derr := p.do(request{IsSingle: true, Single: src}, caseTimeout)
	if derr != nil {
		if derr.timeout {
			return nil, "hang (not a violation)"
		}
		if reOutside.MatchString(derr.raw) {
			return nil, "death outside the guarantee: " + derr.msg
		}
		return []string{"died/" + normText(derr.msg)}, trunc(derr.raw, 1500)
	}
	var cls []string
	var det bytes.Buffer
	for _, v := range r.Viols {
		cls = append(cls, v.Class)
		fmt.Fprintf(&det, "mode=%s %s\n", v.Mode, v.Detail)
	}
	sort.Strings(cls)
	return cls, det.String()
}

func replay(c *common.Ctx, path string) int {
	var rr replayRec
	class, cs, err := common.ReadReplay(path, &rr)
	if err != nil {
		fmt.Println("cannot read replay:", err)
		return 2
	}
	if rr.Src == "" {
		rr.Src = cs
	}
	a, da := observe(rr.Src)
	b, _ := observe(rr.Src)
	if strings.Join(a, "|") != strings.Join(b, "|") {
		fmt.Printf("NONDETERMINISTIC replay: %v vs %v\n", a, b)
		return 2
	}
	fmt.Printf("source: %q\nrecorded class: %s\n", rr.Src, class)
	if len(a) == 0 {
		if da != "" {
			fmt.Println("replay: no violation:", da)
		} else {
			fmt.Println("replay: every call returned; no panic, the process stayed alive")
		}
		return 0
	}
	fmt.Printf("replay: %v\n%s", a, da)
	return 1
}

func init() {
	common.Register(&common.Prop{
		ID: "C01", Level: "exploration", Run: run, Coverage: coverage, Replay: replay, Race: raceBody,
		Assumptions: []string{
			"source texts: token strings of length <=3 (quick) / <=4 (thorough) over an 88-symbol alphabet; 246 node-kind templates x environment atoms at depth 1; depth 2 over a 4-atom (quick) / 8-atom (thorough) universe; every token-boundary prefix and single-token deletion of the depth-1 programs (quick: over reduced atom sets for 3- and 4-hole templates); byte strings of length <=3 / <=4 over 40 bytes",
			"environment: fresh per execution; one value of every kind a script can build (made by a script prologue) plus Go functions (fixed arity 1 and 3, variadic, one that panics, one returning (value, error)) and one undefined name",
			"integer atoms are 0, 1, -1, MaxInt64, MinInt64, 1<<62: sizes Go refuses with a recoverable panic before allocating; sizes that would really exhaust memory are not generated (outside the guarantee); a memory guard cuts cases whose heap passes 96 MiB",
			"every execution runs under a counting context with fuel 200; fuel-exhausted and blocked executions are not violations (C01 does not promise termination); a blocked case is recognised from the goroutine states (all script goroutines parked on channels) and released by cancelling the context",
			"vm.Execute (background context) is only called for texts whose fuelled run terminated by itself and that contain no go statement",
			"a tree that ParseSrc returns together with an error is also run (as the repository's tests do), but panics there are reported as notes, not violations: vm.Execute never runs such a tree",
			"panic classes: panic|gopanic/<first anko function above the panic>/<panic text with numbers, addresses and value kinds normalised>; died/<fatal message> for a child process death confirmed by a single-case re-run",
		},
	})
}
