package c01

import (
	"sort"
	"strings"
)

// ---------------------------------------------------------------------------
// Atoms: names bound by the environment builder (envbuild.go).
// ---------------------------------------------------------------------------

// atomsFull: one value of every kind a script can build, plus Go functions,
// plus one undefined name.  Used for every hole of a template with <= 3 holes.
var atomsFull = []string{
	"n",              // nil
	"bt",             // true
	"i0", "i1", "im", // 0 1 -1
	"ix", "iy", "iz", // MaxInt64 MinInt64 1<<62
	"fl",       // 1.5
	"s",        // "s"
	"a",        // untyped slice [1, "b", nil, 2.5]
	"ta",       // []int64{1,2,3}
	"ea",       // [] (empty)
	"na",       // [nil]
	"m",        // {"a": 1, "b": "x"}  (map[interface{}]interface{})
	"tm",       // map[string]int64 with one entry
	"nm",       // nil map[string]int64
	"st",       // make(struct{A int64, B string})
	"p",        // new(int64)
	"pa",       // make([]*int64, 2): typed slice of nil pointers
	"np",       // pa[0]: a nil *int64
	"co",       // open buffered channel (cap 2, one element queued)
	"cc",       // closed channel (one element still queued)
	"cn",       // nil channel
	"mo",       // module
	"ty",       // a type value: make(type nty, 1)
	"f0", "f1", // script functions
	"f5", "fv",
	"g1", "g3", "gv", "gp", "ge", // Go functions: fixed 1, fixed 3, variadic, panics, (value,error)
	"x", // undefined (unless bound by the template itself: loop variable, parameter)
}

// atoms3: for templates with 3 holes.
var atoms3 = []string{"n", "bt", "i0", "i1", "im", "ix", "iz", "fl", "s", "a", "ta", "ea", "m", "nm", "st", "p", "pa", "np", "co", "cc", "f1", "gv", "x"}

// atomsMid: for templates with 4 holes.
var atomsMid = []string{"n", "i0", "i1", "im", "ix", "s", "a", "ta", "m", "np", "co", "f1", "x"}

// atomsSmall: 4-hole templates of the quick tier's truncation space.
var atomsSmall = []string{"n", "i1", "ix", "s", "ta", "m", "np", "f1"}

// atomsD2: the 8-atom universe of depth 2.
var atomsD2 = []string{"n", "i1", "ix", "s", "ta", "m", "np", "f1"}

// atomsD2q: the reduced universe of the quick tier's depth 2.
var atomsD2q = []string{"i1", "s", "ta", "np"}

// keyAtoms fill key positions ($K): expressions whose value is still wrapped in
// an interface (an element read, a receive from a chan interface) and holds
// something unhashable (list, map, function) -- plus one hashable control.
// Binding such a value to a name would unwrap it, so these are expressions.
var keyAtoms = []string{"ll [ 0 ]", "lm [ 0 ]", "lf [ 0 ]", "( <- ci )", "a [ 0 ]"}

// refusedTypes fill type positions ($R): type expressions the parser accepts
// and reflect refuses (StructOf: unexported or duplicate field name; MapOf:
// unhashable key type), bare and nested one level inside a slice, map, struct,
// pointer or channel type -- plus one accepted control.
var refusedTypes = []string{
	"struct { a int64 }",
	"struct { A int64 , A int64 }",
	"map [ [ ] int64 ] string",
	"map [ map [ string ] int64 ] int64",
	"[ ] struct { a int64 }",
	"[ ] map [ [ ] int64 ] string",
	"map [ string ] struct { a int64 }",
	"map [ string ] map [ [ ] int64 ] int64",
	"struct { A map [ [ ] int64 ] int64 }",
	"struct { A struct { b string } }",
	"* struct { a int64 }",
	"chan map [ [ ] int64 ] int64",
	"struct { A int64 }",
}

// typeAtoms fill type positions ($T).
var typeAtoms = []string{"int64", "string", "float64", "bool", "interface", "nosuch", "a", "mo"}
var typeAtomsD2 = []string{"int64", "interface", "nosuch"}

// ---------------------------------------------------------------------------
// Templates: every AST node kind as a source template with holes.
//   $E expression hole   $L assignment-target hole   $S statement hole (inside a block)
//   $T type-name hole
// ---------------------------------------------------------------------------

type template struct {
	name string
	kind byte // 'E' expression, 'S' statement
	src  string
	d2   bool // takes part in depth 2 (as outer and as inner)
	prim bool // can be nested in an expression hole without parentheses
}

var binOps = []string{"+", "-", "*", "/", "%", "&", "|", "<<", ">>", "==", "!=", "<", "<=", ">", ">=", "&&", "||"}
var binOpsD2 = map[string]bool{"+": true, "*": true, "%": true, "<<": true, "==": true, "<": true, "&&": true}
var asgOps = []string{"+=", "-=", "*=", "/=", "&=", "|="}

func templates() []template {
	var ts []template
	add := func(name string, kind byte, src string, d2, prim bool) {
		ts = append(ts, template{name, kind, src, d2, prim})
	}
	for _, op := range binOps {
		add("bin"+op, 'E', "$E "+op+" $E", binOpsD2[op], false)
	}
	add("neg", 'E', "- $E", true, false)
	add("not", 'E', "! $E", true, false)
	add("xor", 'E', "^ $E", false, false)
	add("addr", 'E', "& $E", true, false)
	add("deref", 'E', "* $E", true, false)
	add("index", 'E', "$E [ $E ]", true, true)
	add("slice2", 'E', "$E [ $E : $E ]", true, true)
	add("sliceb", 'E', "$E [ $E : ]", false, true)
	add("slicee", 'E', "$E [ : $E ]", false, true)
	add("slice3", 'E', "$E [ $E : $E : $E ]", false, true)
	add("slice3b", 'E', "$E [ : $E : $E ]", true, true)
	add("memberA", 'E', "$E . A", true, true)
	add("membera", 'E', "$E . a", true, true)
	add("memberv", 'E', "$E . v", false, true)
	add("membert", 'E', "$E . t", false, true) // t: the (unexported) field of a type value
	add("memberf", 'E', "$E . f ( $E )", false, true)
	add("call0", 'E', "$E ( )", true, true)
	add("call1", 'E', "$E ( $E )", true, true)
	add("call2", 'E', "$E ( $E , $E )", true, true)
	add("call3", 'E', "$E ( $E , $E , $E )", false, true)
	add("call5", 'E', "$E ( $E , $E , i0 , i1 , s )", false, true)
	add("spread0", 'E', "$E ( ... )", true, true)
	add("spread1", 'E', "$E ( $E ... )", true, true)
	add("spread2", 'E', "$E ( $E , $E ... )", false, true)
	add("anon", 'E', "( $E ) ( $E )", true, true)
	add("funclit", 'E', "func ( x ) { return $E } ( $E )", true, true)
	add("funcvar", 'E', "func ( x ... ) { return $E } ( $E ... )", true, true)
	add("funcbody", 'E', "func ( x , y ) { $S } ( $E , $E )", false, true)
	add("makeslice1", 'E', "make ( [ ] int64 , $E )", true, true)
	add("makeslice2", 'E', "make ( [ ] int64 , $E , $E )", true, true)
	add("makeslice2d", 'E', "make ( [ ] [ ] string , $E )", false, true)
	add("makeptrslice", 'E', "make ( [ ] * int64 , $E )", false, true)
	add("makechan", 'E', "make ( chan int64 , $E )", true, true)
	add("makechani", 'E', "make ( chan interface , $E )", false, true)
	add("makeT", 'E', "make ( $T )", true, true)
	add("makeTT", 'E', "make ( $T . $T )", false, true)
	add("makeET", 'E', "make ( $E . $T )", false, true)
	add("makesliceT", 'E', "make ( [ ] $T , $E )", false, true)
	add("makeslice2T", 'E', "make ( [ ] [ ] $T )", false, true)
	add("makemapT", 'E', "make ( map [ $T ] $T )", true, true)
	add("makechanT", 'E', "make ( chan $T , $E )", false, true)
	add("makeptrT", 'E', "make ( * $T )", false, true)
	add("makestructT", 'E', "make ( struct { A $T , B $T } )", true, true)
	add("makestructlow", 'E', "make ( struct { a $T } )", false, true)
	add("maketype", 'E', "make ( type nt , $E )", true, true)
	add("newT", 'E', "new ( $T )", true, true)
	add("newslice", 'E', "new ( [ ] $T )", false, true)
	add("newmap", 'E', "new ( map [ $T ] $T )", false, true)
	add("newchan", 'E', "new ( chan $T )", false, true)
	add("newptr", 'E', "new ( * $T )", false, true)
	add("len", 'E', "len ( $E )", true, true)
	add("recv", 'E', "<- $E", true, false)
	add("send", 'E', "$E <- $E", true, false)
	add("tern", 'E', "$E ? $E : $E", true, false)
	add("nilc", 'E', "$E ?? $E", true, false)
	add("in", 'E', "$E in $E", true, false)
	add("arr1", 'E', "[ $E ]", false, true)
	add("arr", 'E', "[ $E , $E ]", true, true)
	add("tarr", 'E', "[ ] $T { $E , $E }", false, true)
	add("tarri", 'E', "[ ] int64 { $E , $E }", true, true)
	add("tarr2", 'E', "[ ] [ ] $T { $E }", false, true)
	add("map", 'E', "{ $E : $E }", true, true)
	add("map2", 'E', "{ $E : $E , $E : $E }", false, true)
	add("tmap", 'E', "map [ $T ] $T { $E : $E }", false, true)
	add("tmapsi", 'E', "map [ string ] int64 { $E : $E }", true, true)
	add("imap", 'E', "map { $E : $E }", true, true)
	// typed nil pointers flowing into every place that converts to a declared type
	add("pstore", 'S', "$D = $P", false, false)
	add("pstore2", 'S', "$D , $D = $P , $P", false, false)
	add("pstoreidx", 'S', "ps [ $E ] = $P", false, false)
	add("pstoreidxi", 'S', "pa [ $E ] = $P", false, false)
	add("pstoremap", 'S', "pms [ $E ] = $P", false, false)
	add("psend", 'E', "cps <- $P", false, false)
	add("psendi", 'E', "cpi <- $P", false, false)
	add("pcall", 'E', "gq ( $P )", false, true)
	add("pcalli", 'E', "gr ( $P )", false, true)
	add("pcall2", 'E', "gq2 ( $P , $P )", false, true)
	add("pcallv", 'E', "gqv ( $P , $P )", false, true)
	add("pspread", 'E', "gq ( [ $P ] ... )", false, true)
	add("pspread2", 'E', "gq2 ( [ $P , $P ] ... )", false, true)
	add("pspreadv", 'E', "gqv ( [ $P , $P ] ... )", false, true)
	add("pspreads", 'E', "gq ( $E ... )", false, true)
	add("pgo", 'S', "go gq ( $P )", false, false)
	add("pdefer", 'S', "defer gq ( $P )", false, false)
	add("pmaplit", 'E', "map [ string ] * string { s : $P }", false, true)
	add("pmapliti", 'E', "map [ string ] * int64 { s : $P }", false, true)
	add("pmaplitk", 'E', "map [ * string ] int64 { $P : i1 }", false, true)
	add("pappend", 'E', "ps + $P", false, false)
	add("pappendi", 'E', "pa + $P", false, false)
	add("pappendl", 'E', "ps + [ $P ]", false, false)
	add("pappendli", 'E', "pa + [ $P , $P ]", false, false)
	add("pappendeq", 'E', "ps += $P", false, false)
	add("pcmp", 'E', "$P == $P", false, false)
	add("pin", 'E', "$P in ps", false, false)
	add("pderef", 'E', "* $P", false, false)
	add("pmember", 'E', "$P . A", false, true)
	add("pfuncret", 'E', "gq ( func ( ) { return $P } ( ) )", false, true)
	add("pforin", 'S', "for x in [ $P , $P ] { $D = x }", false, false)
	// loop bodies that mutate what the loop ranges over, then use the loop variables
	add("loopmut2", 'S', "for k , v in $M { $U ; x = v ; y = k }", false, false)
	add("loopmut2s", 'S', "for k , v in $M { $U ; s + v ; [ k , v ] }", false, false)
	add("loopmut1", 'S', "for k in $M { $U ; x = k ; s + k }", false, false)
	add("loopmutidx", 'S', "for k , v in $M { $U ; x = $M [ k ] }", false, false)
	// NaN, +Inf, -Inf, -0.0 in key and size positions
	add("fkeyindex", 'E', "$E [ $F ]", false, true)
	add("fkeylet", 'S', "$E [ $F ] = $E", false, false)
	add("fkeymap", 'E', "{ $F : $E , $F : $E }", false, true)
	add("fkeytmap", 'E', "map [ float64 ] int64 { $F : $E }", false, true)
	add("fkeytmapi", 'E', "map [ int64 ] int64 { $F : $E }", false, true)
	add("fkeydelete", 'S', "delete ( $E , $F )", false, false)
	add("fin", 'E', "$F in $E", false, false)
	add("finl", 'E', "$E in [ $F , $F ]", false, false)
	add("fswitch", 'S', "switch $F { case $F : $S }", false, false)
	add("fswitch2", 'S', "switch $E { case $F , $F : $S }", false, false)
	add("fforin", 'S', "for k , v in { $F : $E , $F : $E } { x = v ; y = k }", false, false)
	add("fforint", 'S', "for k , v in map [ float64 ] string { $F : $E } { x = v }", false, false)
	add("fcmp", 'E', "$F == $F", false, false)
	add("fcmpe", 'E', "$E < $F", false, false)
	add("fmakeslice", 'E', "make ( [ ] int64 , $F )", false, true)
	add("fmakeslice2", 'E', "make ( [ ] int64 , $F , $F )", false, true)
	add("fmakechan", 'E', "make ( chan int64 , $F )", false, true)
	add("fslice", 'E', "$E [ $F : $F ]", false, true)
	add("frepeat", 'E', "s * $F", false, false)
	add("fmod", 'E', "$E % $F", false, false)
	add("fshift", 'E', "$E << $F", false, false)
	add("fconv", 'E', "[ ] int64 { $F }", false, true)
	add("fcfor", 'S', "for x = $F ; x < $F ; x ++ { $S }", false, false)
	// reflect-refused types in every type position
	add("rtarr0", 'E', "[ ] $R { }", false, true)
	add("rtarr1", 'E', "[ ] $R { $E }", false, true)
	add("rtarr2d", 'E', "[ ] [ ] $R { }", false, true)
	add("rtarr2d1", 'E', "[ ] [ ] $R { $E }", false, true)
	add("rtmapv", 'E', "map [ $T ] $R { }", false, true)
	add("rtmapk", 'E', "map [ $R ] $T { }", false, true)
	add("rtmapv1", 'E', "map [ string ] $R { $E : $E }", false, true)
	add("rtmake", 'E', "make ( $R )", false, true)
	add("rtmakeslice", 'E', "make ( [ ] $R , $E )", false, true)
	add("rtmakeslice2", 'E', "make ( [ ] [ ] $R )", false, true)
	add("rtmakechan", 'E', "make ( chan $R , $E )", false, true)
	add("rtmakemapv", 'E', "make ( map [ $T ] $R )", false, true)
	add("rtmakemapk", 'E', "make ( map [ $R ] $T )", false, true)
	add("rtmakeptr", 'E', "make ( * $R )", false, true)
	add("rtmakestruct", 'E', "make ( struct { A $R , B $T } )", false, true)
	add("rtnew", 'E', "new ( $R )", false, true)
	add("rtnewslice", 'E', "new ( [ ] $R )", false, true)
	add("rtmaketype", 'E', "make ( type nt , [ ] $R { } )", false, true)
	add("rtmaketype2", 'E', "make ( type nt , make ( $R ) )", false, true)
	// interface-wrapped unhashable keys in every key position
	add("keyindex", 'E', "$E [ $K ]", false, true)
	add("keymap", 'E', "{ $K : $E }", false, true)
	add("keymap2", 'E', "{ $E : $E , $K : $E }", false, true)
	add("keyimap", 'E', "map { $K : $E }", false, true)
	add("keytmap", 'E', "map [ $T ] $T { $K : $E }", false, true)
	add("keytmapval", 'E', "map [ $T ] $T { $E : $K }", false, true)
	add("keyin", 'E', "$K in $E", false, false)
	add("keyinlist", 'E', "$E in [ $K ]", false, false)
	add("keymember", 'E', "$K . a", false, true)
	add("inc", 'E', "$L ++", true, false)
	add("dec", 'E', "$L --", false, false)
	for _, op := range asgOps {
		add("asg"+op, 'E', "$L "+op+" $E", op == "+=", false)
	}
	add("import", 'E', "import ( $E )", true, true)
	add("paren", 'E', "( $E )", true, true)

	add("let", 'S', "$L = $E", true, false)
	add("let22", 'S', "$L , $L = $E , $E", false, false)
	add("let21", 'S', "$L , $L = $E", true, false)
	add("letmapitem", 'S', "$L , $L = $E [ $E ]", false, false)
	add("var1", 'S', "var x = $E", true, false)
	add("var2", 'S', "var x , y = $E", true, false)
	add("var22", 'S', "var x , y = $E , $E", false, false)
	add("var12", 'S', "var x = $E , $E", false, false)
	add("letderef", 'S', "* $E = $E", true, false)
	add("letderef2", 'S', "* $E = * $E", false, false)
	add("letdereftype", 'S', "* $E = * make ( type nu , $E )", false, false)
	add("letmembert", 'S', "$E . t = $E", false, false)
	add("letmemberA", 'S', "$E . A = $E", true, false)
	add("letmembera", 'S', "$E . a = $E", true, false)
	add("letindex", 'S', "$E [ $E ] = $E", true, false)
	add("letslice", 'S', "$E [ $E : $E ] = $E", false, false)
	add("letslice1", 'S', "$E [ $E : ] = $E", true, false)
	add("letslice3", 'S', "$E [ : $E : $E ] = $E", false, false)
	add("keyletindex", 'S', "$E [ $K ] = $E", false, false)
	add("keyletindexv", 'S', "$E [ $E ] = $K", false, false)
	add("keydelete", 'S', "delete ( $E , $K )", false, false)
	add("keyswitch", 'S', "switch $K { case $E : $S }", false, false)
	add("keyforin", 'S', "for x in ll { $E [ x ] = $E }", false, false)
	add("delete1", 'S', "delete ( $E )", true, false)
	add("delete2", 'S', "delete ( $E , $E )", true, false)
	add("close", 'S', "close ( $E )", true, false)
	add("recvlet", 'S', "$L = <- $E", true, false)
	add("recvlet2", 'S', "$L , $L = <- $E", true, false)
	add("go0", 'S', "go $E ( )", false, false)
	add("go1", 'S', "go $E ( $E )", true, false)
	add("go2", 'S', "go $E ( $E , $E )", false, false)
	add("gospread", 'S', "go $E ( $E ... )", true, false)
	add("gospread0", 'S', "go $E ( ... )", false, false)
	add("gofunc", 'S', "go func ( ) { $S } ( )", true, false)
	add("gofunc1", 'S', "go func ( x ) { $S } ( $E )", false, false)
	add("gofuncv", 'S', "go func ( x ... ) { $S } ( $E , $E )", false, false)
	add("gofunc5", 'S', "go func ( x , y , z , u , w ) { $S } ( $E , $E , i0 , i1 , s )", false, false)
	add("defer0", 'S', "defer $E ( )", false, false)
	add("defer1", 'S', "defer $E ( $E )", true, false)
	add("deferspread", 'S', "defer $E ( $E ... )", false, false)
	add("deferspread0", 'S', "defer $E ( ... )", false, false)
	add("deferin", 'S', "func ( ) { defer $E ( $E ) ; return $E } ( )", true, false)
	add("deferfunc", 'S', "defer func ( ) { $S } ( )", true, false)
	add("forin", 'S', "for x in $E { $S }", true, false)
	add("forin2", 'S', "for k , v in $E { $S }", true, false)
	add("forinuse", 'S', "for x in $E { y = x ; $S }", false, false)
	add("while", 'S', "for $E { $S }", true, false)
	add("loop", 'S', "for { $S }", false, false)
	add("loopbreak", 'S', "for { $S ; break }", true, false)
	add("cfor", 'S', "for x = $E ; x < $E ; x ++ { $S }", true, false)
	add("cfor2", 'S', "for ; $E ; $E { $S }", false, false)
	add("if", 'S', "if $E { $S } else { $S }", true, false)
	add("ifelif", 'S', "if $E { $S } else if $E { $S }", false, false)
	add("switch", 'S', "switch $E { case $E : $S ; default : $S }", false, false)
	add("switch1", 'S', "switch $E { case $E : $S }", true, false)
	add("switch2", 'S', "switch $E { case $E , $E : $S }", false, false)
	add("try", 'S', "try { $S } catch e { $S } finally { $S }", true, false)
	add("try2", 'S', "try { $S } catch { $S }", false, false)
	add("trythrow", 'S', "try { throw $E } catch e { $S }", true, false)
	add("throw", 'S', "throw $E", true, false)
	add("ret1", 'S', "return $E", true, false)
	add("ret2", 'S', "return $E , $E", true, false)
	add("brk", 'S', "break", true, false)
	add("cont", 'S', "continue", true, false)
	add("module", 'S', "module mx { $S }", true, false)
	add("funcdecl", 'S', "func nf ( x ) { $S } ; nf ( $E )", true, false)
	add("funcdeclv", 'S', "func nf ( x ... ) { $S } ; nf ( $E , $E )", false, false)
	return ts
}

// ---------------------------------------------------------------------------
// Patterns: a token list with holes, each hole with its own atom set.
// ---------------------------------------------------------------------------

type hole struct {
	pos   int
	atoms []string
}

type pattern struct {
	toks  []string
	holes []hole
	n     int64
}

func (p *pattern) count() int64 {
	n := int64(1)
	for _, h := range p.holes {
		n *= int64(len(h.atoms))
	}
	return n
}

// render returns the i-th program of the pattern (mixed radix, last hole fastest).
func (p *pattern) render(i int64) string {
	toks := make([]string, len(p.toks))
	copy(toks, p.toks)
	for k := len(p.holes) - 1; k >= 0; k-- {
		h := p.holes[k]
		r := int64(len(h.atoms))
		toks[h.pos] = h.atoms[i%r]
		i /= r
	}
	return strings.Join(toks, " ")
}

// nilPtrAtoms ($P): typed nil pointers of two different pointee types, as names
// and as the places they naturally come from (fields of a made struct, elements
// of a made slice), plus two non-nil controls.
var nilPtrAtoms = []string{"np", "nq", "sp . P", "sp . Q", "pa [ 0 ]", "ps [ 0 ]", "p", "pq"}

// ptrDestAtoms ($D): assignable places with a declared pointer type.
var ptrDestAtoms = []string{"sp . P", "sp . Q", "pa [ 0 ]", "ps [ 0 ]", "ps [ 2 ]", "pmi . a", "pms . a", "pms [ s ]", "* ppi", "* pps"}

// floatAtoms ($F): the floats that are not equal to themselves or compare oddly.
var floatAtoms = []string{"nan", "pinf", "ninf", "nz"}

// loopSubjects ($M): what a for-in ranges over in the body-mutation family.
var loopSubjects = []string{"m", "tm", "fm", "tfm", "pms", "a", "ta", "pa", "co", "cc"}

// loopMutations ($U): what the loop body does to the subject before it uses the
// loop variables (k, v / x).  "n" is the do-nothing control.
var loopMutations = []string{
	"n",
	`delete ( m , "a" ) ; delete ( m , "b" )`,
	"delete ( m , k )",
	`delete ( tm , "a" ) ; delete ( tm , "b" )`,
	"delete ( tm , k )",
	"delete ( fm , k )",
	`delete ( pms , "a" ) ; delete ( pms , "b" )`,
	"m . c = 1 ; m . d = 2",
	"tm . c = 1",
	"m = { }",
	"m = nil",
	"a += 1",
	"a = [ ]",
	"ta += 1",
	"ta = ta [ : 1 ]",
	"pa += np",
	"close ( co )",
	"close ( cc )",
	"co <- 1",
}

var fixedHoles = map[string][]string{}

func init() {
	fixedHoles["$K"] = keyAtoms
	fixedHoles["$R"] = refusedTypes
	fixedHoles["$P"] = nilPtrAtoms
	fixedHoles["$D"] = ptrDestAtoms
	fixedHoles["$F"] = floatAtoms
	fixedHoles["$M"] = loopSubjects
	fixedHoles["$U"] = loopMutations
}

func isHole(t string) bool {
	if t == "$E" || t == "$L" || t == "$S" || t == "$T" {
		return true
	}
	_, ok := fixedHoles[t]
	return ok
}

// instantiate builds the depth-1 pattern of a template.
func instantiate(t template, exprAtoms func(nholes int) []string, tyAtoms []string) pattern {
	toks := strings.Fields(t.src)
	nh := 0
	for _, tk := range toks {
		if isHole(tk) {
			nh++
		}
	}
	p := pattern{toks: toks}
	for i, tk := range toks {
		switch tk {
		case "$E", "$L", "$S":
			p.holes = append(p.holes, hole{i, exprAtoms(nh)})
		case "$T":
			p.holes = append(p.holes, hole{i, tyAtoms})
		default:
			if set, ok := fixedHoles[tk]; ok {
				p.holes = append(p.holes, hole{i, set})
			}
		}
	}
	p.n = p.count()
	return p
}

func depth1Atoms(nholes int) []string {
	switch {
	case nholes >= 4:
		return atomsMid
	case nholes == 3:
		return atoms3
	}
	return atomsFull
}

// reducedAtoms: the atom sets under the quick tier's truncation space.
func reducedAtoms(nholes int) []string {
	switch {
	case nholes >= 4:
		return atomsSmall
	case nholes == 3:
		return atomsMid
	}
	return atomsFull
}

// g1Patterns: every template x every atom in every hole.
func g1Patterns(atoms func(int) []string) []pattern {
	var ps []pattern
	for _, t := range templates() {
		ps = append(ps, instantiate(t, atoms, typeAtoms))
	}
	return ps
}

// g2Patterns: every d2 template nested in every hole of every d2 template.
func g2Patterns(univ []string, ty []string) []pattern {
	var ps []pattern
	all := templates()
	var d2 []template
	for _, t := range all {
		if t.d2 {
			d2 = append(d2, t)
		}
	}
	ua := func(int) []string { return univ }
	for _, o := range d2 {
		otoks := strings.Fields(o.src)
		for hi, htok := range otoks {
			if htok != "$E" && htok != "$L" && htok != "$S" {
				continue
			}
			for _, in := range d2 {
				var inner []string
				switch htok {
				case "$E":
					if in.kind != 'E' {
						continue
					}
					inner = strings.Fields(in.src)
					if !in.prim {
						inner = append(append([]string{"("}, inner...), ")")
					}
				case "$L":
					if in.kind != 'E' || !(in.prim || in.name == "deref") {
						continue
					}
					inner = strings.Fields(in.src)
				case "$S":
					inner = strings.Fields(in.src)
				}
				var toks []string
				toks = append(toks, otoks[:hi]...)
				toks = append(toks, inner...)
				toks = append(toks, otoks[hi+1:]...)
				p := instantiate(template{src: strings.Join(toks, " ")}, ua, ty)
				ps = append(ps, p)
			}
		}
	}
	return ps
}

// dPatterns: every token-boundary prefix and every single-token deletion of
// every program of the given patterns, de-duplicated structurally: a variant
// only ranges over the holes that survive, so each distinct truncated text of
// one (template, variant) pair is generated once.
func dPatterns(src []pattern) []pattern {
	var ps []pattern
	seen := map[string]bool{}
	emit := func(toks []string, holes []hole) {
		if len(toks) == 0 {
			return
		}
		p := pattern{toks: toks, holes: holes}
		p.n = p.count()
		// structural key: tokens with hole markers + atom-set sizes
		var b strings.Builder
		hs := map[int]int{}
		for _, h := range holes {
			hs[h.pos] = len(h.atoms)
		}
		for i, t := range toks {
			if n, ok := hs[i]; ok {
				b.WriteString("\x00")
				b.WriteByte(byte(n))
			} else {
				b.WriteString(t)
			}
			b.WriteByte(' ')
		}
		if seen[b.String()] {
			return
		}
		seen[b.String()] = true
		ps = append(ps, p)
	}
	for _, p := range src {
		n := len(p.toks)
		// prefixes of length 1..n-1
		for k := 1; k < n; k++ {
			var hs []hole
			for _, h := range p.holes {
				if h.pos < k {
					hs = append(hs, h)
				}
			}
			emit(append([]string{}, p.toks[:k]...), hs)
		}
		// deletions
		for d := 0; d < n; d++ {
			toks := append(append([]string{}, p.toks[:d]...), p.toks[d+1:]...)
			var hs []hole
			for _, h := range p.holes {
				switch {
				case h.pos < d:
					hs = append(hs, h)
				case h.pos > d:
					hs = append(hs, hole{h.pos - 1, h.atoms})
				}
			}
			emit(toks, hs)
		}
	}
	return ps
}

// ---------------------------------------------------------------------------
// Token strings and byte strings.
// ---------------------------------------------------------------------------

var keywords = []string{"func", "return", "var", "throw", "if", "for", "break", "continue", "in", "else", "new", "true", "false", "nil",
	"module", "try", "catch", "finally", "switch", "case", "default", "go", "defer", "chan", "struct", "make", "type", "len", "delete", "close", "map", "import"}

var operators = []string{"+", "-", "*", "/", "%", "&", "|", "^", "!", "=", "<", ">", ".", ",", ":", ";", "?", "(", ")", "{", "}", "[", "]", "\n",
	"==", "!=", "<=", ">=", "&&", "||", "++", "--", "+=", "-=", "*=", "/=", "&=", "|=", "<<", ">>", "<-", "??", "..."}

// the reduced identifier set of the token space (all bound by the environment
// except x) and the literals
var tokIdents = []string{"a", "m", "np", "co", "f1", "g3", "ix", "int64", "x"}
var tokLits = []string{"0", "1", "1.5", `"s"`}

func tokenAlphabet() []string {
	var al []string
	al = append(al, keywords...)
	al = append(al, operators...)
	al = append(al, tokIdents...)
	al = append(al, tokLits...)
	return al
}

// byteAlphabet: every byte the lexer special-cases, blanks, a letter/digit
// sample, the two bytes of a non-ASCII letter, an invalid UTF-8 byte, NUL.
var byteAlphabet = []byte{'"', '\'', '`', '#', '!', '=', '?', '+', '-', '*', '/', '>', '<', '|', '&', '.', '\n', '(', ')', ':', ';', '%', '{', '}', '[', ']', ',', '^', '\\', ' ',
	'a', 'e', 'x', '_', '0', '1', 0xC3, 0xA9, 0xFF, 0x00}

// seqSpace enumerates all sequences of length 1..maxLen over k symbols.
type seqSpace struct {
	k      int64
	maxLen int
	offs   []int64 // offs[l-1] = index of the first sequence of length l
	total  int64
}

func newSeqSpace(k, maxLen int) seqSpace {
	s := seqSpace{k: int64(k), maxLen: maxLen}
	n := int64(0)
	pw := int64(1)
	for l := 1; l <= maxLen; l++ {
		pw *= int64(k)
		s.offs = append(s.offs, n)
		n += pw
	}
	s.total = n
	return s
}

// digits returns the symbol indices of sequence i.
func (s seqSpace) digits(i int64, buf []int) []int {
	l := sort.Search(len(s.offs), func(j int) bool { return s.offs[j] > i }) // number of offs <= i
	i -= s.offs[l-1]
	buf = buf[:l]
	for k := l - 1; k >= 0; k-- {
		buf[k] = int(i % s.k)
		i /= s.k
	}
	return buf
}

// ---------------------------------------------------------------------------
// Spaces
// ---------------------------------------------------------------------------

type space struct {
	name  string
	total int64
	batch int64
	gen   func(i int64) string
}

func patternSpace(name string, ps []pattern, batch int64) space {
	offs := make([]int64, len(ps)+1)
	for i := range ps {
		offs[i+1] = offs[i] + ps[i].n
	}
	return space{name: name, total: offs[len(ps)], batch: batch, gen: func(i int64) string {
		k := sort.Search(len(ps), func(j int) bool { return offs[j+1] > i })
		return ps[k].render(i - offs[k])
	}}
}

func buildSpaces(thorough bool) []space {
	g1 := g1Patterns(depth1Atoms)
	var sp []space
	sp = append(sp, patternSpace("G1", g1, 1500))
	if thorough {
		sp = append(sp, patternSpace("D", dPatterns(g1), 6000))
	} else {
		sp = append(sp, patternSpace("D", dPatterns(g1Patterns(reducedAtoms)), 6000))
	}
	// bytes
	bl := 3
	if thorough {
		bl = 4
	}
	bs := newSeqSpace(len(byteAlphabet), bl)
	sp = append(sp, space{name: "B", total: bs.total, batch: 20000, gen: func(i int64) string {
		var buf [8]int
		d := bs.digits(i, buf[:])
		out := make([]byte, len(d))
		for k, x := range d {
			out[k] = byteAlphabet[x]
		}
		return string(out)
	}})
	// E: every rune-boundary prefix of literal spellings that use every escape /
	// number / comment form (also ones the lexer may learn later: \x, \u, \U, octal),
	// behind 0..15 blanks: the blanks vary the rune count of the source against the
	// size class of the buffer the lexer makes from it (an index one past the text
	// is caught or not depending on the spare capacity)
	var esc []string
	for _, lit := range []string{
		"\"\\x41\\u00e9\\U0001F600\\101\\n\\t\\\\\\\"a\"", "'\\x41\\u00e9'", "f(\"\\x4g\")", "x = \"\\u12\"", "`a\nb`", "0x1F + 0b101", "1.5e+10 - 1e-5", "a /* c */ b", "a # c\nb",
		"\"\\0\"", "\"\\8\"", "'\\''", "\"é日\\x\"",
	} {
		rs := []rune(lit)
		for n := 1; n <= len(rs); n++ {
			for pad := 0; pad < 16; pad++ {
				esc = append(esc, strings.Repeat(" ", pad)+string(rs[:n]))
			}
		}
	}
	sp = append(sp, space{name: "E", total: int64(len(esc)), batch: 2000, gen: func(i int64) string { return esc[i] }})
	al := tokenAlphabet()
	tl := 3
	if thorough {
		tl = 4
	}
	tspace := newSeqSpace(len(al), 3)
	tgen := func(s seqSpace) func(i int64) string {
		return func(i int64) string {
			var buf [8]int
			d := s.digits(i, buf[:])
			parts := make([]string, len(d))
			for k, x := range d {
				parts[k] = al[x]
			}
			return strings.Join(parts, " ")
		}
	}
	sp = append(sp, space{name: "T", total: tspace.total, batch: 20000, gen: tgen(tspace)})
	if thorough {
		sp = append(sp, patternSpace("G2", g2Patterns(atomsD2, typeAtomsD2), 2000))
		// length-4 token strings come last: if the soft deadline strikes, this is what is cut
		t4 := newSeqSpace(len(al), tl)
		first := t4.offs[3]
		sp = append(sp, space{name: "T4", total: t4.total - first, batch: 40000, gen: func(i int64) string { return tgen(t4)(i + first) }})
	} else {
		sp = append(sp, patternSpace("G2", g2Patterns(atomsD2q, typeAtomsD2[:2]), 2000))
	}
	return sp
}
