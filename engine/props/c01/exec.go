package c01

import (
	"bytes"
	"fmt"
	"os"
	"regexp"
	"runtime"
	"runtime/debug"
	"runtime/metrics"
	"strings"
	"sync"
	"sync/atomic"
	"time"

	"github.com/mattn/anko/ast"
	"github.com/mattn/anko/env"
	"github.com/mattn/anko/parser"
	"github.com/mattn/anko/vhook"
	"github.com/mattn/anko/vm"
	"verif/engine/lib/stepctx"
)

const fuel = 200

// memory guard: a case whose heap passes this size is cut short (exhausting
// memory is outside the guarantee; the guard only prunes, it is no oracle)
const memGuardBytes = 96 << 20

// panicRec is one observed panic.
type panicRec struct {
	Mode   string // parse | execctx | exec | run | run-after-parse-error
	Class  string
	Detail string
}

// caseResult is what the execution of one source text yields.
type caseResult struct {
	parsed     bool // ParseSrc returned no error
	tree       bool // ParseSrc returned a tree (possibly together with an error)
	nontrivial bool // parsed, and at least one statement past the statement list node was started
	returned   int  // executions that returned (value or error)
	execs      int  // executions started
	interrupt  int  // executions that ended with ErrInterrupt after the fuel ran out
	blocked    int  // executions abandoned because every script goroutine was blocked on a channel
	memGuard   int  // executions cut by the memory guard
	runErr     int  // executions that returned an error other than ErrInterrupt
	panics     []panicRec
	info       []panicRec // panics seen only when running a tree that ParseSrc returned together with an error
}

type runner struct {
	runTree bool // also RunContext the parsed tree of every well-formed text (thorough tier)
	mu      sync.Mutex
	goPanic []panicRec // panics that reached the top frame of a script-started goroutine during the current execution
	stackB  []byte
	sample  []metrics.Sample
	cur     atomic.Pointer[watch]
}

func newRunner() *runner {
	r := &runner{stackB: make([]byte, 1<<20)}
	r.sample = []metrics.Sample{{Name: "/memory/classes/heap/objects:bytes"}}
	vhook.OnGoPanic = func(v interface{}, stack []byte) {
		rec := classify("gopanic", v, stack)
		r.mu.Lock()
		r.goPanic = append(r.goPanic, rec)
		r.mu.Unlock()
	}
	go r.monitor()
	return r
}

var (
	reHex     = regexp.MustCompile(`0x[0-9a-fA-F]+`)
	reNum     = regexp.MustCompile(`\b[0-9]+\b`)
	reOnKind  = regexp.MustCompile(`on [A-Za-z0-9_.\[\]\*{} ]+? Value`)
	reAssign  = regexp.MustCompile(`value of type .+ is not assignable to type .+$`)
	reConv    = regexp.MustCompile(`interface conversion: .+ is not .+: missing method`)
	reIfaceIs = regexp.MustCompile(`interface conversion: interface \{\} is .+, not .+$`)
	reUnhash  = regexp.MustCompile(`unhashable type .+$`)
	reFuncN   = regexp.MustCompile(`\.func[0-9]+(\.[0-9]+)*`)
	reGoWord  = regexp.MustCompile(`\bgo\b`)
	ankoPfx   = "github.com/mattn/anko/"
	vhookPfx  = "github.com/mattn/anko/vhook."
	maxDetail = 1800
)

func normText(s string) string {
	if i := strings.IndexByte(s, '\n'); i >= 0 {
		s = s[:i]
	}
	s = reHex.ReplaceAllString(s, "0x?")
	s = reNum.ReplaceAllString(s, "N")
	s = reOnKind.ReplaceAllString(s, "on K Value")
	s = reAssign.ReplaceAllString(s, "value of type T is not assignable to type T")
	s = reConv.ReplaceAllString(s, "interface conversion: T is not T: missing method")
	s = reIfaceIs.ReplaceAllString(s, "interface conversion: interface {} is T, not T")
	s = reUnhash.ReplaceAllString(s, "unhashable type T")
	if len(s) > 160 {
		s = s[:160]
	}
	return s
}

// classify computes `<prefix>/<anko function at the top of the panic stack>/<normalised text>`.
func classify(prefix string, v interface{}, stack []byte) panicRec {
	var text string
	switch t := v.(type) {
	case error:
		text = t.Error()
	default:
		text = fmt.Sprint(v)
	}
	fn := "?"
	lines := strings.Split(string(stack), "\n")
	start := 0
	for i, l := range lines {
		if strings.HasPrefix(l, "panic(") {
			start = i + 1
			break
		}
	}
	var frames []string
	for _, l := range lines[start:] {
		if l == "" || l[0] == '\t' || strings.HasPrefix(l, "goroutine ") {
			continue
		}
		if j := strings.LastIndexByte(l, '('); j > 0 {
			l = l[:j]
		}
		if strings.HasPrefix(l, "created by ") {
			continue
		}
		if len(frames) < 14 {
			frames = append(frames, l)
		}
		if fn == "?" && strings.HasPrefix(l, ankoPfx) && !strings.HasPrefix(l, vhookPfx) {
			fn = reFuncN.ReplaceAllString(strings.TrimPrefix(l, ankoPfx), ".func")
		}
	}
	d := "panic: " + text + "\n  " + strings.Join(frames, "\n  ")
	if len(d) > maxDetail {
		d = d[:maxDetail]
	}
	return panicRec{Class: prefix + "/" + fn + "/" + normText(text), Detail: d}
}

// allBlocked reports whether every goroutine that has an anko frame on its
// stack is parked in a channel operation (and there is at least one such
// goroutine).  Script goroutines only ever wait for each other or for the
// context, so this state cannot change by itself: the case is blocked for good.
func (r *runner) allBlocked() bool {
	for {
		n := runtime.Stack(r.stackB, true)
		if n < len(r.stackB) {
			return stacksAllBlocked(r.stackB[:n])
		}
		if len(r.stackB) >= 64<<20 {
			return false
		}
		r.stackB = make([]byte, 2*len(r.stackB))
	}
}

var ankoMark = []byte("\n" + ankoPfx)

func stacksAllBlocked(dump []byte) bool {
	seen := false
	for _, g := range bytes.Split(dump, []byte("\n\n")) {
		if !bytes.Contains(g, ankoMark) {
			continue
		}
		seen = true
		// header: goroutine N [state(, M minutes)?(, locked to thread)?]:
		i := bytes.IndexByte(g, '[')
		j := bytes.IndexByte(g, ']')
		if i < 0 || j < i {
			return false
		}
		st := string(g[i+1 : j])
		if !(strings.HasPrefix(st, "select") || strings.HasPrefix(st, "chan receive") || strings.HasPrefix(st, "chan send")) {
			return false
		}
	}
	return seen
}

type execOut struct {
	val         interface{}
	err         error
	rec         *panicRec
	blocked     bool
	memGuard    bool
	polls       int64
	goPanics    []panicRec
	interrupted bool
}

// watch is what the monitor goroutine looks at: the execution in flight.
type watch struct {
	ctx     *stepctx.Ctx
	started time.Time
	blocked int32
}

// monitor is a long-lived goroutine: once per millisecond it looks at the
// execution in flight; if that has been running for a while and every script
// goroutine (the calling one included) is parked on a channel, the execution is
// blocked for good and is released by cancelling its context.
func (r *runner) monitor() {
	t := time.NewTicker(time.Millisecond)
	for range t.C {
		w := r.cur.Load()
		if w == nil || w.ctx == nil || w.ctx.Cancelled() || time.Since(w.started) < 400*time.Microsecond {
			continue
		}
		if r.allBlocked() && r.cur.Load() == w {
			atomic.StoreInt32(&w.blocked, 1)
			w.ctx.Cancel()
		}
	}
}

// guarded runs one call into anko, recovering a panic that reaches this frame;
// a call that is blocked for good is released by the monitor (deterministically:
// the decision is taken from the goroutine states, not from the clock); then
// every script-started goroutine is waited for.
func (r *runner) guarded(useCtx bool, f func(ctx *stepctx.Ctx) (interface{}, error)) execOut {
	var out execOut
	var ctx *stepctx.Ctx
	var memHit int32
	if useCtx {
		ctx = stepctx.Fuel(fuel)
		ctx.OnPoll = func(i int64) {
			if i >= 24 && i&7 == 0 {
				metrics.Read(r.sample)
				if r.sample[0].Value.Kind() == metrics.KindUint64 && r.sample[0].Value.Uint64() > memGuardBytes {
					atomic.StoreInt32(&memHit, 1)
					ctx.Cancel()
				}
			}
		}
	}
	r.mu.Lock()
	r.goPanic = r.goPanic[:0]
	r.mu.Unlock()

	w := &watch{ctx: ctx, started: time.Now()}
	r.cur.Store(w)
	func() {
		defer func() {
			if p := recover(); p != nil {
				rec := classify("panic", p, debug.Stack())
				out.rec = &rec
			}
		}()
		out.val, out.err = f(ctx)
	}()
	// script goroutines
	for spins := 0; atomic.LoadInt64(&vhook.Live) > 0; spins++ {
		if spins < 200 {
			runtime.Gosched()
			continue
		}
		time.Sleep(50 * time.Microsecond)
	}
	r.cur.Store(nil)
	out.blocked = atomic.LoadInt32(&w.blocked) == 1
	if ctx != nil {
		out.polls = ctx.Polls()
		out.memGuard = atomic.LoadInt32(&memHit) == 1
		if out.memGuard {
			// drop the garbage now, so that the guard of the next executions measures their own heap
			runtime.GC()
		}
	}
	r.mu.Lock()
	out.goPanics = append(out.goPanics, r.goPanic...)
	r.mu.Unlock()
	if out.err != nil && out.err.Error() == vm.ErrInterrupt.Error() {
		out.interrupted = true
	}
	return out
}

var optsNoDebug = &vm.Options{Debug: false}

// orderDependentBlock: a loop whose body can block on a channel (or loop again)
// may behave differently from run to run when it ranges over a map (Go
// randomises the order): the fuelled run ending by itself then says nothing
// about a run without fuel, so vm.Execute (uncancellable) is not called.
func orderDependentBlock(src string) bool {
	n := len(reForWord.FindAllStringIndex(src, -1))
	return n >= 2 || (n == 1 && strings.Contains(src, "<-"))
}

var reForWord = regexp.MustCompile(`\bfor\b`)

const machineryMark = "C01-MACHINERY: "

func newEnvSafe() (e *env.Env, err error) {
	defer func() {
		if p := recover(); p != nil {
			e, err = nil, fmt.Errorf("the environment prologue panics: %v", p)
		}
	}()
	return newEnv()
}

func (cr *caseResult) account(mode string, o execOut, info bool) {
	cr.execs++
	add := func(rec panicRec) {
		rec.Mode = mode
		if info {
			cr.info = append(cr.info, rec)
		} else {
			cr.panics = append(cr.panics, rec)
		}
	}
	if o.rec != nil {
		add(*o.rec)
	} else {
		cr.returned++
	}
	for _, g := range o.goPanics {
		add(g)
	}
	switch {
	case o.memGuard:
		cr.memGuard++
	case o.blocked:
		cr.blocked++
	case o.interrupted:
		cr.interrupt++
	case o.err != nil:
		cr.runErr++
	}
}

// runCase executes one source text in every mode.
func (r *runner) runCase(src string) (cr caseResult) {
	// (A) ParseSrc
	var stmt ast.Stmt
	var perr error
	func() {
		defer func() {
			if p := recover(); p != nil {
				rec := classify("panic", p, debug.Stack())
				rec.Mode = "parse"
				cr.panics = append(cr.panics, rec)
				perr = fmt.Errorf("panic")
				stmt = nil
			}
		}()
		stmt, perr = parser.ParseSrc(src)
	}()
	cr.parsed = perr == nil
	cr.tree = stmt != nil
	if perr != nil && stmt == nil {
		return cr
	}
	mk := func() *env.Env {
		e, err := newEnvSafe()
		if err != nil {
			// the environment itself cannot be built on this tree: no verdict is possible
			os.Stderr.WriteString(machineryMark + err.Error() + "\n")
			os.Exit(9)
		}
		return e
	}
	if perr != nil {
		// The parser returned a tree together with a (non-fatal) error.  vm.Execute
		// never runs such a tree; the repository's own tests do.  Informational only.
		e := mk()
		o := r.guarded(true, func(ctx *stepctx.Ctx) (interface{}, error) { return vm.RunContext(ctx, e, optsNoDebug, stmt) })
		cr.account("run-after-parse-error", o, true)
		return cr
	}
	// (B) ExecuteContext under fuel
	e := mk()
	o := r.guarded(true, func(ctx *stepctx.Ctx) (interface{}, error) { return vm.ExecuteContext(ctx, e, optsNoDebug, src) })
	cr.account("execctx", o, false)
	cr.nontrivial = stmt != nil && o.polls >= 2
	if sentinelsChanged() != "" {
		return cr // this process is poisoned now; the worker loop reports it and stops
	}
	quiet := o.rec == nil && len(o.goPanics) == 0 && !o.blocked && !o.interrupted && !o.memGuard
	// (C) Execute (context.Background: neither fuel nor cancellation), only for
	// programs that just terminated on their own and start no goroutine
	if quiet && !reGoWord.MatchString(src) && !orderDependentBlock(src) {
		e := mk()
		o := r.guarded(false, func(*stepctx.Ctx) (interface{}, error) { return vm.Execute(e, optsNoDebug, src) })
		cr.account("exec", o, false)
		if sentinelsChanged() != "" {
			return cr
		}
	}
	// (D) RunContext on the tree ParseSrc returned (nil options = defaults)
	if stmt != nil && r.runTree {
		e := mk()
		o := r.guarded(true, func(ctx *stepctx.Ctx) (interface{}, error) { return vm.RunContext(ctx, e, nil, stmt) })
		cr.account("run", o, false)
	}
	return cr
}
