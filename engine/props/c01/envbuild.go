package c01

import (
	"context"
	"errors"
	"fmt"
	"reflect"

	"github.com/mattn/anko/ast"
	"github.com/mattn/anko/env"
	"github.com/mattn/anko/parser"
	"github.com/mattn/anko/vm"
)

// The script-made part of the environment: one value of every kind a script
// can build.  Everything here is built by running anko source, i.e. by exactly
// the means the property allows ("values a script can itself construct").
const prologue = `
n = nil
bt = true
i0 = 0
i1 = 1
im = -1
ix = 9223372036854775807
iy = -9223372036854775808
iz = 4611686018427387904
fl = 1.5
s = "s"
a = [1, "b", nil, 2.5]
ta = []int64{1, 2, 3}
ea = []
na = [nil]
m = {"a": 1, "b": "x"}
tm = make(map[string]int64)
tm["a"] = 1
nm = []map[string]int64{nil}[0]
st = make(struct{A int64, B string})
p = new(int64)
pa = make([]*int64, 2)
np = pa[0]
co = make(chan int64, 2)
co <- 1
cc = make(chan int64, 1)
cc <- 7
close(cc)
cn = []chan int64{nil}[0]
module mo { v = 1; func f(x) { return x } }
ty = make(type nty, 1)
f0 = func() { return 1 }
f1 = func(x) { return x }
f5 = func(a, b, c, d, e) { return a }
fv = func(x...) { return len(x) }
tm["b"] = 2
nq = make([]*string, 1)[0]
pq = new(string)
ps = make([]*string, 2)
sp = make(struct{P *int64, Q *string})
pmi = make(map[string]*int64)
pms = make(map[string]*string)
pms["a"] = pq
pms["b"] = nq
ppi = new(*int64)
pps = new(*string)
cpi = make(chan *int64, 4)
cps = make(chan *string, 4)
nan = 0.0 / 0.0
pinf = 1.0 / 0.0
ninf = -1.0 / 0.0
nz = -0.0
fm = {}
fm[nan] = 1
fm[pinf] = 2
fm[nz] = 3
tfm = make(map[float64]int64)
tfm[nan] = 1
tfm[0.0 / 0.0] = 2
tfm[ninf] = 3
ll = [[1, 2]]
lm = [{"k": 1}]
lf = [f1]
ci = make(chan interface, 2)
ci <- [1, 2]
ci <- [3]
`

var prologueStmt ast.Stmt

func init() {
	var err error
	prologueStmt, err = parser.ParseSrc(prologue)
	if err != nil {
		panic("c01: prologue does not parse: " + err.Error())
	}
}

// Sentinels: the three nil values that every run in the process shares
// (parser.nilValue, env.NilValue, vm.nilValue).  They are addressable, so a
// script can overwrite them through `&x`; a child in which that happened no
// longer interprets `nil` as nil and must not be used any further.
var sentinels []reflect.Value

func init() {
	if st, err := parser.ParseSrc("nil"); err == nil {
		if ss, ok := st.(*ast.StmtsStmt); ok && len(ss.Stmts) == 1 {
			if es, ok := ss.Stmts[0].(*ast.ExprStmt); ok {
				if le, ok := es.Expr.(*ast.LiteralExpr); ok {
					sentinels = append(sentinels, le.Literal)
				}
			}
		}
	}
	sentinels = append(sentinels, env.NilValue)
	func() {
		defer func() { recover() }()
		e := env.NewEnv()
		if _, err := vm.Execute(e, nil, "y = func(){}()"); err == nil {
			if v, err := e.GetValue("y"); err == nil {
				sentinels = append(sentinels, v)
			}
		}
	}()
}

func sentinelsChanged() string {
	for i, v := range sentinels {
		if !v.IsValid() || v.Kind() != reflect.Interface || !v.IsNil() {
			return fmt.Sprintf("shared nil value #%d no longer nil", i)
		}
	}
	return ""
}

const canarySrc = `[n, i1 + i1, s + s, len(ta), nil == n, m.a, ta[2], fl * 2, "" + bt]`
const canaryWant = "[<nil> 2 ss 3 true 1 3 3 true]"

// canary runs a fixed script on a fresh environment at the end of every batch.
func canary() (bad string) {
	defer func() {
		if p := recover(); p != nil {
			bad = fmt.Sprint("canary panics: ", p)
		}
	}()
	e, err := newEnv()
	if err != nil {
		return "canary: " + err.Error()
	}
	v, err := vm.Execute(e, nil, canarySrc)
	if err != nil {
		return "canary: " + err.Error()
	}
	if got := fmt.Sprint(v); got != canaryWant {
		return "canary: got " + got
	}
	return ""
}

var errNeg = errors.New("negative")

// newEnv builds a fresh environment: Go functions through Define, everything
// else by running the prologue.
func newEnv() (*env.Env, error) {
	e := env.NewEnv()
	e.Define("g1", func(a int64) int64 { return a + 1 })
	e.Define("g3", func(a, b, c int64) int64 { return a + b + c })
	e.Define("gv", func(a ...interface{}) int64 { return int64(len(a)) })
	e.Define("gp", func(a ...interface{}) { panic("boom") })
	e.Define("gq", func(p *string) int64 {
		if p == nil {
			return 0
		}
		return int64(len(*p))
	})
	e.Define("gr", func(p *int64) int64 {
		if p == nil {
			return 0
		}
		return *p
	})
	e.Define("gq2", func(p *string, q *int64) int64 { return 2 })
	e.Define("gqv", func(p ...*string) int64 { return int64(len(p)) })
	e.Define("ge", func(a int64) (int64, error) {
		if a < 0 {
			return 0, errNeg
		}
		return a, nil
	})
	_, err := vm.RunContext(context.Background(), e, nil, prologueStmt)
	if err != nil {
		return nil, fmt.Errorf("prologue failed: %v", err)
	}
	return e, nil
}
