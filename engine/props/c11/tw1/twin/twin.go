// Package twin (first of two packages with this name): its Rec prints as
// "twin.Rec" exactly like the other package's Rec, but is another type with
// another method set.
package twin

type Rec struct {
	N     int64
	Count int64
	Label string
}

func (r Rec) Alpha() string { return "one-alpha" }
func (r Rec) Name() string  { return "one-name" }
