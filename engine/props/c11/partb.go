package c11

import (
	"fmt"
	"reflect"

	"github.com/mattn/anko/env"
)

// ---------- space B: Go values round-trip with value and dynamic type intact ----------

type bSpec struct {
	Val   string `json:"val"`   // name in goVals
	Route string `json:"route"` // name in bRoutes
}

func (b bSpec) caseText() string {
	r := bRouteByName[b.Route]
	return fmt.Sprintf("x = Go value %s :: %s", b.Val, r.Script)
}

// Box holds a value in an interface{} field.
type Box struct{ V interface{} }

type bRoute struct {
	Name   string
	Script string
	// Holder: which Go-side holder must contain x afterwards ("" none)
	Holder string
}

var bRoutes = []bRoute{
	{Name: "read", Script: `x`},
	{Name: "rebind", Script: `y = x; y`},
	{Name: "list-literal", Script: `a = [x]; a[0]`},
	{Name: "list-assign", Script: `a = [nil]; a[0] = x; a[0]`},
	{Name: "list-second", Script: `a = [1, x, "s"]; a[1]`},
	{Name: "map-literal", Script: `m = {"k": x}; m["k"]`},
	{Name: "map-assign-member", Script: `m = {}; m["k"] = x; m.k`},
	{Name: "map-member-assign", Script: `m = {}; m.k = x; m["k"]`},
	{Name: "box-field", Script: `box.V = x; box.V`, Holder: "box"},
	{Name: "typed-field", Script: `tb.V = x; tb.V`, Holder: "tb"},
	{Name: "go-slice", Script: `hs[0] = x; hs[0]`, Holder: "hs"},
	{Name: "go-map", Script: `hm["k"] = x; hm["k"]`, Holder: "hm"},
	{Name: "go-map-member", Script: `hm.k = x; hm.k`, Holder: "hm"},
	{Name: "identity", Script: `id(x)`},
	{Name: "identity-list", Script: `id([x])[0]`},
	{Name: "identity-twice", Script: `id(id(x))`},
	{Name: "script-func", Script: `g = func(z) { return z }; id(g(x))`},
}

var bRouteByName = func() map[string]bRoute {
	m := map[string]bRoute{}
	for _, r := range bRoutes {
		m[r.Name] = r
	}
	return m
}()

func evalB(b bSpec) verdict {
	g, ok := goValByName(b.Val)
	r, ok2 := bRouteByName[b.Route]
	if !ok || !ok2 {
		return verdict{class: "B/machinery", detail: "unknown case " + b.Val + "/" + b.Route}
	}
	if r.Holder == "tb" && g.V == nil {
		return verdict{undet: true, outcome: "no typed field for the untyped nil"}
	}
	e := env.NewEnv()
	idCalls := 0
	var idGot []interface{}
	e.Define("id", func(x interface{}) interface{} {
		idCalls++
		idGot = append(idGot, x)
		return x
	})
	e.Define("x", g.V)
	box := &Box{}
	e.Define("box", box)
	hs := []interface{}{nil}
	e.Define("hs", hs)
	hm := map[string]interface{}{}
	e.Define("hm", hm)
	var tb reflect.Value
	if g.V != nil {
		st := reflect.StructOf([]reflect.StructField{{Name: "V", Type: reflect.TypeOf(g.V)}})
		tb = reflect.New(st)
		e.DefineValue("tb", tb)
	}

	val, err, pan := execScript(e, r.Script)
	v := verdict{nontrivial: true}
	v.outcome = fmt.Sprintf("err=%v panic=%v id=%d", err != nil, pan != "", idCalls)
	if err == nil && pan == "" {
		v.outcome += " result=" + describeIface(val)
	}
	fail := func(kind, detail string) verdict {
		v.class = "B/" + r.Name + "/" + kind
		v.detail = detail
		return v
	}
	if pan != "" {
		return fail("panic", "panic escaped vm.Execute (Debug:false): "+pan)
	}
	if err != nil {
		return fail("error", fmt.Sprintf("the script failed: %v", err))
	}
	if !sameIface(val, g.V, true) {
		return fail("value", fmt.Sprintf("read back %s, bound %s", describeIface(val), describeIface(g.V)))
	}
	for i, x := range idGot {
		var want interface{} = g.V
		if r.Name == "identity-list" {
			want = []interface{}{g.V}
		}
		if !sameIface(x, want, true) {
			return fail("identity-arg", fmt.Sprintf("identity function call %d received %s, expected %s", i, describeIface(x), describeIface(want)))
		}
	}
	// the binding itself is untouched (env.Get hands back what env.Define stored)
	if back, gerr := e.Get("x"); gerr != nil || !sameIface(back, g.V, true) {
		return fail("binding", fmt.Sprintf("env.Get(\"x\") yields %s (err=%v), bound %s", describeIface(back), gerr, describeIface(g.V)))
	}
	if r.Name == "rebind" {
		if back, gerr := e.Get("y"); gerr != nil || !sameIface(back, g.V, true) {
			return fail("binding", fmt.Sprintf("env.Get(\"y\") yields %s (err=%v), expected %s", describeIface(back), gerr, describeIface(g.V)))
		}
	}
	var held interface{}
	switch r.Holder {
	case "":
		return v
	case "box":
		held = box.V
	case "tb":
		held = tb.Elem().Field(0).Interface()
	case "hs":
		held = hs[0]
	case "hm":
		held = hm["k"]
	}
	if !sameIface(held, g.V, true) {
		return fail("holder", fmt.Sprintf("the Go-side holder %s contains %s, expected %s", r.Holder, describeIface(held), describeIface(g.V)))
	}
	return v
}
