package c11

import (
	"fmt"
	"reflect"
	"strings"

	"github.com/mattn/anko/env"
	"github.com/mattn/anko/vm"
)

// ---------- space A: manufactured signatures x script values x call shapes ----------

type sigSpec struct {
	P    []string `json:"p"`    // parameter types (pool names); with Var the last one is the element type of the variadic tail
	Var  bool     `json:"var"`  // variadic tail
	NRes int      `json:"nres"` // number of results; result j echoes argument j mod len(P)
}

func (s sigSpec) inTypes() []reflect.Type {
	in := make([]reflect.Type, len(s.P))
	for i, n := range s.P {
		in[i] = poolByName[n]
	}
	if s.Var {
		in[len(in)-1] = reflect.SliceOf(in[len(in)-1])
	}
	return in
}

func (s sigSpec) funcType() reflect.Type {
	in := s.inTypes()
	out := make([]reflect.Type, s.NRes)
	for j := range out {
		out[j] = in[j%len(in)]
	}
	return reflect.FuncOf(in, out, s.Var)
}

func (s sigSpec) String() string {
	var ps []string
	for i, n := range s.P {
		if s.Var && i == len(s.P)-1 {
			n = "..." + n
		}
		ps = append(ps, n)
	}
	var rs []string
	for j := 0; j < s.NRes; j++ {
		n := s.P[j%len(s.P)]
		if s.Var && j%len(s.P) == len(s.P)-1 {
			n = "[]" + n
		}
		rs = append(rs, n)
	}
	out := "func(" + strings.Join(ps, ", ") + ")"
	switch len(rs) {
	case 0:
	case 1:
		out += " " + rs[0]
	default:
		out += " (" + strings.Join(rs, ", ") + ")"
	}
	return out
}

type callSpec struct {
	Args   []string `json:"args"`             // plain arguments (names of script values)
	Spread string   `json:"spread,omitempty"` // "" plain call; "var": last argument is SVar...; "list": xs = [SElems...]; last argument is xs...
	SVar   string   `json:"svar,omitempty"`
	SElems []string `json:"selems,omitempty"`
}

func (c callSpec) script() string {
	args := append([]string{}, c.Args...)
	pre := ""
	switch c.Spread {
	case "var":
		args = append(args, c.SVar+"...")
	case "list":
		pre = "xs = [" + strings.Join(c.SElems, ", ") + "]\n"
		args = append(args, "xs...")
	}
	return pre + "f(" + strings.Join(args, ", ") + ")"
}

func (c callSpec) shape(variadic bool) string {
	fn, call := "fixed", "plain"
	if variadic {
		fn = "variadic"
	}
	if c.Spread != "" {
		call = "spread"
	}
	return fn + "-" + call
}

type aSpec struct {
	Sig  sigSpec  `json:"sig"`
	Call callSpec `json:"call"`
}

func (a aSpec) caseText() string {
	return a.Sig.String() + " :: " + strings.Replace(a.Call.script(), "\n", "; ", -1)
}

// sigEnv: one environment per signature, holding the script values and the
// manufactured function f, which records what it receives into this struct
// (per-signature state; a sigEnv is used by one goroutine).
type sigEnv struct {
	sig   sigSpec
	in    []reflect.Type
	e     *env.Env
	vals  map[string]reflect.Value
	calls int
	got   []reflect.Value
	cache map[string]convResult
}

type convResult struct {
	v  reflect.Value
	st status
}

var opts = &vm.Options{Debug: false}

// execScript runs src and turns a panic into a reported outcome.
func execScript(e *env.Env, src string) (val interface{}, err error, panicked string) {
	defer func() {
		if r := recover(); r != nil {
			panicked = fmt.Sprint(r)
			val, err = nil, nil
		}
	}()
	val, err = vm.Execute(e, opts, src)
	return val, err, ""
}

// newValueEnv builds an environment holding the script values; it checks
// that the interpreter made the values this checker takes as oracle input.
func newValueEnv() (*env.Env, map[string]reflect.Value, error) {
	e := env.NewEnv()
	if err := e.DefineType("S", tS); err != nil {
		return nil, nil, err
	}
	for _, sv := range scriptVals {
		if sv.Go {
			if err := e.Define(sv.Name, sv.Want); err != nil {
				return nil, nil, err
			}
		}
	}
	if _, err, p := execScript(e, prelude()); err != nil || p != "" {
		return nil, nil, fmt.Errorf("prelude failed: err=%v panic=%s", err, p)
	}
	vals := map[string]reflect.Value{}
	for _, sv := range scriptVals {
		rv, err := e.GetValue(sv.Name)
		if err != nil {
			return nil, nil, fmt.Errorf("prelude did not bind %s", sv.Name)
		}
		if !sv.Identity {
			if !sameIface(ifaceOf(rv), sv.Want, true) {
				return nil, nil, fmt.Errorf("script value %s is %s, expected %s", sv.Name, describeIface(ifaceOf(rv)), describeIface(sv.Want))
			}
		}
		vals[sv.Name] = rv
	}
	if p := unwrap(vals["v_p"]); !p.IsValid() || p.Type() != tPInt64 || p.IsNil() || p.Elem().Int() != 11 {
		return nil, nil, fmt.Errorf("script value v_p is not a *int64 to 11")
	}
	if f := unwrap(vals["v_fn"]); !f.IsValid() || !isScriptFuncType(f.Type()) {
		return nil, nil, fmt.Errorf("script value v_fn is not a script function")
	}
	return e, vals, nil
}

func newSigEnv(sig sigSpec) (*sigEnv, error) {
	e, vals, err := newValueEnv()
	if err != nil {
		return nil, err
	}
	se := &sigEnv{sig: sig, in: sig.inTypes(), e: e, vals: vals, cache: map[string]convResult{}}
	ft := sig.funcType()
	n := len(se.in)
	fn := reflect.MakeFunc(ft, func(in []reflect.Value) []reflect.Value {
		se.calls++
		se.got = append([]reflect.Value(nil), in...)
		out := make([]reflect.Value, sig.NRes)
		for j := range out {
			out[j] = in[j%n]
		}
		return out
	})
	if err := e.DefineValue("f", fn); err != nil {
		return nil, err
	}
	return se, nil
}

func (se *sigEnv) conv(name string, T reflect.Type) (reflect.Value, status) {
	key := name + "\x00" + T.String()
	if c, ok := se.cache[key]; ok {
		return c.v, c.st
	}
	v, st := refConvert(se.vals[name], T)
	se.cache[key] = convResult{v, st}
	return v, st
}

type expectation struct {
	st   status          // stOK: args determined; stNoConv: an error is required; stUndet: not compared
	args []reflect.Value // expected recorded arguments (static types = parameter types)
	why  string
}

// expect computes, from Go's call rules and refConvert, what f must receive.
func (se *sigEnv) expect(c callSpec) expectation {
	n := len(se.in)
	type sup struct {
		name string        // a script value by name, or
		v    reflect.Value // an element of a spread list
	}
	var supplied []sup
	for _, a := range c.Args {
		supplied = append(supplied, sup{name: a})
	}
	convSup := func(s sup, T reflect.Type) (reflect.Value, status) {
		if s.name != "" {
			return se.conv(s.name, T)
		}
		return refConvert(s.v, T)
	}
	// the spread operand as a Go value
	var spreadV reflect.Value
	switch c.Spread {
	case "var":
		spreadV = unwrap(se.vals[c.SVar])
	case "list":
		l := make([]interface{}, len(c.SElems))
		for i, en := range c.SElems {
			l[i] = ifaceOf(se.vals[en])
		}
		spreadV = reflect.ValueOf(l)
	}

	merge := func(exp *expectation, st status, why string) {
		if st == stNoConv {
			exp.st, exp.why = stNoConv, why
		} else if st == stUndet && exp.st == stOK {
			exp.st, exp.why = stUndet, why
		}
	}

	if !se.sig.Var {
		if c.Spread != "" {
			if !spreadV.IsValid() || !isListKind(spreadV.Kind()) {
				return expectation{st: stUndet, why: "spreading a non-list into fixed parameters"}
			}
			for i := 0; i < spreadV.Len(); i++ {
				supplied = append(supplied, sup{v: spreadV.Index(i)})
			}
			if len(supplied) > n {
				return expectation{st: stUndet, why: "spread list longer than the remaining parameters (dropping the surplus is enshrined by the repository tests)"}
			}
		}
		if len(supplied) != n {
			return expectation{st: stNoConv, why: fmt.Sprintf("%d arguments for %d parameters", len(supplied), n)}
		}
		exp := expectation{st: stOK, args: make([]reflect.Value, n)}
		for i := 0; i < n; i++ {
			v, st := convSup(supplied[i], se.in[i])
			merge(&exp, st, fmt.Sprintf("argument %d -> %v: %v", i, se.in[i], st))
			if st == stOK {
				exp.args[i] = box(v, se.in[i])
			}
		}
		return exp
	}

	// variadic function
	nfix := n - 1
	sliceT := se.in[n-1]
	exp := expectation{st: stOK, args: make([]reflect.Value, n)}
	if c.Spread == "" {
		if len(supplied) < nfix {
			return expectation{st: stNoConv, why: fmt.Sprintf("%d arguments for %d fixed parameters", len(supplied), nfix)}
		}
		tail := reflect.MakeSlice(sliceT, len(supplied)-nfix, len(supplied)-nfix)
		for i, s := range supplied {
			if i < nfix {
				v, st := convSup(s, se.in[i])
				merge(&exp, st, fmt.Sprintf("argument %d -> %v: %v", i, se.in[i], st))
				if st == stOK {
					exp.args[i] = box(v, se.in[i])
				}
				continue
			}
			v, st := convSup(s, sliceT.Elem())
			merge(&exp, st, fmt.Sprintf("variadic argument %d -> %v: %v", i, sliceT.Elem(), st))
			if st == stOK {
				tail.Index(i - nfix).Set(v)
			}
		}
		exp.args[n-1] = tail
		return exp
	}
	if len(supplied) != nfix {
		return expectation{st: stUndet, why: "spread operand not in the position of the variadic parameter"}
	}
	for i, s := range supplied {
		v, st := convSup(s, se.in[i])
		merge(&exp, st, fmt.Sprintf("argument %d -> %v: %v", i, se.in[i], st))
		if st == stOK {
			exp.args[i] = box(v, se.in[i])
		}
	}
	tv, st := refConvert(spreadV, sliceT)
	merge(&exp, st, fmt.Sprintf("spread operand -> %v: %v", sliceT, st))
	if st == stOK {
		exp.args[n-1] = tv
	}
	return exp
}

// verdict of one evaluated case
type verdict struct {
	class      string // "" = held
	detail     string
	outcome    string // deterministic description of what was observed
	nontrivial bool
	undet      bool
}

func describeArgs(vs []reflect.Value) string {
	var p []string
	for _, v := range vs {
		p = append(p, describe(v))
	}
	return "(" + strings.Join(p, "; ") + ")"
}

// evalA runs one call against f and checks it.
func (se *sigEnv) evalA(c callSpec) verdict {
	exp := se.expect(c)
	if exp.st == stUndet {
		return verdict{undet: true, outcome: "undetermined: " + exp.why}
	}
	shape := c.shape(se.sig.Var)
	se.calls, se.got = 0, nil
	val, err, pan := execScript(se.e, c.script())
	out := fmt.Sprintf("err=%v panic=%v calls=%d", err != nil, pan != "", se.calls)
	if se.calls == 1 {
		out += " args=" + describeArgs(se.got)
	}
	if err == nil && pan == "" {
		out += " result=" + describeIface(val)
	}
	v := verdict{outcome: out, nontrivial: true}
	fail := func(kind, detail string) verdict {
		v.class = "A/" + shape + "/" + kind
		v.detail = detail
		return v
	}
	if pan != "" {
		return fail("panic", "panic escaped vm.Execute (Debug:false): "+pan)
	}
	if exp.st == stNoConv {
		if err == nil {
			return fail("missing-error", fmt.Sprintf("no conversion exists (%s) but the call succeeded; f was called %d time(s) with %s, result %s", exp.why, se.calls, describeArgs(se.got), describeIface(val)))
		}
		if se.calls != 0 {
			return fail("called-despite-error", fmt.Sprintf("the call failed (%v) but f had been called with %s", err, describeArgs(se.got)))
		}
		return v
	}
	if err != nil {
		return fail("unexpected-error", fmt.Sprintf("a conversion exists for every argument (expected f%s) but the call failed: %v", describeArgs(exp.args), err))
	}
	if se.calls != 1 {
		return fail("call-count", fmt.Sprintf("f was called %d times", se.calls))
	}
	if len(se.got) != len(exp.args) {
		return fail("wrong-argument", fmt.Sprintf("f received %d arguments, expected %d", len(se.got), len(exp.args)))
	}
	for i := range exp.args {
		if !sameValue(se.got[i], exp.args[i], false) {
			return fail("wrong-argument", fmt.Sprintf("argument %d: f received %s, expected %s", i, describe(se.got[i]), describe(exp.args[i])))
		}
	}
	// results: none as nil, one as itself, several as a list
	n := len(se.in)
	var want interface{}
	switch se.sig.NRes {
	case 0:
		want = nil
	case 1:
		want = ifaceOf(exp.args[0])
	default:
		l := make([]interface{}, se.sig.NRes)
		for j := range l {
			l[j] = ifaceOf(exp.args[j%n])
		}
		want = l
	}
	if !sameIface(val, want, false) {
		return fail("wrong-result", fmt.Sprintf("%d result(s): the call returned %s, expected %s", se.sig.NRes, describeIface(val), describeIface(want)))
	}
	return v
}

// ---------- enumeration of space A ----------

// tuple modes
const (
	tFull = iota // the whole product of the script values
	tOne         // every tuple in which at most one position lies outside the 8-value sub-pool
	tSub         // tuples over the sub-pool only
	tMini        // tuples over 4 values (nil, an int, a string, a list)
)

var miniVals = []string{"v_nil", "v_i", "v_sa", "v_li"}

// tuples enumerates argument tuples of length k (see the modes above: with
// tOne every value reaches every position and every position pair is covered
// over the sub-pool).
func tuples(k int, mode int) [][]string {
	all := scriptValNames()
	if k == 0 {
		return [][]string{{}}
	}
	inSub := map[string]bool{}
	for _, s := range subVals {
		inSub[s] = true
	}
	limit := map[int]int{tFull: k, tOne: 1, tSub: 0, tMini: 0}[mode]
	if mode == tMini {
		all = miniVals
	}
	var out [][]string
	var rec func(prefix []string, outside int)
	rec = func(prefix []string, outside int) {
		if len(prefix) == k {
			out = append(out, append([]string{}, prefix...))
			return
		}
		for _, a := range all {
			o := outside
			if !inSub[a] {
				o++
			}
			if o > limit {
				continue
			}
			rec(append(prefix, a), o)
		}
	}
	rec(nil, 0)
	return out
}

// callsFor lists every call made against one signature.
func callsFor(sig sigSpec, fullPairs bool, tcache map[string][][]string) []callSpec {
	n := len(sig.P)
	// fullPairs is the thorough tier
	modeFor := func(k int) int {
		switch {
		case k <= 1:
			return tFull
		case k == 2 && n <= 2:
			if fullPairs {
				return tFull
			}
			return tOne
		case k == 2:
			return tOne
		case k == 3:
			return tSub
		}
		return tMini
	}
	tupm := func(k int, mode int) [][]string {
		key := fmt.Sprintf("%d/%d", k, mode)
		if t, ok := tcache[key]; ok {
			return t
		}
		t := tuples(k, mode)
		tcache[key] = t
		return t
	}
	tup := func(k int) [][]string { return tupm(k, modeFor(k)) }
	small := func(k int) [][]string { // wrong-arity probes, prefixes of as-is spreads
		switch {
		case k >= 3:
			return tupm(k, tMini)
		case k == 2:
			return tupm(k, tSub)
		}
		return tupm(k, tFull)
	}
	var out []callSpec
	all := scriptValNames()
	if !sig.Var {
		// plain call, exact arity
		for _, t := range tup(n) {
			out = append(out, callSpec{Args: t})
		}
		// plain call, wrong arity: one argument too few / too many
		for _, t := range small(n - 1) {
			out = append(out, callSpec{Args: t})
		}
		for _, t := range small(n + 1) {
			out = append(out, callSpec{Args: t})
		}
		// spread call: the last j parameters come from a list, j = 1..n
		for j := 1; j <= n; j++ {
			for _, t := range tup(n) {
				out = append(out, callSpec{Args: t[:n-j], Spread: "list", SElems: t[n-j:]})
			}
		}
		// spread call: list one element short
		for j := 1; j <= n; j++ {
			for _, t := range small(n - 1) {
				out = append(out, callSpec{Args: t[:n-j], Spread: "list", SElems: t[n-j:]})
			}
		}
		// spread call: a script value as it is (typed slices, untyped lists; non-lists are not compared)
		for j := 1; j <= n; j++ {
			for _, t := range small(n - j) {
				for _, sv := range all {
					out = append(out, callSpec{Args: t, Spread: "var", SVar: sv})
				}
			}
		}
		return out
	}
	nfix := n - 1
	// variadic function, plain call: 0, 1, 2 extra arguments
	for extra := 0; extra <= 2; extra++ {
		for _, t := range tup(nfix + extra) {
			out = append(out, callSpec{Args: t})
		}
	}
	if nfix > 0 {
		// too few arguments for the fixed part
		for _, t := range small(nfix - 1) {
			out = append(out, callSpec{Args: t})
		}
	}
	// variadic function, spread call in the variadic position: a list of 0, 1, 2 values
	for extra := 0; extra <= 2; extra++ {
		for _, t := range tup(nfix + extra) {
			out = append(out, callSpec{Args: t[:nfix], Spread: "list", SElems: t[nfix:]})
		}
	}
	// ... and every script value as it is (a non-list has no conversion to []T)
	for _, t := range small(nfix) {
		for _, sv := range all {
			out = append(out, callSpec{Args: t, Spread: "var", SVar: sv})
		}
	}
	return out
}

// signatures lists the manufactured signatures of a tier (without result counts).
func signatures(thorough bool) []sigSpec {
	var out []sigSpec
	two := subPool
	if thorough {
		two = poolNames()
	}
	for _, variadic := range []bool{false, true} {
		for _, p := range poolNames() {
			out = append(out, sigSpec{P: []string{p}, Var: variadic})
		}
		for _, p := range two {
			for _, q := range two {
				out = append(out, sigSpec{P: []string{p, q}, Var: variadic})
			}
		}
		if thorough {
			for _, p := range subPool {
				for _, q := range subPool {
					for _, r := range subPool {
						out = append(out, sigSpec{P: []string{p, q, r}, Var: variadic})
					}
				}
			}
		}
	}
	return out
}
