package c11

import (
	"context"
	"fmt"
	"math"
	"reflect"
	"sort"
	"strings"
	"sync"
)

// ---------- the reference conversion ----------
//
// Written from the property text ("arrives as the value Go's own conversion
// to T would produce (element-wise for slices and maps, T's zero value for
// nil), or the call fails with an error when no conversion exists") and the
// conversion rules of the Go specification.  It does not call anko.  Its
// numeric / string core uses Go's own conversion operators; selfCheck()
// verifies once per run that this core agrees with reflect.Value.Convert on
// the whole pool, so the reference and "what reflect.Value.Convert yields"
// are interchangeable.

type status int

const (
	stOK     status = iota // a conversion exists; the value is determined
	stNoConv               // no conversion exists: the call must fail with an error
	stUndet                // the property is silent: not compared
)

func (s status) String() string { return [...]string{"ok", "noconv", "undetermined"}[s] }

func isIntKind(k reflect.Kind) bool {
	switch k {
	case reflect.Int, reflect.Int8, reflect.Int16, reflect.Int32, reflect.Int64:
		return true
	}
	return false
}
func isUintKind(k reflect.Kind) bool {
	switch k {
	case reflect.Uint, reflect.Uint8, reflect.Uint16, reflect.Uint32, reflect.Uint64, reflect.Uintptr:
		return true
	}
	return false
}
func isFloatKind(k reflect.Kind) bool { return k == reflect.Float32 || k == reflect.Float64 }
func isNumKind(k reflect.Kind) bool   { return isIntKind(k) || isUintKind(k) || isFloatKind(k) }
func isListKind(k reflect.Kind) bool  { return k == reflect.Slice || k == reflect.Array }

// goConvertible: does the Go specification allow the conversion T(x) for a
// non-constant x of type from?  (Restricted to the unnamed types that occur
// here: no named non-struct types, no channels, no complex numbers.)
func goConvertible(from, to reflect.Type) bool {
	if from == to {
		return true
	}
	fk, tk := from.Kind(), to.Kind()
	if to.Kind() == reflect.Interface {
		return from.Implements(to) // assignable to an interface type
	}
	if isNumKind(fk) && isNumKind(tk) {
		return true
	}
	if (isIntKind(fk) || isUintKind(fk)) && tk == reflect.String {
		return true // integer -> string yields the UTF-8 of the code point
	}
	if fk == reflect.String && tk == reflect.Slice && (to.Elem() == tUint8 || to.Elem() == tInt32) {
		return true
	}
	if tk == reflect.String && fk == reflect.Slice && (from.Elem() == tUint8 || from.Elem() == tInt32) {
		return true
	}
	return false
}

// goConvert performs T(x) with Go's own conversion operators.
func goConvert(v reflect.Value, to reflect.Type) reflect.Value {
	if v.Type() == to {
		return v
	}
	if to.Kind() == reflect.Interface {
		x := reflect.New(to).Elem()
		x.Set(v)
		return x
	}
	fk, tk := v.Kind(), to.Kind()
	if isNumKind(fk) && isNumKind(tk) {
		var out interface{}
		switch {
		case isIntKind(fk):
			x := v.Int()
			switch tk {
			case reflect.Int:
				out = int(x)
			case reflect.Int8:
				out = int8(x)
			case reflect.Int16:
				out = int16(x)
			case reflect.Int32:
				out = int32(x)
			case reflect.Int64:
				out = int64(x)
			case reflect.Uint:
				out = uint(x)
			case reflect.Uint8:
				out = uint8(x)
			case reflect.Uint16:
				out = uint16(x)
			case reflect.Uint32:
				out = uint32(x)
			case reflect.Uint64:
				out = uint64(x)
			case reflect.Float32:
				out = float32(x)
			case reflect.Float64:
				out = float64(x)
			}
		case isUintKind(fk):
			x := v.Uint()
			switch tk {
			case reflect.Int:
				out = int(x)
			case reflect.Int8:
				out = int8(x)
			case reflect.Int16:
				out = int16(x)
			case reflect.Int32:
				out = int32(x)
			case reflect.Int64:
				out = int64(x)
			case reflect.Uint:
				out = uint(x)
			case reflect.Uint8:
				out = uint8(x)
			case reflect.Uint16:
				out = uint16(x)
			case reflect.Uint32:
				out = uint32(x)
			case reflect.Uint64:
				out = uint64(x)
			case reflect.Float32:
				out = float32(x)
			case reflect.Float64:
				out = float64(x)
			}
		default:
			x := v.Float()
			if fk == reflect.Float32 {
				x = float64(float32(x))
			}
			switch tk {
			case reflect.Int:
				out = int(x)
			case reflect.Int8:
				out = int8(x)
			case reflect.Int16:
				out = int16(x)
			case reflect.Int32:
				out = int32(x)
			case reflect.Int64:
				out = int64(x)
			case reflect.Uint:
				out = uint(x)
			case reflect.Uint8:
				out = uint8(x)
			case reflect.Uint16:
				out = uint16(x)
			case reflect.Uint32:
				out = uint32(x)
			case reflect.Uint64:
				out = uint64(x)
			case reflect.Float32:
				out = float32(x)
			case reflect.Float64:
				out = float64(x)
			}
		}
		return reflect.ValueOf(out)
	}
	if tk == reflect.String {
		switch {
		case isIntKind(fk):
			x := v.Int()
			if int64(rune(x)) != x {
				return reflect.ValueOf("\uFFFD")
			}
			return reflect.ValueOf(string(rune(x)))
		case isUintKind(fk):
			x := v.Uint()
			if uint64(rune(x)) != x || rune(x) < 0 {
				return reflect.ValueOf("\uFFFD")
			}
			return reflect.ValueOf(string(rune(x)))
		case fk == reflect.Slice && v.Type().Elem() == tUint8:
			return reflect.ValueOf(string(v.Bytes()))
		case fk == reflect.Slice && v.Type().Elem() == tInt32:
			return reflect.ValueOf(string(v.Interface().([]rune)))
		}
	}
	if fk == reflect.String && tk == reflect.Slice {
		if to.Elem() == tUint8 {
			return reflect.ValueOf([]byte(v.String()))
		}
		return reflect.ValueOf([]rune(v.String()))
	}
	panic(fmt.Sprintf("goConvert: %v -> %v is not a Go conversion", v.Type(), to))
}

// floatToIntDefined: Go leaves float -> integer conversions of values that do
// not fit the target implementation-defined; those are not compared.
func floatToIntDefined(x float64, to reflect.Type) bool {
	x = math.Trunc(x)
	switch to.Kind() {
	case reflect.Int8:
		return x >= math.MinInt8 && x <= math.MaxInt8
	case reflect.Int16:
		return x >= math.MinInt16 && x <= math.MaxInt16
	case reflect.Int32:
		return x >= math.MinInt32 && x <= math.MaxInt32
	case reflect.Int, reflect.Int64:
		return x >= -(1<<63) && x < (1<<63)
	case reflect.Uint8:
		return x >= 0 && x <= math.MaxUint8
	case reflect.Uint16:
		return x >= 0 && x <= math.MaxUint16
	case reflect.Uint32:
		return x >= 0 && x <= math.MaxUint32
	case reflect.Uint, reflect.Uint64:
		return x >= 0 && x < (1<<64)
	}
	return true
}

func isScriptFuncType(t reflect.Type) bool {
	if t.Kind() != reflect.Func || t.NumIn() < 1 || t.NumOut() != 2 {
		return false
	}
	return t.In(0) == reflect.TypeOf((*context.Context)(nil)).Elem() &&
		t.Out(0) == reflect.TypeOf(reflect.Value{}) && t.Out(1) == reflect.TypeOf(reflect.Value{})
}

func unwrap(v reflect.Value) reflect.Value {
	for v.IsValid() && v.Kind() == reflect.Interface {
		if v.IsNil() {
			return reflect.Value{}
		}
		v = v.Elem()
	}
	return v
}

// box returns v as a value of static type t (t an interface type or v's own type).
func box(v reflect.Value, t reflect.Type) reflect.Value {
	if v.Type() == t {
		return v
	}
	x := reflect.New(t).Elem()
	x.Set(v)
	return x
}

var markers sync.Map // reflect.Type -> reflect.Value

// markerFunc stands for "the script function, converted to func type T".
func markerFunc(T reflect.Type) reflect.Value {
	if m, ok := markers.Load(T); ok {
		return m.(reflect.Value)
	}
	m := reflect.MakeFunc(T, func([]reflect.Value) []reflect.Value { panic("c11: marker function called") })
	markers.Store(T, m)
	return m
}

// refConvert: the value a parameter (or declared result) of type T must
// receive when the script supplies v.  For a script function converted to a
// Go func type the returned value is markerFunc(T).
func refConvert(v reflect.Value, T reflect.Type) (reflect.Value, status) {
	v = unwrap(v)
	if !v.IsValid() {
		return reflect.Zero(T), stOK // nil -> T's zero value
	}
	if T == tIface {
		return box(v, T), stOK // identity
	}
	if v.Type() == T {
		return v, stOK // identity
	}
	vk, tk := v.Kind(), T.Kind()
	if (vk == reflect.Ptr) != (tk == reflect.Ptr) {
		return reflect.Value{}, stUndet // pointer / non-pointer: the property is silent
	}
	if vk == reflect.String && (T == tUint8 || T == tInt32) {
		return reflect.Value{}, stUndet // anko's documented single-character extension
	}
	if goConvertible(v.Type(), T) {
		if isFloatKind(vk) && (isIntKind(tk) || isUintKind(tk)) && !floatToIntDefined(v.Float(), T) {
			return reflect.Value{}, stUndet
		}
		return goConvert(v, T), stOK
	}
	switch {
	case isListKind(vk) && tk == reflect.Slice:
		out := reflect.MakeSlice(T, v.Len(), v.Len())
		st := stOK
		for i := 0; i < v.Len(); i++ {
			e, s := refConvert(v.Index(i), T.Elem())
			switch s {
			case stNoConv:
				return reflect.Value{}, stNoConv
			case stUndet:
				st = stUndet
			default:
				out.Index(i).Set(e)
			}
		}
		if st != stOK {
			return reflect.Value{}, st
		}
		return out, stOK
	case isListKind(vk) && tk == reflect.Array:
		return reflect.Value{}, stUndet
	case vk == reflect.Map && tk == reflect.Map:
		out := reflect.MakeMap(T)
		st := stOK
		for _, k := range sortedMapKeys(v) {
			nk, s1 := refConvert(k, T.Key())
			nv, s2 := refConvert(v.MapIndex(k), T.Elem())
			if s1 == stNoConv || s2 == stNoConv {
				return reflect.Value{}, stNoConv
			}
			if s1 == stUndet || s2 == stUndet {
				st = stUndet
				continue
			}
			if out.MapIndex(nk).IsValid() {
				st = stUndet // two keys collapse into one: which value wins is not stated
				continue
			}
			out.SetMapIndex(nk, nv)
		}
		if st != stOK {
			return reflect.Value{}, st
		}
		return out, stOK
	case vk == reflect.Func && tk == reflect.Func:
		if isScriptFuncType(v.Type()) {
			return markerFunc(T), stOK
		}
		return reflect.Value{}, stUndet
	case vk == reflect.Ptr && tk == reflect.Ptr:
		return reflect.Value{}, stUndet
	}
	return reflect.Value{}, stNoConv
}

// sortedMapKeys: deterministic key order (by description).
func sortedMapKeys(m reflect.Value) []reflect.Value {
	keys := m.MapKeys()
	sort.Slice(keys, func(i, j int) bool { return describe(keys[i]) < describe(keys[j]) })
	return keys
}

// ---------- comparing an observed value with the expected one ----------

// sameValue: got is "exactly that value with that type".  strict additionally
// distinguishes nil from empty slices / maps (used for identity round trips).
func sameValue(got, exp reflect.Value, strict bool) bool {
	if !got.IsValid() || !exp.IsValid() {
		return got.IsValid() == exp.IsValid()
	}
	if got.Type() != exp.Type() {
		return false
	}
	switch got.Kind() {
	case reflect.Func:
		// funcs can only be compared by nil-ness and code pointer.  (All
		// functions made by reflect.MakeFunc share one code pointer, so a
		// script function converted to a Go func type - a MakeFunc value -
		// matches markerFunc(T); what it does when called is space D.)
		if exp.IsNil() || got.IsNil() {
			return exp.IsNil() == got.IsNil()
		}
		return got.Pointer() == exp.Pointer()
	case reflect.Interface:
		if got.IsNil() || exp.IsNil() {
			return got.IsNil() == exp.IsNil()
		}
		return sameValue(got.Elem(), exp.Elem(), strict)
	case reflect.Ptr, reflect.UnsafePointer, reflect.Chan:
		return got.Pointer() == exp.Pointer()
	case reflect.Slice:
		if strict && got.IsNil() != exp.IsNil() {
			return false
		}
		fallthrough
	case reflect.Array:
		if got.Len() != exp.Len() {
			return false
		}
		for i := 0; i < got.Len(); i++ {
			if !sameValue(got.Index(i), exp.Index(i), strict) {
				return false
			}
		}
		return true
	case reflect.Map:
		if strict && got.IsNil() != exp.IsNil() {
			return false
		}
		if got.Len() != exp.Len() {
			return false
		}
		for _, k := range exp.MapKeys() {
			g := got.MapIndex(k)
			if !g.IsValid() || !sameValue(g, exp.MapIndex(k), strict) {
				return false
			}
		}
		return true
	case reflect.Struct:
		for i := 0; i < got.NumField(); i++ {
			if got.Type().Field(i).PkgPath != "" {
				continue
			}
			if !sameValue(got.Field(i), exp.Field(i), strict) {
				return false
			}
		}
		return true
	case reflect.Float32, reflect.Float64:
		return math.Float64bits(got.Float()) == math.Float64bits(exp.Float())
	case reflect.Bool:
		return got.Bool() == exp.Bool()
	case reflect.String:
		return got.String() == exp.String()
	}
	if isIntKind(got.Kind()) {
		return got.Int() == exp.Int()
	}
	if isUintKind(got.Kind()) {
		return got.Uint() == exp.Uint()
	}
	return false
}

// sameIface compares two interface{} values: same dynamic type, same value.
func sameIface(got, exp interface{}, strict bool) bool {
	if got == nil || exp == nil {
		return got == nil && exp == nil
	}
	return sameValue(reflect.ValueOf(got), reflect.ValueOf(exp), strict)
}

// ifaceOf is what vm.Execute hands back for a Go result holding v.
func ifaceOf(v reflect.Value) interface{} {
	if !v.IsValid() {
		return nil
	}
	if v.Kind() == reflect.Interface && v.IsNil() {
		return nil
	}
	return v.Interface()
}

// ---------- deterministic descriptions ----------

func describe(v reflect.Value) string {
	var b strings.Builder
	describeTo(&b, v, 0)
	return b.String()
}

func describeIface(x interface{}) string {
	if x == nil {
		return "nil"
	}
	return describe(reflect.ValueOf(x))
}

func describeTo(b *strings.Builder, v reflect.Value, depth int) {
	if !v.IsValid() {
		b.WriteString("nil")
		return
	}
	if depth > 6 {
		b.WriteString("...")
		return
	}
	switch v.Kind() {
	case reflect.Interface:
		if v.IsNil() {
			fmt.Fprintf(b, "%v(nil)", v.Type())
			return
		}
		fmt.Fprintf(b, "%v<", v.Type())
		describeTo(b, v.Elem(), depth+1)
		b.WriteString(">")
	case reflect.Ptr:
		if v.IsNil() {
			fmt.Fprintf(b, "%v(nil)", v.Type())
			return
		}
		fmt.Fprintf(b, "&")
		describeTo(b, v.Elem(), depth+1)
	case reflect.Func:
		if v.IsNil() {
			fmt.Fprintf(b, "%v(nil)", v.Type())
			return
		}
		if isScriptFuncType(v.Type()) {
			b.WriteString("scriptfunc")
			return
		}
		fmt.Fprintf(b, "%v{...}", v.Type())
	case reflect.Slice, reflect.Array:
		if v.Kind() == reflect.Slice && v.IsNil() {
			fmt.Fprintf(b, "%v(nil)", v.Type())
			return
		}
		fmt.Fprintf(b, "%v{", v.Type())
		for i := 0; i < v.Len(); i++ {
			if i > 0 {
				b.WriteString(", ")
			}
			describeTo(b, v.Index(i), depth+1)
		}
		b.WriteString("}")
	case reflect.Map:
		if v.IsNil() {
			fmt.Fprintf(b, "%v(nil)", v.Type())
			return
		}
		var items []string
		for _, k := range v.MapKeys() {
			var kb strings.Builder
			describeTo(&kb, k, depth+1)
			kb.WriteString(": ")
			describeTo(&kb, v.MapIndex(k), depth+1)
			items = append(items, kb.String())
		}
		sort.Strings(items)
		fmt.Fprintf(b, "%v{%s}", v.Type(), strings.Join(items, ", "))
	case reflect.Struct:
		if v.Type() == reflect.TypeOf(reflect.Value{}) {
			b.WriteString("reflect.Value{...}")
			return
		}
		fmt.Fprintf(b, "%v{", v.Type())
		n := 0
		for i := 0; i < v.NumField(); i++ {
			if v.Type().Field(i).PkgPath != "" {
				continue
			}
			if n > 0 {
				b.WriteString(", ")
			}
			n++
			fmt.Fprintf(b, "%s:", v.Type().Field(i).Name)
			describeTo(b, v.Field(i), depth+1)
		}
		b.WriteString("}")
	case reflect.String:
		fmt.Fprintf(b, "%v(%q)", v.Type(), v.String())
	case reflect.Float32, reflect.Float64:
		fmt.Fprintf(b, "%v(%v)", v.Type(), v.Float())
	case reflect.Bool:
		fmt.Fprintf(b, "%v(%v)", v.Type(), v.Bool())
	default:
		if isIntKind(v.Kind()) {
			fmt.Fprintf(b, "%v(%d)", v.Type(), v.Int())
		} else if isUintKind(v.Kind()) {
			fmt.Fprintf(b, "%v(%d)", v.Type(), v.Uint())
		} else {
			fmt.Fprintf(b, "%v(?)", v.Type())
		}
	}
}

// ---------- self check of the reference core against reflect ----------

// selfCheck verifies, over (every pool value type + every pool type) x (every
// pool type and slice-of-pool type), that goConvertible agrees with
// reflect.Type.ConvertibleTo, and that goConvert agrees with
// reflect.Value.Convert on sample values.  A disagreement is a bug of this
// checker (reported as machinery error), never a verdict.
func selfCheck() error {
	var from []reflect.Value
	for _, sv := range scriptVals {
		if sv.Want != nil {
			from = append(from, reflect.ValueOf(sv.Want))
		}
	}
	for _, g := range goVals {
		if g.V != nil {
			from = append(from, reflect.ValueOf(g.V))
		}
	}
	from = append(from, reflect.ValueOf(float64(-1.5)), reflect.ValueOf(uint64(1)<<63), reflect.ValueOf(int64(0x1F600)),
		reflect.ValueOf(int64(0xD800)), reflect.ValueOf(uint64(65)), reflect.ValueOf(float32(3.75)))
	var to []reflect.Type
	for _, p := range pool {
		to = append(to, p.T, reflect.SliceOf(p.T))
	}
	to = append(to, reflect.TypeOf([]int32(nil)), reflect.TypeOf(uint16(0)), reflect.TypeOf(uint32(0)))
	for _, v := range from {
		for _, t := range to {
			mine := goConvertible(v.Type(), t)
			theirs := v.Type().ConvertibleTo(t)
			if mine != theirs {
				return fmt.Errorf("goConvertible(%v, %v) = %v but reflect says %v", v.Type(), t, mine, theirs)
			}
			if !mine {
				continue
			}
			if isFloatKind(v.Kind()) && (isIntKind(t.Kind()) || isUintKind(t.Kind())) && !floatToIntDefined(v.Float(), t) {
				continue
			}
			a, b := goConvert(v, t), v.Convert(t)
			if !sameValue(a, b, true) {
				return fmt.Errorf("goConvert(%s, %v) = %s but reflect yields %s", describe(v), t, describe(a), describe(b))
			}
		}
	}
	return nil
}
