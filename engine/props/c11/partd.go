package c11

import (
	"fmt"
	"reflect"
	"strings"

	"github.com/mattn/anko/env"
)

// ---------- space D: script functions as callbacks of Go func types ----------

type dSpec struct {
	F    string `json:"f"`    // func type (name in dFuncs)
	Body string `json:"body"` // callback body (name in dBodies)
	Args int    `json:"args"` // index into the argument sets Go passes for F
	Form string `json:"form"` // var | literal | try
}

type dFunc struct {
	Name   string
	T      reflect.Type
	Params string // parameter list of the script callback
	Rec    string // statements recording what the callback received
	// VParams/VRec: the same for a variadic script callback `func(p...)`
	ArgSets [][]interface{}
}

var (
	tF2 = reflect.TypeOf((func(int64, string) (int64, string))(nil))
	tF0 = reflect.TypeOf((func())(nil))
	tFB = reflect.TypeOf((func(x interface{}) bool)(nil))
	tFU = reflect.TypeOf((func(int64) uint64)(nil))
	tFW = reflect.TypeOf((func(int64) (uint, []uint64))(nil))
)

var dFuncs = func() []dFunc {
	fb := dFunc{Name: "func(interface{}) bool", T: tFB, Params: "x", Rec: "rec(x)"}
	for _, g := range goVals {
		fb.ArgSets = append(fb.ArgSets, []interface{}{g.V})
	}
	return []dFunc{
		{Name: "func(int64) int64", T: tFn1, Params: "x", Rec: "rec(x)",
			ArgSets: [][]interface{}{{int64(0)}, {int64(5)}, {int64(-3)}, {bigInt}}},
		{Name: "func(...interface{}) (int64, error)", T: tFnV, Params: "xs", Rec: "rec(xs)",
			ArgSets: [][]interface{}{{}, {int64(1)}, {int64(1), "a"}, {nil, 2.5, []int64{1}}}},
		{Name: "func(int64, string) (int64, string)", T: tF2, Params: "a, b", Rec: "rec(a)\nrec(b)",
			ArgSets: [][]interface{}{{int64(5), "s"}, {int64(0), ""}}},
		{Name: nFU, T: tFU, Params: "x", Rec: "rec(x)", ArgSets: [][]interface{}{{int64(5)}}},
		{Name: nFW, T: tFW, Params: "x", Rec: "rec(x)", ArgSets: [][]interface{}{{int64(5)}}},
		{Name: "func()", T: tF0, Params: "", Rec: "rec(\"called\")", ArgSets: [][]interface{}{{}}},
		fb,
	}
}()

func dFuncByName(n string) (dFunc, bool) {
	for _, f := range dFuncs {
		if f.Name == n {
			return f, true
		}
	}
	return dFunc{}, false
}

// what a body hands back
type dReturn struct {
	// Fail: the body throws / hits a runtime error
	Fail bool
	// Scalar: a single value; otherwise List (the script returns a list, or several values)
	Scalar bool
	Vals   []interface{}
	// NilOK: the body returns nil (or nothing) where a value is declared:
	// T's zero value or an error are both accepted
	NilOK bool
	// Args: the callback returns (a function of) its arguments
	Echo bool
}

type dBody struct {
	Name string
	// Variadic script callback `func(p...)`
	VariadicScript bool
	// per func type: the statements after the recording, and what they return
	Src map[string]string
	Ret map[string]dReturn
}

const (
	nF1 = "func(int64) int64"
	nFV = "func(...interface{}) (int64, error)"
	nF2 = "func(int64, string) (int64, string)"
	nF0 = "func()"
	nFB = "func(interface{}) bool"
	nFU = "func(int64) uint64"
	nFW = "func(int64) (uint, []uint64)"
)

var dBodies = []dBody{
	{Name: "echo",
		Src: map[string]string{nF1: `return x`, nFV: `return [len(xs), nil]`, nF2: `return [a, b]`, nF0: ``, nFB: `return true`, nFU: `return 5`},
		Ret: map[string]dReturn{nF1: {Echo: true}, nFV: {Echo: true}, nF2: {Echo: true}, nF0: {Echo: true}, nFB: {Scalar: true, Vals: []interface{}{true}}, nFU: {Scalar: true, Vals: []interface{}{int64(5)}}}},
	{Name: "echo-multi-return",
		Src: map[string]string{nF2: `return a, b`, nFV: `return len(xs), nil`},
		Ret: map[string]dReturn{nF2: {Echo: true}, nFV: {Echo: true}}},
	{Name: "false",
		Src: map[string]string{nFB: `return false`},
		Ret: map[string]dReturn{nFB: {Scalar: true, Vals: []interface{}{false}}}},
	{Name: "convertible",
		Src: map[string]string{nF1: `return 2.5`, nFV: `return [2.5, nil]`, nF2: `return [2.5, 66]`},
		Ret: map[string]dReturn{nF1: {Scalar: true, Vals: []interface{}{2.5}}, nFV: {Vals: []interface{}{2.5, nil}}, nF2: {Vals: []interface{}{2.5, int64(66)}}}},
	// float results for unsigned result types, at and beyond the int64 range
	{Name: "float-small",
		Src: map[string]string{nFU: `return 2.5`, nFW: `return [2.5, [2.5, 7]]`},
		Ret: map[string]dReturn{nFU: {Scalar: true, Vals: []interface{}{2.5}}, nFW: {Vals: []interface{}{2.5, []interface{}{2.5, int64(7)}}}}},
	{Name: "float-above-int64",
		Src: map[string]string{nFU: `return 10000000000000000000.0`, nFW: `return [9223372036854777856.0, [10000000000000000000.0, 9223372036854777856.0]]`},
		Ret: map[string]dReturn{nFU: {Scalar: true, Vals: []interface{}{float64(1e19)}}, nFW: {Vals: []interface{}{float64(9223372036854777856.0), []interface{}{float64(1e19), float64(9223372036854777856.0)}}}}},
	{Name: "float-negative-or-too-large", // implementation-defined in Go: not compared
		Src: map[string]string{nFU: `return -1.5`, nFW: `return [18446744073709551616.0, [-1.5]]`},
		Ret: map[string]dReturn{nFU: {Scalar: true, Vals: []interface{}{float64(-1.5)}}, nFW: {Vals: []interface{}{float64(18446744073709551616.0), []interface{}{float64(-1.5)}}}}},
	{Name: "unconvertible",
		Src: map[string]string{nF1: `return "s"`, nFV: `return [1, "x"]`, nF2: `return ["t", 1]`, nFB: `return 1`},
		Ret: map[string]dReturn{nF1: {Scalar: true, Vals: []interface{}{"s"}}, nFV: {Vals: []interface{}{int64(1), "x"}}, nF2: {Vals: []interface{}{"t", int64(1)}}, nFB: {Scalar: true, Vals: []interface{}{int64(1)}}}},
	{Name: "unconvertible-second",
		Src: map[string]string{nF2: `return [1, 2.5]`, nFV: `return [1, 2]`},
		Ret: map[string]dReturn{nF2: {Vals: []interface{}{int64(1), 2.5}}, nFV: {Vals: []interface{}{int64(1), int64(2)}}}},
	{Name: "list-for-scalar",
		Src: map[string]string{nF1: `return [1, 2]`, nFB: `return [true]`},
		Ret: map[string]dReturn{nF1: {Scalar: true, Vals: []interface{}{[]interface{}{int64(1), int64(2)}}}, nFB: {Scalar: true, Vals: []interface{}{[]interface{}{true}}}}},
	{Name: "too-few",
		Src: map[string]string{nFV: `return [1]`, nF2: `return [1]`},
		Ret: map[string]dReturn{nFV: {Vals: []interface{}{int64(1)}}, nF2: {Vals: []interface{}{int64(1)}}}},
	{Name: "too-few-scalar",
		Src: map[string]string{nFV: `return 1`, nF2: `return 1`},
		Ret: map[string]dReturn{nFV: {Scalar: true, Vals: []interface{}{int64(1)}}, nF2: {Scalar: true, Vals: []interface{}{int64(1)}}}},
	{Name: "too-few-empty",
		Src: map[string]string{nFV: `return []`, nF2: `return []`},
		Ret: map[string]dReturn{nFV: {Vals: []interface{}{}}, nF2: {Vals: []interface{}{}}}},
	{Name: "nil",
		Src: map[string]string{nF1: `return nil`, nFV: `return [nil, nil]`, nF2: `return [nil, nil]`, nFB: `return nil`},
		Ret: map[string]dReturn{nF1: {NilOK: true, Scalar: true, Vals: []interface{}{nil}}, nFV: {NilOK: true, Vals: []interface{}{nil, nil}}, nF2: {NilOK: true, Vals: []interface{}{nil, nil}}, nFB: {NilOK: true, Scalar: true, Vals: []interface{}{nil}}}},
	{Name: "no-return",
		Src: map[string]string{nF1: ``, nFB: ``},
		Ret: map[string]dReturn{nF1: {NilOK: true, Scalar: true, Vals: []interface{}{nil}}, nFB: {NilOK: true, Scalar: true, Vals: []interface{}{nil}}}},
	{Name: "throw",
		Src: map[string]string{nF1: `throw("boom")`, nFV: `throw("boom")`, nF2: `throw("boom")`, nF0: `throw("boom")`, nFB: `throw("boom")`},
		Ret: map[string]dReturn{nF1: {Fail: true}, nFV: {Fail: true}, nF2: {Fail: true}, nF0: {Fail: true}, nFB: {Fail: true}}},
	{Name: "runtime-error",
		Src: map[string]string{nF1: `return nosuchvariable`, nFV: `return nosuchvariable`, nF2: `return nosuchvariable`, nF0: `nosuchvariable`, nFB: `return nosuchvariable`},
		Ret: map[string]dReturn{nF1: {Fail: true}, nFV: {Fail: true}, nF2: {Fail: true}, nF0: {Fail: true}, nFB: {Fail: true}}},
	{Name: "throw-after-statements",
		Src: map[string]string{nF1: "y = x + 1\nif y > x { throw(\"late\") }\nreturn y", nF0: "y = 1\nthrow(\"late\")"},
		Ret: map[string]dReturn{nF1: {Fail: true}, nF0: {Fail: true}}},
	{Name: "nested-ok",
		Src: map[string]string{nF1: `return h(func(y) { return y })`, nF2: `return h(func(c, d) { return [c, d] })`, nF0: `h(func() { rec("inner") })`},
		Ret: map[string]dReturn{nF1: {Echo: true}, nF2: {Echo: true}, nF0: {Echo: true}}},
	{Name: "nested-throw",
		Src: map[string]string{nF1: `return h(func(y) { throw("deep") })`, nF2: `return h(func(c, d) { throw("deep") })`, nF0: `h(func() { throw("deep") })`},
		Ret: map[string]dReturn{nF1: {Fail: true}, nF2: {Fail: true}, nF0: {Fail: true}}},
	{Name: "nested-caught",
		Src: map[string]string{nF1: "try { h(func(y) { throw(\"deep\") }) } catch e { rec(\"caught-inside\") }\nreturn 3"},
		Ret: map[string]dReturn{nF1: {Scalar: true, Vals: []interface{}{int64(3)}}}},
	// a variadic script function as the callback: it must receive the arguments Go passes
	{Name: "variadic-script", VariadicScript: true,
		Src: map[string]string{nF1: `return 1`, nF2: `return [1, "s"]`, nF0: ``, nFB: `return true`},
		Ret: map[string]dReturn{nF1: {Scalar: true, Vals: []interface{}{int64(1)}}, nF2: {Vals: []interface{}{int64(1), "s"}}, nF0: {Echo: true}, nFB: {Scalar: true, Vals: []interface{}{true}}}},
}

func dBodyByName(n string) (dBody, bool) {
	for _, b := range dBodies {
		if b.Name == n {
			return b, true
		}
	}
	return dBody{}, false
}

var dForms = []string{"var", "literal", "try"}

func (d dSpec) funcLiteral() string {
	f, _ := dFuncByName(d.F)
	b, _ := dBodyByName(d.Body)
	params, rec := f.Params, f.Rec
	if b.VariadicScript {
		params, rec = "p...", "rec(p)"
	}
	body := rec
	if s := b.Src[d.F]; s != "" {
		body += "\n" + s
	}
	return "func(" + params + ") {\n" + body + "\n}"
}

func (d dSpec) script() string {
	switch d.Form {
	case "literal":
		return "h(" + d.funcLiteral() + ")"
	case "try":
		return "cb = " + d.funcLiteral() + "\ncaught = 0\nres = nil\ntry {\nres = h(cb)\n} catch e {\ncaught = 1\n}\n[caught, res]"
	}
	return "cb = " + d.funcLiteral() + "\nh(cb)"
}

func (d dSpec) caseText() string {
	f, _ := dFuncByName(d.F)
	var args []string
	if d.Args < len(f.ArgSets) {
		for _, a := range f.ArgSets[d.Args] {
			args = append(args, describeIface(a))
		}
	}
	return fmt.Sprintf("Go calls cb(%s), cb of type %s :: %s", strings.Join(args, ", "), d.F, strings.Replace(d.script(), "\n", "; ", -1))
}

func evalD(d dSpec) verdict {
	f, ok := dFuncByName(d.F)
	b, ok2 := dBodyByName(d.Body)
	if !ok || !ok2 || d.Args >= len(f.ArgSets) {
		return verdict{class: "D/machinery", detail: "unknown case"}
	}
	ret, ok := b.Ret[d.F]
	if !ok {
		return verdict{class: "D/machinery", detail: "body not defined for this func type"}
	}
	goArgs := f.ArgSets[d.Args]
	nested := strings.HasPrefix(b.Name, "nested")

	// --- per-case state, written by the host function and the probe ---
	var recGot []interface{}
	hostCalls, hostDone := 0, 0
	var hostGot [][]reflect.Value

	e := env.NewEnv()
	e.Define("rec", func(x interface{}) { recGot = append(recGot, x) })
	outs := make([]reflect.Type, f.T.NumOut())
	for i := range outs {
		outs[i] = f.T.Out(i)
	}
	hostT := reflect.FuncOf([]reflect.Type{f.T}, outs, false)
	in := make([]reflect.Value, len(goArgs))
	for i, a := range goArgs {
		var pt reflect.Type
		if f.T.IsVariadic() && i >= f.T.NumIn()-1 {
			pt = f.T.In(f.T.NumIn() - 1).Elem()
		} else {
			pt = f.T.In(i)
		}
		x := reflect.New(pt).Elem()
		if a != nil {
			x.Set(reflect.ValueOf(a))
		}
		in[i] = x
	}
	host := reflect.MakeFunc(hostT, func(hin []reflect.Value) []reflect.Value {
		hostCalls++
		res := hin[0].Call(in) // Go invokes the callback; a failure inside it panics through here
		hostDone++
		hostGot = append(hostGot, res)
		return res
	})
	e.DefineValue("h", host)

	val, err, pan := execScript(e, d.script())

	v := verdict{nontrivial: true}
	var recDesc []string
	for _, r := range recGot {
		recDesc = append(recDesc, describeIface(r))
	}
	v.outcome = fmt.Sprintf("err=%v panic=%v hostCalls=%d hostDone=%d rec=%v", err != nil, pan != "", hostCalls, hostDone, recDesc)
	for _, hg := range hostGot {
		v.outcome += " got=" + describeArgs(hg)
	}
	if err == nil && pan == "" {
		v.outcome += " result=" + describeIface(val)
	}
	group := "callback"
	if b.VariadicScript {
		group = "variadic-script-callback"
	}
	fail := func(kind, detail string) verdict {
		v.class = "D/" + group + "/" + kind
		v.detail = detail
		return v
	}
	if pan != "" {
		return fail("panic", "panic escaped vm.Execute (Debug:false): "+pan)
	}

	// --- what the script function must have received ---
	var wantRec []interface{}
	switch {
	case b.VariadicScript:
		wantRec = []interface{}{append([]interface{}{}, goArgs...)}
	case d.F == nFV:
		wantRec = []interface{}{append([]interface{}{}, goArgs...)}
	case d.F == nF0:
		wantRec = []interface{}{"called"}
	default:
		wantRec = append([]interface{}{}, goArgs...)
	}
	switch b.Name {
	case "nested-ok":
		if d.F == nF0 {
			wantRec = append(wantRec, "inner")
		}
	case "nested-caught":
		wantRec = append(wantRec, "caught-inside")
	}
	checkRec := func() (string, bool) {
		if len(recGot) != len(wantRec) {
			return fmt.Sprintf("the callback recorded %d value(s) %v, expected %d", len(recGot), recDesc, len(wantRec)), false
		}
		for i := range wantRec {
			if !sameIface(recGot[i], wantRec[i], false) {
				return fmt.Sprintf("the script function received %s where Go passed %s", describeIface(recGot[i]), describeIface(wantRec[i])), false
			}
		}
		return "", true
	}

	// --- what Go must get back from the callback ---
	nout := f.T.NumOut()
	expSt := stOK
	why := ""
	expOut := make([]reflect.Value, nout)
	switch {
	case ret.Fail:
		expSt, why = stNoConv, "the callback fails"
	case ret.Echo:
		switch d.F {
		case nF1:
			expOut[0] = reflect.ValueOf(goArgs[0])
		case nF2:
			expOut[0], expOut[1] = reflect.ValueOf(goArgs[0]), reflect.ValueOf(goArgs[1])
		case nFV:
			expOut[0], expOut[1] = reflect.ValueOf(int64(len(goArgs))), reflect.Zero(tError)
		}
	case nout == 0:
		// nothing is wanted: whatever the body returns is dropped
	case nout == 1:
		var rv reflect.Value
		if ret.Vals[0] != nil {
			rv = reflect.ValueOf(ret.Vals[0])
		}
		expOut[0], expSt = refConvert(rv, f.T.Out(0))
		why = "conversion of the returned value to " + f.T.Out(0).String()
	default:
		if ret.Scalar || len(ret.Vals) < nout {
			expSt, why = stNoConv, "too few values returned"
			break
		}
		if len(ret.Vals) > nout {
			expSt = stUndet
			break
		}
		for i := 0; i < nout; i++ {
			var rv reflect.Value
			if ret.Vals[i] != nil {
				rv = reflect.ValueOf(ret.Vals[i])
			}
			o, st := refConvert(rv, f.T.Out(i))
			if st == stNoConv {
				expSt, why = stNoConv, fmt.Sprintf("returned value %d has no conversion to %v", i, f.T.Out(i))
				break
			}
			if st == stUndet && expSt == stOK {
				expSt = stUndet
			}
			expOut[i] = o
		}
	}
	if expSt == stUndet {
		return verdict{undet: true, outcome: v.outcome}
	}

	failed := err != nil
	var tryRes interface{}
	if d.Form == "try" {
		if err != nil {
			return fail("error-not-catchable", fmt.Sprintf("the script wraps the call in try/catch but vm.Execute returned %v", err))
		}
		l, ok := val.([]interface{})
		if !ok || len(l) != 2 {
			return fail("machinery", "unexpected try result "+describeIface(val))
		}
		failed = !sameIface(l[0], int64(0), false)
		tryRes = l[1]
	}

	if expSt == stNoConv {
		if !failed {
			return fail("missing-error", fmt.Sprintf("%s, but the enclosing call succeeded with %s (Go received %d result set(s))", why, describeIface(val), hostDone))
		}
		if hostDone != 0 {
			return fail("host-continued", "the enclosing call failed but the Go function had received results from the callback")
		}
		if !ret.Fail || nested {
			return v
		}
		if msg, ok := checkRec(); !ok {
			return fail("arguments", msg)
		}
		return v
	}
	if failed {
		if ret.NilOK {
			return v // nil where a value is declared: an error is accepted
		}
		return fail("unexpected-error", fmt.Sprintf("the callback returns convertible values but the enclosing call failed: %v", err))
	}
	wantCalls, wantDone := 1, 1
	switch b.Name {
	case "nested-ok":
		wantCalls, wantDone = 2, 2
	case "nested-caught":
		wantCalls, wantDone = 2, 1
	}
	if hostCalls != wantCalls || hostDone != wantDone {
		return fail("call-count", fmt.Sprintf("the Go function was entered %d time(s) and got results %d time(s), expected %d and %d", hostCalls, hostDone, wantCalls, wantDone))
	}
	if msg, ok := checkRec(); !ok {
		return fail("arguments", msg)
	}
	last := hostGot[len(hostGot)-1]
	if len(last) != nout {
		return fail("result-count", fmt.Sprintf("Go received %d results", len(last)))
	}
	for i := 0; i < nout; i++ {
		if !sameValue(last[i], box(expOut[i], f.T.Out(i)), false) {
			return fail("converted-result", fmt.Sprintf("Go received result %d = %s, expected %s", i, describe(last[i]), describe(box(expOut[i], f.T.Out(i)))))
		}
	}
	// what comes back to the script from the host (it returns the callback's results)
	var want interface{}
	switch nout {
	case 0:
		want = nil
	case 1:
		want = ifaceOf(box(expOut[0], f.T.Out(0)))
	default:
		l := make([]interface{}, nout)
		for i := range l {
			l[i] = ifaceOf(box(expOut[i], f.T.Out(i)))
		}
		want = l
	}
	got := val
	if d.Form == "try" {
		got = tryRes
	}
	if !sameIface(got, want, false) {
		return fail("host-result", fmt.Sprintf("the enclosing call returned %s, expected %s", describeIface(got), describeIface(want)))
	}
	return v
}
