package c11

import (
	"fmt"
	"reflect"
	"strings"

	"github.com/mattn/anko/env"
)

// ---------- space C: member syntax on a Go struct and a pointer to it ----------

// Log is shared (through a pointer) by a Rec and all of its copies, so that a
// method invoked on a copy still records what it received.
type Log struct{ Calls []string }

func (l *Log) add(name string, args ...interface{}) {
	if l == nil {
		return
	}
	var p []string
	for _, a := range args {
		// an empty variadic tail is nil when Go calls and empty when reflect calls: not a difference
		if v := reflect.ValueOf(a); v.IsValid() && v.Kind() == reflect.Slice && v.Len() == 0 {
			a = reflect.MakeSlice(v.Type(), 0, 0).Interface()
		}
		p = append(p, describeIface(a))
	}
	l.Calls = append(l.Calls, name+"("+strings.Join(p, ", ")+")")
}

type Inner struct {
	X int64
	L *Log
}

func (in Inner) GetX() int64   { in.L.add("Inner.GetX"); return in.X }
func (in *Inner) SetX(x int64) { in.L.add("Inner.SetX", x); in.X = x }

// Base is embedded in Rec: its field and methods are promoted.
type Base struct {
	Tag string
	BL  *Log
}

func (b Base) TagLen() int      { b.BL.add("TagLen"); return len(b.Tag) }
func (b *Base) SetTag(s string) { b.BL.add("SetTag", s); b.Tag = s }

// Rec: exported fields, an unexported one, an embedded struct, value- and
// pointer-receiver methods, fixed and variadic, with 0, 1, 2 and 3 results.
type Rec struct {
	A      int64
	B      string
	F      float64
	L      *Log
	In     Inner
	hidden int
	Base
}

func (r Rec) GetA() int64 { r.L.add("GetA"); return r.A }
func (r Rec) Pair(x int64, s string) (int64, string) {
	r.L.add("Pair", x, s)
	return x + r.A, s + r.B
}
func (r Rec) Sum(xs ...int64) int64 {
	r.L.add("Sum", xs)
	t := r.A
	for _, x := range xs {
		t += x
	}
	return t
}
func (r Rec) Multi(p string, xs ...interface{}) (string, int64, []interface{}) {
	r.L.add("Multi", p, xs)
	return p + r.B, int64(len(xs)), xs
}
func (r *Rec) SetA(x int64) { r.L.add("SetA", x); r.A = x }
func (r *Rec) PAdd(p string, xs ...int64) (string, int64) {
	r.L.add("PAdd", p, xs)
	for _, x := range xs {
		r.A += x
	}
	r.B += p
	return r.B, r.A
}
func (r *Rec) PTriple(a int64, b string, c float64) (int64, string, float64) {
	r.L.add("PTriple", a, b, c)
	r.A, r.B, r.F = a, b, c
	return a, b, c
}

type Outer struct{ R Rec }

type cSpec struct {
	Recv string `json:"recv"` // how the struct is bound
	Op   string `json:"op"`   // name in cOps
	// Site: "" = the call is an expression statement; "defer-func" = the call is
	// deferred inside a script function; "defer-top" = deferred at the top level.
	// A deferred call's results are dropped, its arguments are not: the method must
	// be called with exactly the supplied arguments (spreading included) all the same.
	Site string `json:"site,omitempty"`
}

// deferrable: ops that consist of one method call
func (o cOp) deferrable() bool {
	return !strings.Contains(o.Script, "\n") && strings.HasPrefix(o.Script, "R.") && strings.HasSuffix(o.Script, ")") && !strings.HasPrefix(o.Script, "[")
}

// receivers: expression that denotes the struct in the script
var cRecvs = []struct {
	Name, Expr  string
	Addressable bool // pointer-receiver methods and writes act on the Go value itself
}{
	{"value", "r", false},            // env.Define("r", rec): a copy, not addressable
	{"pointer", "r", true},           // env.Define("r", &rec)
	{"addressable", "r", true},       // env.DefineValue("r", reflect.ValueOf(&rec).Elem())
	{"slice-element", "rs[0]", true}, // element of a Go []Rec
	{"pointer-field", "o.R", true},   // field R of *Outer
	{"made", "r", true},              // r = make(Rec) in the script (with L, B, A set through member syntax)
}

type cOp struct {
	Name   string
	Script string // R stands for the receiver expression
	// Native computes the expected result on the twin (a *Rec that starts equal)
	Native func(t *Rec) interface{}
	// Write: the op assigns a field / calls a pointer-receiver method: only
	// determined when the receiver is addressable (or a pointer)
	Write bool
	// Spread: the op is a spread call of a fixed-arity method
	Spread bool
}

func list(xs ...interface{}) interface{} { return xs }

var cOps = []cOp{
	{Name: "read-A", Script: `R.A`, Native: func(t *Rec) interface{} { return t.A }},
	{Name: "read-B", Script: `R.B`, Native: func(t *Rec) interface{} { return t.B }},
	{Name: "read-F", Script: `R.F`, Native: func(t *Rec) interface{} { return t.F }},
	{Name: "read-In.X", Script: `R.In.X`, Native: func(t *Rec) interface{} { return t.In.X }},
	{Name: "read-twice", Script: `[R.A, R.B]`, Native: func(t *Rec) interface{} { return list(t.A, t.B) }},
	{Name: "write-A", Script: "R.A = 41\nR.A", Write: true, Native: func(t *Rec) interface{} { t.A = 41; return t.A }},
	{Name: "write-B", Script: "R.B = \"zz\"\nR.B", Write: true, Native: func(t *Rec) interface{} { t.B = "zz"; return t.B }},
	{Name: "write-F", Script: "R.F = 0.5\nR.F", Write: true, Native: func(t *Rec) interface{} { t.F = 0.5; return t.F }},
	{Name: "write-In.X", Script: "R.In.X = 6\nR.In.X", Write: true, Native: func(t *Rec) interface{} { t.In.X = 6; return t.In.X }},
	{Name: "write-then-method", Script: "R.A = 30\nR.GetA()", Write: true, Native: func(t *Rec) interface{} { t.A = 30; return t.GetA() }},
	{Name: "read-Tag", Script: `R.Tag`, Native: func(t *Rec) interface{} { return t.Tag }},
	{Name: "read-Base.Tag", Script: `R.Base.Tag`, Native: func(t *Rec) interface{} { return t.Base.Tag }},
	{Name: "write-Tag", Script: "R.Tag = \"w\"\nR.Tag", Write: true, Native: func(t *Rec) interface{} { t.Tag = "w"; return t.Tag }},
	{Name: "TagLen", Script: `R.TagLen()`, Native: func(t *Rec) interface{} { return t.TagLen() }},
	{Name: "SetTag", Script: "R.SetTag(\"nt\")\nR.Tag", Write: true, Native: func(t *Rec) interface{} { t.SetTag("nt"); return t.Tag }},
	{Name: "GetA", Script: `R.GetA()`, Native: func(t *Rec) interface{} { return t.GetA() }},
	{Name: "In.GetX", Script: `R.In.GetX()`, Native: func(t *Rec) interface{} { return t.In.GetX() }},
	{Name: "Pair", Script: `R.Pair(3, "x")`, Native: func(t *Rec) interface{} { a, b := t.Pair(3, "x"); return list(a, b) }},
	{Name: "Pair-spread-1", Script: `R.Pair(3, ["x"]...)`, Native: func(t *Rec) interface{} { a, b := t.Pair(3, "x"); return list(a, b) }},
	{Name: "Pair-spread-2", Script: `R.Pair([3, "x"]...)`, Spread: true, Native: func(t *Rec) interface{} { a, b := t.Pair(3, "x"); return list(a, b) }},
	{Name: "Sum-0", Script: `R.Sum()`, Native: func(t *Rec) interface{} { return t.Sum() }},
	{Name: "Sum-1", Script: `R.Sum(1)`, Native: func(t *Rec) interface{} { return t.Sum(1) }},
	{Name: "Sum-2", Script: `R.Sum(1, 2)`, Native: func(t *Rec) interface{} { return t.Sum(1, 2) }},
	{Name: "Sum-3", Script: `R.Sum(1, 2, 3)`, Native: func(t *Rec) interface{} { return t.Sum(1, 2, 3) }},
	{Name: "Sum-spread", Script: `R.Sum([1, 2]...)`, Native: func(t *Rec) interface{} { return t.Sum([]int64{1, 2}...) }},
	{Name: "Sum-spread-typed", Script: "ts = make([]int64)\nts += 8\nts += 9\nR.Sum(ts...)", Native: func(t *Rec) interface{} { return t.Sum([]int64{8, 9}...) }},
	{Name: "Sum-spread-empty", Script: `R.Sum([]...)`, Native: func(t *Rec) interface{} { return t.Sum([]int64{}...) }},
	{Name: "Multi-0", Script: `R.Multi("p")`, Native: func(t *Rec) interface{} { a, b, c := t.Multi("p"); return list(a, b, c) }},
	{Name: "Multi-2", Script: `R.Multi("p", 1, "a")`, Native: func(t *Rec) interface{} { a, b, c := t.Multi("p", int64(1), "a"); return list(a, b, c) }},
	{Name: "Multi-list", Script: `R.Multi("p", [1, "a"])`, Native: func(t *Rec) interface{} {
		a, b, c := t.Multi("p", []interface{}{int64(1), "a"})
		return list(a, b, c)
	}},
	{Name: "Multi-spread", Script: `R.Multi("p", [1, "a"]...)`, Native: func(t *Rec) interface{} {
		a, b, c := t.Multi("p", []interface{}{int64(1), "a"}...)
		return list(a, b, c)
	}},
	{Name: "SetA", Script: "R.SetA(9)\nR.A", Write: true, Native: func(t *Rec) interface{} { t.SetA(9); return t.A }},
	{Name: "In.SetX", Script: "R.In.SetX(4)\nR.In.X", Write: true, Native: func(t *Rec) interface{} { t.In.SetX(4); return t.In.X }},
	{Name: "PAdd-0", Script: `R.PAdd("p")`, Write: true, Native: func(t *Rec) interface{} { a, b := t.PAdd("p"); return list(a, b) }},
	{Name: "PAdd-2", Script: `R.PAdd("p", 1, 2)`, Write: true, Native: func(t *Rec) interface{} { a, b := t.PAdd("p", 1, 2); return list(a, b) }},
	{Name: "PAdd-spread", Script: `R.PAdd("p", [1, 2]...)`, Write: true, Native: func(t *Rec) interface{} { a, b := t.PAdd("p", []int64{1, 2}...); return list(a, b) }},
	{Name: "PTriple", Script: `R.PTriple(1, "b", 2.5)`, Write: true, Native: func(t *Rec) interface{} { a, b, c := t.PTriple(1, "b", 2.5); return list(a, b, c) }},
	{Name: "PTriple-spread-1", Script: `R.PTriple(1, "b", [2.5]...)`, Write: true, Native: func(t *Rec) interface{} { a, b, c := t.PTriple(1, "b", 2.5); return list(a, b, c) }},
	{Name: "PTriple-spread-3", Script: `R.PTriple([1, "b", 2.5]...)`, Write: true, Spread: true, Native: func(t *Rec) interface{} { a, b, c := t.PTriple(1, "b", 2.5); return list(a, b, c) }},
	{Name: "SetA-then-GetA", Script: "R.SetA(12)\nR.GetA()", Write: true, Native: func(t *Rec) interface{} { t.SetA(12); return t.GetA() }},
}

var cOpByName = func() map[string]cOp {
	m := map[string]cOp{}
	for _, o := range cOps {
		m[o.Name] = o
	}
	return m
}()

func (c cSpec) recvExpr() string {
	for _, r := range cRecvs {
		if r.Name == c.Recv {
			return r.Expr
		}
	}
	return "r"
}

func (c cSpec) script() string {
	call := strings.Replace(cOpByName[c.Op].Script, "R.", c.recvExpr()+".", -1)
	switch c.Site {
	case "defer-func":
		return "func dq() {\n\tdefer " + call + "\n}\ndq()\n0"
	case "defer-top":
		return "defer " + call + "\n0"
	}
	return call
}

func (c cSpec) caseText() string {
	site := ""
	if c.Site != "" {
		site = " (" + c.Site + ")"
	}
	return fmt.Sprintf("Rec bound as %s%s :: %s", c.Recv, site, strings.Replace(c.script(), "\n", "; ", -1))
}

func newRec(l *Log) Rec {
	return Rec{A: 10, B: "b", F: 1.25, L: l, In: Inner{X: 2, L: l}, hidden: 1, Base: Base{Tag: "tag", BL: l}}
}

func recState(r *Rec) string {
	return fmt.Sprintf("A=%d B=%q F=%v In.X=%d Tag=%q", r.A, r.B, r.F, r.In.X, r.Tag)
}

func evalC(c cSpec) verdict {
	op, ok := cOpByName[c.Op]
	if !ok {
		return verdict{class: "C/machinery", detail: "unknown op " + c.Op}
	}
	addressable := false
	found := false
	for _, r := range cRecvs {
		if r.Name == c.Recv {
			addressable, found = r.Addressable, true
		}
	}
	if !found {
		return verdict{class: "C/machinery", detail: "unknown receiver " + c.Recv}
	}
	isCall := strings.Contains(op.Script, "(")
	copyCall := false
	if op.Write && !addressable {
		// a write to / a pointer-receiver method on a bound copy: whether it
		// fails or acts on a copy is not stated.  For a method call one thing
		// is: if it is called at all it is called with exactly the supplied
		// arguments.
		if !isCall || strings.HasPrefix(op.Name, "write") {
			return verdict{undet: true, outcome: "write through a non-addressable copy"}
		}
		copyCall = true
	}

	// the twin: Go's own semantics
	tlog := &Log{}
	twin := newRec(tlog)
	want := op.Native(&twin)

	// the value under test
	log := &Log{}
	rec := newRec(log)
	e := env.NewEnv()
	var target *Rec // where the Go value lives afterwards
	pre := ""
	switch c.Recv {
	case "value":
		e.Define("r", rec)
		target = nil
	case "pointer":
		target = &rec
		e.Define("r", target)
	case "addressable":
		target = &rec
		e.DefineValue("r", reflect.ValueOf(target).Elem())
	case "slice-element":
		rs := []Rec{rec}
		target = &rs[0]
		e.Define("rs", rs)
	case "pointer-field":
		o := &Outer{R: rec}
		target = &o.R
		e.Define("o", o)
	case "made":
		e.DefineType("Rec", reflect.TypeOf(Rec{}))
		e.Define("thelog", log)
		pre = "r = make(Rec)\nr.A = 10\nr.B = \"b\"\nr.F = 1.25\nr.L = thelog\nr.In.X = 2\nr.In.L = thelog\nr.Tag = \"tag\"\nr.BL = thelog\n"
	}
	val, err, pan := execScript(e, pre+c.script())
	if c.Recv == "made" && err == nil && pan == "" {
		if rv, gerr := e.GetValue("r"); gerr == nil && rv.Kind() == reflect.Struct && rv.CanAddr() {
			target = rv.Addr().Interface().(*Rec)
		} else {
			return verdict{undet: true, outcome: "make(Rec) did not yield an addressable struct"}
		}
	}
	v := verdict{nontrivial: true}
	v.outcome = fmt.Sprintf("err=%v panic=%v log=%v", err != nil, pan != "", log.Calls)
	if err == nil && pan == "" {
		v.outcome += " result=" + describeIface(val)
		if target != nil {
			v.outcome += " state=" + recState(target)
		}
	}
	kind := "member"
	if op.Spread {
		kind = "fixed-spread"
	} else if strings.Contains(op.Script, "(") {
		kind = "method"
	} else if op.Write {
		kind = "write"
	}
	fail := func(what, detail string) verdict {
		v.class = "C/" + kind + "/" + what
		v.detail = detail
		return v
	}
	if pan != "" {
		return fail("panic", "panic escaped vm.Execute (Debug:false): "+pan)
	}
	if copyCall {
		if err == nil && strings.Join(log.Calls, " ") != strings.Join(tlog.Calls, " ") {
			return fail("arguments", fmt.Sprintf("pointer-receiver method on a copy: methods were called as %v, Go itself calls %v", log.Calls, tlog.Calls))
		}
		return v
	}
	if err != nil {
		return fail("error", fmt.Sprintf("the script failed: %v (Go itself yields %s)", err, describeIface(want)))
	}
	if c.Site != "" {
		want = int64(0) // the results of a deferred call are dropped; the script's value is the literal after it
	}
	if !sameIface(val, want, false) {
		return fail("result", fmt.Sprintf("the script yields %s, Go itself yields %s", describeIface(val), describeIface(want)))
	}
	if strings.Join(log.Calls, " ") != strings.Join(tlog.Calls, " ") {
		return fail("arguments", fmt.Sprintf("methods were called as %v, Go itself calls %v", log.Calls, tlog.Calls))
	}
	if target != nil && recState(target) != recState(&twin) {
		return fail("state", fmt.Sprintf("the Go value is now {%s}, with Go itself {%s}", recState(target), recState(&twin)))
	}
	return v
}
