package c11

import (
	"fmt"
	"os"
	"sort"
	"sync"
	"sync/atomic"

	"verif/engine/common"
)

// ---------- a case of any of the four spaces ----------

type spec struct {
	Part string `json:"part"`
	A    *aSpec `json:"a,omitempty"`
	B    *bSpec `json:"b,omitempty"`
	C    *cSpec `json:"c,omitempty"`
	D    *dSpec `json:"d,omitempty"`
	E    *eSpec `json:"e,omitempty"`
}

func (s spec) caseText() string {
	switch {
	case s.A != nil:
		return s.A.caseText()
	case s.B != nil:
		return s.B.caseText()
	case s.C != nil:
		return s.C.caseText()
	case s.D != nil:
		return s.D.caseText()
	case s.E != nil:
		return s.E.caseText()
	}
	return "?"
}

// evalSpec evaluates a case from scratch (used by the replay; the search
// itself shares one environment per signature in space A).
func evalSpec(s spec) verdict {
	switch {
	case s.A != nil:
		se, err := newSigEnv(s.A.Sig)
		if err != nil {
			return verdict{class: "A/machinery", detail: err.Error()}
		}
		return se.evalA(s.A.Call)
	case s.B != nil:
		return evalB(*s.B)
	case s.C != nil:
		return evalC(*s.C)
	case s.D != nil:
		return evalD(*s.D)
	case s.E != nil:
		return evalE(*s.E)
	}
	return verdict{class: "machinery", detail: "empty case"}
}

// ---------- collecting violations: the K smallest cases of every class ----------

const keepPerClass = 5

type classAcc struct {
	n   int64
	top []common.Violation
}

type collector struct {
	mu      sync.Mutex
	byClass map[string]*classAcc
}

func caseLess(a, b string) bool {
	if len(a) != len(b) {
		return len(a) < len(b)
	}
	return a < b
}

func (c *collector) add(v common.Violation) {
	c.mu.Lock()
	defer c.mu.Unlock()
	acc := c.byClass[v.Class]
	if acc == nil {
		acc = &classAcc{}
		c.byClass[v.Class] = acc
	}
	acc.n++
	i := sort.Search(len(acc.top), func(i int) bool { return !caseLess(acc.top[i].Case, v.Case) })
	if i < len(acc.top) && acc.top[i].Case == v.Case {
		acc.n--
		return // the same case is never reported twice
	}
	if i >= keepPerClass {
		return
	}
	acc.top = append(acc.top, common.Violation{})
	copy(acc.top[i+1:], acc.top[i:])
	acc.top[i] = v
	if len(acc.top) > keepPerClass {
		acc.top = acc.top[:keepPerClass]
	}
}

func (c *collector) flush(res *common.Result) {
	var classes []string
	for cl := range c.byClass {
		classes = append(classes, cl)
	}
	sort.Strings(classes)
	for _, cl := range classes {
		acc := c.byClass[cl]
		res.Add("failing_cases:"+cl, acc.n)
		for _, v := range acc.top {
			v.Detail = fmt.Sprintf("%s   [%d failing case(s) in this class; the %d smallest are reported]", v.Detail, acc.n, len(acc.top))
			res.Violate(v)
		}
	}
}

// ---------- the run ----------

type workA struct {
	sig   sigSpec
	calls []callSpec
}

func run(c *common.Ctx) *common.Result {
	res := common.NewResult()
	if err := selfCheck(); err != nil {
		fmt.Fprintln(os.Stderr, "machinery error: reference self-check failed:", err)
		os.Exit(2)
	}
	if _, _, err := newValueEnv(); err != nil {
		// the interpreter does not build the script values this checker
		// takes as input: no verdict can be given about the boundary
		fmt.Fprintln(os.Stderr, "machinery error: script values:", err)
		os.Exit(2)
	}
	col := &collector{byClass: map[string]*classAcc{}}
	runA(c, res, col)
	runSmall(c, res, col)
	col.flush(res)
	return res
}

func record(res *common.Result, col *collector, part string, s spec, v verdict) {
	if v.undet {
		res.Add("undetermined_not_compared_"+part, 1)
		return
	}
	res.Add("evaluations", 1)
	res.Add("evaluations_"+part, 1)
	if v.nontrivial {
		res.Add("nontrivial_"+part, 1)
	}
	if v.class != "" {
		col.add(common.Violation{Class: v.class, Case: s.caseText(), Detail: v.detail, Replay: s})
	}
}

func runA(c *common.Ctx, res *common.Result, col *collector) {
	sigs := signatures(c.Thorough())
	// the calls depend only on (number of parameters, variadic)
	tcache := map[string][][]string{}
	callLists := map[string][]callSpec{}
	for _, s := range sigs {
		key := fmt.Sprintf("%d/%v", len(s.P), s.Var)
		if _, ok := callLists[key]; !ok {
			callLists[key] = callsFor(s, c.Thorough(), tcache)
		}
	}
	var items []workA
	for _, s := range sigs {
		for nres := 0; nres <= 3; nres++ {
			s2 := s
			s2.NRes = nres
			items = append(items, workA{sig: s2, calls: callLists[fmt.Sprintf("%d/%v", len(s.P), s.Var)]})
		}
	}
	res.Add("signatures", int64(len(items)))
	for _, a := range c.Args {
		if a == "count" { // maintenance: size of space A without running it
			var n int64
			for _, it := range items {
				n += int64(len(it.calls))
			}
			fmt.Println("space A calls (before removing undetermined ones):", n)
			res.Cap("count only")
			return
		}
	}
	var capped int32
	samples := make([]interface{}, len(items))
	step := len(items)/8 + 1
	common.ParallelFor(c, len(items), func(i int) {
		if atomic.LoadInt32(&capped) != 0 {
			return
		}
		it := items[i]
		se, err := newSigEnv(it.sig)
		if err != nil {
			col.add(common.Violation{Class: "A/machinery", Case: it.sig.String(), Detail: err.Error()})
			return
		}
		seen := map[string]struct{}{}
		var nEval, nUndet, nNon int64
		counts := map[string]int64{}
		for k, call := range it.calls {
			if k%512 == 0 && c.Expired() {
				atomic.StoreInt32(&capped, 1)
				break
			}
			src := call.script()
			if _, dup := seen[src]; dup {
				continue
			}
			seen[src] = struct{}{}
			v := se.evalA(call)
			shape := call.shape(it.sig.Var)
			if v.undet {
				nUndet++
				counts["A_"+shape+"_undetermined"]++
				continue
			}
			nEval++
			if v.nontrivial {
				nNon++
			}
			if se.calls == 1 {
				counts["A_"+shape+"_reached_f"]++
			} else {
				counts["A_"+shape+"_rejected"]++
			}
			if v.class != "" {
				s := spec{Part: "A", A: &aSpec{Sig: it.sig, Call: call}}
				col.add(common.Violation{Class: v.class, Case: s.caseText(), Detail: v.detail, Replay: s})
			}
			// samples: fixed work items; odd ones wait for a call that reached f
			if i%step == 0 && samples[i] == nil && k >= (i*131)%len(it.calls) && ((i/step)%2 == 0 || se.calls == 1) {
				samples[i] = map[string]interface{}{"space": "A", "case": aSpec{Sig: it.sig, Call: call}.caseText(), "observed": v.outcome}
			}
		}
		res.Add("evaluations", nEval)
		res.Add("evaluations_A", nEval)
		res.Add("nontrivial_A", nNon)
		res.Add("undetermined_not_executed_A", nUndet)
		for k, n := range counts {
			res.Add(k, n)
		}
	})
	if capped != 0 {
		res.Cap("soft deadline reached in space A")
	}
	for _, s := range samples {
		if s != nil {
			res.Sample(s)
		}
	}
}

// runSmall: spaces B, C and D.
func runSmall(c *common.Ctx, res *common.Result, col *collector) {
	var specs []spec
	for _, g := range goVals {
		for _, r := range bRoutes {
			specs = append(specs, spec{Part: "B", B: &bSpec{Val: g.Name, Route: r.Name}})
		}
	}
	for _, r := range cRecvs {
		for _, o := range cOps {
			specs = append(specs, spec{Part: "C", C: &cSpec{Recv: r.Name, Op: o.Name}})
			if o.deferrable() {
				specs = append(specs, spec{Part: "C", C: &cSpec{Recv: r.Name, Op: o.Name, Site: "defer-func"}})
				specs = append(specs, spec{Part: "C", C: &cSpec{Recv: r.Name, Op: o.Name, Site: "defer-top"}})
			}
		}
	}
	for _, f := range dFuncs {
		for _, b := range dBodies {
			if _, ok := b.Ret[f.Name]; !ok {
				continue
			}
			for ai := range f.ArgSets {
				for _, form := range dForms {
					specs = append(specs, spec{Part: "D", D: &dSpec{F: f.Name, Body: b.Name, Args: ai, Form: form}})
				}
			}
		}
	}
	for _, ec := range eCases {
		specs = append(specs, spec{Part: "E", E: &eSpec{Name: ec.name}})
	}
	verdicts := make([]verdict, len(specs))
	common.ParallelFor(c, len(specs), func(i int) {
		verdicts[i] = evalSpec(specs[i])
	})
	seen := map[string]bool{}
	sampled := map[string]int{}
	for i, s := range specs {
		ct := s.caseText()
		if seen[ct] {
			continue
		}
		seen[ct] = true
		record(res, col, s.Part, s, verdicts[i])
		if !verdicts[i].undet && sampled[s.Part] < 1 && i%7 == 3 {
			sampled[s.Part]++
			res.Sample(map[string]interface{}{"space": s.Part, "case": ct, "observed": verdicts[i].outcome})
		}
	}
}

func coverage(c *common.Ctx, r *common.Result) map[string]interface{} {
	non := r.Counts["nontrivial_A"] + r.Counts["nontrivial_B"] + r.Counts["nontrivial_C"] + r.Counts["nontrivial_D"]
	return map[string]interface{}{
		"evaluations":         r.Counts["evaluations"],
		"distinct_nontrivial": non,
		"rule": "a case is one script run by vm.Execute(Debug:false) against a fresh or per-signature environment; it is non-trivial when the reference determines its outcome " +
			"(a value for every parameter, or 'no conversion exists => error') and the script reached the call/member operation under test, so that the recorded arguments, " +
			"the results and the error were compared; duplicates are removed by case text before evaluation (per signature in space A), so the count is of distinct cases; " +
			"cases the property leaves open are counted separately (undetermined_*) and are not part of either number",
		"signatures_x_result_counts": r.Counts["signatures"],
		"space_A_calls":              r.Counts["evaluations_A"],
		"space_B_round_trips":        r.Counts["evaluations_B"],
		"space_C_member_operations":  r.Counts["evaluations_C"],
		"space_D_callbacks":          r.Counts["evaluations_D"],
		"type_pool":                  poolNames(),
		"script_values":              scriptValNames(),
		"explanation": "space A: manufactured signatures (every 1-parameter signature over the 24-type pool; 2-parameter signatures over the 8-type sub-pool (quick) or the whole pool (thorough); " +
			"3-parameter signatures over the sub-pool (thorough); each fixed and with a variadic tail; 0..3 results echoing the arguments) x script values x {plain, spread} calls; " +
			"space B: Go values x routes; space C: bindings of a Go struct x member operations, reference = the Go method called natively on a twin; space D: func types x callback bodies x Go-supplied arguments x call forms",
	}
}

func replay(c *common.Ctx, path string) int {
	var s spec
	if _, _, err := common.ReadReplay(path, &s); err != nil {
		fmt.Println("cannot read replay:", err)
		return 2
	}
	a := evalSpec(s)
	b := evalSpec(s)
	fmt.Println("case:", s.caseText())
	fmt.Println("observed:", a.outcome)
	if a.outcome != b.outcome || a.class != b.class {
		fmt.Printf("NONDETERMINISTIC replay:\n  %s / %s\n  %s / %s\n", a.class, a.outcome, b.class, b.outcome)
		return 2
	}
	if a.class == "" {
		fmt.Println("replay: the case holds")
		return 0
	}
	fmt.Println("class:", a.class)
	fmt.Println("divergence:", a.detail)
	return 1
}

func init() {
	common.Register(&common.Prop{
		ID: "C11", Level: "exploration", Run: run, Coverage: coverage, Replay: replay, Race: raceBody,
		Assumptions: []string{
			"type pool: int int8 int16 int32 int64 uint uint8 uint64 float32 float64 string bool interface{} error *int64 struct S []int64 []string []interface{} [][]int64 map[string]int64 map[string]interface{} func(int64) int64 func(...interface{}) (int64, error)",
			"script values: nil, true, 7, 2^40+5, -3, 3.0, 2.5, \"\", \"a\", \"ab\", \"12\", lists (ints, mixed, mixed convertible with nil, empty, nested), untyped maps, make'd []int64 []float64 []string map[string]int64 map[string]interface, a script function, new(int64), make(S)",
			"argument tuples longer than one use the full product only for pairs in the thorough tier; otherwise every tuple with at most one position outside an 8-value sub-pool (longer tuples: the sub-pool only)",
			"reference conversion: identity; Go's conversion T(x) where the Go specification has one (reflect.Value.Convert; integer -> string is the code point); element-wise for slices and maps; zero value for nil; otherwise an error is required",
			"not compared (the property is silent): string -> byte/rune, pointer <-> non-pointer, arrays, Go (non-script) funcs to other func types, float -> integer out of range, spreading a non-list or a too long list into fixed parameters, a spread operand that is not in the position of the variadic parameter, more results from a callback than declared, nil from a callback where a value is declared (zero value or error accepted), writes and pointer-receiver methods through a non-addressable copy of a struct",
			"nil and empty slices/maps are not distinguished after a conversion; they are for identity round trips",
			"error messages are never compared",
			"at most 5 failing cases (the smallest) are reported per class; the total per class is in counters failing_cases:<class>",
		},
	})
}
