// Package c11: values and calls cross the Go boundary faithfully.
//
// Bounded exhaustive exploration.  Four spaces are enumerated completely:
//
//	A  manufactured Go signatures (reflect.FuncOf/MakeFunc over a type pool)
//	   x script argument values x the four call shapes
//	B  Go values of every pool type x every route through the interpreter
//	   (read back, slice, map, struct field, identity function)
//	C  a Go struct bound in six ways x member reads, writes and method calls
//	D  script functions handed to Go as callbacks of five func types x
//	   callback bodies x arguments supplied by Go
//
// The oracle is an independent reference conversion (ref.go) written from the
// property text and Go's conversion rules; for C the reference is the Go
// method itself, called natively on a twin value.
package c11

import (
	"errors"
	"reflect"
)

// S is the struct of the type pool.
type S struct {
	A int64
	B string
}

type namedType struct {
	Name string
	T    reflect.Type
}

var (
	tInt     = reflect.TypeOf(int(0))
	tInt8    = reflect.TypeOf(int8(0))
	tInt16   = reflect.TypeOf(int16(0))
	tInt32   = reflect.TypeOf(int32(0))
	tInt64   = reflect.TypeOf(int64(0))
	tUint    = reflect.TypeOf(uint(0))
	tUint8   = reflect.TypeOf(uint8(0))
	tUint64  = reflect.TypeOf(uint64(0))
	tFloat32 = reflect.TypeOf(float32(0))
	tFloat64 = reflect.TypeOf(float64(0))
	tString  = reflect.TypeOf("")
	tBool    = reflect.TypeOf(true)
	tIface   = reflect.TypeOf((*interface{})(nil)).Elem()
	tError   = reflect.TypeOf((*error)(nil)).Elem()
	tPInt64  = reflect.TypeOf((*int64)(nil))
	tS       = reflect.TypeOf(S{})
	tSlI64   = reflect.TypeOf([]int64(nil))
	tSlF64   = reflect.TypeOf([]float64(nil))
	tSlStr   = reflect.TypeOf([]string(nil))
	tSlIface = reflect.TypeOf([]interface{}(nil))
	tSlSlI64 = reflect.TypeOf([][]int64(nil))
	tMapSI   = reflect.TypeOf(map[string]int64(nil))
	tMapSA   = reflect.TypeOf(map[string]interface{}(nil))
	tMapAA   = reflect.TypeOf(map[interface{}]interface{}(nil))
	tFn1     = reflect.TypeOf((func(int64) int64)(nil))
	tFnV     = reflect.TypeOf((func(...interface{}) (int64, error))(nil))
)

// pool is the parameter/result type pool of space A (24 types).
var pool = []namedType{
	{"int", tInt}, {"int8", tInt8}, {"int16", tInt16}, {"int32", tInt32}, {"int64", tInt64},
	{"uint", tUint}, {"uint8", tUint8}, {"uint64", tUint64},
	{"float32", tFloat32}, {"float64", tFloat64},
	{"string", tString}, {"bool", tBool}, {"interface{}", tIface}, {"error", tError},
	{"*int64", tPInt64}, {"S", tS},
	{"[]int64", tSlI64}, {"[]string", tSlStr}, {"[]interface{}", tSlIface}, {"[][]int64", tSlSlI64},
	{"map[string]int64", tMapSI}, {"map[string]interface{}", tMapSA},
	{"func(int64) int64", tFn1}, {"func(...interface{}) (int64, error)", tFnV},
}

// subPool: the 8 types used for the 2-parameter signatures of the quick tier
// (and the 3-parameter ones of the thorough tier).
var subPool = []string{"int64", "uint8", "float64", "string", "interface{}", "[]int64", "map[string]interface{}", "func(int64) int64"}

var poolByName = func() map[string]reflect.Type {
	m := map[string]reflect.Type{}
	for _, p := range pool {
		m[p.Name] = p.T
	}
	return m
}()

func poolNames() []string {
	var out []string
	for _, p := range pool {
		out = append(out, p.Name)
	}
	return out
}

// ---------- script argument values ----------

// scriptVal is one script value: how the script makes it, and what it must be
// on the Go side (checked once per environment before it is used as oracle input).
type scriptVal struct {
	Name string // variable name in the environment
	Src  string // script statements that bind it
	Want interface{}
	// Identity: the value has reference identity (pointer, func) - Want is not compared deeply
	Identity bool
	// Go: the value is bound from Go with env.Define (a Go value a script holds
	// in a variable and passes on: float32 cannot be made by a script)
	Go bool
}

const bigInt = int64(1)<<40 + 5

// the script values (one per script kind; see notes/C11.md)
var scriptVals = []scriptVal{
	{Name: "v_nil", Src: `v_nil = nil`, Want: nil},
	{Name: "v_true", Src: `v_true = true`, Want: true},
	{Name: "v_i", Src: `v_i = 7`, Want: int64(7)},
	{Name: "v_big", Src: `v_big = 1099511627781`, Want: bigInt},
	{Name: "v_neg", Src: `v_neg = -3`, Want: int64(-3)},
	{Name: "v_f", Src: `v_f = 3.0`, Want: float64(3)},
	{Name: "v_fr", Src: `v_fr = 2.5`, Want: float64(2.5)},
	// floats at and beyond the edges of the integer types: 1e19 and 2^63+2^11 fit
	// uint64 but not int64, 2^64 fits no integer type, 3e9 fits no 32-bit signed
	// one, 2.5e5 no 16-bit one, -1.5 no unsigned one
	{Name: "v_f1e19", Src: `v_f1e19 = 10000000000000000000.0`, Want: float64(1e19)},
	{Name: "v_f2p64", Src: `v_f2p64 = 18446744073709551616.0`, Want: float64(18446744073709551616.0)},
	{Name: "v_f2p63", Src: `v_f2p63 = 9223372036854777856.0`, Want: float64(9223372036854777856.0)},
	{Name: "v_fneg", Src: `v_fneg = -1.5`, Want: float64(-1.5)},
	{Name: "v_f3e9", Src: `v_f3e9 = 3000000000.0`, Want: float64(3e9)},
	{Name: "v_f25e4", Src: `v_f25e4 = 250000.0`, Want: float64(2.5e5)},
	{Name: "g_f32", Go: true, Want: float32(2.5)},
	{Name: "g_f32big", Go: true, Want: float32(1e19)},
	{Name: "g_f32p63", Go: true, Want: float32(9223373136366403584.0)}, // 2^63+2^40
	{Name: "v_s0", Src: `v_s0 = ""`, Want: ""},
	{Name: "v_sa", Src: `v_sa = "a"`, Want: "a"},
	{Name: "v_sab", Src: `v_sab = "ab"`, Want: "ab"},
	{Name: "v_s12", Src: `v_s12 = "12"`, Want: "12"},
	{Name: "v_li", Src: `v_li = [1, 2, 3]`, Want: []interface{}{int64(1), int64(2), int64(3)}},
	{Name: "v_lm", Src: `v_lm = [1, "a", 2.5]`, Want: []interface{}{int64(1), "a", float64(2.5)}},
	{Name: "v_lc", Src: `v_lc = [1, 2.5, nil]`, Want: []interface{}{int64(1), float64(2.5), nil}},
	{Name: "v_le", Src: `v_le = []`, Want: []interface{}{}},
	{Name: "v_ln", Src: `v_ln = [[1, 2], [3]]`, Want: []interface{}{[]interface{}{int64(1), int64(2)}, []interface{}{int64(3)}}},
	{Name: "v_m", Src: `v_m = {"a": 1, "b": 2}`, Want: map[interface{}]interface{}{"a": int64(1), "b": int64(2)}},
	{Name: "v_mm", Src: `v_mm = {"a": 1, "b": "x"}`, Want: map[interface{}]interface{}{"a": int64(1), "b": "x"}},
	{Name: "v_mn", Src: `v_mn = {"a": nil, "b": 2}`, Want: map[interface{}]interface{}{"a": nil, "b": int64(2)}},
	{Name: "v_ts", Src: "v_ts = make([]int64)\nv_ts += 4\nv_ts += 5", Want: []int64{4, 5}},
	{Name: "v_tf", Src: "v_tf = make([]float64)\nv_tf += 1.5\nv_tf += 2.0", Want: []float64{1.5, 2}},
	{Name: "v_tss", Src: "v_tss = make([]string)\nv_tss += \"x\"\nv_tss += \"y\"", Want: []string{"x", "y"}},
	{Name: "v_tm", Src: "v_tm = make(map[string]int64)\nv_tm[\"k\"] = 9", Want: map[string]int64{"k": 9}},
	{Name: "v_tmi", Src: "v_tmi = make(map[string]interface)\nv_tmi[\"k\"] = 9\nv_tmi[\"j\"] = \"s\"", Want: map[string]interface{}{"k": int64(9), "j": "s"}},
	{Name: "v_fn", Src: `v_fn = func(x) { return x }`, Identity: true},
	{Name: "v_p", Src: "v_p = new(int64)\n*v_p = 11", Identity: true},
	{Name: "v_st", Src: "v_st = make(S)\nv_st.A = 5\nv_st.B = \"bb\"", Want: S{5, "bb"}},
}

// subVals: the 8 values used where the full product would be too large.
var subVals = []string{"v_nil", "v_i", "v_fr", "v_sa", "v_li", "v_lm", "v_ts", "v_m"}

func scriptValNames() []string {
	var out []string
	for _, v := range scriptVals {
		out = append(out, v.Name)
	}
	return out
}

func prelude() string {
	s := ""
	for _, v := range scriptVals {
		if !v.Go {
			s += v.Src + "\n"
		}
	}
	return s
}

// ---------- Go values of every pool type (spaces B and D) ----------

type myErr struct{ Code int }

func (e *myErr) Error() string { return "myErr" }

type goVal struct {
	Name string
	V    interface{} // nil = untyped nil
}

var (
	goI64cell = int64(11)
	goFn1     = func(x int64) int64 { return x + 1 }
	goFnV     = func(xs ...interface{}) (int64, error) { return int64(len(xs)), nil }
	goErr     = errors.New("plain error")
)

var goVals = []goVal{
	{"int", int(-5)}, {"int8", int8(-8)}, {"int16", int16(300)}, {"int32", int32(1 << 20)}, {"int64", int64(1) << 40},
	{"uint", uint(7)}, {"uint8", uint8(200)}, {"uint64", uint64(1) << 63},
	{"float32", float32(1.5)}, {"float64", float64(2.25)},
	{"string", "go"}, {"string-empty", ""}, {"bool", true}, {"bool-false", false},
	{"nil", nil},
	{"error", goErr}, {"error-ptr", &myErr{3}},
	{"*int64", &goI64cell}, {"*int64-nil", (*int64)(nil)},
	{"S", S{3, "s"}}, {"*S", &S{4, "ps"}},
	{"[]int64", []int64{1, 2}}, {"[]int64-nil", []int64(nil)}, {"[]int64-empty", []int64{}},
	{"[]string", []string{"a"}},
	{"[]interface{}", []interface{}{int64(1), "a", nil, int32(2)}},
	{"[][]int64", [][]int64{{1}, {2, 3}}},
	{"map[string]int64", map[string]int64{"a": 1}}, {"map[string]int64-nil", map[string]int64(nil)},
	{"map[string]interface{}", map[string]interface{}{"a": int64(1), "b": "s", "c": nil}},
	{"func(int64) int64", goFn1}, {"func-nil", (func(int64) int64)(nil)},
	{"func(...interface{}) (int64, error)", goFnV},
}

func goValByName(n string) (goVal, bool) {
	for _, g := range goVals {
		if g.Name == n {
			return g, true
		}
	}
	return goVal{}, false
}
