package c11

import (
	"sync"

	"github.com/mattn/anko/env"
	"github.com/mattn/anko/vm"
	"verif/engine/common"
)

// Free-running body of the supplementary race-detector pass: Go invokes ONE
// converted script callback from two goroutines at once (a handler under
// concurrent requests, a worker pool).  "The callback is invoked with the
// arguments Go passes": anything the adapter keeps per converted function
// instead of per invocation is written by both calls.
func raceBody(c *common.Ctx, rep *common.RaceReport) {
	srcs := []string{
		"par1(func(x) { return x + 1 })",
		"par2(func(a, b) { return a + b })",
		"parv(func(a, r...) { return a + len(r) })",
		"par5(func(a, b, c, d, e) { return a + e })",
		"par0(func() { return 7 })",
		"f = func(x) { return x * 2 }\npar1(f)\npar1(f)",
	}
	both := func(call func(i int64)) {
		gate := make(chan struct{})
		var wg sync.WaitGroup
		for i := int64(1); i <= 2; i++ {
			i := i
			wg.Add(1)
			go func() {
				defer wg.Done()
				defer func() { recover() }()
				<-gate
				for k := 0; k < 20; k++ {
					call(i)
				}
			}()
		}
		close(gate)
		wg.Wait()
	}
	for _, src := range srcs {
		for r := 0; r < 5; r++ {
			e := env.NewEnv()
			e.Define("par0", func(cb func() int64) { both(func(i int64) { cb() }) })
			e.Define("par1", func(cb func(int64) int64) { both(func(i int64) { cb(i) }) })
			e.Define("par2", func(cb func(int64, int64) int64) { both(func(i int64) { cb(i, i) }) })
			e.Define("parv", func(cb func(int64, ...int64) int64) { both(func(i int64) { cb(i, i, i) }) })
			e.Define("par5", func(cb func(int64, int64, int64, int64, int64) int64) { both(func(i int64) { cb(i, 0, 0, 0, i) }) })
			func() {
				defer func() { recover() }()
				vm.Execute(e, nil, src)
			}()
		}
		rep.Add(1, 5)
	}
}
