// Package twin (second of two packages with this name).
package twin

type Rec struct {
	Label string
	N     int64
	Count int64
}

func (r Rec) Name() string { return "two-name" }
func (r Rec) Zed() string  { return "two-zed" }
