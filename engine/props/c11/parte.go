package c11

import (
	"fmt"

	"github.com/mattn/anko/env"
	twin1 "verif/engine/props/c11/tw1/twin"
	twin2 "verif/engine/props/c11/tw2/twin"
)

// Part E: histories inside one process and one call site.
//
//   - one CALL SITE of a Go function (fixed, variadic) or of a reflect-path script
//     function re-entered by recursion from inside one of its own argument
//     expressions: every activation must deliver exactly its own arguments;
//   - methods looked up by name on two DIFFERENT Go types whose printed names are
//     equal (two packages called twin), one after the other in both orders.
type eSpec struct {
	Name string `json:"name"`
}

type eCase struct {
	name, src string
	wantVal   string
	wantCalls string
}

var eCases = []eCase{
	{"reentrant/go-fixed-2", "func sum(n) { if n == 0 { return 0 }; return add(n, sum(n - 1)) }\nsum(4)", "int64(10)", "[add(1,0) add(2,1) add(3,3) add(4,6)]"},
	{"reentrant/go-fixed-3", "func sum(n) { if n == 0 { return 0 }; return add3(n, 1, sum(n - 1)) }\nsum(3)", "int64(9)", "[add3(1,1,0) add3(2,1,2) add3(3,1,5)]"},
	{"reentrant/go-variadic", "func w(n) { if n == 0 { return \".\" }; return cat(\"<\", n, w(n - 1), \">\") }\nw(3)", "\"<3<2<1.>>>\"", "[cat(<,1,.,>) cat(<,2,<1.>,>) cat(<,3,<2<1.>>,>)]"},
	{"reentrant/go-first-and-last", "func sum(n) { if n == 0 { return 0 }; return add(sum(n - 1), n) }\nsum(3)", "int64(6)", "[add(0,1) add(1,2) add(3,3)]"},
	{"reentrant/script-5-params", "func f5(a, b, c, d, e) { return a + e }\nfunc r(n) { if n == 0 { return 0 }; return f5(n, 0, 0, 0, r(n - 1)) }\nr(3)", "int64(6)", "[]"},
	{"reentrant/script-variadic", "func fv(a, b...) { return a + b[0] }\nfunc r(n) { if n == 0 { return 0 }; return fv(n, r(n - 1), 7) }\nr(3)", "int64(6)", "[]"},
	{"same-printed-type-name/one-then-two", "[xr.Name(), yr.Name(), yr.Zed(), xr.Alpha(), yr.Name(), xr.Name()]", "[\"one-name\" \"two-name\" \"two-zed\" \"one-alpha\" \"two-name\" \"one-name\"]", "[]"},
	{"same-printed-type-name/fields-one-then-two", "[xr.Count, yr.Count, yr.Label, xr.Label, xr.N, yr.N]", "[int64(11) int64(22) \"two\" \"one\" int64(1) int64(2)]", "[]"},
	{"same-printed-type-name/field-writes", "xp.Count = 5\nyp.Count = 6\nyp.Label = \"w2\"\nxp.Label = \"w1\"\n[xp.Count, yp.Count, xp.Label, yp.Label]", "[int64(5) int64(6) \"w1\" \"w2\"]", "[]"},
	{"same-printed-type-name/two-then-one", "[yr.Zed(), xr.Alpha(), yr.Name(), xr.Name()]", "[\"two-zed\" \"one-alpha\" \"two-name\" \"one-name\"]", "[]"},
}

func (e eSpec) caseText() string {
	for _, c := range eCases {
		if c.name == e.Name {
			return c.name + " :: " + c.src
		}
	}
	return e.Name
}

func renderE(v interface{}) string {
	switch t := v.(type) {
	case int64:
		return fmt.Sprintf("int64(%d)", t)
	case string:
		return fmt.Sprintf("%q", t)
	case []interface{}:
		s := "["
		for i, x := range t {
			if i > 0 {
				s += " "
			}
			s += renderE(x)
		}
		return s + "]"
	}
	return fmt.Sprintf("%T(%v)", v, v)
}

func evalE(e eSpec) verdict {
	var c *eCase
	for i := range eCases {
		if eCases[i].name == e.Name {
			c = &eCases[i]
		}
	}
	if c == nil {
		return verdict{class: "E/machinery", detail: "unknown case " + e.Name}
	}
	var calls []string
	en := env.NewEnv()
	en.Define("add", func(a, b int64) int64 { calls = append(calls, fmt.Sprintf("add(%d,%d)", a, b)); return a + b })
	en.Define("add3", func(a, b, c int64) int64 {
		calls = append(calls, fmt.Sprintf("add3(%d,%d,%d)", a, b, c))
		return a + b + c
	})
	en.Define("cat", func(xs ...interface{}) string {
		s, l := "", "cat("
		for i, x := range xs {
			if i > 0 {
				l += ","
			}
			l += fmt.Sprint(x)
			s += fmt.Sprint(x)
		}
		calls = append(calls, l+")")
		return s
	})
	en.Define("xr", twin1.Rec{N: 1, Count: 11, Label: "one"})
	en.Define("yr", twin2.Rec{N: 2, Count: 22, Label: "two"})
	en.Define("xp", &twin1.Rec{N: 1, Count: 11, Label: "one"})
	en.Define("yp", &twin2.Rec{N: 2, Count: 22, Label: "two"})
	val, err, pan := execScript(en, c.src)
	v := verdict{nontrivial: true}
	v.outcome = fmt.Sprintf("err=%v panic=%v calls=%v val=%s", err != nil, pan != "", calls, renderE(val))
	kind := c.name
	if i := indexByte(kind, '/'); i > 0 {
		kind = kind[:i]
	}
	switch {
	case pan != "":
		v.class, v.detail = "E/"+kind+"/panic", "panic escaped vm.Execute: "+pan
	case err != nil:
		v.class, v.detail = "E/"+kind+"/error", fmt.Sprintf("the script failed: %v (expected %s)", err, c.wantVal)
	case renderE(val) != c.wantVal:
		v.class, v.detail = "E/"+kind+"/result", fmt.Sprintf("the script yields %s, expected %s; Go calls seen: %v", renderE(val), c.wantVal, calls)
	case c.wantCalls != "[]" && fmt.Sprint(calls) != c.wantCalls:
		v.class, v.detail = "E/"+kind+"/arguments", fmt.Sprintf("the Go function was called as %v, expected %s", calls, c.wantCalls)
	}
	return v
}

func indexByte(s string, b byte) int {
	for i := 0; i < len(s); i++ {
		if s[i] == b {
			return i
		}
	}
	return -1
}
