// Package c04: names follow lexical block scope; closures capture their
// defining scope.
//
// Bounded exhaustive exploration of "spine" programs
//
//	PRE ; W1[ W2[ W3[ PAYLOAD ; EXIT ] ; READ ] ; READ ] ; READ
//
// (gen.go) against a definitional scope interpreter (model.go) that implements
// the property text and nothing else.  The rendered source is executed by
// vm.ExecuteContext under the counting context; the probe log, the final
// top-level bindings and error-vs-success must equal what the model predicts
// under at least one resolution of the points the property leaves open, and
// one resolution must explain ALL programs of the run.
package c04

import (
	"fmt"
	"hash/fnv"
	"reflect"
	"sort"
	"strconv"
	"strings"
	"sync"

	"github.com/mattn/anko/env"
	"github.com/mattn/anko/parser"
	"github.com/mattn/anko/vm"
	"verif/engine/common"
	"verif/engine/lib/stepctx"
)

const fuel = 3000

// ---------- running the implementation ----------

type implResult struct {
	Out      outcome
	ParseErr string
	Fuel     bool
	Panic    string
}

func norm(x interface{}) string {
	switch t := x.(type) {
	case nil:
		return "U"
	case int64:
		return strconv.FormatInt(t, 10)
	case string:
		return t
	case error:
		return "E"
	case *env.Env:
		return "M"
	}
	if reflect.TypeOf(x).Kind() == reflect.Func {
		return "F"
	}
	return fmt.Sprintf("?%T", x)
}

func runImpl(src string) (res implResult) {
	e := env.NewEnv()
	var log []string
	e.Define("r", func(tag string, x, y interface{}) { log = append(log, tag+":"+norm(x)+","+norm(y)) })
	e.Define("r1", func(tag string, x interface{}) { log = append(log, tag+":"+norm(x)) })
	ctx := stepctx.Fuel(fuel)
	var err error
	func() {
		defer func() {
			if p := recover(); p != nil {
				res.Panic = fmt.Sprint(p)
			}
		}()
		_, err = vm.ExecuteContext(ctx, e, &vm.Options{Debug: false}, src)
	}()
	if res.Panic != "" {
		return
	}
	if _, ok := err.(*parser.Error); ok {
		res.ParseErr = err.Error()
		return
	}
	if ctx.Cancelled() {
		res.Fuel = true
		return
	}
	get := func(n string) string {
		v, gerr := e.Get(n)
		if gerr != nil {
			return "U"
		}
		return norm(v)
	}
	res.Out = outcome{Log: log, A: get("a"), B: get("b"), Z: get("z"), Failed: err != nil}
	return
}

// ---------- resolution sets ----------

const maskWords = (nReso + 63) / 64

type rmask [maskWords]uint64

func (m *rmask) set(i int)     { m[i/64] |= 1 << uint(i%64) }
func (m rmask) has(i int) bool { return m[i/64]&(1<<uint(i%64)) != 0 }
func (m rmask) and(o rmask) rmask {
	for i := range m {
		m[i] &= o[i]
	}
	return m
}
func (m rmask) empty() bool {
	for _, w := range m {
		if w != 0 {
			return false
		}
	}
	return true
}
func fullMask() rmask {
	var m rmask
	for i := 0; i < nReso; i++ {
		m.set(i)
	}
	return m
}
func (m rmask) String() string { return strings.Join(m.describe(), "; ") }

// restrictions is describe() limited to the points that m actually constrains.
func (m rmask) restrictions() []string {
	var out []string
	for i, s := range m.describe() {
		if len(m.values(i)) < resoDims[i] {
			out = append(out, s)
		}
	}
	return out
}

func (m rmask) values(d int) []int {
	seen := map[int]bool{}
	for i := 0; i < nReso; i++ {
		if m.has(i) {
			seen[int(dimsTab[i][d])] = true
		}
	}
	var vs []int
	for v := 0; v < resoDims[d]; v++ {
		if seen[v] {
			vs = append(vs, v)
		}
	}
	return vs
}

// describe lists, per open point, the resolutions still possible under m.
func (m rmask) describe() []string {
	names := []string{"for/while body scope", "C-for scope", "for-in scope", "try/catch/finally scope", "break/continue/return leaving a try body", "break inside switch inside loop",
		"name bound by an else-if condition", "name bound by a switch operand or case expression", "name bound by the C-for init statement"}
	vals := [][]string{
		{"one scope per loop", "fresh body scope per iteration"},
		{"one scope per loop (init, condition, post, body)", "header scope + fresh body scope per iteration"},
		{"one scope per loop, variable re-bound in it", "fresh scope per iteration holding the variable", "header scope holding the variable + fresh body scope per iteration"},
		{"catch and finally run in the try body's scope", "try, catch and finally each get their own scope"},
		{"handled like an error: catch runs, then finally, execution continues after the try", "passes through, finally runs", "passes through, finally does not run"},
		{"leaves the loop", "leaves the switch"},
		{"binds in the scope of the if statement", "binds in a scope of its own (gone after the if statement)"},
		{"binds in the scope of the switch statement", "binds in the switch's own scope (gone after the switch)"},
		{"binds in the loop's own scope (gone after the loop) [pinned]"},
	}
	var out []string
	for d := 0; d < nDims; d++ {
		seen := map[int]bool{}
		for i := 0; i < nReso; i++ {
			if m.has(i) {
				seen[resoOf(i).dims()[d]] = true
			}
		}
		var vs []string
		for v := 0; v < resoDims[d]; v++ {
			if seen[v] {
				vs = append(vs, vals[d][v])
			}
		}
		out = append(out, names[d]+": "+strings.Join(vs, " | "))
	}
	return out
}

// ---------- one case ----------

var dimsTab = func() (t [nReso][nDims]int8) {
	for i := 0; i < nReso; i++ {
		for k, d := range resoOf(i).dims() {
			t[i][k] = int8(d)
		}
	}
	return
}()

type verdict struct {
	Src      string
	Impl     implResult
	Skipped  string // non-empty: outside the compared set (reason)
	Mask     rmask  // resolutions under which the model predicts the implementation's outcome
	Models   []string
	Relevant [nDims]bool
}

func evaluate(d desc) verdict {
	prog := build(d)
	v := verdict{Src: render(prog, ""), Relevant: d.relevant()}
	v.Impl = runImpl(v.Src)
	switch {
	case v.Impl.Panic != "":
		v.Skipped = "panic"
		return v
	case v.Impl.ParseErr != "":
		v.Skipped = "parse"
		return v
	case v.Impl.Fuel:
		v.Skipped = "fuel"
		return v
	}
	// state per canonical resolution: 0 not yet run, 1 model undefined, 2 mismatch, 3 match
	var state [nReso]byte
	seenModel := map[string]bool{}
	for i := 0; i < nReso; i++ {
		dims := &dimsTab[i]
		canon, mul := 0, 1
		for k := 0; k < nDims; k++ {
			if v.Relevant[k] {
				canon += int(dims[k]) * mul
			}
			mul *= resoDims[k]
		}
		if state[canon] == 0 {
			o, ok := runModel(prog, resoOf(canon))
			switch {
			case !ok:
				state[canon] = 1
			case matches(o, v.Impl.Out):
				state[canon] = 3
			default:
				state[canon] = 2
			}
			if ok {
				if s := o.String(); !seenModel[s] {
					seenModel[s] = true
					v.Models = append(v.Models, s)
				}
			}
		}
		if state[canon] == 1 {
			v.Skipped = "model"
			return v
		}
		if state[canon] == 3 {
			v.Mask.set(i)
		}
	}
	return v
}

// ---------- the run ----------

type hashSet struct {
	mu [64]sync.Mutex
	m  [64]map[uint64]struct{}
}

func (h *hashSet) add(s string) bool {
	f := fnv.New64a()
	f.Write([]byte(s))
	x := f.Sum64()
	i := x & 63
	h.mu[i].Lock()
	defer h.mu[i].Unlock()
	if h.m[i] == nil {
		h.m[i] = map[uint64]struct{}{}
	}
	if _, ok := h.m[i][x]; ok {
		return false
	}
	h.m[i][x] = struct{}{}
	return true
}

type replayData struct {
	Desc desc   `json:"desc"`
	Src  string `json:"src"`
	Set  []desc `json:"set,omitempty"` // resolution/inconsistent: programs that no single resolution explains
}

func keyLess(a, b string) bool {
	if len(a) != len(b) {
		return len(a) < len(b)
	}
	return a < b
}

func classOf(d desc) string {
	return "scope/" + strings.Join(d.names(), ">") + "/" + exitNames[d.Exit]
}

func run(c *common.Ctx) *common.Result {
	res := common.NewResult()
	type space struct {
		depth, payloadLen int
	}
	spaces := []space{{0, 2}, {1, 2}, {2, 2}}
	if c.Thorough() {
		spaces = append(spaces, space{3, 1})
	}
	var nontrivial hashSet
	var gmu sync.Mutex
	global := fullMask()
	partial := map[rmask]desc{} // distinct non-full masks -> smallest example program
	full := fullMask()

	for _, sp := range spaces {
		hs := heads(sp.depth, c.Thorough())
		ps := payloads(sp.payloadLen)
		capped := false
		common.ParallelFor(c, len(hs), func(i int) {
			if c.Expired() {
				capped = true
				return
			}
			cnt := map[string]int64{}
			lpartial := map[rmask]desc{}
			defer func() {
				for k, n := range cnt {
					res.Add(k, n)
				}
				gmu.Lock()
				for m, d := range lpartial {
					global = global.and(m)
					if old, ok := partial[m]; !ok || keyLess(d.key(), old.key()) {
						partial[m] = d
					}
				}
				gmu.Unlock()
			}()
			depthKey := strconv.Itoa(sp.depth)
			maxLog := int64(0)
			for _, p := range ps {
				d := hs[i]
				d.Payload = p
				v := evaluate(d)
				cnt["evaluations"]++
				cnt["evaluations_depth_"+depthKey]++
				if v.Skipped != "" {
					cnt["skipped_"+v.Skipped]++
					if v.Skipped == "parse" || v.Skipped == "panic" {
						res.Note(fmt.Sprintf("%s: %s %s | %s", v.Skipped, v.Impl.ParseErr, v.Impl.Panic, strings.ReplaceAll(v.Src, "\n", "\\n")))
					}
					continue
				}
				if len(v.Impl.Out.Log) > 0 && nontrivial.add(v.Src) {
					cnt["distinct_nontrivial"]++
					cnt["nontrivial_depth_"+depthKey]++
					cnt["nontrivial_exit_"+exitNames[d.Exit]]++
					for _, n := range d.names() {
						cnt["nontrivial_with_"+n]++
					}
					if v.Impl.Out.Failed {
						cnt["nontrivial_ending_in_uncaught_error"]++
					}
				}
				if n := int64(len(v.Impl.Out.Log)); n > maxLog {
					maxLog = n
					res.Max("log_entries", n)
				}
				if v.Mask.empty() {
					detail := "implementation: " + v.Impl.Out.String() + "\n  model (every resolution of the open points):"
					for k, m := range v.Models {
						if k == 4 {
							detail += fmt.Sprintf("\n    ... %d more", len(v.Models)-4)
							break
						}
						detail += "\n    " + m
					}
					res.Violate(common.Violation{Class: classOf(d), Case: v.Src, Detail: detail, Replay: replayData{Desc: d, Src: v.Src}})
					continue
				}
				if v.Mask != full {
					if old, ok := lpartial[v.Mask]; !ok || keyLess(d.key(), old.key()) {
						lpartial[v.Mask] = d
					}
				}
			}
		})
		if capped {
			res.Cap(fmt.Sprintf("soft deadline reached in depth %d", sp.depth))
			break
		}
		res.Max("depth", int64(sp.depth))
	}

	for _, s := range global.describe() {
		res.Distinct("resolutions_consistent_with_every_program", s)
	}
	if global.empty() {
		// no single resolution explains all programs: report a minimal conflicting set
		type pm struct {
			m rmask
			d desc
		}
		var all []pm
		for m, d := range partial {
			all = append(all, pm{m, d})
		}
		sort.Slice(all, func(i, j int) bool { return keyLess(all[i].d.key(), all[j].d.key()) })
		conflict := func(set []pm) bool {
			acc := fullMask()
			for _, x := range set {
				acc = acc.and(x.m)
			}
			return acc.empty()
		}
		core := all
		for i := 0; i < len(core); {
			without := append(append([]pm{}, core[:i]...), core[i+1:]...)
			if conflict(without) {
				core = without
			} else {
				i++
			}
		}
		var keys, parts []string
		var set []desc
		for _, x := range core {
			keys = append(keys, x.d.key())
			set = append(set, x.d)
			parts = append(parts, "the program\n"+render(build(x.d), "    ")+"  is explained only by: "+strings.Join(x.m.restrictions(), "; "))
		}
		res.Violate(common.Violation{Class: "resolution/inconsistent", Case: strings.Join(keys, " vs "),
			Detail: "every program matches the model under some resolution of the open points, but no single resolution explains all of them:\n  " + strings.Join(parts, "\n  "),
			Replay: replayData{Set: set}})
	}

	// deterministic samples: fixed positions of the depth-2 enumeration
	hs := heads(2, false)
	ps := payloads(2)
	for k := 0; k < 10; k++ {
		d := hs[(k*len(hs))/10+k]
		d.Payload = ps[(k*5+8)%len(ps)]
		v := evaluate(d)
		res.Sample(map[string]interface{}{"spine": d.key(), "source": v.Src, "implementation": v.Impl.Out.String(), "skipped": v.Skipped})
	}
	return res
}

func coverage(c *common.Ctx, r *common.Result) map[string]interface{} {
	return map[string]interface{}{
		"evaluations":         r.Counts["evaluations"],
		"distinct_nontrivial": r.Counts["distinct_nontrivial"],
		"rule": "a case is one rendered spine program; it is non-trivial when it parsed, ran to completion without exhausting the fuel of " + strconv.Itoa(fuel) +
			" context polls, the reference model is defined on it, and at least one read probe was logged; distinctness is measured on the program text (64-bit FNV-1a)",
		"max_depth":             r.GetMax("depth"),
		"constructs":            len(wkinds),
		"max_log_entries":       r.GetMax("log_entries"),
		"fuel_exhausted":        r.Counts["skipped_fuel"],
		"parse_failures":        r.Counts["skipped_parse"],
		"panics":                r.Counts["skipped_panic"],
		"model_undefined":       r.Counts["skipped_model"],
		"open_point_resolution": r.SetMembers("resolutions_consistent_with_every_program"),
		"bounds":                "depth 0-2 with payloads of length <= 2 (quick); plus depth 3 with payloads of length <= 1 (thorough); 53 constructs (quick: while1, forin1, cfor1, catch, finally, try, func, closureDeepFor, factory0 and factory2 only at depth <= 1), 5 exits where legal, 4 top-level pre-bindings",
	}
}

func replay(c *common.Ctx, path string) int {
	var rd replayData
	if _, _, err := common.ReadReplay(path, &rd); err != nil {
		fmt.Println("cannot read replay:", err)
		return 2
	}
	if len(rd.Set) > 0 {
		var first string
		for round := 0; round < 2; round++ {
			acc := fullMask()
			var sb strings.Builder
			for _, d := range rd.Set {
				v := evaluate(d)
				if v.Skipped != "" {
					fmt.Fprintf(&sb, "%s\noutside the compared set: %s\n", v.Src, v.Skipped)
					continue
				}
				acc = acc.and(v.Mask)
				fmt.Fprintf(&sb, "%s  implementation: %s\n  explained only by: %s\n", v.Src, v.Impl.Out.String(), strings.Join(v.Mask.restrictions(), "; "))
			}
			fmt.Fprintf(&sb, "jointly consistent: %v\n", !acc.empty())
			if round == 0 {
				first = sb.String()
			} else if sb.String() != first {
				fmt.Println("NONDETERMINISTIC replay")
				return 2
			}
		}
		fmt.Print(first)
		if strings.HasSuffix(first, "jointly consistent: false\n") {
			return 1
		}
		return 0
	}
	var first string
	var v verdict
	for round := 0; round < 2; round++ {
		v = evaluate(rd.Desc)
		s := v.Impl.Out.String() + "|" + v.Skipped + "|" + v.Mask.String()
		if round == 0 {
			first = s
		} else if s != first {
			fmt.Printf("NONDETERMINISTIC replay:\n %s\n %s\n", first, s)
			return 2
		}
	}
	if v.Src != rd.Src {
		fmt.Println("note: the generator now renders this descriptor differently from the recorded source")
	}
	fmt.Println(v.Src)
	fmt.Println("implementation:", v.Impl.Out.String())
	for _, m := range v.Models {
		fmt.Println("model:         ", m)
	}
	if v.Skipped != "" {
		fmt.Println("replay: outside the compared set:", v.Skipped)
		return 0
	}
	if v.Mask.empty() {
		fmt.Println("replay: the implementation matches the model under NO resolution of the open points")
		return 1
	}
	fmt.Println("replay: the implementation matches the model")
	return 0
}

func init() {
	common.Register(&common.Prop{
		ID: "C04", Level: "exploration", Run: run, Coverage: coverage, Replay: replay,
		Assumptions: []string{
			"programs are spines PRE; W1[W2[W3[PAYLOAD; EXIT]; READ]; READ]; READ over 53 scope-creating constructs, payloads over {n = v, var n = v, read n} on names a and b plus `func a() { }` alone or with reads and the unpacking assignment `a, b = [v, w]` and the multi-name declarations `var a, b = [v, w]` / `var a, b = v, w` alone or followed by a read, exits {fall, break, continue, return, throw caught by an outer try}",
			"values are distinct integers per write, so a read identifies the writer; reads are `n ?? \"U\"` through a host probe",
			"open points are not compared but must be resolved consistently: loop body scope per loop vs per iteration (separately for for/while, C-for, for-in), scope shared by try/catch/finally or not, what break/continue/return do when they leave a try body (owned by C08), whether break inside switch leaves the loop or the switch; M.n for a name the module does not bind",
			"error messages are never compared, only error-vs-success; panics are counted, not judged (C01)",
			"a name bound by the C-for init clause (var, or plain assignment to an unbound name) lives in the loop's own scope: pinned, not an open point",
		},
	})
}
