package c04

import (
	"fmt"
	"strings"
)

// ---------- scope-creating constructs (the W of a spine) ----------

type wkind struct {
	Name   string
	Deep   bool // in the quick tier only used at depth <= 1 (a 2-iteration sibling covers it at depth 2)
	Loop   bool // break/continue inside the slot are consumed here
	NoCont bool // `continue` in the slot would never terminate (for { ...; break })
	Func   bool // the slot is inside a function body (break/continue may not cross)
	TryB   bool // the slot is a try BODY
	Switch bool
}

var wkinds = []wkind{
	{Name: "if"},       // 0  if true { . }
	{Name: "elif"},     // 1  if false { } else if true { . }
	{Name: "else"},     // 2  if false { } else if false { } else { . }
	{Name: "elifcond"}, // 3  if false { } else if (a += K) > 0 { . }       (assignment expression in the else-if condition)
	{Name: "loop1", Loop: true, NoCont: true}, // 4  for { . ; break }
	{Name: "loop2", Loop: true},               // 5  k = 0; for { k = k + 1; if k > 2 { break }; . }
	{Name: "while1", Loop: true, Deep: true},  // 6  k = 0; for k < 1 { k = k + 1; . }
	{Name: "while2", Loop: true},              // 7  k = 0; for k < 2 { k = k + 1; . }
	{Name: "cfor1", Loop: true, Deep: true},   // 8  for i = 0; i < 1; i++ { . }
	{Name: "cfor2", Loop: true},               // 9  for i = 0; i < 2; i++ { . }
	{Name: "forin1", Loop: true, Deep: true},  // 10 for x in [v] { . }
	{Name: "forin2", Loop: true},              // 11 for x in [v, w] { . }
	{Name: "forinA2", Loop: true},             // 12 for a in [v, w] { . }                            (pool name as loop variable)
	{Name: "case", Switch: true},              // 13 switch 1 { case 1: . }
	{Name: "default", Switch: true},           // 14 switch 1 { case 2: default: . }
	{Name: "try", TryB: true, Deep: true},     // 15 try { . } catch { READ }
	{Name: "tryfin", TryB: true},              // 16 try { . } catch { READ } finally { READ }
	{Name: "catch", Deep: true},               // 17 try { throw } catch e { . }
	{Name: "catchA"},                          // 18 try { throw } catch a { . }                      (pool name as catch variable)
	{Name: "catchL"},                          // 19 try { var a = v; throw } catch { . }             (try-body local)
	{Name: "finally", Deep: true},             // 20 try { } catch { } finally { . }
	{Name: "finallyT"},                        // 21 try { var b = v; throw } catch { } finally { . }
	{Name: "module"},                          // 22 module M { . }; READ M.a M.b
	{Name: "func", Func: true, Deep: true},    // 23 func f() { . }; f()
	{Name: "funcA", Func: true},               // 24 func f(a) { . }; f(v)                            (pool name as parameter)
	{Name: "anon", Func: true},                // 25 func() { . }()
	{Name: "closure", Func: true},             // 26 g = func() { . }            ... called twice at the end of the program
	{Name: "closureL", Func: true},            // 27 if true { var a = v; g = func() { . } }  ... called twice at the end of the program
	{Name: "rec", Func: true},                 // 28 func f(n) { var a = n + v; if n > 0 { f(n - 1) } else { . }; READ }; f(1)
	{Name: "recA", Func: true},                // 29 func f(a) { if a > v { f(a - 1) } else { . }; READ }; f(v + 1)
	// a function literal NAMED a, declared and called inside a head expression (the only way an expression can bind a name)
	{Name: "elifF", Func: true},   // 30 if false { } else if func a() { . }() == 1 { }
	{Name: "switchF", Func: true}, // 31 switch func a() { . }() { case 1: }
	{Name: "caseF", Func: true},   // 32 switch 1 { case func a() { . }(): }
	{Name: "cforF", Func: true},   // 33 for var i, j = 0, func a() { . }(); i < 1; i++ { }
	// for-in over a map with a single entry (so the iteration order is fixed), pool names as key / value variable
	{Name: "formapK", Loop: true},  // 34 for a in {"kx": v} { . }
	{Name: "formapV", Loop: true},  // 35 for x, a in {"kx": v} { . }
	{Name: "formapKV", Loop: true}, // 36 for a, b in {"kx": v} { . }
	// a NAMED function whose body refers to its own name
	{Name: "funcSelf", Func: true}, // 37 func a() { . }; a()          (the payload assigns to / shadows / reads the function's own name)
	{Name: "recSelf", Func: true},  // 38 func f(n) { if n > 0 { f(n - 1) }; READ }; g = f; f = func(n) { . }; g(1)   (the call inside the old body must reach the re-bound f)
	// C-for whose init clause binds a pool name
	{Name: "cforVarA", Loop: true}, // 39 i = 0; for var a = v; i < 2; i++ { . }
	{Name: "cforSetA", Loop: true}, // 40 i = 0; for a = v; i < 1; i++ { . }
	// ONE call site executed twice in one activation, the callee's name re-bound in between;
	// the loop body contains no other by-name call (the probes are inside the callees)
	{Name: "rebindSet", Func: true}, // 41 func f() { READ O }; for i = 0; i < 2; i++ { f(); f = func() { . } }
	{Name: "rebindVar", Func: true}, // 42 func f() { READ O }; for i = 0; i < 2; i++ { f(); var f = func() { . } }
	// a function literal called on the spot whose ARGUMENT expressions mention the names of its parameters
	{Name: "anonArgs", Func: true}, // 43 func(a, b) { READ Q; . }(b, a)
	// a closure created one block BELOW an if block, outliving it; then another if statement; then the closure is called
	{Name: "closureDeepIf", Func: true},              // 44 if true { var a = v; if true { g = func() { READ Q; . } } }; if true { var a = w; var b = x }   ... g called twice at the end
	{Name: "closureDeepFor", Func: true, Deep: true}, // 45 the same with `for x in [v] { g = ... }` in place of the inner if
	// ONE function literal evaluated twice in different scopes (a factory called twice), both closures called afterwards;
	// one construct per shape class of the literal (the interpreter builds them through different adapters)
	{Name: "factory0", Func: true, Deep: true}, // 46 t = nil; func mk(a) { t = func() { READ Q; . } }; mk(v); g = t; mk(w); h = t; g(); h()
	{Name: "factory2", Func: true, Deep: true}, // 47 ... func(p, q) ...       g(0, 0); h(0, 0)
	{Name: "factory5", Func: true},             // 48 ... func(p, q, u, v, w) ... g(0, 0, 0, 0, 0); ...
	{Name: "factoryV", Func: true},             // 49 ... func(p...) ...       g(0); h(0)
	// a closure created one block BELOW a block that has no bindings yet; the enclosing block binds names
	// AFTERWARDS (the payload) and then calls the closure, which must see them (its defining scope is a
	// child of that block, whatever the block held when the child was made)
	{Name: "closureEarlyIf"},               // 50 g = nil; if true { if true { g = func() { READ Q } }; . ; g() }
	{Name: "closureEarlyFunc", Func: true}, // 51 g = nil; func f() { if true { g = func() { READ Q } }; . ; g() }; f()
	// a C-for whose CONDITION is a call of a function literal holding the payload, after an init clause that
	// shadows a pool name: when the condition fails (exit: throw) the enclosing try resumes in the scope that
	// was current before the loop, not in the loop's
	{Name: "cforCondF", Func: true}, // 52 i = 0; for var a = v; func c() { . }() == 1; i++ { }
}

// ---------- spine descriptor ----------

type desc struct {
	W       []int `json:"w"`       // construct kinds, outermost first
	Payload []int `json:"payload"` // tokens: 0 a=v 1 var a=v 2 read a 3 b=v 4 var b=v 5 read b 6 func a() { } 7 a, b = [v, w] 8 var a, b = [v, w] 9 var a, b = v, w
	Exit    int   `json:"exit"`    // 0 fall through 1 break 2 continue 3 return 4 throw (caught by an outer try)
	Pre     int   `json:"pre"`     // bit 0: a = 1 at top level, bit 1: b = 2 at top level
}

var exitNames = []string{"fall", "break", "continue", "return", "throw"}

func (d desc) names() []string {
	var n []string
	for _, w := range d.W {
		n = append(n, wkinds[w].Name)
	}
	return n
}

func (d desc) key() string {
	return fmt.Sprintf("%s|%v|%s|pre%d", strings.Join(d.names(), ">"), d.Payload, exitNames[d.Exit], d.Pre)
}

// legal reports whether the exit is meaningful at the innermost slot.
func (d desc) legal() bool {
	switch d.Exit {
	case 1, 2:
		for i := len(d.W) - 1; i >= 0; i-- {
			k := wkinds[d.W[i]]
			if k.Func {
				return false
			}
			if k.Loop {
				return !(d.Exit == 2 && k.NoCont)
			}
		}
		return false
	}
	return true
}

// which under-determined points can this program observe?  (over-approximation)
func (d desc) relevant() [nDims]bool {
	var rel [nDims]bool
	for _, w := range d.W {
		switch {
		case w >= 4 && w <= 7:
			rel[0] = true
		case w == 8 || w == 9:
			rel[1] = true
		case w >= 10 && w <= 12, w >= 34 && w <= 36, w == 45:
			rel[2] = true
		case w >= 15 && w <= 21:
			rel[3] = true
		case w == 30:
			rel[6] = true
		case w == 31 || w == 32:
			rel[7] = true
		case w == 33:
			rel[1], rel[8] = true, true
		case w >= 39 && w <= 42:
			rel[1] = true
		}
		if wkinds[w].TryB && d.Exit >= 1 && d.Exit <= 3 {
			rel[4] = true
		}
		if wkinds[w].Switch && d.Exit == 1 {
			rel[5] = true
		}
	}
	if d.Exit == 4 {
		rel[3] = true // the wrapping try
	}
	return rel
}

// ---------- building the program ----------

func cst(n int64) *expr              { return &expr{K: 'c', C: n} }
func assign(n string, e *expr) *stmt { return &stmt{Op: opAssign, Name: n, E: e} }
func read(tag string) *stmt          { return &stmt{Op: opRead, Tag: tag} }

type builder struct {
	pre  []*stmt // declarations at the very top (closure holders)
	late []*stmt // calls at the end of the program
}

func (b *builder) construct(kind, k int, slot []*stmt) []*stmt {
	K := int64(100 * k)
	sfx := fmt.Sprint(k)
	ctr := "k" + sfx
	tt, ff := &cond{K: 't'}, &cond{K: 'f'}
	switch kind {
	case 0:
		return []*stmt{{Op: opIf, Arms: []arm{{tt, slot}}}}
	case 1:
		return []*stmt{{Op: opIf, Arms: []arm{{ff, nil}, {tt, slot}}}}
	case 2:
		return []*stmt{{Op: opIf, Arms: []arm{{ff, nil}, {ff, nil}}, HasElse: true, Else: slot}}
	case 3:
		return []*stmt{{Op: opIf, Arms: []arm{{ff, nil}, {&cond{K: 'a', N: "a", C: K}, slot}}}}
	case 4:
		return []*stmt{{Op: opFor, Body: append(append([]*stmt{}, slot...), &stmt{Op: opBreak})}}
	case 5:
		body := []*stmt{
			assign(ctr, &expr{K: '+', N: ctr, C: 1}),
			{Op: opIf, Arms: []arm{{&cond{K: '>', N: ctr, C: 2}, []*stmt{{Op: opBreak}}}}},
		}
		return []*stmt{assign(ctr, cst(0)), {Op: opFor, Body: append(body, slot...)}}
	case 6, 7:
		body := []*stmt{assign(ctr, &expr{K: '+', N: ctr, C: 1})}
		return []*stmt{assign(ctr, cst(0)), {Op: opWhile, Cond: &cond{K: '<', N: ctr, C: int64(kind - 5)}, Body: append(body, slot...)}}
	case 8, 9:
		return []*stmt{{Op: opCFor, Name: "i" + sfx, N: int64(kind - 7), Body: slot}}
	case 10:
		return []*stmt{{Op: opForIn, Name: "x" + sfx, Vals: []int64{K + 1}, Body: slot}}
	case 11:
		return []*stmt{{Op: opForIn, Name: "x" + sfx, Vals: []int64{K + 1, K + 2}, Body: slot}}
	case 12:
		return []*stmt{{Op: opForIn, Name: "a", Vals: []int64{K + 1, K + 2}, Body: slot}}
	case 13:
		return []*stmt{{Op: opSwitch, Match: true, Body: slot}}
	case 14:
		return []*stmt{{Op: opSwitch, Match: false, Body: slot}}
	case 15:
		return []*stmt{{Op: opTry, Body: slot, Catch: []*stmt{read("C" + sfx)}}}
	case 16:
		return []*stmt{{Op: opTry, Body: slot, Catch: []*stmt{read("C" + sfx)}, HasFinally: true, Finally: []*stmt{read("F" + sfx)}}}
	case 17:
		return []*stmt{{Op: opTry, Body: []*stmt{{Op: opThrow}}, Name: "e" + sfx, Catch: slot}}
	case 18:
		return []*stmt{{Op: opTry, Body: []*stmt{{Op: opThrow}}, Name: "a", Catch: slot}}
	case 19:
		return []*stmt{{Op: opTry, Body: []*stmt{{Op: opVar, Name: "a", E: cst(K + 3)}, {Op: opThrow}}, Catch: slot}}
	case 20:
		return []*stmt{{Op: opTry, HasFinally: true, Finally: slot}}
	case 21:
		return []*stmt{{Op: opTry, Body: []*stmt{{Op: opVar, Name: "b", E: cst(K + 4)}, {Op: opThrow}}, HasFinally: true, Finally: slot}}
	case 22:
		return []*stmt{{Op: opModule, Name: "M" + sfx, Body: slot}, {Op: opReadMod, Tag: "M" + sfx, Name: "M" + sfx}}
	case 23:
		return []*stmt{{Op: opFunc, Name: "f" + sfx, Body: slot}, {Op: opCall, Name: "f" + sfx}}
	case 24:
		return []*stmt{{Op: opFunc, Name: "f" + sfx, Params: []string{"a"}, Body: slot}, {Op: opCall, Name: "f" + sfx, Args: []*expr{cst(K + 5)}}}
	case 25:
		return []*stmt{{Op: opAnonCall, E: &expr{K: 'f', Fn: &fnlit{Body: slot}}}}
	case 26, 27, 44, 45:
		g := "g" + sfx
		b.pre = append(b.pre, assign(g, &expr{K: 'z'}))
		for _, tag := range []string{"G", "H"} {
			b.late = append(b.late,
				&stmt{Op: opTry, Body: []*stmt{{Op: opCall, Name: g}}},
				read(tag+sfx))
		}
		if kind >= 44 {
			mk := assign(g, &expr{K: 'f', Fn: &fnlit{Body: append([]*stmt{read("Q" + sfx)}, slot...)}})
			inner := &stmt{Op: opIf, Arms: []arm{{tt, []*stmt{mk}}}}
			if kind == 45 {
				inner = &stmt{Op: opForIn, Name: "x" + sfx, Vals: []int64{K + 1}, Body: []*stmt{mk}}
			}
			return []*stmt{
				{Op: opIf, Arms: []arm{{tt, []*stmt{{Op: opVar, Name: "a", E: cst(K + 6)}, inner}}}},
				{Op: opIf, Arms: []arm{{tt, []*stmt{{Op: opVar, Name: "a", E: cst(K + 7)}, {Op: opVar, Name: "b", E: cst(K + 8)}}}}},
			}
		}
		mk := assign(g, &expr{K: 'f', Fn: &fnlit{Body: slot}})
		if kind == 26 {
			return []*stmt{mk}
		}
		return []*stmt{{Op: opIf, Arms: []arm{{tt, []*stmt{{Op: opVar, Name: "a", E: cst(K + 6)}, mk}}}}}
	case 28:
		f, n := "f"+sfx, "n"+sfx
		body := []*stmt{
			{Op: opVar, Name: "a", E: &expr{K: '+', N: n, C: K + 7}},
			{Op: opIf, Arms: []arm{{&cond{K: '>', N: n, C: 0}, []*stmt{{Op: opCall, Name: f, Args: []*expr{{K: '+', N: n, C: -1}}}}}}, HasElse: true, Else: slot},
			read("L" + sfx),
		}
		return []*stmt{{Op: opFunc, Name: f, Params: []string{n}, Body: body}, {Op: opCall, Name: f, Args: []*expr{cst(1)}}}
	case 29:
		f := "f" + sfx
		body := []*stmt{
			{Op: opIf, Arms: []arm{{&cond{K: '>', N: "a", C: K + 8}, []*stmt{{Op: opCall, Name: f, Args: []*expr{{K: '+', N: "a", C: -1}}}}}}, HasElse: true, Else: slot},
			read("L" + sfx),
		}
		return []*stmt{{Op: opFunc, Name: f, Params: []string{"a"}, Body: body}, {Op: opCall, Name: f, Args: []*expr{cst(K + 9)}}}
	case 30:
		return []*stmt{{Op: opIf, Arms: []arm{{ff, nil}, {&cond{K: 'F', N: "a", Fn: &fnlit{Body: slot}}, nil}}}}
	case 31:
		return []*stmt{{Op: opSwitch, HeadFn: &fnlit{Body: slot}}}
	case 32:
		return []*stmt{{Op: opSwitch, CaseFn: &fnlit{Body: slot}}}
	case 33:
		return []*stmt{{Op: opCFor, Name: "i" + sfx, N: 1, InitFn: &fnlit{Body: slot}}}
	case 34:
		return []*stmt{{Op: opForIn, Name: "a", MapKey: "kx", Vals: []int64{K + 1}, Body: slot}}
	case 35:
		return []*stmt{{Op: opForIn, Name: "x" + sfx, Name2: "a", MapKey: "kx", Vals: []int64{K + 1}, Body: slot}}
	case 36:
		return []*stmt{{Op: opForIn, Name: "a", Name2: "b", MapKey: "kx", Vals: []int64{K + 1}, Body: slot}}
	case 37:
		return []*stmt{{Op: opFunc, Name: "a", Body: slot}, {Op: opCall, Name: "a"}}
	case 38:
		f, g, n := "f"+sfx, "h"+sfx, "n"+sfx
		old := []*stmt{
			{Op: opIf, Arms: []arm{{&cond{K: '>', N: n, C: 0}, []*stmt{{Op: opCall, Name: f, Args: []*expr{{K: '+', N: n, C: -1}}}}}}},
			read("L" + sfx),
		}
		return []*stmt{
			{Op: opFunc, Name: f, Params: []string{n}, Body: old},
			assign(g, &expr{K: 'n', N: f}),
			assign(f, &expr{K: 'f', Fn: &fnlit{Params: []string{n}, Body: slot}}),
			{Op: opCall, Name: g, Args: []*expr{cst(1)}},
		}
	case 39:
		return []*stmt{assign("i"+sfx, cst(0)), {Op: opCFor, Name: "i" + sfx, N: 2, Init: &stmt{Op: opVar, Name: "a", E: cst(K + 1)}, Body: slot}}
	case 40:
		return []*stmt{assign("i"+sfx, cst(0)), {Op: opCFor, Name: "i" + sfx, N: 1, Init: assign("a", cst(K+1)), Body: slot}}
	case 41, 42:
		f := "f" + sfx
		re := &stmt{Op: opAssign, Name: f, E: &expr{K: 'f', Fn: &fnlit{Body: slot}}}
		if kind == 42 {
			re.Op = opVar
		}
		return []*stmt{
			{Op: opFunc, Name: f, Body: []*stmt{read("O" + sfx)}},
			{Op: opCFor, Name: "i" + sfx, N: 2, Body: []*stmt{{Op: opCall, Name: f}, re}},
		}
	case 43:
		lit := &fnlit{Params: []string{"a", "b"}, Body: append([]*stmt{read("Q" + sfx)}, slot...)}
		return []*stmt{{Op: opAnonCall, E: &expr{K: 'f', Fn: lit}, Args: []*expr{{K: 'n', N: "b"}, {K: 'n', N: "a"}}}}
	case 46, 47, 48, 49:
		t, g, h, mk := "t"+sfx, "g"+sfx, "h"+sfx, "mk"+sfx
		var params []string
		switch kind {
		case 47:
			params = []string{"p" + sfx, "q" + sfx}
		case 48:
			params = []string{"p" + sfx, "q" + sfx, "u" + sfx, "v" + sfx, "w" + sfx}
		case 49:
			params = []string{"p" + sfx}
		}
		var zeros []*expr
		for range params {
			zeros = append(zeros, cst(0))
		}
		lit := &fnlit{Params: params, VarArg: kind == 49, Body: append([]*stmt{read("Q" + sfx)}, slot...)}
		return []*stmt{
			assign(t, &expr{K: 'z'}),
			{Op: opFunc, Name: mk, Params: []string{"a"}, Body: []*stmt{assign(t, &expr{K: 'f', Fn: lit})}},
			{Op: opCall, Name: mk, Args: []*expr{cst(K + 1)}},
			assign(g, &expr{K: 'n', N: t}),
			{Op: opCall, Name: mk, Args: []*expr{cst(K + 2)}},
			assign(h, &expr{K: 'n', N: t}),
			{Op: opCall, Name: g, Args: zeros},
			{Op: opCall, Name: h, Args: zeros},
		}
	case 52:
		return []*stmt{assign("i"+sfx, cst(0)), {Op: opCFor, Name: "i" + sfx, N: 1, Init: &stmt{Op: opVar, Name: "a", E: cst(K + 1)},
			Cond: &cond{K: 'F', N: "c" + sfx, Fn: &fnlit{Body: slot}}}}
	case 50, 51:
		g, f := "g"+sfx, "f"+sfx
		lit := &fnlit{Body: []*stmt{read("Q" + sfx)}}
		inner := &stmt{Op: opIf, Arms: []arm{{tt, []*stmt{assign(g, &expr{K: 'f', Fn: lit})}}}}
		body := append([]*stmt{inner}, slot...)
		body = append(body, &stmt{Op: opCall, Name: g})
		if kind == 50 {
			return []*stmt{assign(g, &expr{K: 'z'}), {Op: opIf, Arms: []arm{{tt, body}}}}
		}
		return []*stmt{assign(g, &expr{K: 'z'}), {Op: opFunc, Name: f, Body: body}, {Op: opCall, Name: f}}
	}
	panic("bad construct kind")
}

func payloadStmts(p []int) []*stmt {
	var out []*stmt
	for i, t := range p {
		if t == 7 {
			// unpacking assignment of both pool names from one list
			out = append(out, &stmt{Op: opUnpack, N: int64(21 + 2*i)})
			continue
		}
		if t == 8 || t == 9 {
			st := &stmt{Op: opVarMulti, N: int64(31 + 2*i)}
			if t == 8 {
				st.Tag = "list"
			}
			out = append(out, st)
			continue
		}
		if t == 6 {
			// a named function declaration: an expression statement that binds a name
			out = append(out, &stmt{Op: opFunc, Name: "a"})
			continue
		}
		n := "a"
		if t >= 3 {
			n = "b"
		}
		v := cst(int64(11 + i))
		switch t % 3 {
		case 0:
			out = append(out, assign(n, v))
		case 1:
			out = append(out, &stmt{Op: opVar, Name: n, E: v})
		case 2:
			out = append(out, &stmt{Op: opRead1, Tag: "P", Name: n})
		}
	}
	return out
}

// build turns a descriptor into the program.
func build(d desc) []*stmt {
	b := &builder{}
	innermost := func() []*stmt {
		slot := payloadStmts(d.Payload)
		switch d.Exit {
		case 1:
			slot = append(slot, &stmt{Op: opBreak})
		case 2:
			slot = append(slot, &stmt{Op: opContinue})
		case 3:
			slot = append(slot, &stmt{Op: opReturn})
		case 4:
			slot = append(slot, &stmt{Op: opThrow})
		}
		return slot
	}
	var level func(k int) []*stmt
	level = func(k int) []*stmt {
		if k > len(d.W) {
			return innermost()
		}
		out := b.construct(d.W[k-1], k, level(k+1))
		return append(out, read(fmt.Sprint("R", k)))
	}
	body := level(1)
	if d.Exit == 4 {
		body = []*stmt{{Op: opTry, Body: body, Catch: []*stmt{read("C0")}}}
	}
	var prog []*stmt
	if d.Pre&1 != 0 {
		prog = append(prog, assign("a", cst(1)))
	}
	if d.Pre&2 != 0 {
		prog = append(prog, assign("b", cst(2)))
	}
	prog = append(prog, b.pre...)
	prog = append(prog, body...)
	prog = append(prog, b.late...)
	prog = append(prog, read("T"), assign("z", cst(9)))
	return prog
}

// ---------- enumeration ----------

// payloads returns every token sequence of length <= maxLen.
func payloads(maxLen int) [][]int {
	out := [][]int{{}}
	for l, prev := 1, [][]int{{}}; l <= maxLen; l++ {
		var cur [][]int
		for _, p := range prev {
			for t := 0; t < 6; t++ {
				cur = append(cur, append(append([]int{}, p...), t))
			}
		}
		out = append(out, cur...)
		prev = cur
	}
	// token 6, `func a() { }`: alone, and combined with reads only (so that the
	// block consists of expression statements only)
	// token 7, `a, b = [v, w]`: alone and followed by a read of either name
	if maxLen >= 1 {
		out = append(out, []int{6}, []int{7}, []int{8}, []int{9})
	}
	if maxLen >= 2 {
		out = append(out, []int{6, 2}, []int{6, 5}, []int{2, 6}, []int{5, 6}, []int{7, 2}, []int{7, 5}, []int{8, 2}, []int{8, 5}, []int{9, 2}, []int{9, 5}, []int{0, 8}, []int{3, 8})
	}
	return out
}

// heads enumerates (W-vector, exit, pre) for one depth.
func heads(depth int, thorough bool) []desc {
	var out []desc
	var rec func(w []int)
	rec = func(w []int) {
		if len(w) == depth {
			for ex := 0; ex < 5; ex++ {
				for pre := 0; pre < 4; pre++ {
					d := desc{W: append([]int{}, w...), Exit: ex, Pre: pre}
					if d.legal() {
						out = append(out, d)
					}
				}
			}
			return
		}
		for k := range wkinds {
			if wkinds[k].Deep && depth >= 2 && !thorough {
				continue
			}
			rec(append(w, k))
		}
	}
	rec(nil)
	return out
}
