package c04

// A small self-contained scope language and its reference interpreter.
// The interpreter implements exactly the text of property C04: scopes are a
// chain of dictionaries, lookup finds the nearest enclosing binding, plain
// assignment updates the nearest existing binding and otherwise binds in the
// current block, `var` / for-in variables / catch variables / parameters bind
// in the current block or invocation, every block / loop / function body gets
// a child scope that dies with it, a function value keeps a reference to the
// scope it was created in and every call runs in a fresh child of that scope,
// and whatever way a statement ends the interpreter continues in the scope
// that was current before it (guaranteed by construction: the current scope is
// a parameter of exec, never mutable state).
//
// Points on which the property is silent are explicit parameters (type reso);
// the checker runs the model under every combination that a program can
// observe and accepts any of them.

import (
	"fmt"
	"strconv"
	"strings"
)

// ---------- the language ----------

type expr struct {
	K  byte   // 'c' constant, 'n' name, '+' name + constant, 'f' function literal, 'z' nil
	N  string // name
	C  int64
	Fn *fnlit
}

type fnlit struct {
	Params []string
	Body   []*stmt
	VarArg bool // the last parameter is variadic (rendering only: the shape decides which adapter the interpreter builds)
}

type cond struct {
	K  byte // 't' true, 'f' false, '<' name < C, '>' name > C, 'a' (name += C) > 0, 'F' func N() { Fn }() == 1 (always false)
	N  string
	C  int64
	Fn *fnlit
}

type arm struct {
	Cond *cond
	Body []*stmt
}

const (
	opAssign  = iota // Name = E
	opVar            // var Name = E
	opRead           // r(Tag, a ?? "U", b ?? "U")
	opRead1          // r1(Tag, Name ?? "U")
	opReadMod        // r(Tag, Name.a ?? "U", Name.b ?? "U")
	opIf             // Arms / Else
	opFor            // for { Body }
	opWhile          // for Cond { Body }
	opCFor           // for Name = 0; Name < N; Name++ { Body }
	opForIn          // for Name in Vals { Body }   or, over a single-entry map,  for Name[, Name2] in {MapKey: Vals[0]} { Body }
	opBreak
	opContinue
	opReturn
	opThrow
	opSwitch // switch 1 { case 1: Body }  or  switch 1 { case 2: default: Body }
	opTry    // try { Body } catch Name { Catch } [finally { Finally }]
	opModule // module Name { Body }
	opFunc   // func Name(Params) { Body }
	opCall   // Name(Args)
	opAnonCall
	opUnpack // a, b = [N, N + 1]   (several targets, ONE list on the right)
	// var a, b = [N, N + 1]  (Tag "list": several names, ONE list on the right) and
	// var a, b = N, N + 1    (Tag "": one value per name): var binds every name in
	// the current block, whatever the shape of the right-hand side
	opVarMulti
)

type stmt struct {
	Op         int
	Name       string
	E          *expr
	Tag        string
	Arms       []arm
	Else       []*stmt
	HasElse    bool
	Cond       *cond
	N          int64
	Vals       []int64
	Body       []*stmt
	Catch      []*stmt
	Finally    []*stmt
	HasFinally bool
	Match      bool
	Params     []string
	Args       []*expr
	// a function literal named "a", declared and called inside a head
	// expression: the switch operand, a case expression, the C-for init
	HeadFn *fnlit
	CaseFn *fnlit
	InitFn *fnlit
	// for-in over a map with one entry: Name is the key variable, Name2 (may be empty) the value variable
	MapKey string
	Name2  string
	// C-for whose init clause is Init (an opAssign / opVar of a pool name); the
	// counter Name is then initialised by a statement before the loop
	Init *stmt
}

// ---------- rendering to anko source ----------

func renderExpr(e *expr, ind string) string {
	switch e.K {
	case 'c':
		return strconv.FormatInt(e.C, 10)
	case 'n':
		return e.N
	case '+':
		if e.C < 0 {
			return fmt.Sprintf("%s - %d", e.N, -e.C)
		}
		return fmt.Sprintf("%s + %d", e.N, e.C)
	case 'f':
		va := ""
		if e.Fn.VarArg {
			va = "..."
		}
		return "func(" + strings.Join(e.Fn.Params, ", ") + va + ") {\n" + render(e.Fn.Body, ind+"  ") + ind + "}"
	case 'z':
		return "nil"
	}
	panic("bad expr")
}

func renderCond(c *cond, ind string) string {
	switch c.K {
	case 'F':
		return renderNamedCall(c.N, c.Fn, ind) + " == 1"
	case 't':
		return "true"
	case 'f':
		return "false"
	case '<':
		return fmt.Sprintf("%s < %d", c.N, c.C)
	case '>':
		return fmt.Sprintf("%s > %d", c.N, c.C)
	case 'a':
		return fmt.Sprintf("(%s += %d) > 0", c.N, c.C)
	}
	panic("bad cond")
}

func renderNamedCall(name string, f *fnlit, ind string) string {
	return "func " + name + "() {\n" + render(f.Body, ind+"  ") + ind + "}()"
}

func render(b []*stmt, ind string) string {
	var sb strings.Builder
	in2 := ind + "  "
	for _, s := range b {
		sb.WriteString(ind)
		switch s.Op {
		case opAssign:
			sb.WriteString(s.Name + " = " + renderExpr(s.E, ind))
		case opVar:
			sb.WriteString("var " + s.Name + " = " + renderExpr(s.E, ind))
		case opRead:
			fmt.Fprintf(&sb, `r("%s", a ?? "U", b ?? "U")`, s.Tag)
		case opRead1:
			fmt.Fprintf(&sb, `r1("%s", %s ?? "U")`, s.Tag, s.Name)
		case opReadMod:
			fmt.Fprintf(&sb, `r("%s", %s.a ?? "U", %s.b ?? "U")`, s.Tag, s.Name, s.Name)
		case opIf:
			for i, a := range s.Arms {
				if i == 0 {
					sb.WriteString("if ")
				} else {
					sb.WriteString(" else if ")
				}
				sb.WriteString(renderCond(a.Cond, ind) + " {\n" + render(a.Body, in2) + ind + "}")
			}
			if s.HasElse {
				sb.WriteString(" else {\n" + render(s.Else, in2) + ind + "}")
			}
		case opFor:
			sb.WriteString("for {\n" + render(s.Body, in2) + ind + "}")
		case opWhile:
			sb.WriteString("for " + renderCond(s.Cond, ind) + " {\n" + render(s.Body, in2) + ind + "}")
		case opCFor:
			if s.Init != nil {
				init := strings.TrimSpace(render([]*stmt{s.Init}, ""))
				cnd := fmt.Sprintf("%s < %d", s.Name, s.N)
				if s.Cond != nil {
					cnd = renderCond(s.Cond, ind)
				}
				fmt.Fprintf(&sb, "for %s; %s; %s++ {\n%s%s}", init, cnd, s.Name, render(s.Body, in2), ind)
				break
			}
			if s.InitFn != nil {
				fmt.Fprintf(&sb, "for var %s, j%s = 0, %s; %s < %d; %s++ {\n%s%s}", s.Name, s.Name, renderNamedCall("a", s.InitFn, ind), s.Name, s.N, s.Name, render(s.Body, in2), ind)
				break
			}
			fmt.Fprintf(&sb, "for %s = 0; %s < %d; %s++ {\n%s%s}", s.Name, s.Name, s.N, s.Name, render(s.Body, in2), ind)
		case opForIn:
			if s.MapKey != "" {
				vars := s.Name
				if s.Name2 != "" {
					vars += ", " + s.Name2
				}
				fmt.Fprintf(&sb, "for %s in {\"%s\": %d} {\n%s%s}", vars, s.MapKey, s.Vals[0], render(s.Body, in2), ind)
				break
			}
			var vs []string
			for _, v := range s.Vals {
				vs = append(vs, strconv.FormatInt(v, 10))
			}
			fmt.Fprintf(&sb, "for %s in [%s] {\n%s%s}", s.Name, strings.Join(vs, ", "), render(s.Body, in2), ind)
		case opBreak:
			sb.WriteString("break")
		case opContinue:
			sb.WriteString("continue")
		case opReturn:
			sb.WriteString("return")
		case opThrow:
			sb.WriteString(`throw "x"`)
		case opSwitch:
			if s.HeadFn != nil {
				sb.WriteString("switch " + renderNamedCall("a", s.HeadFn, ind) + " {\n" + ind + "case 1:\n" + ind + "}")
			} else if s.CaseFn != nil {
				sb.WriteString("switch 1 {\n" + ind + "case " + renderNamedCall("a", s.CaseFn, ind) + ":\n" + ind + "}")
			} else if s.Match {
				sb.WriteString("switch 1 {\n" + ind + "case 1:\n" + render(s.Body, in2) + ind + "}")
			} else {
				sb.WriteString("switch 1 {\n" + ind + "case 2:\n" + ind + "default:\n" + render(s.Body, in2) + ind + "}")
			}
		case opTry:
			sb.WriteString("try {\n" + render(s.Body, in2) + ind + "} catch ")
			if s.Name != "" {
				sb.WriteString(s.Name + " ")
			}
			sb.WriteString("{\n" + render(s.Catch, in2) + ind + "}")
			if s.HasFinally {
				sb.WriteString(" finally {\n" + render(s.Finally, in2) + ind + "}")
			}
		case opModule:
			sb.WriteString("module " + s.Name + " {\n" + render(s.Body, in2) + ind + "}")
		case opFunc:
			sb.WriteString("func " + s.Name + "(" + strings.Join(s.Params, ", ") + ") {\n" + render(s.Body, in2) + ind + "}")
		case opCall:
			var as []string
			for _, a := range s.Args {
				as = append(as, renderExpr(a, ind))
			}
			sb.WriteString(s.Name + "(" + strings.Join(as, ", ") + ")")
		case opAnonCall:
			var as []string
			for _, a := range s.Args {
				as = append(as, renderExpr(a, ind))
			}
			sb.WriteString(renderExpr(s.E, ind) + "(" + strings.Join(as, ", ") + ")")
		case opUnpack:
			fmt.Fprintf(&sb, "a, b = [%d, %d]", s.N, s.N+1)
		case opVarMulti:
			if s.Tag == "list" {
				fmt.Fprintf(&sb, "var a, b = [%d, %d]", s.N, s.N+1)
			} else {
				fmt.Fprintf(&sb, "var a, b = %d, %d", s.N, s.N+1)
			}
		default:
			panic("bad stmt")
		}
		sb.WriteString("\n")
	}
	return sb.String()
}

// ---------- resolutions of the under-determined points ----------

// reso fixes one resolution of every point the property leaves open.
type reso struct {
	LoopA int // `for {}` / `for cond {}`: 0 one scope per loop, 1 header scope + one body scope per iteration
	LoopC int // C-style for: 0 one scope per loop (init, condition, post, body), 1 header scope + body scope per iteration
	LoopI int // for-in: 0 one scope per loop (variable re-bound in it), 1 one scope per iteration holding the variable, 2 header scope holding the variable + body scope per iteration
	Try   int // 0 try, catch and finally share one child scope, 1 each of them gets its own child scope
	Sig   int // break/continue/return leaving a try BODY: 0 handled like an error (catch runs, then finally, execution goes on after the try), 1 passes through and finally runs, 2 passes through and finally does not run
	Brk   int // break inside a switch inside a loop: 0 leaves the loop, 1 leaves the switch
	// where does a head expression bind a name (only a named function literal can do that)?
	ElifHead int // else-if condition: 0 in the scope of the if statement, 1 in a scope of its own
	SwHead   int // switch operand and case expressions: 0 in the scope of the switch statement, 1 in the switch's own scope
	CInit    int // C-for init statement: PINNED to 0 = the loop's own (header) scope (1, the scope of the for statement, is no longer accepted)
}

const nDims = 9

var resoDims = [nDims]int{2, 2, 3, 2, 3, 2, 2, 2, 1}

const nReso = 2 * 2 * 3 * 2 * 3 * 2 * 2 * 2 * 1 // 576

func resoOf(i int) reso {
	var d [nDims]int
	for k := 0; k < nDims; k++ {
		d[k] = i % resoDims[k]
		i /= resoDims[k]
	}
	return reso{d[0], d[1], d[2], d[3], d[4], d[5], d[6], d[7], d[8]}
}

func (r reso) dims() [nDims]int {
	return [nDims]int{r.LoopA, r.LoopC, r.LoopI, r.Try, r.Sig, r.Brk, r.ElifHead, r.SwHead, r.CInit}
}

// ---------- the reference interpreter ----------

type mval struct {
	k   byte // 'i' int, 's' string, 'f' function, 'm' module, 'e' error value, 'z' nil
	str string
	n   int64
	fn  *mfunc
	mod *mscope
}

type mfunc struct {
	lit *fnlit
	env *mscope
}

type mscope struct {
	v map[string]mval
	p *mscope
}

func newScope(p *mscope) *mscope { return &mscope{v: map[string]mval{}, p: p} }

func (s *mscope) lookup(n string) (mval, bool) {
	for e := s; e != nil; e = e.p {
		if v, ok := e.v[n]; ok {
			return v, true
		}
	}
	return mval{}, false
}

// assign: update the nearest existing binding, else bind in the current block.
func (s *mscope) assign(n string, v mval) {
	for e := s; e != nil; e = e.p {
		if _, ok := e.v[n]; ok {
			e.v[n] = v
			return
		}
	}
	s.v[n] = v
}

type sig int

const (
	sNone sig = iota
	sBrk
	sCont
	sRet
	sErr
)

const modelStepLimit = 4000

type machine struct {
	R       reso
	log     []string
	steps   int
	timeout bool
	outside bool // arithmetic on a bound non-integer value: not a scope question, program is not compared
}

func show(v mval, ok bool) string {
	if !ok {
		return "U"
	}
	switch v.k {
	case 'i':
		return strconv.FormatInt(v.n, 10)
	case 's':
		return v.str
	case 'f':
		return "F"
	case 'm':
		return "M"
	case 'e':
		return "E"
	}
	return "U" // nil: `x ?? "U"` yields "U"
}

func (m *machine) eval(e *expr, s *mscope) (mval, bool) {
	switch e.K {
	case 'c':
		return mval{k: 'i', n: e.C}, true
	case 'n':
		return s.lookup(e.N)
	case '+':
		v, ok := s.lookup(e.N)
		if ok && v.k != 'i' {
			m.outside = true
		}
		if !ok || v.k != 'i' {
			return mval{}, false
		}
		return mval{k: 'i', n: v.n + e.C}, true
	case 'f':
		return mval{k: 'f', fn: &mfunc{lit: e.Fn, env: s}}, true
	case 'z':
		return mval{k: 'z'}, true
	}
	panic("bad expr")
}

// callNamed declares the function literal under name in scope hs and calls it.
func (m *machine) callNamed(name string, f *fnlit, hs *mscope) sig {
	fv := mval{k: 'f', fn: &mfunc{lit: f, env: hs}}
	hs.v[name] = fv
	return m.call(fv, nil)
}

func (m *machine) evalCond(c *cond, s *mscope) (bool, bool) {
	switch c.K {
	case 'F':
		if m.callNamed(c.N, c.Fn, s) != sNone {
			return false, false
		}
		return false, true // the call yields nil, and nil == 1 is false
	case 't':
		return true, true
	case 'f':
		return false, true
	case '<', '>':
		v, ok := s.lookup(c.N)
		if ok && v.k != 'i' {
			m.outside = true
		}
		if !ok || v.k != 'i' {
			return false, false
		}
		if c.K == '<' {
			return v.n < c.C, true
		}
		return v.n > c.C, true
	case 'a':
		v, ok := s.lookup(c.N)
		if ok && v.k != 'i' {
			m.outside = true
		}
		if !ok || v.k != 'i' {
			return false, false
		}
		nv := mval{k: 'i', n: v.n + c.C}
		s.assign(c.N, nv) // the name is bound (it was just read): updates the nearest binding
		return nv.n > 0, true
	}
	panic("bad cond")
}

func (m *machine) block(b []*stmt, s *mscope) sig {
	for _, st := range b {
		if g := m.exec(st, s); g != sNone {
			return g
		}
	}
	return sNone
}

func (m *machine) call(f mval, args []mval) sig {
	if f.k != 'f' || len(args) != len(f.fn.lit.Params) {
		return sErr
	}
	inv := newScope(f.fn.env) // every invocation: a fresh child of the captured scope
	for i, p := range f.fn.lit.Params {
		inv.v[p] = args[i]
	}
	switch g := m.block(f.fn.lit.Body, inv); g {
	case sNone, sRet:
		return sNone
	default:
		return sErr // an error, or a break/continue with no loop inside the function (never generated)
	}
}

// loop runs the iterations of one loop.  hdr is the header scope; body(i)
// returns the scope of iteration i.
func (m *machine) loop(s *stmt, cnd func() (bool, bool), post func() bool, bodyScope func(i int) *mscope, n int) sig {
	for i := 0; n < 0 || i < n; i++ {
		m.steps++
		if m.steps > modelStepLimit {
			m.timeout = true
			return sErr
		}
		if cnd != nil {
			c, ok := cnd()
			if !ok {
				return sErr
			}
			if !c {
				break
			}
		}
		g := m.block(s.Body, bodyScope(i))
		if g == sBrk {
			break
		}
		if g == sRet || g == sErr {
			return g
		}
		if post != nil && !post() {
			return sErr
		}
	}
	return sNone
}

func (m *machine) exec(st *stmt, s *mscope) sig {
	if m.timeout {
		return sErr
	}
	m.steps++
	if m.steps > modelStepLimit {
		m.timeout = true
		return sErr
	}
	switch st.Op {
	case opAssign:
		v, ok := m.eval(st.E, s)
		if !ok {
			return sErr
		}
		s.assign(st.Name, v)
	case opVar:
		v, ok := m.eval(st.E, s)
		if !ok {
			return sErr
		}
		s.v[st.Name] = v
	case opRead:
		m.log = append(m.log, st.Tag+":"+show(s.lookup("a"))+","+show(s.lookup("b")))
	case opRead1:
		m.log = append(m.log, st.Tag+":"+show(s.lookup(st.Name)))
	case opReadMod:
		mv, ok := s.lookup(st.Name)
		if !ok || mv.k != 'm' {
			m.log = append(m.log, st.Tag+":U,U")
			break
		}
		// only bindings of the module itself are determined; what M.n yields
		// for a name the module does not bind is not stated ("*" = anything)
		one := func(n string) string {
			if v, ok := mv.mod.v[n]; ok {
				return show(v, true)
			}
			return "*"
		}
		m.log = append(m.log, st.Tag+":"+one("a")+","+one("b"))
	case opIf:
		for i, a := range st.Arms {
			cs := s
			if i > 0 && m.R.ElifHead == 1 {
				cs = newScope(s)
			}
			c, ok := m.evalCond(a.Cond, cs)
			if !ok {
				return sErr
			}
			if c {
				return m.block(a.Body, newScope(s))
			}
		}
		if st.HasElse {
			return m.block(st.Else, newScope(s))
		}
	case opFor, opWhile:
		hdr := newScope(s)
		var cnd func() (bool, bool)
		if st.Op == opWhile {
			cnd = func() (bool, bool) { return m.evalCond(st.Cond, hdr) }
		}
		body := func(int) *mscope { return hdr }
		if m.R.LoopA == 1 {
			body = func(int) *mscope { return newScope(hdr) }
		}
		return m.loop(st, cnd, nil, body, -1)
	case opCFor:
		// the init clause is part of the loop statement: what it binds (var, or a
		// plain assignment to a name that is unbound up the chain) lives in the
		// loop's own scope and is gone after the loop
		hdr := newScope(s)
		if st.Init != nil {
			if g := m.exec(st.Init, hdr); g != sNone {
				return g
			}
		} else if st.InitFn != nil {
			// for var i, j = 0, func a() { ... }(); ...
			is := hdr
			if m.R.CInit == 1 {
				is = s
			}
			if m.callNamed("a", st.InitFn, is) != sNone {
				return sErr
			}
			is.v[st.Name] = mval{k: 'i', n: 0}
			is.v["j"+st.Name] = mval{k: 'z'}
		} else {
			hdr.assign(st.Name, mval{k: 'i', n: 0})
		}
		cnd := func() (bool, bool) { return m.evalCond(&cond{K: '<', N: st.Name, C: st.N}, hdr) }
		if st.Cond != nil {
			cnd = func() (bool, bool) { return m.evalCond(st.Cond, hdr) }
		}
		post := func() bool {
			v, ok := hdr.lookup(st.Name)
			if !ok || v.k != 'i' {
				return false
			}
			hdr.assign(st.Name, mval{k: 'i', n: v.n + 1})
			return true
		}
		body := func(int) *mscope { return hdr }
		if m.R.LoopC == 1 {
			body = func(int) *mscope { return newScope(hdr) }
		}
		return m.loop(st, cnd, post, body, -1)
	case opForIn:
		hdr := newScope(s)
		// the loop variables always bind in the loop's block (never update an outer binding)
		bind := func(sc *mscope, i int) {
			if st.MapKey != "" {
				sc.v[st.Name] = mval{k: 's', str: st.MapKey}
				if st.Name2 != "" {
					sc.v[st.Name2] = mval{k: 'i', n: st.Vals[i]}
				}
				return
			}
			sc.v[st.Name] = mval{k: 'i', n: st.Vals[i]}
		}
		var body func(i int) *mscope
		switch m.R.LoopI {
		case 0:
			body = func(i int) *mscope { bind(hdr, i); return hdr }
		case 1:
			body = func(i int) *mscope { it := newScope(s); bind(it, i); return it }
		default:
			body = func(i int) *mscope { bind(hdr, i); return newScope(hdr) }
		}
		return m.loop(st, nil, nil, body, len(st.Vals))
	case opBreak:
		return sBrk
	case opContinue:
		return sCont
	case opReturn:
		return sRet
	case opThrow:
		return sErr
	case opSwitch:
		sw := newScope(s)
		if f := st.HeadFn; f != nil || st.CaseFn != nil {
			if f == nil {
				f = st.CaseFn
			}
			hs := s
			if m.R.SwHead == 1 {
				hs = sw
			}
			if m.callNamed("a", f, hs) != sNone {
				return sErr
			}
			return sNone // nil matches neither `case 1` nor the operand 1; there is no default
		}
		g := m.block(st.Body, sw)
		if g == sBrk && m.R.Brk == 1 {
			return sNone
		}
		return g
	case opTry:
		t := newScope(s)
		other := func() *mscope {
			if m.R.Try == 0 {
				return t
			}
			return newScope(s)
		}
		fin := func() sig {
			if st.HasFinally {
				return m.block(st.Finally, other())
			}
			return sNone
		}
		g := m.block(st.Body, t)
		if m.timeout {
			return sErr
		}
		if g == sNone {
			return fin()
		}
		if g == sErr || m.R.Sig == 0 {
			cs := other()
			if st.Name != "" {
				cs.v[st.Name] = mval{k: 'e'} // the catch variable binds in the catch block
			}
			if cg := m.block(st.Catch, cs); cg != sNone {
				return cg // (whether finally runs now is not stated; never generated with a finally)
			}
			return fin()
		}
		if m.R.Sig == 1 {
			if fg := fin(); fg != sNone {
				return fg
			}
		}
		return g
	case opModule:
		mod := newScope(s)
		s.v[st.Name] = mval{k: 'm', mod: mod}
		return m.block(st.Body, mod)
	case opFunc:
		s.v[st.Name] = mval{k: 'f', fn: &mfunc{lit: &fnlit{Params: st.Params, Body: st.Body}, env: s}}
	case opCall:
		f, ok := s.lookup(st.Name)
		if !ok {
			return sErr
		}
		var args []mval
		for _, a := range st.Args {
			v, ok := m.eval(a, s)
			if !ok {
				return sErr
			}
			args = append(args, v)
		}
		return m.call(f, args)
	case opAnonCall:
		f, _ := m.eval(st.E, s)
		// the arguments are expressions of the CALLER's scope
		var args []mval
		for _, a := range st.Args {
			v, ok := m.eval(a, s)
			if !ok {
				return sErr
			}
			args = append(args, v)
		}
		return m.call(f, args)
	case opUnpack:
		// every target follows the plain-assignment rule on its own
		s.assign("a", mval{k: 'i', n: st.N})
		s.assign("b", mval{k: 'i', n: st.N + 1})
	case opVarMulti:
		s.v["a"] = mval{k: 'i', n: st.N}
		s.v["b"] = mval{k: 'i', n: st.N + 1}
	default:
		panic("bad stmt")
	}
	return sNone
}

// outcome is everything that is compared between model and implementation.
type outcome struct {
	Log    []string
	A, B   string // top-level bindings of a and b after the run ("U" = unbound)
	Z      string // top-level binding of the end marker z
	Failed bool   // the run ended with an uncaught error
}

func (o outcome) String() string {
	return fmt.Sprintf("log=[%s] top{a=%s b=%s z=%s} error=%v", strings.Join(o.Log, " "), o.A, o.B, o.Z, o.Failed)
}

// runModel interprets prog under resolution r.
func runModel(prog []*stmt, r reso) (outcome, bool) {
	m := &machine{R: r}
	root := newScope(nil)
	g := m.block(prog, root)
	if m.timeout || m.outside {
		return outcome{}, false
	}
	o := outcome{Log: m.log, Failed: g == sErr || g == sBrk || g == sCont}
	get := func(n string) string {
		v, ok := root.v[n]
		return show(v, ok)
	}
	o.A, o.B, o.Z = get("a"), get("b"), get("z")
	return o, true
}

// matches compares an implementation outcome with a model outcome; "*" in a
// model log field matches anything.
func matches(model, impl outcome) bool {
	if model.A != impl.A || model.B != impl.B || model.Z != impl.Z || model.Failed != impl.Failed || len(model.Log) != len(impl.Log) {
		return false
	}
	for i := range model.Log {
		if model.Log[i] == impl.Log[i] {
			continue
		}
		if !strings.Contains(model.Log[i], "*") {
			return false
		}
		mt, mf := splitEntry(model.Log[i])
		it, itf := splitEntry(impl.Log[i])
		if mt != it || len(mf) != len(itf) {
			return false
		}
		for k := range mf {
			if mf[k] != "*" && mf[k] != itf[k] {
				return false
			}
		}
	}
	return true
}

func splitEntry(e string) (string, []string) {
	i := strings.IndexByte(e, ':')
	if i < 0 {
		return e, nil
	}
	return e[:i], strings.Split(e[i+1:], ",")
}
