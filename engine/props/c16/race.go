package c16

import (
	"github.com/mattn/anko/parser"
	"verif/engine/common"
)

// Free-running body of the supplementary race-detector pass: every pipeline
// program run on real goroutines.  The programs communicate through channels
// only, so a report of the detector with a frame of the interpreter means the
// interpreter itself shares memory between a goroutine and its starter (pooled
// argument slices, scratch values) without synchronisation.
func raceBody(c *common.Ctx, rep *common.RaceReport) {
	progs := append(append(facts(), detached()...), pipelines(c.Thorough())...)
	reps := 3
	common.ParallelFor(c, len(progs), func(i int) {
		p := progs[i]
		stmt, err := parser.ParseSrc(p.Src)
		if err != nil {
			return
		}
		for r := 0; r < reps; r++ {
			freeRun(stmt, p.Detached)
		}
		rep.Add(1, int64(reps))
	})
}
