// Package c16: script channels and goroutines deliver every message once, in
// order.  Pipeline programs are executed under the cooperative scheduler; all
// schedules at channel granularity (spawn, every channel operation, close,
// thread end) are enumerated with an iterated preemption bound; in every
// schedule the consumer must return exactly the sent sequence (converted to the
// element type), with no deadlock, error or panic.
package c16

import (
	"fmt"
	"reflect"
	"runtime"
	"sort"
	"strings"
	"time"

	"github.com/mattn/anko/ast"
	"github.com/mattn/anko/env"
	"github.com/mattn/anko/parser"
	"github.com/mattn/anko/vm"
	"verif/engine/common"
	"verif/engine/explore"
	"verif/engine/lib/stepctx"
	"verif/engine/lib/vmrun"
	"verif/engine/sched"
)

type program struct {
	Name   string   `json:"name"`
	Src    string   `json:"src"`
	Expect string   `json:"expect"`          // canonical rendering of the expected result ("" = see Check)
	Multi  []string `json:"multi,omitempty"` // several acceptable results (fan-in: checked by per-producer order instead)
	FanIn  bool     `json:"fanin,omitempty"`
	FanOut int      `json:"fanout,omitempty"` // n items must arrive exactly once at one of two consumers
	ErrOK  bool     `json:"err,omitempty"`    // the program is expected to end with an error (and no panic)
	Bound  int      `json:"bound"`
	Stages int      `json:"stages"`
	// LockPoints: also every lock operation of the environment is a schedule
	// point (interleavings inside the interpreter's own bookkeeping, e.g. between
	// the binding of two parameters of one invocation)
	LockPoints bool `json:"lockpoints,omitempty"`
	// Detached: the script only wires the pipeline up and returns its last
	// channel; the goroutines go on after the script's top level has ended and the
	// HOST takes the items out of that channel afterwards
	Detached bool `json:"detached,omitempty"`
}

// drain replaces a returned channel by the list of items the host finds in it,
// followed by "closed" or "open".  After a scheduled run every goroutine has
// finished or is blocked, so the receive is non-blocking (buffered channels are
// real channels under the scheduler); after a free run it waits for the close.
func drain(v interface{}, wait bool) interface{} {
	rv := reflect.ValueOf(v)
	if !rv.IsValid() || rv.Kind() != reflect.Chan {
		return v
	}
	out := []interface{}{}
	for {
		var x reflect.Value
		var ok bool
		if wait {
			x, ok = rv.Recv()
		} else {
			x, ok = rv.TryRecv()
		}
		if ok {
			out = append(out, x.Interface())
			continue
		}
		if x.IsValid() {
			return append(out, "closed")
		}
		return append(out, "open")
	}
}

func render(v interface{}) string {
	switch t := v.(type) {
	case nil:
		return "nil"
	case []interface{}:
		var parts []string
		for _, x := range t {
			parts = append(parts, render(x))
		}
		return "[" + strings.Join(parts, " ") + "]"
	}
	return fmt.Sprintf("%T:%v", v, v)
}

type elem struct {
	typ    string
	items  []string      // source spellings
	expect []interface{} // what must arrive
}

var elems = []elem{
	{"int64", []string{"1", "2.7", "3"}, []interface{}{int64(1), int64(2), int64(3)}},
	{"string", []string{`"a"`, `"b"`, `"c"`}, []interface{}{"a", "b", "c"}},
	{"interface", []string{"1", `"b"`, "2.5"}, []interface{}{int64(1), "b", float64(2.5)}},
	{"float64", []string{"1", "2.5", "3"}, []interface{}{float64(1), float64(2.5), float64(3)}},
}

func consumer(form int, ch string) string {
	switch form {
	case 0:
		return "for v in " + ch + " { r += v }"
	case 1:
		return "for { v = (<-" + ch + "); if v == nil { break }; r += v }"
	case 2:
		return "for { v, ok = <-" + ch + "; if !ok { break }; r += v }"
	default:
		// leave a range loop early, then range over the same channel again:
		// nothing that was waiting in the channel may be lost
		return "for v in " + ch + " { r += v; break }\nfor v in " + ch + " { r += v }"
	}
}

func pipelines(thorough bool) []program {
	var ps []program
	caps := []int{0, 1, 2}
	add := func(stageCaps []int, el elem, n, form, bound int) {
		var b strings.Builder
		for i, c := range stageCaps {
			fmt.Fprintf(&b, "c%d = make(chan %s, %d)\n", i, el.typ, c)
		}
		fmt.Fprintf(&b, "go func() { for v in [%s] { c0 <- v }; close(c0) }()\n", strings.Join(el.items[:n], ", "))
		for i := 1; i < len(stageCaps); i++ {
			fmt.Fprintf(&b, "go func() { for v in c%d { c%d <- v }; close(c%d) }()\n", i-1, i, i)
		}
		b.WriteString("r = []\n")
		b.WriteString(consumer(form, fmt.Sprintf("c%d", len(stageCaps)-1)) + "\n")
		b.WriteString("r\n")
		name := fmt.Sprintf("pipe/%s/caps%v/n%d/form%d", el.typ, stageCaps, n, form)
		ps = append(ps, program{Name: name, Src: b.String(), Expect: render(el.expect[:n]), Bound: bound, Stages: len(stageCaps)})
	}
	b1, b2, b3 := 2, 2, 2
	if thorough {
		b1, b2, b3 = -1, -1, 3
	}
	for _, c := range caps {
		for _, el := range elems {
			for n := 1; n <= 3; n++ {
				for form := 0; form < 4; form++ {
					add([]int{c}, el, n, form, b1)
				}
			}
		}
	}
	for _, c0 := range caps {
		for _, c1 := range caps {
			for _, el := range elems[:3] {
				for n := 2; n <= 3; n++ {
					for form := 0; form < 3; form++ {
						if !thorough && (n == 3 && form != 0) {
							continue
						}
						add([]int{c0, c1}, el, n, form, b2)
					}
				}
			}
		}
	}
	for _, c0 := range caps {
		for _, c1 := range caps {
			for _, c2 := range caps {
				add([]int{c0, c1, c2}, elems[0], 2, 0, b3)
			}
		}
	}
	// relay form `dst <- src` (receive and send in one statement) between channels
	// of equal and of different element types: the value must be converted
	relays := []struct {
		from, to string
		items    []string
		expect   []interface{}
	}{
		{"int64", "int64", []string{"1", "2"}, []interface{}{int64(1), int64(2)}},
		{"int64", "float64", []string{"1", "2"}, []interface{}{float64(1), float64(2)}},
		{"float64", "int64", []string{"1.5", "2"}, []interface{}{int64(1), int64(2)}},
		{"interface", "int64", []string{"1", "2.7"}, []interface{}{int64(1), int64(2)}},
		{"int64", "interface", []string{"1", "2"}, []interface{}{int64(1), int64(2)}},
	}
	for _, rl := range relays {
		for _, c := range caps {
			for _, dbl := range []bool{false, true} {
				mid := "c1 <- c0"
				if dbl {
					mid = "c1 <- <-c0"
				}
				src := fmt.Sprintf("c0 = make(chan %s, %d)\nc1 = make(chan %s, %d)\n", rl.from, c, rl.to, c) +
					fmt.Sprintf("go func() { for v in [%s] { c0 <- v }; close(c0) }()\n", strings.Join(rl.items, ", ")) +
					fmt.Sprintf("go func() { for i = 0; i < %d; i++ { %s }; close(c1) }()\n", len(rl.items), mid) +
					"r = []\nfor v in c1 { r += v }\nr\n"
				ps = append(ps, program{Name: fmt.Sprintf("relay/%s-%s/cap%d/dbl%v", rl.from, rl.to, c, dbl), Src: src, Expect: render(rl.expect), Bound: b2, Stages: 2})
			}
		}
	}
	// the same function value entered from two goroutines at once: invocations
	// must not share argument storage (explored at lock granularity)
	for _, np := range []int{1, 2, 4, 5} {
		params := []string{"a", "b", "c", "d", "e"}[:np]
		sum := strings.Join(params, " + ")
		args1 := strings.Join([]string{"1", "2", "3", "4", "5"}[:np], ", ")
		args2 := strings.Join([]string{"10", "20", "30", "40", "50"}[:np], ", ")
		w1, w2 := []int64{1, 3, 0, 10, 15}[np-1], []int64{10, 30, 0, 100, 150}[np-1]
		src := "out = make(chan interface, 2)\n" +
			fmt.Sprintf("func add(%s) { return %s }\n", strings.Join(params, ", "), sum) +
			fmt.Sprintf("go func() { out <- add(%s) }()\n", args1) +
			fmt.Sprintf("go func() { out <- add(%s) }()\n", args2) +
			"x = <-out\ny = <-out\nif x > y { [y, x] } else { [x, y] }\n"
		ps = append(ps, program{Name: fmt.Sprintf("shared-func/params%d", np), Src: src, Expect: render([]interface{}{w1, w2}), Bound: 2, Stages: 1, LockPoints: true})
		src2 := "out = make(chan interface, 2)\n" +
			fmt.Sprintf("func stage(%s) { out <- %s }\n", strings.Join(params, ", "), sum) +
			fmt.Sprintf("go stage(%s)\n", args1) +
			fmt.Sprintf("go stage(%s)\n", args2) +
			"x = <-out\ny = <-out\nif x > y { [y, x] } else { [x, y] }\n"
		ps = append(ps, program{Name: fmt.Sprintf("shared-go-func/params%d", np), Src: src2, Expect: render([]interface{}{w1, w2}), Bound: 2, Stages: 1, LockPoints: true})
	}
	// fan-out: one producer, two consumers using the receive EXPRESSION; every
	// item must arrive exactly once at one of them and no consumer may see nil
	// before the channel is closed
	for _, c := range caps {
		for n := 2; n <= 3; n++ {
			items := []string{"1", "2", "3"}[:n]
			// the channel is never closed and the workers do a fixed number of
			// receives (1 and n-1): every receive expression must yield an item
			src := fmt.Sprintf("c = make(chan int64, %d)\nout = make(chan interface, %d)\n", c, n+1) +
				fmt.Sprintf("go func() { for v in [%s] { c <- v } }()\n", strings.Join(items, ", ")) +
				"func worker(k) { for i = 0; i < k; i++ { out <- (<-c) } }\n" +
				fmt.Sprintf("go worker(1)\ngo worker(%d)\n", n-1) +
				fmt.Sprintf("r = []\nfor i = 0; i < %d; i++ { x = <-out; r += x }\nr\n", n)
			bound := 2
			if thorough {
				bound = 3
			}
			ps = append(ps, program{Name: fmt.Sprintf("fanout/cap%d/n%d", c, n), Src: src, FanOut: n, Bound: bound, Stages: 1})
		}
	}
	// fan-out with RANGE loops: two workers range over one buffered channel; a
	// worker's loop may only end because the channel was closed, i.e. after the
	// producer announced its last item (`sent` is written before every send)
	for _, c := range caps {
		if c == 0 {
			continue
		}
		for n := 2; n <= 3; n++ {
			src := fmt.Sprintf("c = make(chan int64, %d)\nout = make(chan interface, 4)\nsent = 0\n", c) +
				fmt.Sprintf("go func() { for i = 0; i < %d; i++ { sent = i + 1; c <- i }; close(c) }()\n", n) +
				"func worker() { k = 0; for v in c { k = k + 1 }; out <- [sent, k] }\n" +
				"go worker()\ngo worker()\n" +
				"a = <-out\nb = <-out\n[a[0], b[0], a[1] + b[1]]\n"
			bound := 2
			if thorough {
				bound = 3
			}
			ps = append(ps, program{Name: fmt.Sprintf("fanout-range/cap%d/n%d", c, n), Src: src, Expect: render([]interface{}{int64(n), int64(n), int64(n)}), Bound: bound, Stages: 1})
		}
	}
	// hand-off: the consumer passes its range variable to a goroutine per item; every
	// item must come out exactly once
	for _, c := range caps {
		n := 3
		src := fmt.Sprintf("c = make(chan int64, %d)\nout = make(chan interface, %d)\n", c, n+1) +
			"go func() { for v in [1, 2, 3] { c <- v }; close(c) }()\n" +
			"func handle(x) { out <- x }\n" +
			"for v in c { go handle(v) }\n" +
			fmt.Sprintf("r = []\nfor i = 0; i < %d; i++ { x = <-out; r += x }\nr\n", n)
		bound := 2
		if thorough {
			bound = 3
		}
		ps = append(ps, program{Name: fmt.Sprintf("handoff/cap%d", c), Src: src, FanOut: n, Bound: bound, Stages: 1})
	}
	// fan-in of two producers; a closer goroutine closes after both are done
	for _, c := range caps {
		for n := 1; n <= 2; n++ {
			itemsA := []string{"1", "2"}[:n]
			itemsB := []string{"10", "20"}[:n]
			src := fmt.Sprintf("c = make(chan int64, %d)\nd = make(chan bool, 2)\n", c) +
				fmt.Sprintf("go func() { for v in [%s] { c <- v }; d <- true }()\n", strings.Join(itemsA, ", ")) +
				fmt.Sprintf("go func() { for v in [%s] { c <- v }; d <- true }()\n", strings.Join(itemsB, ", ")) +
				"go func() { <-d; <-d; close(c) }()\n" +
				"r = []\nfor v in c { r += v }\nr\n"
			bound := 2
			if thorough {
				bound = 3
			}
			ps = append(ps, program{Name: fmt.Sprintf("fanin/cap%d/n%d", c, n), Src: src, FanIn: true, Expect: fmt.Sprint(n), Bound: bound, Stages: 1})
		}
	}
	return ps
}

// detached pipelines: the script starts the goroutines and returns the last
// channel at once; the host takes the items out after the run.  The last
// channel has room for every item, so no goroutine ever waits for the host.
func detached() []program {
	var ps []program
	for n := 1; n <= 3; n++ {
		var want []interface{}
		var items []string
		for i := 1; i <= n; i++ {
			want = append(want, int64(i))
			items = append(items, fmt.Sprint(i))
		}
		want = append(want, "closed")
		list := strings.Join(items, ", ")
		ps = append(ps,
			program{Name: fmt.Sprintf("detached/1stage/n%d", n), Detached: true, Bound: -1, Stages: 1, Expect: render(want),
				Src: fmt.Sprintf("out = make(chan int64, %d)\ngo func() { for v in [%s] { out <- v }; close(out) }()\nout\n", n, list)},
			program{Name: fmt.Sprintf("detached/2stage-range/n%d", n), Detached: true, Bound: 3, Stages: 2, Expect: render(want),
				Src: fmt.Sprintf("c = make(chan int64)\nout = make(chan int64, %d)\ngo func() { for v in [%s] { c <- v }; close(c) }()\ngo func() { for v in c { out <- v }; close(out) }()\nout\n", n, list)},
			program{Name: fmt.Sprintf("detached/2stage-forward/n%d", n), Detached: true, Bound: 3, Stages: 2, Expect: render(want),
				Src: fmt.Sprintf("c = make(chan int64, 1)\nout = make(chan int64, %d)\ngo func() { for v in [%s] { c <- v }; close(c) }()\ngo func(k) { for i = 0; i < k; i++ { out <- <-c }; close(out) }(%d)\nout\n", n, list, n)},
			program{Name: fmt.Sprintf("detached/func-arg/n%d", n), Detached: true, Bound: -1, Stages: 1, Expect: render(want),
				Src: fmt.Sprintf("func produce(o, l) { for v in l { o <- v }; close(o) }\nout = make(chan int64, %d)\ngo produce(out, [%s])\nout\n", n, list)},
		)
	}
	return ps
}

// sequential facts about closed channels and `go` argument evaluation
func facts() []program {
	return []program{
		{Name: "fact/recv-closed-nil", Src: "c = make(chan int64, 1)\nc <- 5\nclose(c)\n[(<-c), (<-c), (<-c)]", Expect: render([]interface{}{int64(5), nil, nil}), Bound: -1},
		{Name: "fact/recv-closed-ok-false-leaves-v", Src: "c = make(chan int64, 1)\nc <- 5\nclose(c)\nv, ok = <-c\nw = 7\nw, ok2 = <-c\n[v, ok, w, ok2]", Expect: render([]interface{}{int64(5), true, int64(7), false}), Bound: -1},
		{Name: "fact/send-closed-error", Src: "c = make(chan int64, 1)\nclose(c)\nc <- 1\n\"unreached\"", ErrOK: true, Bound: -1},
		{Name: "fact/double-close-error", Src: "c = make(chan int64, 1)\nclose(c)\nclose(c)\n\"unreached\"", ErrOK: true, Bound: -1},
		{Name: "fact/send-closed-unbuffered-error", Src: "c = make(chan int64)\nclose(c)\nc <- 1\n\"unreached\"", ErrOK: true, Bound: -1},
		{Name: "fact/range-closed-empty", Src: "c = make(chan string, 2)\nclose(c)\nr = []\nfor v in c { r += v }\nr", Expect: render([]interface{}{}), Bound: -1},
		{Name: "fact/range-drains-then-ends", Src: "c = make(chan string, 2)\nc <- \"x\"\nc <- \"y\"\nclose(c)\nr = []\nfor v in c { r += v }\nr", Expect: render([]interface{}{"x", "y"}), Bound: -1},
		{Name: "fact/range-break-keeps-buffered", Src: "c = make(chan int64, 4)\nc <- 1\nc <- 2\nc <- 3\nfor v in c { break }\n[(<-c), (<-c)]", Expect: render([]interface{}{int64(2), int64(3)}), Bound: -1},
		{Name: "fact/range-return-keeps-buffered", Src: "c = make(chan int64, 4)\nc <- 1\nc <- 2\nc <- 3\nfunc first() { for v in c { return v } }\na = first()\n[a, (<-c), (<-c)]", Expect: render([]interface{}{int64(1), int64(2), int64(3)}), Bound: -1},
		{Name: "fact/range-error-keeps-buffered", Src: "c = make(chan int64, 4)\nc <- 1\nc <- 2\nc <- 3\ntry { for v in c { throw \"x\" } } catch { }\n[(<-c), (<-c)]", Expect: render([]interface{}{int64(2), int64(3)}), Bound: -1},
		{Name: "fact/recv-stmt-then-expr", Src: "c = make(chan int64, 4)\nc <- 1\nc <- 2\nc <- 3\nv, ok = <-c\nw = <-c\n[v, ok, w, (<-c)]", Expect: render([]interface{}{int64(1), true, int64(2), int64(3)}), Bound: -1},
		// the range variable holds the item of ITS iteration, also when it is kept or handed on
		{Name: "fact/range-var-kept", Src: "c = make(chan int64, 4)\nc <- 1\nc <- 2\nc <- 3\nclose(c)\nfirst = nil\nn = 0\nfor v in c { if n == 0 { first = v }; n++ }\n[first, n]", Expect: render([]interface{}{int64(1), int64(3)}), Bound: -1},
		{Name: "fact/range-var-collected", Src: "c = make(chan string, 4)\nc <- \"a\"\nc <- \"b\"\nclose(c)\nkeep = []\nfor v in c { x = v; keep += [x] }\nkeep", Expect: render([]interface{}{"a", "b"}), Bound: -1},
		{Name: "fact/range-var-closure", Src: "c = make(chan int64, 4)\nc <- 1\nc <- 2\nclose(c)\nfs = []\nfor v in c { w = v; fs += func() { return w } }\n[fs[0](), fs[1]()]", Expect: "", Multi: []string{render([]interface{}{int64(1), int64(2)}), render([]interface{}{int64(2), int64(2)})}, Bound: -1},
		// go: arguments evaluated by the caller, before the start, in order
		{Name: "go/args-evaluated-by-caller", Src: "out = make(chan interface, 1)\nx = 1\ngo func(a) { out <- a }(x)\nx = 2\n<-out", Expect: render(int64(1)), Bound: -1},
		{Name: "go/args-order-and-capture", Src: "log = make(chan int64, 8)\nout = make(chan interface, 1)\nfunc p(i) { log <- i; return i }\ngo func(a, b) { out <- [a, b] }(p(1), p(2))\nlog <- 9\nr = <-out\n[<-log, <-log, <-log, r]", Expect: render([]interface{}{int64(1), int64(2), int64(9), []interface{}{int64(1), int64(2)}}), Bound: -1},
		{Name: "go/five-params-reflect-path", Src: "out = make(chan interface, 1)\nx = 1\ngo func(a, b, c, d, e) { out <- [a, e] }(x, 0, 0, 0, x + 1)\nx = 5\n<-out", Expect: render([]interface{}{int64(1), int64(2)}), Bound: -1},
		{Name: "go/variadic", Src: "out = make(chan interface, 1)\nx = 1\ngo func(a, b...) { out <- [a, b] }(x, x + 1, x + 2)\nx = 5\n<-out", Expect: render([]interface{}{int64(1), []interface{}{int64(2), int64(3)}}), Bound: -1},
		// ... also when an argument is read from a TYPED slot and the slot is stored to right after the go statement
		{Name: "go/args-from-typed-slot", Src: "out = make(chan interface, 1)\nxs = make([]int64, 1)\ngo func(a) { out <- a }(xs[0])\nxs[0] = 99\n<-out", Expect: render(int64(0)), Bound: -1},
		{Name: "go/args-from-typed-slot-reflect-path", Src: "out = make(chan interface, 1)\nxs = make([]int64, 2)\ngo func(a, b, c, d, e) { out <- [a, e] }(xs[0], 0, 0, 0, xs[1])\nxs[0] = 99\nxs[1] = 98\n<-out", Expect: render([]interface{}{int64(0), int64(0)}), Bound: -1},
		{Name: "go/args-from-struct-field", Src: "out = make(chan interface, 1)\nst = make(struct { A int64 })\nst.A = 5\nfunc f(a) { out <- a }\ngo f(st.A)\nst.A = 6\n<-out", Expect: render(int64(5)), Bound: -1},
		{Name: "fact/send-converts-to-named-element-type", Src: "c = make(chan Dur, 1)\nc <- 5\n<-c", Expect: render(time.Duration(5)), Bound: -1},
		{Name: "fact/send-converts-named-value-to-int64", Src: "d = make(Dur)\nc = make(chan int64, 1)\nc <- d\n<-c", Expect: render(int64(0)), Bound: -1},
		{Name: "fact/pipeline-of-named-element-type", Src: "c = make(chan Dur, 1)\nout = make(chan interface, 2)\ngo func() { for v in [1, 2] { c <- v }; close(c) }()\nr = []\nfor v in c { r += [v] }\nr", Expect: render([]interface{}{time.Duration(1), time.Duration(2)}), Bound: -1},
		{Name: "go/runs-concurrently", Src: "a = make(chan int64)\nb = make(chan int64)\ngo func() { a <- 1; v, ok = <-a; b <- v + 1 }()\nx = <-a\na <- x + 10\n<-b", Expect: render(int64(12)), Bound: -1},
	}
}

func newEnv() *env.Env {
	e := env.NewEnv()
	// a named scalar type (same kind as int64, another type): "converted to the
	// channel's element type" also when only the type, not the kind, differs
	e.DefineType("Dur", time.Duration(0))
	return e
}

func cfgFor(p program, record bool) vmrun.Config {
	cfg := vmrun.Config{Fuel: 600, MaxSteps: 4000, Record: record}
	if p.LockPoints {
		cfg.MaxSteps = 20000
		cfg.Setup = func(s *sched.Sched, ctx *stepctx.Ctx) { s.LockPoints = true }
	}
	return cfg
}

// check evaluates one outcome; returns "" when fine.
func check(p program, o vmrun.Outcome) (class, detail string) {
	if o.Panic != "" {
		return "panic", o.Panic
	}
	if len(o.GoPanics) > 0 {
		return "goroutine-panic", strings.Join(o.GoPanics, "; ")
	}
	switch o.Verdict {
	case sched.Deadlock:
		return "deadlock", fmt.Sprintf("main returned=%v blocked=%v", o.Returned, o.Blocked)
	case sched.StepLimit:
		return "step-limit", "execution did not finish within the step limit"
	case sched.Stuck:
		return "stuck", "a thread ran without reaching a schedule point"
	}
	if p.ErrOK {
		if o.Err == nil {
			return "no-error", "expected an error, got value " + render(o.Val)
		}
		return "", ""
	}
	if o.Err != nil {
		return "error", o.Err.Error()
	}
	if p.FanOut > 0 {
		l, ok := o.Val.([]interface{})
		if !ok || len(l) != p.FanOut {
			return "wrong-result", fmt.Sprintf("got %s want the %d items exactly once in some order", render(o.Val), p.FanOut)
		}
		seen := map[int64]bool{}
		for _, x := range l {
			i, ok := x.(int64)
			if !ok || i < 1 || i > int64(p.FanOut) || seen[i] {
				return "wrong-result", fmt.Sprintf("got %s want the %d items exactly once in some order", render(o.Val), p.FanOut)
			}
			seen[i] = true
		}
		return "", ""
	}
	if p.FanIn {
		l, ok := o.Val.([]interface{})
		if !ok {
			return "wrong-result", render(o.Val)
		}
		var a, b []int64
		for _, x := range l {
			i, ok := x.(int64)
			if !ok {
				return "wrong-result", render(o.Val)
			}
			if i < 10 {
				a = append(a, i)
			} else {
				b = append(b, i)
			}
		}
		n := 1
		if p.Expect == "2" {
			n = 2
		}
		wantA := []int64{1, 2}[:n]
		wantB := []int64{10, 20}[:n]
		if !reflect.DeepEqual(a, wantA) || !reflect.DeepEqual(b, wantB) {
			return "wrong-result", fmt.Sprintf("got %s want producer orders %v and %v", render(o.Val), wantA, wantB)
		}
		return "", ""
	}
	got := render(o.Val)
	if len(p.Multi) > 0 {
		for _, w := range p.Multi {
			if got == w {
				return "", ""
			}
		}
		return "wrong-result", "got " + got + " want one of " + strings.Join(p.Multi, " | ")
	}
	if got != p.Expect {
		return "wrong-result", "got " + got + " want " + p.Expect
	}
	return "", ""
}

type replayData struct {
	Program program `json:"program"`
	Choices []int   `json:"choices"`
}

func outcomeKey(o vmrun.Outcome) string {
	e := ""
	if o.Err != nil {
		e = "err"
	}
	return o.Verdict + "|" + render(o.Val) + "|" + e
}

// freeRun executes the program with real goroutines and channels.
func freeRun(stmt ast.Stmt, detached bool) (key string, timedOut bool) {
	type res struct {
		v   interface{}
		err error
	}
	done := make(chan res, 1)
	ctx := stepctx.New(-1)
	go func() {
		v, err := vm.RunContext(ctx, newEnv(), &vm.Options{Debug: false}, stmt)
		if detached && err == nil {
			v = drain(v, true)
		}
		done <- res{v, err}
	}()
	select {
	case r := <-done:
		e := ""
		if r.err != nil {
			e = "err"
		}
		return sched.OK + "|" + render(r.v) + "|" + e, false
	case <-time.After(60 * time.Second):
		ctx.Cancel()
		return "", true
	}
}

// plainEntry: the goroutine-free facts hold whichever entry point runs the script:
// once more through vm.Execute (a context that can never be cancelled, no
// scheduler installed), with a guard against a panic reaching the host.
func plainEntry(res *common.Result) {
	for _, p := range facts() {
		if hasGoStmt(p.Src) {
			continue
		}
		var o vmrun.Outcome
		done := make(chan vmrun.Outcome, 1)
		go func() {
			var r vmrun.Outcome
			defer func() {
				if x := recover(); x != nil {
					r.Panic = fmt.Sprint(x)
				}
				done <- r
			}()
			r.Val, r.Err = vm.Execute(newEnv(), nil, p.Src)
		}()
		select {
		case o = <-done:
			o.Verdict = sched.OK
			o.Returned = true
		case <-time.After(30 * time.Second):
			// these programs take microseconds; the scheduler-driven phase decides
			// deadlocks exhaustively, this is the guard that keeps the worker alive
			o.Verdict = sched.Deadlock
			o.Blocked = []string{"vm.Execute did not return within 30 s"}
		}
		res.Add("plain_entry_runs", 1)
		if cl, d := check(p, o); cl != "" {
			res.Violate(common.Violation{Class: cl + "/plain-entry/" + strings.SplitN(p.Name, "/", 2)[0], Case: "vm.Execute: " + p.Name + "\n" + p.Src, Detail: d, Replay: replayData{Program: p}})
		}
	}
}

func hasGoStmt(src string) bool { return strings.Contains(src, "go ") }

func run(c *common.Ctx) *common.Result {
	res := common.NewResult()
	if !c.Worker || c.Shard == 0 {
		plainEntry(res)
	}
	progs := append(append(facts(), detached()...), pipelines(c.Thorough())...)
	freeRuns := 30
	if c.Thorough() {
		freeRuns = 100
	}
	for pi, p := range progs {
		if !c.Mine(pi) {
			continue
		}
		if c.Expired() {
			res.Cap("soft deadline: not all programs explored")
			break
		}
		stmt, err := parser.ParseSrc(p.Src)
		if err != nil {
			res.Note("program does not parse (machinery): " + p.Name + ": " + err.Error())
			res.Cap("generated program does not parse")
			continue
		}
		outcomes := map[string]bool{}
		reported := map[string]bool{}
		bounds := []int{p.Bound}
		completed := -1
		for _, bound := range bounds {
			st := explore.DFS(explore.Options{Bound: bound, MaxExecs: 3000000, Deadline: c.Deadline}, func(r *explore.Run) bool {
				o := vmrun.Run(stmt, newEnv(), r, cfgFor(p, false))
				if p.Detached {
					o.Val = drain(o.Val, false)
				}
				res.Add("transitions", int64(o.Steps))
				if r.Err != nil {
					res.Note("replay divergence in " + p.Name + ": " + r.Err.Error())
					res.Cap("replay divergence (machinery)")
					return false
				}
				outcomes[outcomeKey(o)] = true
				if cl, d := check(p, o); cl != "" && !reported[cl] {
					choices := append([]int{}, r.Choices...)
					// replay the recorded schedule on a fresh instance before trusting the failure
					r2 := &explore.Run{Prefix: choices}
					o2 := vmrun.Run(stmt, newEnv(), r2, cfgFor(p, false))
					if p.Detached {
						o2.Val = drain(o2.Val, false)
					}
					if cl2, _ := check(p, o2); r2.Err != nil || cl2 != cl {
						res.Note(fmt.Sprintf("a failure of %s (%s) did not reproduce when its schedule was replayed (second run: %q): not reported", p.Name, cl, cl2))
						res.Cap("an execution did not replay identically (machinery)")
						return true
					}
					reported[cl] = true
					res.Violate(common.Violation{Class: cl + "/" + strings.SplitN(p.Name, "/", 2)[0], Case: p.Name + "\n" + p.Src, Detail: d + " | schedule=" + fmt.Sprint(choices),
						Replay: replayData{Program: p, Choices: choices}})
					// one counterexample per program is enough: stop exploring it (a
					// program that no longer terminates would otherwise be unrolled at
					// every one of its thousands of schedule points)
					return false
				}
				return o.Verdict != sched.Stuck
			})
			res.Add("schedules", st.Execs)
			res.Max("points", int64(st.MaxPoints))
			if st.Capped {
				res.Cap(fmt.Sprintf("execution cap/deadline hit in %s at bound %d", p.Name, bound))
			} else {
				completed = bound
			}
		}
		_ = completed
		res.Add("programs", 1)
		if p.Bound < 0 {
			res.Add("programs_all_schedules", 1)
		}
		res.Add("states", int64(len(outcomes)))
		res.Max("outcomes_per_program", int64(len(outcomes)))
		// conformance of the shims: free runs must land in the explored outcome set
		if len(reported) == 0 {
			for i := 0; i < freeRuns; i++ {
				runtime.GOMAXPROCS([]int{1, 2, 16}[i%3])
				k, to := freeRun(stmt, p.Detached)
				if to {
					res.Violate(common.Violation{Class: "conformance/free-run-hangs", Case: p.Name + "\n" + p.Src, Detail: "a free run (real goroutines) did not finish within 60 s although no explored schedule deadlocks",
						Replay: replayData{Program: p}})
					break
				}
				res.Add("free_runs", 1)
				if !outcomes[k] {
					var ks []string
					for o := range outcomes {
						ks = append(ks, o)
					}
					sort.Strings(ks)
					res.Violate(common.Violation{Class: "conformance/outcome-not-explored", Case: p.Name + "\n" + p.Src, Detail: "free run produced " + k + " but the explorer only saw " + strings.Join(ks, " , "),
						Replay: replayData{Program: p}})
					break
				}
			}
			runtime.GOMAXPROCS(2)
		}
		if pi%37 == 0 {
			res.Sample(map[string]interface{}{"program": p.Name, "source": p.Src, "bound": p.Bound, "distinct_outcomes": len(outcomes)})
		}
	}
	return res
}

func coverage(c *common.Ctx, r *common.Result) map[string]interface{} {
	return map[string]interface{}{
		"states":                        r.Counts["states"],
		"transitions":                   r.Counts["transitions"],
		"traces_validated_against_impl": r.Counts["free_runs"],
		"schedules":                     r.Counts["schedules"],
		"programs":                      r.Counts["programs"],
		"programs_all_schedules":        r.Counts["programs_all_schedules"],
		"max_schedule_points":           r.GetMax("points"),
		"rule":                          "pipeline programs (1-3 stages, channel capacities 0/1/2, element types int64/string/interface/float64 incl. values needing conversion, 1-3 items, three consumer forms, fan-in of two producers) plus sequential closed-channel and go-argument facts; every schedule at channel granularity within the preemption bound is executed on the real interpreter under the cooperative scheduler; states = distinct (program, outcome) pairs; transitions = scheduler steps; traces_validated_against_impl = free-running executions (real goroutines and channels, GOMAXPROCS 1/2/16) whose outcome was confirmed to lie in the explored outcome set (conformance of the channel shim)",
	}
}

func replay(c *common.Ctx, path string) int {
	var rd replayData
	if _, _, err := common.ReadReplay(path, &rd); err != nil {
		fmt.Println("cannot read replay:", err)
		return 2
	}
	stmt, err := parser.ParseSrc(rd.Program.Src)
	if err != nil {
		fmt.Println("parse:", err)
		return 2
	}
	var first string
	bad := false
	for round := 0; round < 2; round++ {
		r := &explore.Run{Prefix: rd.Choices}
		o := vmrun.Run(stmt, newEnv(), r, cfgFor(rd.Program, true))
		if rd.Program.Detached {
			o.Val = drain(o.Val, false)
		}
		if r.Err != nil {
			fmt.Println("replay diverged:", r.Err)
			return 2
		}
		cl, d := check(rd.Program, o)
		desc := fmt.Sprintf("verdict=%s val=%s err=%v class=%q %s", o.Verdict, render(o.Val), o.Err, cl, d)
		if round == 0 {
			first = desc
			fmt.Println(rd.Program.Src)
			for _, st := range o.Trace {
				fmt.Printf("  T%d %s\n", st.Thread, st.What)
			}
			fmt.Println(desc)
			bad = cl != ""
		} else if desc != first {
			fmt.Println("NONDETERMINISTIC replay:", desc)
			return 2
		}
	}
	if bad {
		return 1
	}
	return 0
}

func init() {
	common.Register(&common.Prop{
		ID: "C16", Level: "model_checking", Sharded: true, Run: run, Coverage: coverage, Replay: replay, Race: raceBody,
		Assumptions: []string{
			"schedule points: goroutine start, every channel operation (the rewritten reflect.Select), close, thread end; code between two points is atomic (one logical thread runs at a time)",
			"channel shadow semantics: buffered channels are driven through the real channel with non-blocking operations, unbuffered channels are a rendezvous performed by the scheduler; validated by free runs whose outcomes must lie in the explored set",
			"2-stage (quick) and 3-stage pipelines and fan-in use a preemption bound (2 quick / 3 thorough); 1- and 2-stage pipelines are explored without bound in thorough",
		},
	})
}
