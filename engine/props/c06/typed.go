package c06

// `in` over TYPED lists.  The untyped literal `[b]` of the main pass is a
// []interface{}; a script can also build []int64 / []float64 / []string
// (typed literals; results of range(), toIntSlice(), make()) and the host can
// define such slices.  Membership must still be the relation `==`: for every
// value a of the pool and every list `l` holding one pool value b that is
// representable in the element type,
//
//	a in l   must equal   a == l[0]
//
// where l[0] is the stored element as the VM reads it back.  Both sides are
// evaluated by the VM; nothing is assumed about conversions.

import (
	"fmt"

	vp "verif/engine/lib/valpool"
)

type listKind struct {
	name string // also the spelling of the type in a literal
	elem vp.Kind
	host bool // defined by the host with env.Define instead of a typed literal
}

var listKinds = []listKind{
	{"[]int64", vp.Int, false}, {"[]float64", vp.Float, false}, {"[]string", vp.Str, false},
	{"[]int64", vp.Int, true}, {"[]float64", vp.Float, true}, {"[]string", vp.Str, true},
}

func (lk listKind) String() string {
	if lk.host {
		return "host " + lk.name
	}
	return "literal " + lk.name
}

// build: the list text (literal, or the variable name l) and its binding.
func (lk listKind) build(b vp.Val) (text string, desc string, hostVal interface{}, ok bool) {
	switch lk.elem {
	case vp.Int:
		if b.K != vp.Int {
			return
		}
		hostVal = []int64{b.I}
	case vp.Float:
		switch {
		case b.K == vp.Float:
			hostVal = []float64{b.F}
		case b.K == vp.Int && b.I >= -vp.P53 && b.I <= vp.P53: // exactly representable
			hostVal = []float64{float64(b.I)}
		default:
			return
		}
	case vp.Str:
		if b.K != vp.Str {
			return
		}
		hostVal = []string{b.S}
	}
	if lk.host {
		return "l", fmt.Sprintf("l=%s{%s} ", lk.name, b.String()), hostVal, true
	}
	lit, can := b.Lit()
	if !can {
		return
	}
	return lk.name + "{" + lit + "}", "", nil, true
}

// typedObs evaluates `a in l` and `a == l[0]`.
func typedObs(mode string, lk listKind, a, b vp.Val) (in, eq tri, inDetail, cs string, ok bool) {
	tl, ldesc, hostVal, ok := lk.build(b)
	if !ok {
		return triNone, triNone, "", "", false
	}
	vars := map[string]interface{}{}
	if hostVal != nil {
		vars["l"] = hostVal
	}
	ta, prefix := "a", "a="+a.String()+" "
	if mode == "lit" {
		var can bool
		if ta, can = a.Operand(); !can {
			return triNone, triNone, "", "", false
		}
		prefix = ""
	} else {
		vars["a"] = a.Go()
	}
	inSrc := ta + " in " + tl
	eqSrc := ta + " == " + tl + "[0]"
	in, inDetail = evalSrc(inSrc, vars)
	eq, _ = evalSrc(eqSrc, vars)
	cs = inSrc
	if p := prefix + ldesc; p != "" {
		cs = p[:len(p)-1] + ": " + inSrc
	}
	return in, eq, inDetail, cs, true
}

func typedJudge(mode string, lk listKind, a, b entry) (f []finding, evals int, cs string) {
	in, eq, det, cs, ok := typedObs(mode, lk, a.v, b.v)
	if !ok {
		return nil, 0, ""
	}
	if eq != triTrue && eq != triFalse {
		return nil, 0, "" // the list could not be built or indexed: nothing to compare with
	}
	kinds := a.v.K.String() + "," + b.v.K.String()
	switch in {
	case triErr:
		f = append(f, finding{"typed-in", "no-boolean/in " + lk.String() + "/" + kinds, cs, det})
	case triTrue, triFalse:
		if in != eq {
			f = append(f, finding{"typed-in", "typed-in-differs-from-eq/" + lk.String() + "/" + kinds, cs,
				fmt.Sprintf("`a in l` gives %v but `a == l[0]` gives %v (l is a %s)", in, eq, lk.String())})
		}
	}
	return f, 2, cs
}
