package c06

import (
	"fmt"
	"math"

	"verif/engine/common"
	vp "verif/engine/lib/valpool"
)

// `switch` with SEVERAL cases uses the same relation as `==` for every case it
// tests, whatever the cases before it were: over every ordered triple (a, b, c)
// of a 33-value pool (operands reach the statement through variables),
//
//	switch a { case b: r = 1; case c: r = 2 }      r is 1 if a == b, else 2 if a == c, else 0
//	switch a { case b, c: r = 1 }                  r is 1 iff a == b or a == c
//	switch a { case b: r = 1; case c, b: r = 2 }   (a value listed twice)
//
// where `a == b` is the implementation's own answer on a fresh environment.
func switchPool() []vp.Val {
	return []vp.Val{
		vp.NilV(), vp.BoolV(true), vp.BoolV(false),
		vp.IntV(0), vp.IntV(1), vp.IntV(2), vp.IntV(7), vp.IntV(1000), vp.IntV(vp.P53 + 1),
		vp.FloatV(0), vp.FloatV(1), vp.FloatV(1.5), vp.FloatV(1000), vp.FloatV(float64(vp.P53)), vp.FloatV(math.NaN()),
		vp.StrV("1"), vp.StrV("1.0"), vp.StrV("01"), vp.StrV("+1"), vp.StrV("1e3"), vp.StrV("1000"), vp.StrV("1.5"), vp.StrV("0"), vp.StrV("7"),
		vp.StrV(""), vp.StrV("a"), vp.StrV("true"), vp.StrV("9007199254740993"),
		vp.SliceV(vp.IntV(1), vp.IntV(2)), vp.SliceV(vp.IntV(1)), vp.SliceV(),
		vp.MapV(vp.StrV("a"), vp.IntV(1)), vp.MapV(),
	}
}

type swReplay struct {
	Law     string `json:"law"`
	A, B, C vp.Val
	Form    int `json:"form"`
}

var swForms = []string{
	"r = 0; switch a { case b: r = 1; case c: r = 2 }; r == %d",
	"r = 0; switch a { case b, c: r = 1 }; r == %d",
	"r = 0; switch a { case b: r = 1; case c, b: r = 2 }; r == %d",
	"r = 0; switch a { case c: r = 2; default: r = 3; case b: r = 1 }; r == %d",
}

func swExpected(form int, ab, ac tri) int {
	switch form {
	case 0, 2:
		if ab == triTrue {
			return 1
		}
		if ac == triTrue {
			return 2
		}
		return 0
	case 1:
		if ab == triTrue || ac == triTrue {
			return 1
		}
		return 0
	default:
		if ac == triTrue {
			return 2
		}
		if ab == triTrue {
			return 1
		}
		return 3
	}
}

func swOne(form int, a, b, c vp.Val, ab, ac tri) (string, string) {
	want := swExpected(form, ab, ac)
	src := fmt.Sprintf(swForms[form], want)
	t, d := evalSrc(src, map[string]interface{}{"a": a.Go(), "b": b.Go(), "c": c.Go()})
	if t == triTrue {
		return "", ""
	}
	cs := "a=" + a.String() + " b=" + b.String() + " c=" + c.String() + ": " + src
	if t == triErr {
		return cs, d
	}
	return cs, fmt.Sprintf("`a == b` gives %v and `a == c` gives %v, so r must be %d; it is not", ab, ac, want)
}

func runMultiSwitch(c *common.Ctx, res *common.Result) {
	p := switchPool()
	n := len(p)
	eq := make([][]tri, n)
	common.ParallelFor(c, n, func(i int) {
		eq[i] = make([]tri, n)
		for j := 0; j < n; j++ {
			eq[i][j], _ = evalForm("var", fEq, p[i], p[j])
		}
	})
	type hit struct{ cs, d string }
	out := make([][]hit, n)
	forms := make([][]int, n)
	common.ParallelFor(c, n, func(i int) {
		for j := 0; j < n; j++ {
			for k := 0; k < n; k++ {
				if (eq[i][j] != triTrue && eq[i][j] != triFalse) || (eq[i][k] != triTrue && eq[i][k] != triFalse) {
					continue
				}
				for f := range swForms {
					res.Add("evaluations", 1)
					res.Add("evaluations:multi-case switch", 1)
					res.Add("distinct_nontrivial", 1)
					if cs, d := swOne(f, p[i], p[j], p[k], eq[i][j], eq[i][k]); cs != "" {
						out[i] = append(out[i], hit{cs, d})
						forms[i] = append(forms[i], f*n*n+j*n+k)
					}
				}
			}
		}
	})
	for i := 0; i < n; i++ {
		for x, h := range out[i] {
			code := forms[i][x]
			f, j, k := code/(n*n), (code/n)%n, code%n
			res.Violate(common.Violation{Class: "multi-case-switch-differs-from-eq/" + p[i].K.String() + "," + p[j].K.String() + "," + p[k].K.String(), Case: h.cs, Detail: h.d,
				Replay: swReplay{Law: "multi-switch", A: p[i], B: p[j], C: p[k], Form: f}})
		}
	}
}
