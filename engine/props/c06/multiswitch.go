package c06

import (
	"fmt"
	"math"
	"strings"

	"verif/engine/common"
	vp "verif/engine/lib/valpool"
)

// `switch` with SEVERAL cases uses the same relation as `==` for every case it
// tests, whatever the cases before it were: over every ordered triple (a, b, c)
// of a 33-value pool (operands reach the statement through variables),
//
//	switch a { case b: r = 1; case c: r = 2 }      r is 1 if a == b, else 2 if a == c, else 0
//	switch a { case b, c: r = 1 }                  r is 1 iff a == b or a == c
//	switch a { case b: r = 1; case c, b: r = 2 }   (a value listed twice)
//
// where `a == b` is the implementation's own answer on a fresh environment.
func switchPool() []vp.Val {
	return []vp.Val{
		vp.NilV(), vp.BoolV(true), vp.BoolV(false),
		vp.IntV(0), vp.IntV(1), vp.IntV(2), vp.IntV(7), vp.IntV(1000), vp.IntV(vp.P53 + 1),
		vp.FloatV(0), vp.FloatV(1), vp.FloatV(1.5), vp.FloatV(1000), vp.FloatV(float64(vp.P53)), vp.FloatV(math.NaN()),
		vp.StrV("1"), vp.StrV("1.0"), vp.StrV("01"), vp.StrV("+1"), vp.StrV("1e3"), vp.StrV("1000"), vp.StrV("1.5"), vp.StrV("0"), vp.StrV("7"),
		vp.StrV(""), vp.StrV("a"), vp.StrV("true"), vp.StrV("9007199254740993"),
		vp.SliceV(vp.IntV(1), vp.IntV(2)), vp.SliceV(vp.IntV(1)), vp.SliceV(),
		vp.MapV(vp.StrV("a"), vp.IntV(1)), vp.MapV(),
	}
}

type swReplay struct {
	Law     string `json:"law"`
	A, B, C vp.Val
	Form    int `json:"form"`
}

var swForms = []string{
	"r = 0; switch a { case b: r = 1; case c: r = 2 }; r == %d",
	"r = 0; switch a { case b, c: r = 1 }; r == %d",
	"r = 0; switch a { case b: r = 1; case c, b: r = 2 }; r == %d",
	"r = 0; switch a { case c: r = 2; default: r = 3; case b: r = 1 }; r == %d",
}

func swExpected(form int, ab, ac tri) int {
	switch form {
	case 0, 2:
		if ab == triTrue {
			return 1
		}
		if ac == triTrue {
			return 2
		}
		return 0
	case 1:
		if ab == triTrue || ac == triTrue {
			return 1
		}
		return 0
	default:
		if ac == triTrue {
			return 2
		}
		if ab == triTrue {
			return 1
		}
		return 3
	}
}

func swOne(form int, a, b, c vp.Val, ab, ac tri) (string, string) {
	if form >= 100 {
		bLit, _ := b.Operand()
		src, ok := literalSwitchSrc(bLit, (form-100)/3, (form-100)%3, ab, fillerEq(a))
		if !ok {
			return "", ""
		}
		t, d := evalSrc(src, map[string]interface{}{"a": a.Go()})
		if t == triTrue {
			return "", ""
		}
		return "a=" + a.String() + ": " + src, d
	}
	want := swExpected(form, ab, ac)
	src := fmt.Sprintf(swForms[form], want)
	t, d := evalSrc(src, map[string]interface{}{"a": a.Go(), "b": b.Go(), "c": c.Go()})
	if t == triTrue {
		return "", ""
	}
	cs := "a=" + a.String() + " b=" + b.String() + " c=" + c.String() + ": " + src
	if t == triErr {
		return cs, d
	}
	return cs, fmt.Sprintf("`a == b` gives %v and `a == c` gives %v, so r must be %d; it is not", ab, ac, want)
}

// literalSwitch: a switch whose cases are all LITERALS, with 0..16 filler cases
// (integer and string literals equal to no pool value) around the one case that
// may equal the subject: whatever the number of cases, the case runs exactly
// when `a == b` says so (an interpreter may build a look-up table for large
// all-literal switches; the table has to use the language's relation).
func fillerLit(n int) string {
	if n%2 == 0 {
		return fmt.Sprint(7100 + n)
	}
	return fmt.Sprintf("\"q%d\"", 7100+n)
}

// literalSwitchCases lists the case literals in written order; index `at` is the
// case under test (the others are fillers 1..fillers).
func literalSwitchCases(bLit string, fillers, pos int) (lits []string, at int) {
	before := 0
	switch pos {
	case 1:
		before = fillers / 2
	case 2:
		before = fillers
	}
	n := 0
	for i := 0; i < before; i++ {
		n++
		lits = append(lits, fillerLit(n))
	}
	at = len(lits)
	lits = append(lits, bLit)
	for i := before; i < fillers; i++ {
		n++
		lits = append(lits, fillerLit(n))
	}
	return lits, at
}

// literalSwitchSrc renders the statement; fillEq[k] is the implementation's own
// `a == filler k` (a boolean subject equals every truthy filler, for instance):
// the expected r is that of the FIRST case equal to the subject.
func literalSwitchSrc(bLit string, fillers, pos int, ab tri, fillEq []tri) (string, bool) {
	lits, at := literalSwitchCases(bLit, fillers, pos)
	var sb []string
	want, decided, n := 0, false, 0
	for i, l := range lits {
		r := -1
		e := ab
		if i == at {
			r = 1
		} else {
			n++
			e = fillEq[n]
		}
		if e != triTrue && e != triFalse {
			return "", false
		}
		if e == triTrue && !decided {
			want, decided = r, true
		}
		sb = append(sb, fmt.Sprintf("case %s: r = %d", l, r))
	}
	return fmt.Sprintf("r = 0; switch a {\n%s\n}; r == %d", strings.Join(sb, "\n"), want), true
}

func fillerEq(a vp.Val) []tri {
	out := make([]tri, 17)
	for k := 1; k <= 16; k++ {
		out[k], _ = evalSrc("a == "+fillerLit(k), map[string]interface{}{"a": a.Go()})
	}
	return out
}

func runLiteralSwitch(c *common.Ctx, res *common.Result, p []vp.Val, eq [][]tri) {
	n := len(p)
	type hit struct {
		cs, d   string
		j, f, q int
	}
	out := make([][]hit, n)
	common.ParallelFor(c, n, func(i int) {
		fe := fillerEq(p[i])
		for j := 0; j < n; j++ {
			bLit, ok := p[j].Operand()
			if !ok || (eq[i][j] != triTrue && eq[i][j] != triFalse) {
				continue
			}
			for _, fillers := range []int{0, 3, 7, 8, 12, 16} {
				for pos := 0; pos < 3; pos++ {
					if fillers == 0 && pos > 0 {
						continue
					}
					src, ok := literalSwitchSrc(bLit, fillers, pos, eq[i][j], fe)
					if !ok {
						continue
					}
					res.Add("evaluations", 1)
					res.Add("evaluations:all-literal switch", 1)
					res.Add("distinct_nontrivial", 1)
					t, d := evalSrc(src, map[string]interface{}{"a": p[i].Go()})
					if t != triTrue {
						if t != triErr {
							d = fmt.Sprintf("`a == b` gives %v (and == decides the filler cases the same way): the first equal case does not run", eq[i][j])
						}
						out[i] = append(out[i], hit{"a=" + p[i].String() + ": " + strings.ReplaceAll(src, "\n", "; "), d, j, fillers, pos})
					}
				}
			}
		}
	})
	for i := 0; i < n; i++ {
		for _, h := range out[i] {
			res.Violate(common.Violation{Class: fmt.Sprintf("literal-switch-differs-from-eq/%d-fillers/", h.f) + p[i].K.String() + "," + p[h.j].K.String(), Case: h.cs, Detail: h.d,
				Replay: swReplay{Law: "multi-switch", A: p[i], B: p[h.j], C: p[h.j], Form: 100 + h.f*3 + h.q}})
		}
	}
}

func runMultiSwitch(c *common.Ctx, res *common.Result) {
	p := switchPool()
	n := len(p)
	eq := make([][]tri, n)
	common.ParallelFor(c, n, func(i int) {
		eq[i] = make([]tri, n)
		for j := 0; j < n; j++ {
			eq[i][j], _ = evalForm("var", fEq, p[i], p[j])
		}
	})
	type hit struct{ cs, d string }
	out := make([][]hit, n)
	forms := make([][]int, n)
	common.ParallelFor(c, n, func(i int) {
		for j := 0; j < n; j++ {
			for k := 0; k < n; k++ {
				if (eq[i][j] != triTrue && eq[i][j] != triFalse) || (eq[i][k] != triTrue && eq[i][k] != triFalse) {
					continue
				}
				for f := range swForms {
					res.Add("evaluations", 1)
					res.Add("evaluations:multi-case switch", 1)
					res.Add("distinct_nontrivial", 1)
					if cs, d := swOne(f, p[i], p[j], p[k], eq[i][j], eq[i][k]); cs != "" {
						out[i] = append(out[i], hit{cs, d})
						forms[i] = append(forms[i], f*n*n+j*n+k)
					}
				}
			}
		}
	})
	runLiteralSwitch(c, res, p, eq)
	for i := 0; i < n; i++ {
		for x, h := range out[i] {
			code := forms[i][x]
			f, j, k := code/(n*n), (code/n)%n, code%n
			res.Violate(common.Violation{Class: "multi-case-switch-differs-from-eq/" + p[i].K.String() + "," + p[j].K.String() + "," + p[k].K.String(), Case: h.cs, Detail: h.d,
				Replay: swReplay{Law: "multi-switch", A: p[i], B: p[j], C: p[k], Form: f}})
		}
	}
}
