// Package c06: equality is one coherent relation.
//
// Bounded exhaustive enumeration of ALL ordered pairs of a value pool (nil,
// booleans, the int64/float64 boundary pools, decimal-numeral strings, lenient
// and non-numeral strings, nested untyped slices and maps) in every syntactic
// use of the relation (`a == b`, `a != b`, `a in [b]`, `switch a { case b: }`)
// with the operands reaching the operator as literals and as variables.
//
// Oracle, exactly the property text:
//
//	laws (every pair): `==` symmetric; `!=` its exact negation; `in` and
//	  `switch` agree with `==`.
//	relation (only where the text defines it): same primitive type => Go's ==;
//	  int vs float => the VM's own `a <= b && a >= b`; nil equals only nil;
//	  containers structurally; string vs number => the string is a decimal
//	  numeral denoting that number.
//
// Everything else (bool vs non-bool, container vs primitive, slice vs map,
// int-vs-float or string-vs-number INSIDE containers, strings such as "1e3",
// "inf", "+1", "1_0", "01", ".5", "-0" whose status as "decimal numeral" is
// debatable) is under-determined: laws only.
package c06

import (
	"fmt"
	"math"
	"math/big"
	"regexp"
	"sort"
	"strconv"
	"strings"
	"sync/atomic"

	"github.com/mattn/anko/env"
	"github.com/mattn/anko/vm"

	"verif/engine/common"
	vp "verif/engine/lib/valpool"
)

// ---------- pool ----------

type entry struct {
	v vp.Val
	// class refines the kind for strings: numeral (strict decimal numeral),
	// lenient (laws only), nonnumeral (never equal to a number)
	class string
}

var strictNumeral = regexp.MustCompile(`^-?(0|[1-9][0-9]*)(\.[0-9]+)?$`)

func pool(thorough bool) []entry {
	var p []entry
	add := func(class string, vs ...vp.Val) {
		for _, v := range vs {
			p = append(p, entry{v: v, class: class})
		}
	}
	add("nil", vp.NilV())
	add("bool", vp.BoolV(true), vp.BoolV(false))
	for _, i := range []int64{
		0, 1, -1, 2, 3, 10, 16, 1000, 4095, 4096,
		99999, 100000, 999999, 1000000, -1000000, 1000001,
		vp.P31, vp.P53 - 1, vp.P53, vp.P53 + 1, -vp.P53,
		math.MaxInt64, math.MinInt64, math.MinInt64 + 1,
	} {
		add("int", vp.IntV(i))
	}
	for _, f := range []float64{
		0, math.Copysign(0, -1), 0.5, 1, -1, 1.5, 2, 3, 10, 16, 1000, 4096,
		99999, 100000, 999999, 1e6, -1e6, 1000000.5,
		float64(vp.P31), float64(vp.P53), float64(vp.P53) + 2, 9223372036854775808.0, -9223372036854775808.0,
		1e21, 1e308, math.Inf(1), math.Inf(-1), math.NaN(),
	} {
		add("float", vp.FloatV(f))
	}
	for _, s := range []string{
		"0", "1", "-1", "2", "10", "16", "1.0", "1.5", "0.5", "1000", "4096",
		"100000", "1000000", "1000000.0", "-1000000", "1000000.5",
		"9007199254740992", "9007199254740993", "9223372036854775807", "-9223372036854775808",
	} {
		if !strictNumeral.MatchString(s) || s == "-0" {
			panic("c06 pool: not a strict numeral: " + s)
		}
		add("numeral", vp.StrV(s))
	}
	for _, s := range []string{"1e3", "1E3", "1e6", "inf", "+Inf", "Infinity", "nan", "NaN", "+1", "1_0", "01", ".5", "5.", "-0"} {
		add("lenient", vp.StrV(s))
	}
	for _, s := range []string{"", "a", "abc", "true", "false", "nil", "0x10", "0b11", "0x1p4", " 1", "1 ", "1 000", "1a", "--1", "1.5.5"} {
		add("nonnumeral", vp.StrV(s))
	}
	I, S, F := vp.IntV, vp.StrV, vp.FloatV
	add("slice",
		vp.SliceV(), vp.SliceV(I(1)), vp.SliceV(I(2)), vp.SliceV(I(1), I(2)), vp.SliceV(I(2), I(1)),
		vp.SliceV(S("a")), vp.SliceV(S("1")), vp.SliceV(F(1.5)), vp.SliceV(F(1)), vp.SliceV(vp.BoolV(true)), vp.SliceV(vp.NilV()),
		vp.SliceV(I(1000000)), vp.SliceV(vp.SliceV()), vp.SliceV(vp.SliceV(I(1))), vp.SliceV(vp.SliceV(I(1)), vp.SliceV(I(2))),
		vp.SliceV(vp.MapV(S("a"), I(1))), vp.SliceV(I(1), S("a"), vp.NilV()),
	)
	add("map",
		vp.MapV(), vp.MapV(S("a"), I(1)), vp.MapV(S("a"), I(2)), vp.MapV(S("b"), I(1)),
		vp.MapV(S("a"), I(1), S("b"), I(2)), vp.MapV(S("b"), I(2), S("a"), I(1)),
		vp.MapV(S("a"), vp.SliceV(I(1))), vp.MapV(S("a"), vp.MapV(S("b"), I(1))), vp.MapV(S("a"), vp.NilV()),
		vp.MapV(I(1), S("a")), vp.MapV(S("1"), S("a")), vp.MapV(S("a"), F(1)),
	)
	if thorough {
		add("slice",
			vp.SliceV(vp.SliceV(vp.SliceV(I(1)))), vp.SliceV(vp.SliceV(vp.SliceV(I(2)))),
			vp.SliceV(vp.MapV(S("a"), vp.SliceV(I(1)))), vp.SliceV(vp.SliceV(vp.SliceV(I(1))), vp.SliceV(I(2))),
			vp.SliceV(vp.SliceV(vp.MapV(S("a"), I(1)))),
		)
		add("map",
			vp.MapV(S("a"), vp.MapV(S("b"), vp.SliceV(I(1)))), vp.MapV(S("a"), vp.MapV(S("b"), vp.SliceV(I(2)))),
			vp.MapV(S("a"), vp.SliceV(vp.MapV(S("b"), I(1)))), vp.MapV(S("a"), vp.MapV(S("b"), vp.MapV(S("c"), I(1)))),
		)
	}
	return p
}

// ---------- reference relation ----------

// structural: containers compare structurally, leaves of identical primitive
// type by Go's ==, nil only nil.  det=false: under-determined by the text.
func structural(a, b vp.Val) (eq, det bool) {
	switch {
	case a.K == vp.Nil && b.K == vp.Nil:
		return true, true
	case a.K == vp.Nil || b.K == vp.Nil:
		return false, true
	case a.K != b.K:
		return false, false
	}
	switch a.K {
	case vp.Bool:
		return a.B == b.B, true
	case vp.Int:
		return a.I == b.I, true
	case vp.Float:
		return a.F == b.F, true
	case vp.Str:
		return a.S == b.S, true
	case vp.Slice:
		if len(a.Elems) != len(b.Elems) {
			return false, true
		}
		undet := false
		for i := range a.Elems {
			e, d := structural(a.Elems[i], b.Elems[i])
			if d && !e {
				return false, true
			}
			if !d {
				undet = true
			}
		}
		return !undet, !undet
	case vp.Map:
		// keys are comparable only when all keys of both maps have one kind
		kk := vp.Kind(-1)
		for _, k := range append(append([]vp.Val{}, a.Keys...), b.Keys...) {
			if k.K != vp.Str && k.K != vp.Int {
				return false, false
			}
			if kk == -1 {
				kk = k.K
			} else if kk != k.K {
				return false, false
			}
		}
		if len(a.Keys) != len(b.Keys) {
			return false, true
		}
		undet := false
		for i, k := range a.Keys {
			found := -1
			for j, k2 := range b.Keys {
				if k.K == k2.K && k.I == k2.I && k.S == k2.S {
					found = j
				}
			}
			if found < 0 {
				return false, true
			}
			e, d := structural(a.Vals[i], b.Vals[found])
			if d && !e {
				return false, true
			}
			if !d {
				undet = true
			}
		}
		return !undet, !undet
	}
	return false, false
}

// numeralDenotes: does the strict decimal numeral s denote the number x?  Two
// readings ("exactly" and "to the nearest float64"); determined only when
// they agree.
func numeralDenotes(s string, x vp.Val) (eq, det bool) {
	r, okr := new(big.Rat).SetString(s)
	f, err := strconv.ParseFloat(s, 64)
	if !okr || err != nil {
		return false, false
	}
	var exact, nearest bool
	switch x.K {
	case vp.Int:
		exact = r.Cmp(new(big.Rat).SetInt64(x.I)) == 0
		nearest = f == float64(x.I)
	case vp.Float:
		if math.IsNaN(x.F) || math.IsInf(x.F, 0) {
			return false, true // no decimal numeral denotes NaN or an infinity
		}
		exact = r.Cmp(new(big.Rat).SetFloat64(x.F)) == 0
		nearest = f == x.F
	}
	return exact, exact == nearest
}

// reference returns what `a == b` must be, the sub-rule that says so, and
// whether the property determines it.  ord is the VM's own `a <= b && a >= b`
// (tri-state), used for int-vs-float as the property words it.
func reference(a, b entry, ord tri) (want bool, rule string, det bool) {
	ak, bk := a.v.K, b.v.K
	num := func(k vp.Kind) bool { return k == vp.Int || k == vp.Float }
	switch {
	case ak == vp.Nil || bk == vp.Nil:
		return ak == vp.Nil && bk == vp.Nil, "nil-only-nil", true
	case ak == bk && (ak == vp.Bool || ak == vp.Int || ak == vp.Float || ak == vp.Str):
		e, _ := structural(a.v, b.v)
		return e, "same-type-go-eq", true
	case num(ak) && num(bk): // one int, one float
		if ord == triErr {
			return false, "", false
		}
		return ord == triTrue, "int-float-le-ge", true
	case ak == vp.Str && num(bk), num(ak) && bk == vp.Str:
		s, n := a, b
		if bk == vp.Str {
			s, n = b, a
		}
		switch s.class {
		case "nonnumeral":
			return false, "string-not-a-decimal-numeral", true
		case "numeral":
			e, d := numeralDenotes(s.v.S, n.v)
			return e, "string-decimal-numeral", d
		}
		return false, "", false
	case ak == bk && (ak == vp.Slice || ak == vp.Map):
		e, d := structural(a.v, b.v)
		return e, "structural", d
	}
	return false, "", false
}

// ---------- observation ----------

type tri int8

const (
	triFalse tri = iota
	triTrue
	triErr  // error, panic or a non-boolean result
	triNone // not evaluated (no literal spelling in this mode)
)

func (t tri) String() string { return [...]string{"false", "true", "error", "-"}[t] }

const (
	fEq = iota
	fNe
	fIn
	fSw
	fOrd
	nForms
)

var formNames = [nForms]string{"==", "!=", "in", "switch", "<=&&>="}

func formSrc(form int, a, b string) string {
	switch form {
	case fEq:
		return a + " == " + b
	case fNe:
		return a + " != " + b
	case fIn:
		return a + " in [" + b + "]"
	case fSw:
		return "r = false; switch " + a + " { case " + b + ": r = true }; r"
	case fOrd:
		return a + " <= " + b + " && " + a + " >= " + b
	}
	panic("form")
}

// modes: how the two operands reach the operator
var modesQuick = []string{"lit", "var"}
var modesThorough = []string{"lit", "var", "lit-var", "var-lit", "elem"}

// operands returns the operand texts and the variable bindings for a mode;
// ok=false when a needed literal has no spelling.
func operands(mode string, a, b vp.Val) (ta, tb string, vars map[string]interface{}, ok bool) {
	vars = map[string]interface{}{}
	lit := func(v vp.Val) (string, bool) { return v.Operand() }
	switch mode {
	case "lit":
		var ok1, ok2 bool
		ta, ok1 = lit(a)
		tb, ok2 = lit(b)
		return ta, tb, vars, ok1 && ok2
	case "var":
		vars["a"], vars["b"] = a.Go(), b.Go()
		return "a", "b", vars, true
	case "lit-var":
		ta, ok = lit(a)
		vars["b"] = b.Go()
		return ta, "b", vars, ok
	case "var-lit":
		tb, ok = lit(b)
		vars["a"] = a.Go()
		return "a", tb, vars, ok
	case "elem": // both values sit behind interface-typed slice elements
		vars["s"] = []interface{}{a.Go(), b.Go()}
		return "s[0]", "s[1]", vars, true
	}
	panic("mode")
}

func caseText(mode string, form int, a, b vp.Val) string {
	ta, tb, _, _ := operands(mode, a, b)
	src := formSrc(form, ta, tb)
	switch mode {
	case "lit":
		return src
	case "var":
		return "a=" + a.String() + " b=" + b.String() + ": " + src
	case "lit-var":
		return "b=" + b.String() + ": " + src
	case "var-lit":
		return "a=" + a.String() + ": " + src
	}
	return "s=[" + a.String() + ", " + b.String() + "]: " + src
}

func evalForm(mode string, form int, a, b vp.Val) (t tri, detail string) {
	ta, tb, vars, ok := operands(mode, a, b)
	if !ok {
		return triNone, ""
	}
	return evalSrc(formSrc(form, ta, tb), vars)
}

// evalSrc runs one program on a fresh environment and reads a boolean.
func evalSrc(src string, vars map[string]interface{}) (t tri, detail string) {
	defer func() {
		if r := recover(); r != nil {
			t, detail = triErr, fmt.Sprintf("panic: %v", r)
		}
	}()
	e := env.NewEnv()
	names := make([]string, 0, len(vars))
	for n := range vars {
		names = append(names, n)
	}
	sort.Strings(names)
	for _, n := range names {
		e.Define(n, vars[n])
	}
	v, err := vm.Execute(e, nil, src)
	if err != nil {
		return triErr, "error: " + err.Error()
	}
	bv, isBool := v.(bool)
	if !isBool {
		return triErr, "non-boolean result " + vp.Describe(v)
	}
	if bv {
		return triTrue, ""
	}
	return triFalse, ""
}

type obs [nForms]tri

func observe(mode string, a, b entry) (o obs, details [nForms]string) {
	for f := 0; f < nForms; f++ {
		if f == fOrd {
			ak, bk := a.v.K, b.v.K
			if !((ak == vp.Int && bk == vp.Float) || (ak == vp.Float && bk == vp.Int)) {
				o[f] = triNone
				continue
			}
		}
		o[f], details[f] = evalForm(mode, f, a.v, b.v)
	}
	return
}

// ---------- laws ----------

type rcase struct {
	Mode string `json:"mode"`
	A    vp.Val `json:"a"`
	AC   string `json:"a_class"`
	B    vp.Val `json:"b"`
	BC   string `json:"b_class"`
	Law  string `json:"law"`
	List int    `json:"list,omitempty"` // index into listKinds, for law "typed-in"
	// laws "alias:*": operands are aliasOps()[AI], aliasOps()[AJ] from Origin
	Origin string `json:"origin,omitempty"`
	AI     int    `json:"ai,omitempty"`
	AJ     int    `json:"aj,omitempty"`
}

type finding struct {
	law, class, cs, detail string
}

// judge applies every law to one ordered pair.  ab is the observation of
// (a,b), ba of (b,a).  sym is reported only when wantSym (so that each
// unordered pair is reported once).
func judge(mode string, a, b entry, ab, ba obs, det [nForms]string, wantSym bool) []finding {
	var out []finding
	kinds := a.v.K.String() + "," + b.v.K.String()
	for f := 0; f < nForms; f++ {
		if ab[f] == triErr {
			out = append(out, finding{"error:" + formNames[f], "no-boolean/" + formNames[f] + "/" + kinds, caseText(mode, f, a.v, b.v), det[f]})
		}
	}
	eq := ab[fEq]
	if eq != triTrue && eq != triFalse {
		return out
	}
	neg := triTrue
	if eq == triTrue {
		neg = triFalse
	}
	if ab[fNe] == triTrue || ab[fNe] == triFalse {
		if ab[fNe] != neg {
			out = append(out, finding{"neq", "neq-not-negation/" + kinds, caseText(mode, fNe, a.v, b.v),
				fmt.Sprintf("`!=` gives %v but `==` gives %v on the same operands", ab[fNe], eq)})
		}
	}
	if ab[fIn] == triTrue || ab[fIn] == triFalse {
		if ab[fIn] != eq {
			out = append(out, finding{"in", "in-differs-from-eq/" + kinds, caseText(mode, fIn, a.v, b.v),
				fmt.Sprintf("`a in [b]` gives %v but `a == b` gives %v", ab[fIn], eq)})
		}
	}
	if ab[fSw] == triTrue || ab[fSw] == triFalse {
		if ab[fSw] != eq {
			out = append(out, finding{"switch", "switch-differs-from-eq/" + kinds, caseText(mode, fSw, a.v, b.v),
				fmt.Sprintf("`switch a { case b: }` matches=%v but `a == b` gives %v", ab[fSw], eq)})
		}
	}
	if wantSym && (ba[fEq] == triTrue || ba[fEq] == triFalse) && ba[fEq] != eq {
		out = append(out, finding{"sym", "asymmetric/" + kinds, caseText(mode, fEq, a.v, b.v) + "   vs   " + caseText(mode, fEq, b.v, a.v),
			fmt.Sprintf("`a == b` gives %v but `b == a` gives %v", eq, ba[fEq])})
	}
	if want, rule, d := reference(a, b, ab[fOrd]); d {
		if (eq == triTrue) != want {
			detail := fmt.Sprintf("`a == b` gives %v; the property (%s) says %v", eq, rule, want)
			if rule == "int-float-le-ge" {
				detail = fmt.Sprintf("`a == b` gives %v but `a <= b && a >= b` gives %v", eq, ab[fOrd])
			}
			out = append(out, finding{"ref", "relation:" + rule + "/" + kinds, caseText(mode, fEq, a.v, b.v), detail})
		}
	}
	return out
}

// ---------- run ----------

func run(c *common.Ctx) *common.Result {
	res := common.NewResult()
	p := pool(c.Thorough())
	modes := modesQuick
	if c.Thorough() {
		modes = modesThorough
	}
	n := len(p)
	type tfinding struct {
		f    finding
		mode string
		j    int
		lk   int
	}
	type row struct {
		o [][]obs // [mode][j]
		d [][][nForms]string
		t []tfinding // typed-list `in` findings, in (j, list kind, mode) order
	}
	rows := make([]row, n)
	var capped int32
	common.ParallelFor(c, n, func(i int) {
		if c.Expired() {
			atomic.StoreInt32(&capped, 1)
			return
		}
		r := row{o: make([][]obs, len(modes)), d: make([][][nForms]string, len(modes))}
		for mi, m := range modes {
			r.o[mi] = make([]obs, n)
			r.d[mi] = make([][nForms]string, n)
			for j := 0; j < n; j++ {
				r.o[mi][j], r.d[mi][j] = observe(m, p[i], p[j])
				for f := 0; f < nForms; f++ {
					switch r.o[mi][j][f] {
					case triTrue, triFalse:
						res.Add("evaluations", 1)
						res.Add("evaluations:"+formNames[f], 1)
						if res.Distinct("cases", caseText(m, f, p[i].v, p[j].v)) {
							res.Add("distinct_nontrivial", 1)
						}
					case triErr:
						res.Add("evaluations", 1)
						res.Add("no_boolean", 1)
					case triNone:
						if f != fOrd {
							res.Add("no_literal_spelling_skipped", 1)
						}
					}
				}
			}
		}
		// `in` over typed lists (typed.go)
		for j := 0; j < n; j++ {
			for li, lk := range listKinds {
				for _, m := range modesQuick {
					fs, evals, cs := typedJudge(m, lk, p[i], p[j])
					if evals == 0 {
						continue
					}
					res.Add("evaluations", int64(evals))
					res.Add("evaluations:in typed list", 1)
					res.Add("evaluations:== typed element", 1)
					if res.Distinct("cases", "typed|"+lk.String()+"|"+cs) {
						res.Add("distinct_nontrivial", int64(evals))
					}
					res.Add("typed_list_pairs_judged", 1)
					for _, f := range fs {
						r.t = append(r.t, tfinding{f, m, j, li})
					}
				}
			}
		}
		rows[i] = r
	})
	if atomic.LoadInt32(&capped) != 0 {
		res.Cap("soft deadline reached before all pairs were observed")
		return res
	}
	// laws: sequential and in a fixed order
	for mi, m := range modes {
		for i := 0; i < n; i++ {
			for j := 0; j < n; j++ {
				ab, ba := rows[i].o[mi][j], rows[j].o[mi][i]
				res.Add("ordered_pairs_judged", 1)
				if _, _, d := reference(p[i], p[j], ab[fOrd]); d && (ab[fEq] == triTrue || ab[fEq] == triFalse) {
					res.Add("pairs_with_defined_relation", 1)
				}
				if ab[fEq] == triTrue {
					res.Add("pairs_equal", 1)
				}
				for _, f := range judge(m, p[i], p[j], ab, ba, rows[i].d[mi][j], i < j) {
					res.Violate(common.Violation{Class: f.class, Case: f.cs, Detail: f.detail,
						Replay: rcase{Mode: m, A: p[i].v, AC: p[i].class, B: p[j].v, BC: p[j].class, Law: f.law}})
				}
			}
		}
	}
	for i := 0; i < n; i++ {
		for _, t := range rows[i].t {
			res.Violate(common.Violation{Class: t.f.class, Case: t.f.cs, Detail: t.f.detail,
				Replay: rcase{Mode: t.mode, A: p[i].v, AC: p[i].class, B: p[t.j].v, BC: p[t.j].class, Law: t.f.law, List: t.lk}})
		}
	}
	runAlias(c, res)
	runMultiSwitch(c, res)
	res.Add("pool_size", int64(n))
	find := func(desc string) int {
		for i, e := range p {
			if e.v.String() == desc {
				return i
			}
		}
		return -1
	}
	for _, pick := range [][2]string{
		{"int64(1000000)", "float64(1e+06)"}, {`"1000000"`, "int64(1000000)"}, {"int64(1)", `"1"`}, {"float64(NaN)", "float64(NaN)"},
		{"nil", "nil"}, {"[int64(1), int64(2)]", "[int64(1), int64(2)]"}, {`{"a": int64(1), "b": int64(2)}`, `{"b": int64(2), "a": int64(1)}`},
		{"true", `"true"`}, {"int64(16)", `"0x10"`}, {"[[int64(1)], [int64(2)]]", "[[int64(1)]]"},
	} {
		i, j := find(pick[0]), find(pick[1])
		if i < 0 || j < 0 {
			continue
		}
		mi := len(modes) - 1
		ab := rows[i].o[mi][j]
		res.Sample(map[string]interface{}{"case": caseText(modes[mi], fEq, p[i].v, p[j].v),
			"==": ab[fEq].String(), "!=": ab[fNe].String(), "in": ab[fIn].String(), "switch": ab[fSw].String(), "<=&&>=": ab[fOrd].String()})
	}
	return res
}

// runAlias: every ordered pair of the aliasing container operands (alias.go).
func runAlias(c *common.Ctx, res *common.Result) {
	ops := aliasOps()
	na := len(ops)
	type cell struct {
		o   aliasObs
		det [4]string
	}
	for _, origin := range aliasOrigins {
		grid := make([][]cell, na)
		common.ParallelFor(c, na, func(i int) {
			grid[i] = make([]cell, na)
			for j := 0; j < na; j++ {
				grid[i][j].o, grid[i][j].det = aliasObserve(origin, ops[i], ops[j])
			}
		})
		for i := 0; i < na; i++ {
			for j := 0; j < na; j++ {
				o := grid[i][j].o
				for f, t := range []tri{o.eq, o.ne, o.in, o.sw} {
					if t == triErr {
						res.Add("evaluations", 1)
						res.Add("no_boolean", 1)
					} else {
						res.Add("evaluations", 1)
						res.Add("evaluations:aliased containers", 1)
						if res.Distinct("cases", aliasCase(origin, f, ops[i], ops[j])) {
							res.Add("distinct_nontrivial", 1)
						}
					}
				}
				res.Add("aliased_pairs_judged", 1)
				if _, d := aliasRef(ops[i], ops[j]); d {
					res.Add("aliased_pairs_with_defined_relation", 1)
				}
				for _, f := range aliasJudge(origin, ops[i], ops[j], o, grid[i][j].det, i < j) {
					res.Violate(common.Violation{Class: f.class, Case: f.cs, Detail: f.detail,
						Replay: rcase{Law: f.law, Origin: origin, AI: i, AJ: j}})
				}
			}
		}
	}
}

func coverage(c *common.Ctx, r *common.Result) map[string]interface{} {
	per := map[string]int64{}
	for k, v := range r.Counts {
		if strings.HasPrefix(k, "evaluations:") {
			per[strings.TrimPrefix(k, "evaluations:")] = v
		}
	}
	return map[string]interface{}{
		"evaluations":         r.Counts["evaluations"],
		"distinct_nontrivial": r.Counts["distinct_nontrivial"],
		"rule": "a case is one (mode, syntactic form, ordered pair); it is non-trivial when the program parsed, executed without error and the relation under test returned a boolean that entered the law checks; " +
			"distinct = distinct case texts (program source plus variable bindings)",
		"pool_size":                           r.Counts["pool_size"],
		"ordered_pairs_judged":                r.Counts["ordered_pairs_judged"],
		"pairs_with_defined_relation":         r.Counts["pairs_with_defined_relation"],
		"pairs_equal":                         r.Counts["pairs_equal"],
		"typed_list_pairs_judged":             r.Counts["typed_list_pairs_judged"],
		"aliased_pairs_judged":                r.Counts["aliased_pairs_judged"],
		"aliased_pairs_with_defined_relation": r.Counts["aliased_pairs_with_defined_relation"],
		"evaluations_per_form":                per,
		"no_boolean_results":                  r.Counts["no_boolean"],
	}
}

func replay(c *common.Ctx, path string) int {
	var rc rcase
	if _, _, err := common.ReadReplay(path, &rc); err != nil {
		fmt.Println("cannot read replay:", err)
		return 2
	}
	if rc.Law == "multi-switch" {
		var sw swReplay
		if _, _, err := common.ReadReplay(path, &sw); err != nil {
			fmt.Println("cannot read replay:", err)
			return 2
		}
		ab, _ := evalForm("var", fEq, sw.A, sw.B)
		ac, _ := evalForm("var", fEq, sw.A, sw.C)
		cs, d := swOne(sw.Form, sw.A, sw.B, sw.C, ab, ac)
		if cs == "" {
			fmt.Println("replay: holds")
			return 0
		}
		fmt.Println(cs + "\n" + d + "\nreplay: still violated")
		return 1
	}
	a, b := entry{rc.A, rc.AC}, entry{rc.B, rc.BC}
	if strings.HasPrefix(rc.Law, "alias:") {
		ops := aliasOps()
		if rc.AI < 0 || rc.AI >= len(ops) || rc.AJ < 0 || rc.AJ >= len(ops) {
			fmt.Println("bad operand index in replay")
			return 2
		}
		x, y := ops[rc.AI], ops[rc.AJ]
		o1, det := aliasObserve(rc.Origin, x, y)
		o2, _ := aliasObserve(rc.Origin, x, y)
		if o1 != o2 {
			fmt.Println("NONDETERMINISTIC replay")
			return 2
		}
		fmt.Printf("%s\n== %v, != %v, in %v, switch %v, reversed == %v\n", aliasCase(rc.Origin, fEq, x, y), o1.eq, o1.ne, o1.in, o1.sw, o1.rev)
		for _, f := range aliasJudge(rc.Origin, x, y, o1, det, true) {
			if f.law == rc.Law {
				fmt.Println(f.class+":", f.detail)
				fmt.Println("replay: still violated")
				return 1
			}
		}
		fmt.Println("replay: the law holds")
		return 0
	}
	if rc.Law == "typed-in" {
		if rc.List < 0 || rc.List >= len(listKinds) {
			fmt.Println("bad list kind in replay")
			return 2
		}
		lk := listKinds[rc.List]
		in1, eq1, _, cs, _ := typedObs(rc.Mode, lk, a.v, b.v)
		in2, eq2, _, _, _ := typedObs(rc.Mode, lk, a.v, b.v)
		if in1 != in2 || eq1 != eq2 {
			fmt.Println("NONDETERMINISTIC replay")
			return 2
		}
		fmt.Printf("%s  (%s)\n`a in l` %v, `a == l[0]` %v\n", cs, lk, in1, eq1)
		if (eq1 == triTrue || eq1 == triFalse) && in1 != eq1 {
			fmt.Println("replay: still violated")
			return 1
		}
		fmt.Println("replay: the law holds")
		return 0
	}
	var first string
	for round := 0; round < 2; round++ {
		ab, det := observe(rc.Mode, a, b)
		ba, _ := observe(rc.Mode, b, a)
		var hit []string
		for _, f := range judge(rc.Mode, a, b, ab, ba, det, true) {
			if f.law == rc.Law {
				hit = append(hit, f.class+": "+f.cs+" -- "+f.detail)
			}
		}
		s := fmt.Sprintf("a==b %v, a!=b %v, a in [b] %v, switch %v, a<=b&&a>=b %v, b==a %v | %s", ab[fEq], ab[fNe], ab[fIn], ab[fSw], ab[fOrd], ba[fEq], strings.Join(hit, " ; "))
		if round == 0 {
			first = s
		} else if s != first {
			fmt.Printf("NONDETERMINISTIC replay:\n %s\n %s\n", first, s)
			return 2
		}
		if round == 1 {
			fmt.Printf("pair [%s]: a=%s b=%s law=%s\n%s\n", rc.Mode, rc.A, rc.B, rc.Law, s)
			if len(hit) == 0 {
				fmt.Println("replay: the law holds")
				return 0
			}
		}
	}
	fmt.Println("replay: still violated")
	return 1
}

func init() {
	common.Register(&common.Prop{
		ID: "C06", Level: "exploration", Run: run, Coverage: coverage, Replay: replay,
		Assumptions: []string{
			"values come from the stated pool (nil, 2 bools, 24 int64, 28 float64 incl. NaN/±Inf/±0, 20 strict decimal numerals, 14 lenient spellings, 15 non-numeral strings, 17+12 untyped slices/maps of depth <= 2; thorough adds 9 depth-3 containers); ALL ordered pairs",
			"`in` is additionally checked over typed lists ([]int64, []float64, []string; as typed literals and as host-defined slices) holding one pool value representable in the element type: `a in l` must equal `a == l[0]` as the VM itself evaluates it",
			"containers that alias each other (views a, a[:0], a[:1], a[:2], a[1:], a[1:2], in-place appended views a[:1]+2, a[:2]+9 of an untyped and of a []int64 base, one map under two names; bases built by the script and defined by the host): all ordered pairs in the four forms, laws on every pair, structural reference within a family; pairs where an in-place append rewrites a cell the other operand reads are laws-only",
			"operands reach the relation as literals and as variables (thorough: also mixed, and behind interface-typed slice elements)",
			"the reference relation is compared only where the property defines it: nil; same primitive type; int vs float (against the VM's own a<=b && a>=b); strict decimal numerals -?(0|[1-9][0-9]*)(.[0-9]+)? vs numbers when the exact and the nearest-float64 readings agree; strings that are not decimal numerals (hex, binary, embedded blanks, words) vs numbers; slices vs slices and maps vs maps whose corresponding leaves have identical primitive types",
			"laws only (under-determined): bool vs non-bool, container vs primitive, slice vs map, mixed numeric/string leaves inside containers, lenient spellings (1e3, inf, nan, +1, 1_0, 01, .5, 5., -0), NaN inside containers (not generated)",
			"plain vm.Execute with Options nil on a fresh environment per evaluation; the programs contain no loops or calls, so no fuel is needed",
		},
	})
}
