package c06

// Containers that ALIAS each other.  The main pool builds every container from
// a fresh literal (or a fresh Go value), so two operands never share storage.
// A script easily makes them share: slicing a list gives views on the same
// backing array (`a[:1]`, `a[:2]`, `a[1:]` ...), `view + x` appends in place
// when the view has spare capacity, and `m2 = m` gives one map two names.
// "Containers compare structurally" does not care: two slices are equal iff
// they have the same length and equal elements, wherever they live.
//
// Every ordered pair of the operands below, in the four syntactic uses, from
// two origins (bases built by the script / defined by the host); the laws on
// every pair, the structural reference within a family (untyped slices, typed
// []int64 slices, untyped maps; typed-vs-untyped and slice-vs-map pairs are
// under-determined: laws only).

import (
	"fmt"
)

type aliasOp struct {
	src    string  // operand text
	fam    string  // "slice" (untyped), "[]int64", "map"
	elems  []int64 // slices: the structural content
	mapVal int64   // maps: the value under key "k"
	// an appended view writes one cell of the shared backing array with a new
	// value: writes = index written (-1 none).  covers = the cells of the base
	// the operand's own window reads (lo <= i < hi), for the exclusion below.
	base   string
	writes int
	lo, hi int
}

func aliasOps() []aliasOp {
	var ops []aliasOp
	for _, b := range []struct{ name, fam string }{{"a", "slice"}, {"t", "[]int64"}} {
		n := b.name
		ops = append(ops,
			aliasOp{src: n, fam: b.fam, elems: []int64{1, 2, 3}, base: n, writes: -1, lo: 0, hi: 3},
			aliasOp{src: n + "[:0]", fam: b.fam, elems: []int64{}, base: n, writes: -1},
			aliasOp{src: n + "[:1]", fam: b.fam, elems: []int64{1}, base: n, writes: -1, lo: 0, hi: 1},
			aliasOp{src: n + "[:2]", fam: b.fam, elems: []int64{1, 2}, base: n, writes: -1, lo: 0, hi: 2},
			aliasOp{src: n + "[1:]", fam: b.fam, elems: []int64{2, 3}, base: n, writes: -1, lo: 1, hi: 3},
			aliasOp{src: n + "[1:2]", fam: b.fam, elems: []int64{2}, base: n, writes: -1, lo: 1, hi: 2},
			// appended views (the view has spare capacity: the append is in place)
			aliasOp{src: "(" + n + "[:1] + 2)", fam: b.fam, elems: []int64{1, 2}, base: n, writes: -1, lo: 0, hi: 2}, // rewrites cell 1 with the value it already holds
			aliasOp{src: "(" + n + "[:2] + 9)", fam: b.fam, elems: []int64{1, 2, 9}, base: n, writes: 2, lo: 0, hi: 3},
		)
	}
	ops = append(ops,
		aliasOp{src: "[]", fam: "slice", elems: []int64{}, writes: -1},
		aliasOp{src: "[1, 2]", fam: "slice", elems: []int64{1, 2}, writes: -1},
		aliasOp{src: "[1, 2, 3]", fam: "slice", elems: []int64{1, 2, 3}, writes: -1},
		aliasOp{src: "[2]", fam: "slice", elems: []int64{2}, writes: -1},
		aliasOp{src: "[]int64{1, 2}", fam: "[]int64", elems: []int64{1, 2}, writes: -1},
		aliasOp{src: "[]int64{1, 2, 3}", fam: "[]int64", elems: []int64{1, 2, 3}, writes: -1},
		aliasOp{src: "[]int64{2}", fam: "[]int64", elems: []int64{2}, writes: -1},
		aliasOp{src: "m", fam: "map", mapVal: 1, writes: -1},
		aliasOp{src: "m2", fam: "map", mapVal: 1, writes: -1},
		aliasOp{src: `{"k": 1}`, fam: "map", mapVal: 1, writes: -1},
		aliasOp{src: `{"k": 2}`, fam: "map", mapVal: 2, writes: -1},
	)
	return ops
}

var aliasOrigins = []string{"script", "host"}

const aliasScriptPrefix = `a = [1, 2, 3]; t = []int64{1, 2, 3}; m = {"k": 1}; m2 = m; `

// aliasEnv: the program prefix and host bindings that create the bases.
func aliasEnv(origin string) (prefix string, vars map[string]interface{}) {
	if origin == "script" {
		return aliasScriptPrefix, map[string]interface{}{}
	}
	m := map[interface{}]interface{}{"k": int64(1)}
	return "", map[string]interface{}{
		"a": []interface{}{int64(1), int64(2), int64(3)},
		"t": []int64{1, 2, 3},
		"m": m, "m2": m,
	}
}

func aliasCase(origin string, form int, x, y aliasOp) string {
	s := formSrc(form, x.src, y.src)
	if origin == "script" {
		return aliasScriptPrefix + s
	}
	return `host: a=[1,2,3] t=[]int64{1,2,3} m=m2={"k":1}: ` + s
}

func aliasEval(origin string, form int, x, y aliasOp) (tri, string) {
	prefix, vars := aliasEnv(origin)
	return evalSrc(prefix+formSrc(form, x.src, y.src), vars)
}

// aliasRef: structural equality, when the text determines it.
func aliasRef(x, y aliasOp) (want, det bool) {
	if x.fam != y.fam {
		return false, false
	}
	// an in-place append that changes a cell the OTHER operand reads makes the
	// other operand's content depend on evaluation order: not compared
	for _, p := range [][2]aliasOp{{x, y}, {y, x}} {
		w, o := p[0], p[1]
		if w.writes >= 0 && o.base == w.base && o.writes != w.writes && o.lo <= w.writes && w.writes < o.hi {
			return false, false
		}
	}
	if x.fam == "map" {
		return x.mapVal == y.mapVal, true
	}
	if len(x.elems) != len(y.elems) {
		return false, true
	}
	for i := range x.elems {
		if x.elems[i] != y.elems[i] {
			return false, true
		}
	}
	return true, true
}

type aliasObs struct{ eq, ne, in, sw, rev tri }

func aliasObserve(origin string, x, y aliasOp) (o aliasObs, det [4]string) {
	o.eq, det[0] = aliasEval(origin, fEq, x, y)
	o.ne, det[1] = aliasEval(origin, fNe, x, y)
	o.in, det[2] = aliasEval(origin, fIn, x, y)
	o.sw, det[3] = aliasEval(origin, fSw, x, y)
	o.rev, _ = aliasEval(origin, fEq, y, x)
	return
}

func isBool(t tri) bool { return t == triTrue || t == triFalse }

func aliasJudge(origin string, x, y aliasOp, o aliasObs, det [4]string, wantSym bool) []finding {
	var out []finding
	fams := x.fam + "," + y.fam
	for f, t := range []tri{o.eq, o.ne, o.in, o.sw} {
		if t == triErr {
			out = append(out, finding{"alias:error", "alias/no-boolean/" + formNames[f] + "/" + fams, aliasCase(origin, f, x, y), det[f]})
		}
	}
	if !isBool(o.eq) {
		return out
	}
	if isBool(o.ne) && (o.ne == triTrue) == (o.eq == triTrue) {
		out = append(out, finding{"alias:neq", "alias/neq-not-negation/" + fams, aliasCase(origin, fNe, x, y), fmt.Sprintf("`!=` gives %v but `==` gives %v", o.ne, o.eq)})
	}
	if isBool(o.in) && o.in != o.eq {
		out = append(out, finding{"alias:in", "alias/in-differs-from-eq/" + fams, aliasCase(origin, fIn, x, y), fmt.Sprintf("`a in [b]` gives %v but `a == b` gives %v", o.in, o.eq)})
	}
	if isBool(o.sw) && o.sw != o.eq {
		out = append(out, finding{"alias:switch", "alias/switch-differs-from-eq/" + fams, aliasCase(origin, fSw, x, y), fmt.Sprintf("`switch a { case b: }` matches=%v but `a == b` gives %v", o.sw, o.eq)})
	}
	if wantSym && isBool(o.rev) && o.rev != o.eq {
		out = append(out, finding{"alias:sym", "alias/asymmetric/" + fams, aliasCase(origin, fEq, x, y) + "   vs   " + formSrc(fEq, y.src, x.src), fmt.Sprintf("`a == b` gives %v but `b == a` gives %v", o.eq, o.rev)})
	}
	if want, d := aliasRef(x, y); d && (o.eq == triTrue) != want {
		out = append(out, finding{"alias:ref", "alias/relation:structural/" + fams, aliasCase(origin, fEq, x, y),
			fmt.Sprintf("`a == b` gives %v; structurally (same length and equal elements) it is %v", o.eq, want)})
	}
	return out
}
