// Package c17: astutil.Walk reaches every node of every parsed program.
//
// Bounded exhaustive exploration: every (child-slot template × smallest form
// of every node kind) program of lib/gram, plus every statement kind nested in
// every statement-list slot to depth 2 (quick) / 3 (thorough).  For each parsed
// tree the reference traversal is generic reflection (lib/astdump.Edges: every
// reachable pointer whose type implements ast.Pos = ast.Stmt = ast.Expr =
// ast.Operator, by pointer identity).  Oracle, exactly the property text:
//
//	(1) Walk with a callback that never fails returns nil;
//	(2) every reflected node is presented to the callback (extra, synthetic
//	    nodes are tolerated);
//	(3) a parent is presented before its children (for every reflected edge
//	    p→c some presentation of p precedes some presentation of c; the parser
//	    shares a few nodes between parents, so "before" is per edge);
//	(4) for every i ≤ number of callback calls, a callback failing at its i-th
//	    call makes Walk return exactly that error value and the callback is
//	    not invoked again.
package c17

import (
	"crypto/sha1"
	"errors"
	"fmt"
	"sort"
	"strings"
	"sync"

	"github.com/mattn/anko/ast"
	"github.com/mattn/anko/ast/astutil"
	"github.com/mattn/anko/parser"
	"verif/engine/common"
	"verif/engine/lib/astdump"
	"verif/engine/lib/gram"
)

type failure struct {
	Class  string
	Detail string
}

func parse(src string) (tree ast.Stmt, err error, pan string) {
	defer func() {
		if r := recover(); r != nil {
			pan = fmt.Sprint(r)
		}
	}()
	tree, err = parser.ParseSrc(src)
	return
}

// walk runs astutil.Walk with a callback that fails at its failAt-th call
// (1-based; 0 = never) with the error value fail.
func walk(tree ast.Stmt, failAt int, fail error) (calls []interface{}, err error, pan string) {
	defer func() {
		if r := recover(); r != nil {
			pan = fmt.Sprint(r)
		}
	}()
	err = astutil.Walk(tree, func(x interface{}) error {
		calls = append(calls, x)
		if failAt != 0 && len(calls) == failAt {
			return fail
		}
		return nil
	})
	return
}

func trunc(s string, n int) string {
	if len(s) > n {
		return s[:n]
	}
	return s
}

// stats of one checked tree
type treeStats struct {
	nodes, edges, calls, walks int
	triples                    []string
}

// check applies the oracle to one parsed tree.
func check(tree ast.Stmt, reparse func() ast.Stmt) (fails []failure, st treeStats) {
	edges := astdump.Edges(tree)
	st.edges = len(edges)
	nodes := map[interface{}]bool{}
	for _, e := range edges {
		nodes[e.Child] = true
		st.triples = append(st.triples, astdump.Kind(e.Parent)+"."+e.Slot+"<-"+astdump.Kind(e.Child))
	}
	st.nodes = len(nodes)

	calls, err, pan := walk(tree, 0, nil)
	st.walks++
	st.calls = len(calls)
	seenClass := map[string]bool{}
	add := func(class, detail string) {
		if !seenClass[class] {
			seenClass[class] = true
			fails = append(fails, failure{class, detail})
		}
	}
	if pan != "" {
		add("walk-panic/"+trunc(pan, 80), "Walk panicked: "+pan)
	} else if err != nil {
		// (1) no error unless the callback returns one
		add("walk-error/"+trunc(err.Error(), 80), fmt.Sprintf("Walk returned %q although the callback never failed (after %d of %d nodes)", err.Error(), len(calls), len(nodes)))
	}
	first := map[interface{}]int{}
	last := map[interface{}]int{}
	for i, c := range calls {
		if !astdump.IsNode(c) {
			continue
		}
		if _, ok := first[c]; !ok {
			first[c] = i
		}
		last[c] = i
	}
	if pan == "" && err == nil {
		// (2) completeness: report the root cause (child missing although its parent was presented)
		for _, e := range edges {
			if _, ok := first[e.Child]; ok {
				continue
			}
			if e.Parent == nil {
				add("missed/root", fmt.Sprintf("the root %s was never presented", astdump.Kind(e.Child)))
				continue
			}
			if _, ok := first[e.Parent]; !ok {
				continue // consequence of a missing ancestor
			}
			add("missed/"+astdump.Kind(e.Parent)+"."+e.Slot, fmt.Sprintf("%s.%s holds a %s (%s) that was never presented; %d of %d nodes presented", astdump.Kind(e.Parent), e.Slot, astdump.Kind(e.Child), trunc(astdump.DumpNoPos(e.Child), 120), len(first), len(nodes)))
		}
	}
	// (3) order, on whatever was presented
	for _, e := range edges {
		if e.Parent == nil {
			continue
		}
		fp, okp := first[e.Parent]
		lc, okc := last[e.Child]
		if okp && okc && !(fp < lc) {
			add("order/"+astdump.Kind(e.Parent)+"."+e.Slot, fmt.Sprintf("child %s of %s.%s presented at call %d, its parent first at call %d", astdump.Kind(e.Child), astdump.Kind(e.Parent), e.Slot, lc+1, fp+1))
		}
	}
	// (4) abort at every call index
	for i := 1; i <= len(calls); i++ {
		sentinel := errors.New("sentinel")
		c2, err2, pan2 := walk(tree, i, sentinel)
		st.walks++
		k := astdump.Kind(calls[i-1])
		switch {
		case pan2 != "":
			add("walk-panic/"+trunc(pan2, 80), "Walk panicked: "+pan2)
		case len(c2) > i:
			add("stop/continued/"+k, fmt.Sprintf("callback failed at call %d (%s) but was invoked %d more time(s), next with %s", i, k, len(c2)-i, astdump.Kind(c2[i])))
		case len(c2) < i:
			add("stop/nondeterministic", fmt.Sprintf("second walk made %d calls, first made %d", len(c2), len(calls)))
		case err2 != sentinel:
			add("stop/wrong-error/"+k, fmt.Sprintf("callback failed at call %d (%s); Walk returned %v instead of the callback's error", i, k, err2))
		}
	}
	// (5) a walk has no memory: after a walk that was aborted (first thing done to a
	// freshly parsed tree) and after a complete walk, another walk of the SAME tree
	// presents what the first complete walk of a fresh tree presented
	kinds := func(cs []interface{}) string {
		var ks []string
		for _, c := range cs {
			ks = append(ks, astdump.Kind(c))
		}
		return strings.Join(ks, " ")
	}
	want := kinds(calls)
	if pan == "" && err == nil && reparse != nil {
		c3, err3, pan3 := walk(tree, 0, nil)
		st.walks++
		if pan3 == "" && err3 == nil && kinds(c3) != want {
			add("rewalk/after-complete-walk", fmt.Sprintf("a second complete walk of the same tree presents %d nodes, the first presented %d", len(c3), len(calls)))
		}
		for _, i := range []int{1, (len(calls) + 1) / 2, len(calls)} {
			if i < 1 || i > len(calls) {
				continue
			}
			t2 := reparse()
			if t2 == nil {
				break
			}
			walk(t2, i, errors.New("sentinel"))
			c4, err4, pan4 := walk(t2, 0, nil)
			st.walks += 2
			if pan4 != "" || err4 != nil || kinds(c4) != want {
				add("rewalk/after-aborted-walk", fmt.Sprintf("a fresh tree whose first walk was aborted at call %d: the next complete walk presents %d nodes (err=%v panic=%q), a fresh tree's first walk presents %d", i, len(c4), err4, pan4, len(calls)))
			}
		}
	}
	return
}

// programs enumerates the bounded space in a fixed order.
func programs(thorough bool) []string {
	var out []string
	seen := map[string]bool{}
	add := func(s string) {
		if !seen[s] {
			seen[s] = true
			out = append(out, s)
		}
	}
	// every expression-slot template × every expression form
	for _, t := range gram.ExprSlots {
		for _, f := range gram.ExprFillers {
			add(gram.Fill(t.Src, f.Src))
		}
	}
	// every statement-list slot × every statement form (all template variants), depth 1
	for _, t := range gram.BlockSlots {
		for _, f := range gram.StmtFillers {
			add(gram.Fill(t.Src, f.Src))
		}
	}
	// nesting: one template per distinct slot
	var slots []string
	kinds := map[string]bool{}
	for _, t := range gram.BlockSlots {
		if !kinds[t.Kind] {
			kinds[t.Kind] = true
			slots = append(slots, t.Src)
		}
	}
	if thorough { // depth 2 over all template variants
		for _, t1 := range gram.BlockSlots {
			for _, t2 := range gram.BlockSlots {
				for _, f := range gram.StmtFillers {
					add(gram.Fill(t1.Src, gram.Fill(t2.Src, f.Src)))
				}
			}
		}
	}
	for _, t1 := range slots {
		for _, t2 := range slots {
			for _, f := range gram.StmtFillers {
				add(gram.Fill(t1, gram.Fill(t2, f.Src)))
			}
			if thorough {
				for _, t3 := range slots {
					for _, f := range gram.StmtFillers {
						add(gram.Fill(t1, gram.Fill(t2, gram.Fill(t3, f.Src))))
					}
				}
			}
		}
	}
	return out
}

type best struct {
	src, detail string
	n           int64
}

func run(c *common.Ctx) *common.Result {
	res := common.NewResult()
	progs := programs(c.Thorough())
	res.Add("programs_generated", int64(len(progs)))
	var mu sync.Mutex
	byClass := map[string]*best{}
	capped := false
	common.ParallelFor(c, len(progs), func(i int) {
		if c.Expired() {
			mu.Lock()
			capped = true
			mu.Unlock()
			return
		}
		src := progs[i]
		tree, err, pan := parse(src)
		if pan != "" {
			res.Add("parser_panics(C15/C01 own these)", 1)
			return
		}
		if err != nil {
			res.Add("unparseable_skipped", 1)
			return
		}
		if tree == nil {
			res.Add("empty_tree_skipped", 1)
			return
		}
		fails, st := check(tree, func() ast.Stmt { t, _, _ := parse(src); return t })
		res.Add("evaluations", 1)
		h := sha1.Sum([]byte(astdump.DumpNoPos(tree)))
		res.Distinct("trees", string(h[:12]))
		res.Add("walks", int64(st.walks))
		res.Add("callback_calls_plain", int64(st.calls))
		res.Add("nodes_reflected", int64(st.nodes))
		res.Max("nodes_per_tree", int64(st.nodes))
		for _, t := range st.triples {
			res.Distinct("triples", t)
		}
		if len(fails) > 0 {
			res.Add("programs_failing", 1)
		}
		mu.Lock()
		for _, f := range fails {
			b := byClass[f.Class]
			if b == nil {
				b = &best{src: src, detail: f.Detail}
				byClass[f.Class] = b
			} else if len(src) < len(b.src) || len(src) == len(b.src) && src < b.src {
				b.src, b.detail = src, f.Detail
			}
			b.n++
		}
		mu.Unlock()
	})
	if capped {
		res.Cap("soft deadline reached before all programs were walked")
	}
	// one violation per class: its smallest failing program
	var classes []string
	for cl := range byClass {
		classes = append(classes, cl)
	}
	sort.Strings(classes)
	for _, cl := range classes {
		b := byClass[cl]
		res.Add("failing_programs:"+cl, b.n)
		res.Violate(common.Violation{Class: cl, Case: b.src, Detail: fmt.Sprintf("%s [%d programs of this run fail in this class; this is the smallest]", b.detail, b.n), Replay: b.src})
	}
	// samples: real cases, written out
	for _, i := range []int{0, len(progs) / 7, len(progs) / 3, len(progs) / 2, len(progs) - 1} {
		if tree, err, pan := parse(progs[i]); err == nil && pan == "" && tree != nil {
			calls, werr, _ := walk(tree, 0, nil)
			var ks []string
			for _, x := range calls {
				ks = append(ks, astdump.Kind(x))
			}
			res.Sample(map[string]interface{}{"program": progs[i], "reflected_nodes": len(astdump.Nodes(tree)), "callback_sequence": strings.Join(ks, " "), "walk_error": fmt.Sprint(werr)})
		}
	}
	return res
}

func coverage(c *common.Ctx, r *common.Result) map[string]interface{} {
	triples := r.SetMembers("triples")
	slots := map[string]bool{}
	kinds := map[string]bool{}
	for _, t := range triples {
		i := strings.Index(t, "<-")
		slots[t[:i]] = true
		kinds[t[i+2:]] = true
	}
	var sl, kl []string
	for s := range slots {
		sl = append(sl, s)
	}
	for k := range kinds {
		kl = append(kl, k)
	}
	sort.Strings(sl)
	sort.Strings(kl)
	return map[string]interface{}{
		"evaluations":                        r.Counts["evaluations"],
		"distinct_nontrivial":                r.SetSize("trees"),
		"rule":                               "evaluations = distinct program texts that ParseSrc accepted with a non-empty tree (the reflected node set, the plain walk and one aborting walk per callback index were all executed on each); distinct_nontrivial = number of structurally distinct trees among them (position-free structural dump, measured with a hash set); unparseable fillings of a template are counted under unparseable_skipped and are not evaluations",
		"walks":                              r.Counts["walks"],
		"triples_parent_slot_child_distinct": len(triples),
		"slots_distinct":                     len(sl),
		"node_kinds_distinct":                len(kl),
		"slots":                              sl,
		"node_kinds":                         kl,
		"max_nodes_per_tree":                 r.GetMax("nodes_per_tree"),
		"nesting_depth":                      map[bool]int{false: 2, true: 3}[c.Thorough()],
	}
}

func replay(c *common.Ctx, path string) int {
	var src string
	class, _, err := common.ReadReplay(path, &src)
	if err != nil {
		fmt.Println("cannot read replay:", err)
		return 2
	}
	var firstRun string
	for round := 0; round < 2; round++ {
		tree, perr, pan := parse(src)
		var lines []string
		if pan != "" || perr != nil || tree == nil {
			lines = append(lines, fmt.Sprintf("program no longer parses to a tree (err=%v panic=%q)", perr, pan))
		} else {
			fails, _ := check(tree, func() ast.Stmt { t, _, _ := parse(src); return t })
			for _, f := range fails {
				lines = append(lines, f.Class+": "+f.Detail)
			}
		}
		s := strings.Join(lines, "\n")
		if round == 0 {
			firstRun = s
		} else if s != firstRun {
			fmt.Printf("NONDETERMINISTIC replay:\n%s\n--- vs ---\n%s\n", firstRun, s)
			return 2
		}
	}
	fmt.Printf("program: %q\nrecorded class: %s\n", src, class)
	if firstRun == "" {
		fmt.Println("replay: Walk agrees with the reflected traversal")
		return 0
	}
	fmt.Println(firstRun)
	return 1
}

func init() {
	common.Register(&common.Prop{
		ID: "C17", Level: "exploration", Run: run, Coverage: coverage, Replay: replay,
		Assumptions: []string{
			"programs: every child-slot template of lib/gram (one or more per expression-valued and statement-list-valued field of every node kind) filled with every smallest form of every expression/statement kind; statement kinds nested in statement-list slots to depth 2 (quick) / 3 (thorough)",
			"the reference traversal is generic reflection over the tree ParseSrc returned: every reachable non-nil pointer whose type implements ast.Pos (the common method set of ast.Stmt, ast.Expr, ast.Operator), compared by pointer identity; reflect.Value fields are not entered",
			"nodes the walker invents (the CallExpr it synthesises for an anonymous call) are tolerated; the order among siblings is not constrained",
			"one violation is reported per failure class (walk-error/<message>, missed/<Parent>.<Slot>, order/<Parent>.<Slot>, stop/...), with the smallest failing program of the run as its case",
		},
	})
}
