// Package c18: the command-line tool reports exactly what the library computes.
//
// The real binary is built from the CURRENT tree (plain `go build` inside the
// repository directory, no overlay), then every script of a systematically
// composed corpus is run through it in every way of supplying a script
// (file argument with 0..2 trailing arguments, -e) and every file condition
// (present, missing, a directory).  The reference is vm.Execute on an
// environment prepared exactly as anko.go prepares it (args, core.Import,
// bundled packages), executed in a child process of the checker whose real
// standard output is captured.
package c18

import (
	"bytes"
	"encoding/json"
	"fmt"
	"os"
	"os/exec"
	"path/filepath"
	"strings"
	"sync"
	"time"

	"github.com/mattn/anko/core"
	"github.com/mattn/anko/env"
	_ "github.com/mattn/anko/packages"
	"github.com/mattn/anko/vm"
	"verif/engine/common"
)

// ---------- reference child ----------

const (
	refExitOK  = 0
	refExitErr = 10
)

// refChild: environment prepared as anko.go's setupEnv does, source from the
// file named by C18_SRC, script arguments from C18_ARGS (JSON).
func refChild() {
	src, err := os.ReadFile(os.Getenv("C18_SRC"))
	if err != nil {
		os.Exit(97)
	}
	var args []string
	if json.Unmarshal([]byte(os.Getenv("C18_ARGS")), &args) != nil {
		os.Exit(97)
	}
	if args == nil {
		args = []string{}
	}
	e := env.NewEnv()
	e.Define("args", args)
	core.Import(e)
	_, err = vm.Execute(e, nil, string(src))
	if err != nil {
		// the library's error text, verbatim, for the diagnostic-line oracle
		if os.WriteFile(os.Getenv("C18_ERR"), []byte(err.Error()), 0o644) != nil {
			os.Exit(97)
		}
		os.Exit(refExitErr)
	}
	os.Exit(refExitOK)
}

func init() { common.RegisterChild("c18ref", refChild) }

// ---------- running processes ----------

type procResult struct {
	exit    int
	stdout  string
	stderr  string
	timeout bool
	failed  string // could not be started
}

const procTimeout = 60 * time.Second // machinery protection only: never a verdict

func runProc(cmd *exec.Cmd) procResult {
	var so, se bytes.Buffer
	cmd.Stdout = &so
	cmd.Stderr = &se
	cmd.Stdin = nil
	if err := cmd.Start(); err != nil {
		return procResult{failed: err.Error()}
	}
	var to bool
	var mu sync.Mutex
	t := time.AfterFunc(procTimeout, func() {
		mu.Lock()
		to = true
		mu.Unlock()
		cmd.Process.Kill()
	})
	err := cmd.Wait()
	t.Stop()
	mu.Lock()
	defer mu.Unlock()
	r := procResult{stdout: so.String(), stderr: se.String(), timeout: to}
	if err != nil {
		if ee, ok := err.(*exec.ExitError); ok {
			r.exit = ee.ExitCode()
		} else {
			r.failed = err.Error()
		}
	}
	return r
}

// ---------- cases ----------

type ccase struct {
	Src  string   `json:"src"`
	Mode string   `json:"mode"`           // file | -e | missing | dir
	Name string   `json:"name,omitempty"` // base name of the path given to anko (file modes)
	Args []string `json:"args"`
}

func (k ccase) text() string {
	a, _ := json.Marshal(k.Args)
	if k.Mode == "-e" {
		return fmt.Sprintf("anko -e args=%s script=%q", a, k.Src)
	}
	return fmt.Sprintf("anko %s(%s) args=%s script=%q", k.Mode, k.Name, a, k.Src)
}

var argSets = [][]string{{}, {"a"}, {"a", "b c"}, {"a", "-x"}}

func configsFor(src string) []ccase {
	var out []ccase
	out = append(out,
		ccase{src, "file", "prog.ank", argSets[0]}, ccase{src, "file", "prog-100%.ank", argSets[1]}, ccase{src, "file", "prog.ank", argSets[2]},
		ccase{src, "missing", "no-such-file.ank", argSets[0]}, ccase{src, "missing", "report-100%-done.ank", argSets[2]},
		ccase{src, "dir", "adir.ank", argSets[0]}, ccase{src, "dir", "dir-%d-50%.ank", argSets[1]},
	)
	if src != "" {
		// `-e ""` is indistinguishable from "no -e" for the flag package and
		// starts the interactive mode (out of scope)
		out = append(out, ccase{src, "-e", "", argSets[0]}, ccase{src, "-e", "", argSets[3]})
	}
	return out
}

type runner struct {
	bin  string
	work string
}

// reference runs vm.Execute in a child process, stdout captured.
func (r *runner) reference(dir string, src string, args []string) (stdout string, failed bool, errText string, machinery string) {
	srcPath := filepath.Join(dir, "ref-src.ank")
	if err := os.WriteFile(srcPath, []byte(src), 0o644); err != nil {
		return "", false, "", err.Error()
	}
	cmd := common.SpawnChild("c18ref")
	a, _ := json.Marshal(args)
	errPath := filepath.Join(dir, "ref-err.txt")
	os.Remove(errPath)
	cmd.Env = append(cmd.Env, "C18_SRC="+srcPath, "C18_ARGS="+string(a), "C18_ERR="+errPath)
	cmd.Dir = dir
	pr := runProc(cmd)
	switch {
	case pr.failed != "":
		return "", false, "", "reference child: " + pr.failed
	case pr.timeout:
		return "", false, "", "reference child: timeout"
	case pr.exit == refExitOK:
		return pr.stdout, false, "", ""
	case pr.exit == refExitErr:
		b, err := os.ReadFile(errPath)
		if err != nil {
			return "", false, "", "reference child: error text not written: " + err.Error()
		}
		return pr.stdout, true, string(b), ""
	}
	return "", false, "", fmt.Sprintf("reference child ended with status %d: %s", pr.exit, firstLine(pr.stderr))
}

func firstLine(s string) string {
	if i := strings.IndexByte(s, '\n'); i >= 0 {
		return s[:i]
	}
	return s
}

// oneDiagnosticLine: exactly one non-empty line, newline-terminated.
func oneDiagnosticLine(s string) bool {
	return len(s) >= 2 && strings.HasSuffix(s, "\n") && strings.Count(s, "\n") == 1
}

type verdict struct {
	class, detail string
	machinery     string
	nontrivial    bool
	refFailed     bool
	exit          int    // observed exit status of anko
	stdout        string // observed standard output of anko
	refOut        string // what the script printed in the reference run
	refErr        string // err.Error() of vm.Execute in the reference run
}

// check runs one case in directory dir (private to the caller).
func (r *runner) check(dir string, k ccase) verdict {
	// a second script for the bodies that load one (it uses a name of its loader)
	if err := os.WriteFile(filepath.Join(dir, "aux-load.ank"), []byte("loaded = greeting + \" from the loaded file\"\n"), 0o644); err != nil {
		return verdict{machinery: err.Error()}
	}
	var argv []string
	switch k.Mode {
	case "file":
		p := filepath.Join(dir, k.Name)
		if err := os.WriteFile(p, []byte(k.Src), 0o644); err != nil {
			return verdict{machinery: err.Error()}
		}
		argv = append([]string{p}, k.Args...)
	case "-e":
		argv = append([]string{"-e", k.Src}, k.Args...)
	case "missing":
		argv = append([]string{filepath.Join(dir, k.Name)}, k.Args...)
	case "dir":
		p := filepath.Join(dir, k.Name)
		if err := os.MkdirAll(p, 0o755); err != nil {
			return verdict{machinery: err.Error()}
		}
		argv = append([]string{p}, k.Args...)
	}
	cmd := exec.Command(r.bin, argv...)
	cmd.Dir = dir
	cli := runProc(cmd)
	if cli.failed != "" {
		return verdict{machinery: "anko: " + cli.failed}
	}
	if cli.timeout {
		return verdict{machinery: "anko: killed by the machinery timeout"}
	}
	if k.Mode == "missing" || k.Mode == "dir" {
		if cli.exit != 2 {
			return verdict{class: "exit-code/unreadable-file/" + k.Mode, detail: fmt.Sprintf("file cannot be read: want exit status 2, got %d (stdout %q)", cli.exit, cli.stdout)}
		}
		if !oneDiagnosticLine(cli.stdout) {
			return verdict{class: "stdout/unreadable-file/" + k.Mode, detail: fmt.Sprintf("want exactly one diagnostic line on standard output, got %q (stderr %q)", cli.stdout, cli.stderr)}
		}
		if !strings.Contains(cli.stdout, argv[0]) {
			return verdict{class: "stdout/unreadable-file-name/" + k.Mode, detail: fmt.Sprintf("the diagnostic line must name the file %q verbatim, got %q", argv[0], cli.stdout)}
		}
		return verdict{nontrivial: true, exit: cli.exit, stdout: cli.stdout}
	}
	refOut, refFailed, refErr, mach := r.reference(dir, k.Src, k.Args)
	if mach != "" {
		return verdict{machinery: mach}
	}
	v := verdict{nontrivial: refOut != "" || refFailed, refFailed: refFailed, exit: cli.exit, stdout: cli.stdout, refOut: refOut, refErr: refErr}
	if !refFailed {
		if cli.exit != 0 {
			v.class, v.detail = "exit-code/library-succeeds/"+k.Mode, fmt.Sprintf("vm.Execute returns no error: want exit status 0, got %d (stdout %q)", cli.exit, cli.stdout)
			return v
		}
		if cli.stdout != refOut {
			v.class, v.detail = "stdout/library-succeeds/"+k.Mode, fmt.Sprintf("script prints %q; anko wrote %q", refOut, cli.stdout)
		}
		return v
	}
	if cli.exit != 4 {
		v.class, v.detail = "exit-code/library-fails/"+k.Mode, fmt.Sprintf("vm.Execute returns an error: want exit status 4, got %d (stdout %q)", cli.exit, cli.stdout)
		return v
	}
	if !strings.HasPrefix(cli.stdout, refOut) {
		v.class, v.detail = "stdout/library-fails/"+k.Mode, fmt.Sprintf("script prints %q before failing; anko wrote %q", refOut, cli.stdout)
		return v
	}
	rest := cli.stdout[len(refOut):]
	multiLine := strings.Contains(refErr, "\n") // an error text with line breaks cannot fit one line: only its first line is required then
	if !multiLine && !oneDiagnosticLine(rest) {
		v.class, v.detail = "stdout/diagnostic-line/"+k.Mode, fmt.Sprintf("after the script's output %q want exactly one diagnostic line on standard output, got %q (stderr %q)", refOut, rest, cli.stderr)
		return v
	}
	if !strings.Contains(firstLine(rest), firstLine(refErr)) || !strings.HasSuffix(rest, "\n") {
		v.class, v.detail = "stdout/diagnostic-text/"+k.Mode, fmt.Sprintf("the diagnostic line must contain the library's error text %q verbatim, got %q", refErr, rest)
	}
	return v
}

// ---------- build ----------

func buildAnko(repo, work string) (string, error) {
	bin := filepath.Join(work, "anko")
	cmd := exec.Command("go", "build", "-o", bin, ".")
	cmd.Dir = repo
	cmd.Env = append(os.Environ(), "GOFLAGS=-mod=mod", "GOPROXY=off", "GOSUMDB=off", "GOTOOLCHAIN=local",
		"GOCACHE="+filepath.Join(common.VerifDir, ".cache", "go-build"))
	out, err := cmd.CombinedOutput()
	if err != nil {
		return "", fmt.Errorf("go build in %s: %v\n%s", repo, err, out)
	}
	return bin, nil
}

func newRunner(c *common.Ctx) (*runner, func(), error) {
	base := filepath.Join(common.VerifDir, ".work")
	os.MkdirAll(base, 0o755)
	work, err := os.MkdirTemp(base, "c18-")
	if err != nil {
		return nil, nil, err
	}
	cleanup := func() { os.RemoveAll(work) }
	bin, err := buildAnko(c.Repo, work)
	if err != nil {
		cleanup()
		return nil, nil, err
	}
	return &runner{bin: bin, work: work}, cleanup, nil
}

// ---------- run ----------

func run(c *common.Ctx) *common.Result {
	res := common.NewResult()
	r, cleanup, err := newRunner(c)
	if err != nil {
		fmt.Fprintln(os.Stderr, "machinery error: cannot build the anko command:", err)
		os.Exit(2)
	}
	defer cleanup()

	scripts := corpus(c.Thorough())
	res.Add("scripts", int64(len(scripts)))
	type item struct {
		k ccase
		v verdict
		d bool
	}
	all := make([][]item, len(scripts))
	common.ParallelFor(c, len(scripts), func(i int) {
		dir := filepath.Join(r.work, fmt.Sprintf("s%04d", i))
		if err := os.MkdirAll(dir, 0o755); err != nil {
			return
		}
		cfgs := configsFor(scripts[i].Src)
		items := make([]item, len(cfgs))
		for j, k := range cfgs {
			items[j].k = k
			if c.Expired() {
				continue
			}
			items[j].v = r.check(dir, k)
			items[j].d = true
		}
		all[i] = items
		os.RemoveAll(dir)
	})
	for i, items := range all {
		tag := scripts[i].Tag
		refFailedSeen, refOKSeen := false, false
		for _, it := range items {
			if !it.d {
				res.Cap("soft deadline reached")
				continue
			}
			if it.v.machinery != "" {
				res.Add("machinery_skipped", 1)
				res.Distinct("machinery", it.v.machinery)
				res.Cap("some cases could not be executed (see machinery notes)")
				continue
			}
			res.Add("evaluations", 1)
			res.Add("runs_"+it.k.Mode, 1)
			if it.v.nontrivial {
				if it.k.Mode == "missing" || it.k.Mode == "dir" {
					// the script text plays no role here: distinct by path condition and arguments
					res.Distinct("nontrivial", ccase{"", it.k.Mode, it.k.Name, it.k.Args}.text())
				} else {
					res.Distinct("nontrivial", it.k.text())
				}
			}
			if it.k.Mode == "file" || it.k.Mode == "-e" {
				if it.v.refFailed {
					refFailedSeen = true
					res.Add("library_fails", 1)
				} else {
					refOKSeen = true
					res.Add("library_succeeds", 1)
				}
			}
			if it.v.class != "" {
				res.Violate(common.Violation{Class: it.v.class, Case: it.k.text(), Detail: it.v.detail, Replay: it.k})
			}
		}
		res.Add("scripts_tag_"+tag, 1)
		// the corpus labels are only bookkeeping: report labels the library disagrees with
		want := scripts[i].Fails
		if tag != "args-index-error" && ((want && refOKSeen) || (!want && refFailedSeen)) {
			res.Distinct("label_mismatch", fmt.Sprintf("%q labelled fails=%v", scripts[i].Src, want))
		}
	}
	if n := res.SetSize("label_mismatch"); n > 0 {
		res.Note(fmt.Sprintf("corpus labels that the library disagrees with (bookkeeping only, not an oracle): %v", res.SetMembers("label_mismatch")))
	}
	for _, m := range res.SetMembers("machinery") {
		res.Note("machinery: " + m)
	}
	want := []struct{ tag, mode string }{
		{"ok-arith", "file"}, {"args-print", "file"}, {"args-loop", "-e"}, {"pkg-strings", "-e"}, {"lex-unterminated-string", "file"},
		{"syn-late", "-e"}, {"run-in-loop", "file"}, {"throw-after-catch", "-e"}, {"throw-percent-mid", "file"}, {"ok-print-nonl", "-e"},
		{"ok-empty", "missing"}, {"ok-empty", "dir"},
	}
	for _, w := range want {
	search:
		for i, s := range scripts {
			if s.Tag != w.tag {
				continue
			}
			for _, it := range all[i] {
				if it.d && it.v.machinery == "" && it.k.Mode == w.mode && (len(it.k.Args) == 2 || w.mode == "dir") {
					m := map[string]interface{}{"class": s.Tag, "case": it.k.text(), "anko_exit": it.v.exit, "anko_stdout": it.v.stdout, "agrees": it.v.class == ""}
					if w.mode == "file" || w.mode == "-e" {
						m["library_error"] = it.v.refFailed
						m["library_stdout"] = it.v.refOut
						if it.v.refFailed {
							m["library_error_text"] = it.v.refErr
						}
					}
					res.Sample(m)
					break search
				}
			}
		}
	}
	return res
}

func coverage(c *common.Ctx, r *common.Result) map[string]interface{} {
	tags := map[string]int64{}
	for k, v := range r.Counts {
		if strings.HasPrefix(k, "scripts_tag_") {
			tags[strings.TrimPrefix(k, "scripts_tag_")] = v
		}
	}
	return map[string]interface{}{
		"evaluations":         r.Counts["evaluations"],
		"distinct_nontrivial": r.SetSize("nontrivial"),
		"rule": "one evaluation = one run of the freshly built anko binary compared with the oracle; it is non-trivial when (file present or -e) the reference run of vm.Execute printed something or returned an error, " +
			"or (missing file / directory) the binary was run on the unreadable path; empty scripts that print nothing and succeed are evaluated but not counted",
		"scripts":            r.Counts["scripts"],
		"scripts_by_class":   tags,
		"runs_file":          r.Counts["runs_file"],
		"runs_dash_e":        r.Counts["runs_-e"],
		"runs_missing_file":  r.Counts["runs_missing"],
		"runs_directory":     r.Counts["runs_dir"],
		"library_succeeds":   r.Counts["library_succeeds"],
		"library_fails":      r.Counts["library_fails"],
		"machinery_skipped":  r.Counts["machinery_skipped"],
		"argument_sets":      argSets,
		"diagnostic_goes_to": "standard output (fmt.Println in anko.go), as the property states",
		"out_of_scope_noted": "`anko -e \"\"` starts the interactive mode (prints a prompt): the empty script is only supplied as a file",
	}
}

func replay(c *common.Ctx, path string) int {
	var k ccase
	class, cs, err := common.ReadReplay(path, &k)
	if err != nil {
		fmt.Println("cannot read replay:", err)
		return 2
	}
	r, cleanup, err := newRunner(c)
	if err != nil {
		fmt.Println("machinery error: cannot build the anko command:", err)
		return 2
	}
	defer cleanup()
	var got [2]verdict
	for i := range got {
		dir := filepath.Join(r.work, fmt.Sprintf("replay%d", i))
		os.MkdirAll(dir, 0o755)
		got[i] = r.check(dir, k)
		if got[i].machinery != "" {
			fmt.Println("machinery:", got[i].machinery)
			return 2
		}
	}
	fmt.Printf("case: %s (recorded class %s)\n", cs, class)
	if got[0].class != got[1].class {
		fmt.Printf("NONDETERMINISTIC replay: %q vs %q\n", got[0].class, got[1].class)
		return 2
	}
	if got[0].class == "" {
		fmt.Println("replay: the command agrees with the library")
		return 0
	}
	fmt.Println("divergence:", got[0].class+":", got[0].detail)
	return 1
}

func init() {
	common.Register(&common.Prop{
		ID: "C18", Level: "exploration", Run: run, Coverage: coverage, Replay: replay,
		Assumptions: []string{
			"the binary is built with plain `go build` from the repository given by -repo (no overlay, no instrumentation); the reference runs vm.Execute(e, nil, src) in a child process of the checker on env.NewEnv + Define(\"args\") + core.Import with the bundled packages linked in",
			"scripts are a fixed, systematically composed corpus (prefix output x body class x suffix output x trailing newline); all terminate, none starts goroutines, reads input or touches files; error messages are single-line",
			"the text of the diagnostic line is not compared: only that exactly one non-empty newline-terminated line follows the script's own output on standard output; standard error is not examined",
			"script arguments are a, 'b c' and -x; a file name is never flag-like; interactive mode (no script, or -e \"\") is out of scope",
			"the per-process 60 s kill timer protects the machinery only: a hit makes the run non-exhaustive, never a verdict",
		},
	})
}
