package c18

import "strings"

type script struct {
	Src   string
	Tag   string // class of the body (bookkeeping, shown in the evidence)
	Fails bool   // expected verdict (bookkeeping only; the oracle is the reference run)
}

type body struct {
	tag   string
	src   string
	fails bool
	parse bool // fails before anything runs
}

// bodies: one or more per class named in the design (success, lexer error,
// grammar error, runtime error, uncaught throw, error inside a function, use
// of args, use of an imported bundled package, multi-line).
var bodies = []body{
	// ---- success ----
	{tag: "ok-empty", src: ``},
	{tag: "ok-arith", src: "x = 1 + 2\nprintln(x)"},
	{tag: "ok-func", src: "func f(a) { return a * 2 }\nprintln(f(21))"},
	{tag: "ok-loop", src: "for i in [1, 2, 3] { println(i) }"},
	{tag: "ok-if", src: "if 1 > 2 { println(\"no\") } else { println(\"yes\") }"},
	{tag: "ok-containers", src: "a = [1, 2, 3]\nm = {\"k\": 7}\nprintln(len(a), a[1], m[\"k\"])"},
	{tag: "ok-builtins", src: "println(toString(1.5), toInt(\"12\"), typeOf(1), range(3))"},
	{tag: "ok-try", src: "try { throw \"boom\" } catch e { println(\"caught\", e) }"},
	{tag: "ok-unicode", src: "println(\"é日\")"},
	{tag: "ok-multiline", src: "# a comment\nprintln(1)\n\n\nx = [\n  1,\n  2,\n]\nprintln(len(x))"},
	{tag: "ok-semicolons", src: "a = 1; b = 2; println(a + b)"},
	{tag: "ok-noprint", src: "x = 40 + 2"},
	{tag: "ok-print-nonl", src: "print(\"no newline\")"},
	{tag: "ok-printf", src: "printf(\"%05d|%s\\n\", 42, \"s\")"},
	{tag: "ok-divzero-float", src: "println(1 / 0)"},
	// ---- builtins that look at the environment the script runs in ----
	{tag: "ok-defined-own-name", src: "a = 1\nprintln(defined(\"a\"), defined(\"nosuchname\"))"},
	{tag: "ok-defined-own-func", src: "func f() { return 1 }\nif !defined(\"f\") { throw \"f is not defined\" }\nprintln(\"ok\")"},
	{tag: "ok-load-sees-names", src: "greeting = \"hi\"\nload(\"aux-load.ank\")\nprintln(loaded)"},
	{tag: "ok-keys-of-env-value", src: "m = {\"a\": 1}\nprintln(keys(m), typeOf(args))"},
	// ---- shapes of the source text itself ----
	{tag: "ok-long-line", src: "x = \"" + strings.Repeat("a", 70000) + "\"\nprintln(len(x))"},
	{tag: "ok-long-comment", src: "# " + strings.Repeat("c", 66000) + "\nprintln(\"after the comment\")"},
	{tag: "ok-crlf-raw-string", src: "x = `a\r\nb`\r\nprintln(len(x))\r\nprintln(\"end\")"},
	{tag: "ok-cr-only", src: "println(\"a\")\rprintln(\"b\")"},
	{tag: "ok-tabs-formfeed", src: "\tprintln(\"t\")\n\n\n   println(\"s\")"},
	// ---- args ----
	{tag: "args-print", src: "println(args)"},
	{tag: "args-len", src: "println(len(args))"},
	{tag: "args-loop", src: "for a in args { println(\"[\" + a + \"]\") }"},
	{tag: "args-first", src: "if len(args) > 0 { println(args[0]) } else { println(\"none\") }"},
	{tag: "args-type", src: "println(typeOf(args), len(args))"},
	{tag: "args-index-error", src: "println(args[1])", fails: true}, // fails only with < 2 arguments: label is bookkeeping
	// ---- bundled packages ----
	{tag: "pkg-strings", src: "strings = import(\"strings\")\nprintln(strings.ToUpper(\"abc\"), strings.Repeat(\"ab\", 2))"},
	{tag: "pkg-strconv", src: "strconv = import(\"strconv\")\nprintln(strconv.Itoa(12) + \"!\")"},
	{tag: "pkg-math", src: "math = import(\"math\")\nprintln(math.Sqrt(16), math.Floor(2.5))"},
	{tag: "pkg-time-const", src: "time = import(\"time\")\nprintln(time.Second, time.Friday)"},
	{tag: "pkg-sort", src: "sort = import(\"sort\")\na = make([]int, 0)\na += 3\na += 1\nsort.Ints(a)\nprintln(a)"},
	{tag: "pkg-filepath", src: "fp = import(\"path/filepath\")\nprintln(fp.Base(\"/a/b.txt\"), fp.Ext(\"x.go\"))"},
	{tag: "pkg-json", src: "json = import(\"encoding/json\")\nb, err = json.Marshal([1, 2])\nprintln(toString(b), err)"},
	{tag: "pkg-regexp", src: "re = import(\"regexp\")\nprintln(re.MustCompile(\"a+\").FindString(\"baaad\"))"},
	{tag: "pkg-types", src: "time = import(\"time\")\nd = make(time.Duration)\nprintln(typeOf(d))"},
	{tag: "pkg-fmt", src: "fmt = import(\"fmt\")\nfmt.Println(fmt.Sprintf(\"%03d\", 7))"},
	{tag: "pkg-unknown", src: "x = import(\"no/such/package\")\nprintln(\"unreachable\")", fails: true},
	{tag: "pkg-unknown-member", src: "strings = import(\"strings\")\nprintln(strings.NoSuchFunction(\"a\"))", fails: true},
	// ---- lexer errors ----
	{tag: "lex-unterminated-string", src: "println(\"a", fails: true, parse: true},
	{tag: "lex-bad-char", src: "x = 1 $ 2", fails: true, parse: true},
	{tag: "lex-bad-char-late", src: "println(\"before\")\ny = `", fails: true, parse: true},
	// ---- grammar errors ----
	{tag: "syn-if", src: "if {", fails: true, parse: true},
	{tag: "syn-paren", src: "println(1", fails: true, parse: true},
	{tag: "syn-brace", src: "x = 1\n}", fails: true, parse: true},
	{tag: "syn-operator", src: "x = = 1", fails: true, parse: true},
	{tag: "syn-func", src: "func (", fails: true, parse: true},
	{tag: "syn-late", src: "println(\"before\")\nfor {", fails: true, parse: true},
	// ---- runtime errors ----
	{tag: "run-undefined", src: "println(undefined_name)", fails: true},
	{tag: "run-undefined-call", src: "nosuchfunc()", fails: true},
	{tag: "run-index", src: "a = [1]\nprintln(a[5])", fails: true},
	{tag: "run-call-nonfunc", src: "x = 1\nx()", fails: true},
	{tag: "run-mod-zero", src: "println(1 % 0)", fails: true},
	{tag: "run-invalid-op", src: "1++", fails: true},
	{tag: "run-builtin-misuse", src: "keys(1)", fails: true},
	{tag: "run-builtin-count", src: "toInt()", fails: true},
	{tag: "run-in-loop", src: "for i in [1, 2, 3] {\n  println(i)\n  if i == 2 { nosuch() }\n}", fails: true},
	// ---- uncaught throw ----
	{tag: "throw-string", src: "throw \"boom\"", fails: true},
	{tag: "throw-number", src: "throw 12", fails: true},
	{tag: "throw-after-catch", src: "try { throw \"a\" } catch e { println(\"caught\", e) }\nthrow \"b\"", fails: true},
	{tag: "throw-rethrow", src: "try { throw \"a\" } catch e { throw e }", fails: true},
	// ---- error texts that contain '%' (must be reported verbatim, not used as a format) ----
	{tag: "throw-percent-mid", src: "throw \"disk 100% full\"", fails: true},
	{tag: "throw-percent-verb", src: "throw \"%d items\"", fails: true},
	{tag: "throw-percent-end", src: "throw \"50%\"", fails: true},
	{tag: "throw-percent-only", src: "throw \"%\"", fails: true},
	{tag: "throw-percent-double", src: "throw \"a%%b\"", fails: true},
	{tag: "throw-percent-bang", src: "throw \"%!x\"", fails: true},
	{tag: "throw-percent-verbs", src: "println(\"working\")\nthrow \"%s and %v and %5.2f\"", fails: true},
	{tag: "throw-multiword", src: "throw \"the quick brown fox: jumps, over\"", fails: true},
	{tag: "func-throw-percent", src: "func f(n) { throw \"only \" + toString(n) + \"% left\" }\nf(3)", fails: true},
	{tag: "pkg-unknown-percent", src: "x = import(\"100%/pkg\")", fails: true},
	{tag: "ok-print-percent", src: "println(\"100% done, %d %s\")\nprintf(\"%d%%\\n\", 5)"},
	// ---- error inside a function ----
	{tag: "func-throw", src: "func f() { throw \"in f\" }\nf()", fails: true},
	{tag: "func-undefined", src: "func f() { return undefined_in_f }\nprintln(f())", fails: true},
	{tag: "func-nested", src: "func g() { return [1][3] }\nfunc f() { println(\"in f\"); return g() }\nf()", fails: true},
	{tag: "func-wrong-count", src: "func f(a, b) { return a }\nf(1)", fails: true},
}

type wrap struct {
	pre, post string
}

var wrapsQuick = []wrap{
	{"", ""},
	{"println(\"a\")", "println(\"z\")"},
}

var wrapsThorough = []wrap{
	{"", ""},
	{"println(\"a\")", ""},
	{"", "println(\"z\")"},
	{"println(\"a\")", "println(\"z\")"},
	{"println(1, \"b\", 2.5)", "println(\"z\")"},
	{"print(\"x\")", ""},
	{"printf(\"%d-%s\\n\", 7, \"q\")", "print(\"end\")"},
	{"println(\"a\")\nprintln(\"b\")", "println(\"y\")\nprintln(\"z\")"},
}

func compose(w wrap, b body, sep string, trailingNL bool) string {
	var parts []string
	if w.pre != "" {
		parts = append(parts, w.pre)
	}
	if b.src != "" {
		parts = append(parts, b.src)
	}
	if w.post != "" {
		parts = append(parts, w.post)
	}
	s := strings.Join(parts, sep)
	if trailingNL && s != "" {
		s += "\n"
	}
	return s
}

// corpus composes prefix output x body x suffix output x trailing newline
// (thorough: also the statement separator), de-duplicated, in a fixed order.
func corpus(thorough bool) []script {
	var out []script
	seen := map[string]bool{}
	add := func(src string, b body) {
		if seen[src] {
			return
		}
		seen[src] = true
		out = append(out, script{Src: src, Tag: b.tag, Fails: b.fails})
	}
	if !thorough {
		for i, b := range bodies {
			for j, w := range wrapsQuick {
				add(compose(w, b, "\n", (i+j)%2 == 0), b)
			}
		}
		return out
	}
	for _, b := range bodies {
		for _, w := range wrapsThorough {
			for _, nl := range []bool{false, true} {
				add(compose(w, b, "\n", nl), b)
			}
		}
		// one-line form with ';' where the body has no comment or line structure of its own
		if !strings.Contains(b.src, "#") && !strings.Contains(b.src, "[\n") && !strings.Contains(b.src, "{\n") {
			flat := b
			flat.src = strings.ReplaceAll(b.src, "\n", "; ")
			for _, w := range wrapsThorough[1:5] {
				add(compose(w, flat, "; ", false), b)
			}
		}
	}
	return out
}
