// Package c02: cancelling the context always stops a running script.
// Programs = wrappers[ core ] where the core spins (bounded but long loops,
// recursion) or blocks (channel receive / send / range) and the wrappers are
// every nesting of the constructs that could swallow or lose the interrupt.
// Each program runs on the real interpreter under the cooperative scheduler;
// every context poll and every channel operation is a schedule point and
// "cancel the context now" is a pseudo-thread step that competes at every
// point, so the cancellation lands at every instant relative to the
// interpreter's progress (and, for programs with goroutines, under every
// interleaving within the preemption bound).
package c02

import (
	"sync/atomic"
	"fmt"
	"reflect"
	"strings"

	"github.com/mattn/anko/env"
	"github.com/mattn/anko/parser"
	"github.com/mattn/anko/vhook"
	"github.com/mattn/anko/vm"
	"verif/engine/common"
	"verif/engine/explore"
	"verif/engine/lib/stepctx"
	"verif/engine/lib/vmrun"
	"verif/engine/sched"
)

const spinN = 22 // iterations of a "non-terminating" core; far beyond the cancellation window

type core struct {
	Name     string
	Src      string // statements
	Blocked  bool
	MaxDepth int  // 0: every nesting depth; n: only under at most n wrappers
	Go       bool // the core starts a goroutine of its own
}

var cores = []core{
	{"loop-nocond", "var n = 0\nfor { n = n + 1; if n > %N { break }; s(1) }", false, 0, false},
	{"loop-cond", "var n = 0\nfor n < %N { n = n + 1; s(1) }", false, 0, false},
	{"loop-cstyle", "for i = 0; i < %N; i++ { s(1) }", false, 0, false},
	{"loop-slice", "for x in long { s(1) }", false, 0, false},
	{"loop-map", "for k, v in longmap { s(1) }", false, 0, false},
	{"recursion", "func rec(i) { if i > %N { return 0 }; s(1); return rec(i + 1) }\nrec(0)", false, 0, false},
	// recursion whose function bodies are a lone return statement (no if, loop or
	// assignment anywhere in the cycle; the probe sits inside the returned expression, so the cancellation
	// can land there): the return statement itself must look at the context
	{"recursion-return-only", "func fib(n) { return n < 2 ? s(1) : fib(n - 1) + fib(n - 2) }\nfib(6)", false, 0, false},
	{"recursion-return-only-mutual", "func ra(n, x) { return n < 1 ? x : rb(n - 1, x, s(1)) }\nfunc rb(n, x, y) { return ra(n, x + y) }\nra(%N, 0)", false, 0, false},
	{"func-body-loops", "func spin() { for i = 0; i < %N; i++ { s(1) } }\nspin()", false, 0, false},
	{"blocked-recv", "<-never", true, 0, false},
	{"blocked-send", "never <- 1", true, 0, false},
	{"blocked-range", "for x in never { s(1) }", true, 0, false},
	{"blocked-recv2", "v, ok = <-never", true, 0, false},
	// forwarding form dst <- src: the receive half succeeds, the send half can never complete
	{"blocked-forward", "rdy = make(chan int64, 1)\nrdy <- 1\nnever <- rdy", true, 0, false},
	{"blocked-forward2", "rdy = make(chan int64, 1)\nrdy <- 1\nnever <- <-rdy", true, 0, false},
	// a buffered channel with two values waiting and MORE THAN ONE taker: whatever a
	// range loop believes about the buffer when it starts is out of date when its
	// body (or another goroutine) has taken a value; the loop ends up waiting on the
	// empty channel and that wait must see the cancellation
	// a backlog of 30 values: a loop that takes a waiting value must still look at
	// the context every time round (with or without a body), so that the number of
	// steps after the cancellation stays small whatever the backlog
	{"range-backlog-empty-body", "for x in feed { }", true, 1, false},
	{"range-backlog-body", "for x in feed { s(1) }", true, 1, false},
	{"recv-backlog-loop", "for { x = <-feed }", true, 1, false},
	{"range-body-takes", "sh = make(chan int64, 2)\nsh <- 1\nsh <- 2\nfor x in sh { y = <-sh; s(1) }", true, 0, false},
	{"range-two-takers", "sh = make(chan int64, 2)\nsh <- 1\nsh <- 2\ngo func() { for y in sh { s(2) } }()\nfor x in sh { s(1) }", true, 1, true},
	{"recv-two-takers", "sh = make(chan int64, 2)\nsh <- 1\nsh <- 2\ngo func() { <-sh; s(2); <-sh }()\n<-sh\ns(1)\n<-sh\n<-sh", true, 1, true},
}

type wrapper struct {
	Name string
	// Wrap embeds body (statements) and returns statements.
	Wrap func(body string, id int) string
	Go   bool
	// Lib: the body goes into a function that an EARLIER run on the same
	// environment defines (the prelude); what stays in the program is the call.
	Lib func(body string, id int) (prelude, call string)
	// Solo wrappers are explored alone and in depth-2 pairs with soloMates only.
	Solo bool
}

func indent(s string) string { return strings.ReplaceAll(s, "\n", "\n\t") }

var wrappers = []wrapper{
	{"if", func(b string, id int) string { return "if true {\n\t" + indent(b) + "\n}" }, false, nil, false},
	{"else", func(b string, id int) string { return "if false {\n\ts(90)\n} else {\n\t" + indent(b) + "\n}" }, false, nil, false},
	{"elseif", func(b string, id int) string { return "if false {\n\ts(90)\n} else if true {\n\t" + indent(b) + "\n}" }, false, nil, false},
	{"switch-case", func(b string, id int) string { return "switch 1 {\ncase 1:\n\t" + indent(b) + "\n}" }, false, nil, false},
	{"switch-default", func(b string, id int) string { return "switch 1 {\ncase 2:\n\ts(90)\ndefault:\n\t" + indent(b) + "\n}" }, false, nil, false},
	{"loop", func(b string, id int) string { return "for {\n\t" + indent(b) + "\n\tbreak\n}" }, false, nil, false},
	{"cfor", func(b string, id int) string {
		return fmt.Sprintf("for w%d = 0; w%d < 1; w%d++ {\n\t", id, id, id) + indent(b) + "\n}"
	}, false, nil, false},
	{"forin", func(b string, id int) string { return fmt.Sprintf("for w%d in [1] {\n\t", id) + indent(b) + "\n}" }, false, nil, false},
	{"try-body", func(b string, id int) string { return "try {\n\t" + indent(b) + "\n} catch {\n\ts(91)\n}" }, false, nil, false},
	{"try-body-empty-catch", func(b string, id int) string { return "try {\n\t" + indent(b) + "\n} catch {\n}" }, false, nil, false},
	{"catch-body", func(b string, id int) string { return "try {\n\tthrow 1\n} catch {\n\t" + indent(b) + "\n}" }, false, nil, false},
	{"finally-body", func(b string, id int) string {
		return "try {\n\ts(92)\n} catch {\n\ts(91)\n} finally {\n\t" + indent(b) + "\n}"
	}, false, nil, false},
	{"coalesce-left", func(b string, id int) string { return "(func() {\n\t" + indent(b) + "\n}()) ?? 0" }, false, nil, false},
	{"coalesce-right", func(b string, id int) string { return "nil ?? (func() {\n\t" + indent(b) + "\n}())" }, false, nil, false},
	{"func0", func(b string, id int) string {
		return fmt.Sprintf("func f%d() {\n\t", id) + indent(b) + fmt.Sprintf("\n}\nf%d()", id)
	}, false, nil, false},
	{"func1", func(b string, id int) string {
		return fmt.Sprintf("func f%d(a) {\n\t", id) + indent(b) + fmt.Sprintf("\n}\nf%d(1)", id)
	}, false, nil, false},
	{"func4", func(b string, id int) string {
		return fmt.Sprintf("func f%d(a, b, c, d) {\n\t", id) + indent(b) + fmt.Sprintf("\n}\nf%d(1, 2, 3, 4)", id)
	}, false, nil, false},
	{"func5", func(b string, id int) string {
		return fmt.Sprintf("func f%d(a, b, c, d, e) {\n\t", id) + indent(b) + fmt.Sprintf("\n}\nf%d(1, 2, 3, 4, 5)", id)
	}, false, nil, false},
	{"func-variadic", func(b string, id int) string {
		return fmt.Sprintf("func f%d(a, b...) {\n\t", id) + indent(b) + fmt.Sprintf("\n}\nf%d(1, 2, 3)", id)
	}, false, nil, false},
	{"anon-call", func(b string, id int) string { return "func() {\n\t" + indent(b) + "\n}()" }, false, nil, false},
	{"deferred", func(b string, id int) string {
		return fmt.Sprintf("func g%d() {\n\tdefer func() {\n\t\t", id) + indent(indent(b)) + fmt.Sprintf("\n\t}()\n\ts(93)\n}\ng%d()", id)
	}, false, nil, false},
	{"go", func(b string, id int) string {
		return fmt.Sprintf("d%d = make(chan int64)\ngo func() {\n\t", id) + indent(b) + fmt.Sprintf("\n\td%d <- 1\n}()\n<-d%d", id, id)
	}, true, nil, false},
	{"callback", func(b string, id int) string { return "hostcall(func() {\n\t" + indent(b) + "\n})" }, false, nil, false},
	{"func2", func(b string, id int) string {
		return fmt.Sprintf("func f%d(a, b) {\n\t", id) + indent(b) + fmt.Sprintf("\n}\nf%d(1, 2)", id)
	}, false, nil, true},
	{"func3", func(b string, id int) string {
		return fmt.Sprintf("func f%d(a, b, c) {\n\t", id) + indent(b) + fmt.Sprintf("\n}\nf%d(1, 2, 3)", id)
	}, false, nil, true},
	// a host function deferred FIRST (so it runs last, after the deferred script
	// function in which the cancellation lands); h2 is not a probe: deferred calls
	// do run on every exit
	{"deferred-before-host", func(b string, id int) string {
		return fmt.Sprintf("func g%d() {\n\tdefer h2(1, 2)\n\tdefer func() {\n\t\t", id) + indent(indent(b)) + fmt.Sprintf("\n\t}()\n\ts(93)\n}\ng%d()", id)
	}, false, nil, true},
	// the invocation that defers the script function ends with an explicit return
	// (the pending "return" must not hide what the deferred call ends with), as a
	// function and as the top level of the program
	{"deferred-return", func(b string, id int) string {
		return fmt.Sprintf("func g%d() {\n\tdefer func() {\n\t\t", id) + indent(indent(b)) + fmt.Sprintf("\n\t}()\n\ts(93)\n\treturn 1\n}\ng%d()", id)
	}, false, nil, true},
	{"toplevel-deferred-return", func(b string, id int) string {
		return "defer func() {\n\t" + indent(b) + "\n}()\ns(93)\nreturn 1"
	}, false, nil, true},
	libWrapper("lib0", "", ""),
	libWrapper("lib1", "a", "1"),
	libWrapper("lib2", "a, b", "1, 2"),
	libWrapper("lib3", "a, b, c", "1, 2, 3"),
	libWrapper("lib4", "a, b, c, d", "1, 2, 3, 4"),
	libWrapper("lib5", "a, b, c, d, e", "1, 2, 3, 4, 5"),
	libWrapper("lib-variadic", "a, b...", "1, 2, 3"),
}

// libWrapper: a script function of the given parameter list, defined by an
// earlier run on the same environment (under a context that is never cancelled)
// and called from the run that is cancelled.
func libWrapper(name, params, args string) wrapper {
	return wrapper{Name: name, Solo: true, Lib: func(b string, id int) (string, string) {
		return fmt.Sprintf("func %s_%d(%s) {\n\t", strings.ReplaceAll(name, "-", "_"), id, params) + indent(b) + "\n}",
			fmt.Sprintf("%s_%d(%s)", strings.ReplaceAll(name, "-", "_"), id, args)
	}}
}

var soloMates = map[string]bool{"loop": true, "try-body": true, "func1": true, "go": true, "deferred": true}

var depth3Rep = map[string]bool{"if": true, "loop": true, "try-body": true, "catch-body": true, "coalesce-left": true, "func1": true, "deferred": true, "go": true, "callback": true}

func allRep(path []int) bool {
	for _, wi := range path {
		if !depth3Rep[wrappers[wi].Name] {
			return false
		}
	}
	return true
}

type program struct {
	Name  string `json:"name"`
	Src   string `json:"src"`
	Depth int    `json:"depth"`
	Go    bool   `json:"go"`
	Bound int    `json:"bound"`
	Pre   string `json:"pre,omitempty"` // run first, on the same environment, under a context that is never cancelled
}

func programs(thorough bool) []program {
	maxDepth := 2
	if thorough {
		maxDepth = 3
	}
	var res []program
	var rec func(path []int)
	rec = func(path []int) {
		for _, tail := range []bool{false, true} {
			for _, c := range cores {
				if c.MaxDepth > 0 && len(path) > c.MaxDepth {
					continue
				}
				body := strings.ReplaceAll(c.Src, "%N", fmt.Sprint(spinN))
				names := []string{}
				hasGo := c.Go
				pre := ""
				for i := len(path) - 1; i >= 0; i-- {
					w := wrappers[path[i]]
					if w.Lib != nil {
						var def string
						def, body = w.Lib(body, i)
						pre += def + "\n"
					} else {
						body = w.Wrap(body, i)
					}
					if w.Go {
						hasGo = true
					}
				}
				for _, wi := range path {
					names = append(names, wrappers[wi].Name)
				}
				src := "s(0)\n" + body + "\ns(99)\n"
				if tail {
					// the wrapped core is the last statement of the program: a construct
					// that swallows the interruption makes the call return normally
					src = "s(0)\n" + body + "\n"
				}
				bound := 1
				if hasGo {
					// programs with goroutines: interleavings (preemptions) and the
					// cancellation share one deviation budget
					switch {
					case thorough && len(path) <= 2:
						bound = 3
					case len(path) <= 2:
						bound = 2
					default:
						bound = 1 // depth 3: the cancellation at every point of the default schedule
					}
				}
				name := strings.Join(names, ">") + ">" + c.Name
				if tail {
					name += ">END"
				}
				res = append(res, program{Name: name, Src: src, Depth: len(path), Go: hasGo, Bound: bound, Pre: pre})
			}
		}
		if len(path) == maxDepth {
			return
		}
		for wi := range wrappers {
			solo := wrappers[wi].Solo
			for _, pi := range path {
				solo = solo || wrappers[pi].Solo
			}
			if solo {
				// a solo wrapper: alone, or paired (either way round) with a mate
				if len(path) > 1 || (len(path) == 1 && !soloMates[wrappers[wi].Name] && !soloMates[wrappers[path[0]].Name]) {
					continue
				}
			}
			if len(path) == 2 && !(depth3Rep[wrappers[wi].Name] && allRep(path)) {
				// depth 3 is explored over one representative per wrapper family at
				// every level; depth <= 2 over all wrappers
				continue
			}
			rec(append(append([]int{}, path...), wi))
		}
	}
	rec(nil)
	return res
}

type probe struct {
	id     int64
	after  bool
	thread int
}

type result struct {
	out              vmrun.Outcome
	cancelled        bool
	mainDoneAtCancel bool
	pollsAtCancel    int64
	stepsAtCancel    int
	observed         int // polls that returned a cancelled context to the interpreter
	afterPolls       map[int]int
	probes           []probe
}

func newEnv(logf func(i int64)) *env.Env {
	e := env.NewEnv()
	e.Define("s", func(i int64) int64 {
		// the probe is a schedule point too, so that the cancellation can also land
		// while a script spins in a place where the interpreter does not poll the
		// caller's context (the callback adapter)
		logf(i)
		vhook.Yield("probe")
		return i
	})
	long := make([]interface{}, spinN+3)
	lm := map[interface{}]interface{}{}
	for i := range long {
		long[i] = int64(i)
		lm[int64(i)] = int64(i)
	}
	e.Define("long", long)
	e.Define("longmap", lm)
	e.Define("never", make(chan int64))

	e.Define("hostcall", func(cb func() interface{}) interface{} { return cb() })
	e.Define("h2", func(a, b interface{}) interface{} { return a })
	e.Define("hv", func(a ...interface{}) interface{} { return int64(len(a)) })
	return e
}

func runOnce(p program, ch sched.Chooser, record bool, pollCap int64) (r result, perr error) {
	stmt, err := parser.ParseSrc(p.Src)
	if err != nil {
		return r, err
	}
	r.afterPolls = map[int]int{}
	var sc *sched.Sched
	var ctx *stepctx.Ctx
	e := newEnv(func(i int64) {
		tid := -1
		if sc != nil {
			tid = sc.CurrentThread()
		}
		r.probes = append(r.probes, probe{id: i, after: r.cancelled, thread: tid})
	})
	if strings.Contains(p.Src, "feed") || strings.Contains(p.Pre, "feed") {
		// a channel with a long backlog: 30 values are waiting, nobody sends more
		feed := make(chan int64, 32)
		for i := int64(0); i < 30; i++ {
			feed <- i
		}
		e.Define("feed", feed)
	}
	mainReturned := false
	_ = mainReturned
	cfg := vmrun.Config{Fuel: -1, PollPoints: true, Record: record, MaxSteps: 4000,
		OnPoll: func(i int64) {
			if r.cancelled && sc != nil {
				r.afterPolls[sc.CurrentThread()]++
			}
		},
		AfterPoll: func(i int64, cancelled bool) {
			if cancelled {
				r.observed++
			}
		},
		Setup: func(s *sched.Sched, c *stepctx.Ctx) {
			sc, ctx = s, c
			s.WatchChan = reflect.ValueOf(c.Chan()).Pointer()
			s.AddEvent(&sched.Event{Name: "cancel", Once: true,
				Enabled: func() bool { return true },
				Fire: func() {
					r.cancelled = true
					r.stepsAtCancel = s.Steps
					r.pollsAtCancel = c.Polls()
					c.Cancel()
				}})
		}}
	_ = ctx
	_ = pollCap
	if p.Pre != "" {
		if _, err := vm.Execute(e, nil, p.Pre); err != nil {
			return r, fmt.Errorf("prelude: %v", err)
		}
	}
	r.out = vmrun.Run(stmt, e, ch, cfg)
	return r, nil
}

// judge applies the oracle to a run in which the cancellation fired.
func judge(p program, r result) (class, detail string) {
	o := r.out
	if o.Panic != "" {
		return "panic", o.Panic
	}
	if len(o.GoPanics) > 0 {
		return "goroutine-panic", strings.Join(o.GoPanics, "; ")
	}
	switch o.Verdict {
	case sched.Deadlock:
		return "not-stopped/blocked-forever", fmt.Sprintf("after the cancellation: main returned=%v, still blocked: %v", o.Returned, o.Blocked)
	case sched.StepLimit:
		return "not-stopped/step-limit", "still running after the step limit"
	case sched.Stuck:
		return "not-stopped/spins-without-polling", "a thread ran without reaching a poll"
	}
	for _, pr := range r.probes {
		if pr.after {
			return "statement-after-cancel", fmt.Sprintf("probe s(%d) ran on T%d after the cancellation instant (%d polls had been made)", pr.id, pr.thread, r.pollsAtCancel)
		}
	}
	if o.Err == nil && o.Sched != nil && o.Sched.WatchSkipped > 0 {
		// a select had both the cancelled context and a channel operation ready and
		// Go's select may pick either: the script completed concurrently with the
		// cancellation; nothing ran afterwards (checked above)
		return "", ""
	}
	if o.Err == nil {
		return "no-error", fmt.Sprintf("the call returned value %v and a nil error after the cancellation", o.Val)
	}
	if o.Err.Error() != "execution interrupted" {
		return "wrong-error", "error after the cancellation is " + o.Err.Error()
	}
	// steps of every kind (polls, channel operations, lock-free receives) after the
	// cancellation: bounded by the nesting depth, never by how much data is waiting
	after := o.Steps - r.stepsAtCancel
	for {
		old := atomic.LoadInt64(&maxStepsAfterCancel)
		if int64(after) <= old || atomic.CompareAndSwapInt64(&maxStepsAfterCancel, old, int64(after)) {
			break
		}
	}
	if after > stepsAfterCancelBound(p) {
		return "late-steps", fmt.Sprintf("%d scheduler steps (polls and channel operations) were made after the cancellation (allowed %d): the wait for the cancellation grows with the data that is waiting", after, stepsAfterCancelBound(p))
	}
	for tid, n := range r.afterPolls {
		if n > p.Depth+2 {
			return "late", fmt.Sprintf("T%d made %d further polls after the cancellation (allowed %d)", tid, n, p.Depth+2)
		}
	}
	return "", ""
}

var maxStepsAfterCancel int64

// stepsAfterCancelBound: every thread may make depth+2 polls and a handful of
// channel steps while it unwinds (measured maximum on the unchanged tree: see the
// evidence counter max_steps_after_cancel); 30 waiting values are beyond it for the programs that use them (bare or under one wrapper: at most 26).
func stepsAfterCancelBound(p program) int {
	threads := 1 + strings.Count(p.Src, "go func")
	return threads*(p.Depth+2+6) + 8
}

type replayData struct {
	Program program `json:"program"`
	Choices []int   `json:"choices"`
}

func family(p program) string {
	if strings.Contains(p.Name, "callback") {
		return "callback"
	}
	return "plain"
}

func run(c *common.Ctx) *common.Result {
	res := common.NewResult()
	progs := programs(c.Thorough())
	maxExecs := int64(200000)
	if c.Thorough() {
		maxExecs = 3000000
	}
	only := ""
	for _, a := range c.Args {
		if strings.HasPrefix(a, "only=") {
			only = strings.TrimPrefix(a, "only=")
		}
		if strings.HasPrefix(a, "gobound=") { // debugging aid: override the bound of programs with goroutines
			var b int
			fmt.Sscanf(strings.TrimPrefix(a, "gobound="), "%d", &b)
			for i := range progs {
				if progs[i].Go {
					progs[i].Bound = b
				}
			}
		}
	}
	for pi, p := range progs {
		if !c.Mine(pi) || (only != "" && p.Name != only) {
			continue
		}
		if c.Expired() {
			res.Cap("soft deadline: not all programs explored")
			break
		}
		reported := map[string]bool{}
		outcomes := map[string]bool{}
		st := explore.DFS(explore.Options{Bound: p.Bound, MaxExecs: maxExecs, Deadline: c.Deadline}, func(r *explore.Run) bool {
			x, err := runOnce(p, r, false, 0)
			if err != nil {
				res.Note("generated program does not parse (machinery): " + p.Name + ": " + err.Error() + "\n" + p.Src)
				res.Cap("generated program does not parse")
				return false
			}
			res.Add("transitions", int64(x.out.Steps))
			if r.Err != nil {
				res.Note("replay divergence in " + p.Name + ": " + r.Err.Error())
				res.Cap("replay divergence (machinery)")
				return false
			}
			if !x.cancelled {
				res.Add("runs_without_cancel", 1)
				if x.out.Verdict != sched.OK && !reported["uncancelled"] {
					reported["uncancelled"] = true
					res.Note(fmt.Sprintf("uncancelled run of %s ended with %s (blocked cores are expected to)", p.Name, x.out.Verdict))
				}
				return x.out.Verdict != sched.Stuck
			}
			if x.out.Returned && x.observed == 0 && x.out.Verdict == sched.OK && x.out.Err == nil {
				// the cancellation landed after the script's last poll: nothing left to interrupt
				res.Add("cancel_after_last_poll", 1)
				return true
			}
			res.Add("cancellations", 1)
			cl, d := judge(p, x)
			outcomes[cl] = true
			if cl != "" && !reported[cl] {
				choices := append([]int{}, r.Choices...)
				// replay the recorded schedule on a fresh instance before trusting the failure
				r2 := &explore.Run{Prefix: choices}
				x2, _ := runOnce(p, r2, false, 0)
				if cl2, _ := judge(p, x2); r2.Err != nil || !x2.cancelled || cl2 != cl {
					res.Note(fmt.Sprintf("a failure of %s (%s) did not reproduce when its schedule was replayed (second run: %q): not reported", p.Name, cl, cl2))
					res.Cap("an execution did not replay identically (machinery)")
					return true
				}
				reported[cl] = true
				res.Violate(common.Violation{Class: family(p) + "/" + cl, Case: p.Name + "\n" + p.Src, Detail: d + " | schedule=" + fmt.Sprint(choices),
					Replay: replayData{Program: p, Choices: choices}})
			}
			if x.out.Verdict == sched.StepLimit {
				return false // runaway program: one report is enough
			}
			return x.out.Verdict != sched.Stuck
		})
		res.Add("schedules", st.Execs)
		res.Add("programs", 1)
		res.Add("states", int64(len(outcomes)))
		res.Max("points", int64(st.MaxPoints))
		if st.Capped {
			res.Cap("execution cap/deadline hit in " + p.Name)
		}
		if pi%211 == 0 {
			res.Sample(map[string]interface{}{"program": p.Name, "source": p.Src, "cancellation_instants_and_schedules": st.Execs})
		}
	}
	res.Max("max_steps_after_cancel", atomic.LoadInt64(&maxStepsAfterCancel))
	return res
}

func coverage(c *common.Ctx, r *common.Result) map[string]interface{} {
	return map[string]interface{}{
		"states":                        r.Counts["states"],
		"transitions":                   r.Counts["transitions"],
		"traces_validated_against_impl": r.Counts["cancellations"],
		"schedules":                     r.Counts["schedules"],
		"programs":                      r.Counts["programs"],
		"cancellation_instants":         r.Counts["cancellations"],
		"max_schedule_points":           r.GetMax("points"),
		"max_steps_after_cancel":        r.GetMax("max_steps_after_cancel"),
		"rule": "programs = every nesting (depth <=2 quick, <=3 thorough with family representatives innermost) of 23 wrapping constructs (if/else/else-if, switch case/default, three loop forms, try body / catch / finally, ?? left and right, script functions of arity 0,1,4,5 and variadic, anonymous call, deferred call, go call, callback handed to a Go function) around 13 cores (spinning: four loop forms, map loop, recursion, looping callee - bounded at 22 iterations, far beyond the cancellation window; blocked: receive, send, range, two-value receive and the forwarding form dst <- src on a channel nobody serves); " +
			"every context poll and channel operation is a schedule point and 'cancel now' competes at each of them (deviation bound 1; programs with goroutines: all interleavings with preemption+cancel bound 2 (thorough: bound 3 at depth <= 2, bound 1 at depth 3)); after the cancellation the call must return 'execution interrupted', no statement probe may run, no thread may poll more than depth+2 times, no thread may stay blocked; states = distinct (program, oracle outcome) pairs, transitions = scheduler steps, traces_validated = runs in which a cancellation was delivered and judged",
	}
}

func replay(c *common.Ctx, path string) int {
	var rd replayData
	if _, _, err := common.ReadReplay(path, &rd); err != nil {
		fmt.Println("cannot read replay:", err)
		return 2
	}
	var first string
	bad := false
	for round := 0; round < 2; round++ {
		r := &explore.Run{Prefix: rd.Choices}
		x, err := runOnce(rd.Program, r, true, 0)
		if err != nil {
			fmt.Println("parse:", err)
			return 2
		}
		if r.Err != nil {
			fmt.Println("replay diverged:", r.Err)
			return 2
		}
		cl, d := "", ""
		if x.cancelled {
			cl, d = judge(rd.Program, x)
		}
		desc := fmt.Sprintf("verdict=%s cancelled=%v err=%v class=%q %s", x.out.Verdict, x.cancelled, x.out.Err, cl, d)
		if round == 0 {
			first = desc
			fmt.Println(rd.Program.Src)
			for _, st := range x.out.Trace {
				fmt.Printf("  T%d %s\n", st.Thread, st.What)
			}
			fmt.Println(desc)
			bad = cl != ""
		} else if desc != first {
			fmt.Println("NONDETERMINISTIC replay:", desc)
			return 2
		}
	}
	if bad {
		return 1
	}
	return 0
}

func init() {
	common.Register(&common.Prop{
		ID: "C02", Level: "model_checking", Sharded: true, Run: run, Coverage: coverage, Replay: replay,
		Assumptions: []string{
			"'short bounded time' is decided as a bound on interpreter steps: at most depth+2 further context polls per thread after the cancellation, never as wall-clock time",
			"non-terminating cores are represented by loops / recursion of 22 iterations, far beyond every cancellation instant explored; an interpreter cannot tell them from unbounded ones",
			"the cancellation is delivered at schedule points (context polls, channel operations, goroutine start); time inside one host Go call is outside the property",
		},
	})
}
