package c02

// A receive (or send) that can never complete, written in every expression
// position: the interruption has to come out of each of them unchanged - an
// argument of a host function, of a script function, an element of a literal, an
// operand, a condition, a bound, an assignment target ...  These cores run bare
// and under one wrapper (MaxDepth 1).
var exprCores = []core{
	{"expr/hostarg-last", "s(<-never)", true, 1, false},
	{"expr/hostarg-first", "h2(<-never, 1)", true, 1, false},
	{"expr/hostarg-second", "h2(1, <-never)", true, 1, false},
	{"expr/hostarg-variadic", "hv(1, <-never)", true, 1, false},
	{"expr/hostarg-variadic-only", "hv(<-never)", true, 1, false},
	{"expr/hostarg-send", "h2(never <- 1, 1)", true, 1, false},
	{"expr/scriptarg", "func k1(a) { s(1) }\nk1(<-never)", true, 1, false},
	{"expr/scriptarg-second", "func k2(a, b) { s(1) }\nk2(1, <-never)", true, 1, false},
	{"expr/array-elem", "x = [1, <-never]", true, 1, false},
	{"expr/map-value", "x = {\"a\": <-never}", true, 1, false},
	{"expr/binary-right", "x = 1 + (<-never)", true, 1, false},
	{"expr/binary-left", "x = (<-never) + 1", true, 1, false},
	{"expr/unary", "x = -(<-never)", true, 1, false},
	{"expr/and-right", "x = true && (<-never)", true, 1, false},
	{"expr/or-right", "x = false || (<-never)", true, 1, false},
	{"expr/if-cond", "if <-never { s(1) }", true, 1, false},
	{"expr/switch-subject", "switch <-never {\ncase 1:\n\ts(1)\n}", true, 1, false},
	{"expr/switch-case", "switch 1 {\ncase <-never:\n\ts(1)\n}", true, 1, false},
	{"expr/ternary-cond", "x = (<-never) ? 1 : 2", true, 1, false},
	{"expr/ternary-branch", "x = true ? (<-never) : 2", true, 1, false},
	{"expr/coalesce-left-operand", "x = (<-never) ?? 1", true, 1, false},
	{"expr/index", "x = long[<-never]", true, 1, false},
	{"expr/slice-bound", "x = long[0:<-never]", true, 1, false},
	{"expr/index-target", "long[<-never] = 1", true, 1, false},
	{"expr/index-store", "long[0] = <-never", true, 1, false},
	{"expr/member-store", "longmap.a = <-never", true, 1, false},
	{"expr/forin-subject", "for i in <-never { s(1) }", true, 1, false},
	{"expr/cfor-init", "for i = <-never; i < 1; i++ { s(1) }", true, 1, false},
	{"expr/cfor-cond", "for i = 0; i < (<-never); i++ { s(1) }", true, 1, false},
	{"expr/loop-cond", "for <-never { s(1) }", true, 1, false},
	{"expr/len-arg", "x = len(<-never)", true, 1, false},
	{"expr/throw-operand", "throw <-never", true, 1, false},
	{"expr/return-operand", "func r1() { return <-never }\nr1()", true, 1, false},
	{"expr/return-second", "func r2() { return 1, <-never }\nr2()", true, 1, false},
	{"expr/lets-multi", "x, y = 1, <-never", true, 1, false},
	{"expr/var-init", "var x = (<-never)", true, 1, false},
	{"expr/defer-hostarg", "func d1() { defer s(<-never); s(1) }\nd1()", true, 1, false},
	{"expr/make-len", "x = make([]int64, <-never)", true, 1, false},
	{"expr/delete-key", "delete(longmap, <-never)", true, 1, false},
	{"expr/in-left", "x = (<-never) in long", true, 1, false},
	{"expr/in-right", "x = 1 in [<-never]", true, 1, false},
	{"expr/anon-arg", "x = func(a) { return a }(<-never)", true, 1, false},
	{"expr/chan-send-value", "rdy = make(chan int64, 1)\nrdy <- <-never", true, 1, false},
	{"expr/string-concat", "x = \"a\" + (<-never)", true, 1, false},
	{"expr/compare", "x = (<-never) == 1", true, 1, false},
	{"expr/incr-target", "long[<-never]++", true, 1, false},
	{"expr/opassign", "x = 1\nx += <-never", true, 1, false},
}

func init() { cores = append(cores, exprCores...) }
