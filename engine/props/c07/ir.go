package c07

import (
	"fmt"
	"strconv"
	"strings"
)

// ---------------------------------------------------------------------------
// Abstract values of the reference evaluator.
//
// The reference does not compute what a program *returns*; it computes only
// what it needs to know which operands run: truthiness (for && || ?:),
// nil-ness (for ??), small integers (indices), list lengths (spread calls).
// Everything else is "unknown"; a program in which an unknown reaches a place
// where it would decide which operands run is *undetermined* and is not
// generated (counted, never compared).
// ---------------------------------------------------------------------------

type aval struct {
	K      byte   // 'I' int64 'S' string 'B' bool 'N' nil 'L' list 'M' map 'F' func 'X' float '?' unknown
	Known  bool   // payload below is valid
	N      int64  // int value, list length, map length
	S      string // string value
	B      bool   // bool value
	AllInt bool   // list whose elements all convert to int64
}

var unknownVal = aval{K: '?'}

func intVal(n int64) aval { return aval{K: 'I', Known: true, N: n} }
func boolVal(b bool) aval { return aval{K: 'B', Known: true, B: b} }
func nilVal() aval        { return aval{K: 'N', Known: true} }

// truth returns (truthiness, known).
func (v aval) truth() (bool, bool) {
	if !v.Known {
		return false, false
	}
	switch v.K {
	case 'I':
		return v.N != 0, true
	case 'B':
		return v.B, true
	case 'N':
		return false, true
	case 'L', 'M':
		return v.N > 0, true
	case 'S':
		if v.S == "" {
			return false, true
		}
		// only strings made of the letters a/x/b/c/d/z are used; a string that
		// spells a number or a boolean has under-determined truthiness
		for _, c := range v.S {
			if !strings.ContainsRune("abcdxz", c) {
				return false, false
			}
		}
		return true, true
	}
	return false, false
}

// isNil returns (nil-ness, known).
func (v aval) isNil() (bool, bool) {
	switch v.K {
	case 'N':
		return true, true
	case 'I', 'S', 'B', 'X':
		return false, true
	case 'L', 'M':
		// lists and maps made by literals and probes are never nil
		return false, v.Known
	}
	return false, false
}

// ---------------------------------------------------------------------------
// IR
// ---------------------------------------------------------------------------

// Callee describes a function that call templates call.  None of them logs.
type Callee struct {
	Name     string
	Script   bool
	NFixed   int
	Variadic bool
	PK       byte // parameter kind of a Go function: 'I' int64, 'A' interface{}
	Ptr0     bool // the first parameter of the Go function is *int64
}

func (c *Callee) literal() string {
	var ps []string
	for i := 0; i < c.NFixed; i++ {
		ps = append(ps, string(rune('a'+i)))
	}
	if c.Variadic {
		ps = append(ps, "r...")
	}
	return "func(" + strings.Join(ps, ", ") + ") { return 1 }"
}

// Node is one node of the template IR.
type Node struct {
	T    string // see eval()
	Op   string
	Kids []*Node

	// leaf
	Probe string // pi ps pb pn pl pli pls pm pf perr pgo
	Lit   string // rendered second argument
	V     aval
	Idx   int // probe index, assigned in source order when rendered
	// Plain: the leaf is written as the bare literal (no probe call): it leaves no
	// log entry, and the expression around it may look constant to the interpreter
	Plain bool

	// call
	Callee     *Callee
	Path       string // ident var paren probe lit
	Spread     bool
	CalleeLeaf *Node // path "probe": the pf(...) leaf

	NL  int    // lets/var: number of names on the left
	Pre string // statement(s) without probes to run before (asg templates)
}

func leaf(probe, lit string, v aval) *Node { return &Node{T: "leaf", Probe: probe, Lit: lit, V: v} }

func pI(n int64) *Node { return leaf("pi", strconv.FormatInt(n, 10), intVal(n)) }
func pS(s string) *Node {
	return leaf("ps", strconv.Quote(s), aval{K: 'S', Known: true, S: s})
}
func pB(b bool) *Node { return leaf("pb", strconv.FormatBool(b), boolVal(b)) }
func pN() *Node       { return leaf("pn", "", nilVal()) }
func pL(n int) *Node {
	return leaf("pl", strconv.Itoa(n), aval{K: 'L', Known: true, N: int64(n), AllInt: true})
}
func pLI(n int) *Node {
	return leaf("pli", strconv.Itoa(n), aval{K: 'L', Known: true, N: int64(n), AllInt: true})
}
func pLS(n int) *Node {
	return leaf("pls", strconv.Itoa(n), aval{K: 'L', Known: true, N: int64(n), AllInt: n == 0})
}
func pM() *Node            { return leaf("pm", "", aval{K: 'M', Known: true, N: 2}) }
func pF(name string) *Node { return leaf("pf", strconv.Quote(name), aval{K: 'F'}) }
func pErr(kind int) *Node {
	if kind == 2 {
		return leaf("pgo", "", unknownVal)
	}
	return leaf("perr", "", unknownVal)
}

func (n *Node) failing() bool { return n.T == "leaf" && (n.Probe == "perr" || n.Probe == "pgo") }

// leaves returns the leaf nodes in source order (the order render visits them).
func (n *Node) leaves(out *[]*Node) {
	if n == nil {
		return
	}
	if n.T == "leaf" {
		*out = append(*out, n)
		return
	}
	if n.CalleeLeaf != nil {
		*out = append(*out, n.CalleeLeaf)
	}
	for _, k := range n.Kids {
		k.leaves(out)
	}
}

// replaceLeaf substitutes the j-th leaf (source order) by repl; returns false if there is none.
func (n *Node) replaceLeaf(j *int, repl *Node) bool {
	if n.CalleeLeaf != nil {
		if *j == 0 {
			n.CalleeLeaf = repl
			return true
		}
		*j--
	}
	for i, k := range n.Kids {
		if k.T == "leaf" {
			if *j == 0 {
				n.Kids[i] = repl
				return true
			}
			*j--
			continue
		}
		if k.replaceLeaf(j, repl) {
			return true
		}
	}
	return false
}

// ---------------------------------------------------------------------------
// rendering (assigns probe indices in source order)
// ---------------------------------------------------------------------------

type renderer struct {
	next int
	nvar int
	pre  []string // hoisted probe-free statements
}

func (r *renderer) sub(n *Node) string {
	if n.T == "leaf" || n.T == "varref" || n.T == "addr" {
		// (an address-of argument must stay a bare &x[i]: anko looks at the
		// argument expression itself after a Go call)
		return r.src(n)
	}
	return "(" + r.src(n) + ")"
}

func (r *renderer) addPre(p string) {
	for _, q := range r.pre {
		if q == p {
			return
		}
	}
	r.pre = append(r.pre, p)
}

// cont renders the container operand of an index/slice/member expression:
// postfix chains need no parentheses (and an assignment target must not have them).
func (r *renderer) cont(n *Node) string {
	switch n.T {
	case "item", "slice", "member":
		return r.src(n)
	}
	return r.sub(n)
}

func (r *renderer) list(kids []*Node) string {
	var parts []string
	for _, k := range kids {
		parts = append(parts, r.sub(k))
	}
	return strings.Join(parts, ", ")
}

func (r *renderer) src(n *Node) string {
	switch n.T {
	case "leaf":
		r.next++
		n.Idx = r.next
		if n.Plain {
			if n.Probe == "pn" {
				return "nil"
			}
			return n.Lit
		}
		if n.Lit == "" {
			return fmt.Sprintf("%s(%d)", n.Probe, n.Idx)
		}
		return fmt.Sprintf("%s(%d, %s)", n.Probe, n.Idx, n.Lit)
	case "bin", "logic":
		a := r.sub(n.Kids[0])
		b := r.sub(n.Kids[1])
		return a + " " + n.Op + " " + b
	case "tern":
		c := r.sub(n.Kids[0])
		a := r.sub(n.Kids[1])
		b := r.sub(n.Kids[2])
		return c + " ? " + a + " : " + b
	case "nilco":
		a := r.sub(n.Kids[0])
		b := r.sub(n.Kids[1])
		return a + " ?? " + b
	case "list":
		if n.Op == "" {
			return "[" + r.list(n.Kids) + "]"
		}
		return n.Op + "{" + r.list(n.Kids) + "}"
	case "map":
		var parts []string
		for i := 0; i+1 < len(n.Kids); i += 2 {
			k := r.sub(n.Kids[i])
			v := r.sub(n.Kids[i+1])
			parts = append(parts, k+": "+v)
		}
		return n.Op + "{" + strings.Join(parts, ", ") + "}"
	case "item":
		a := r.cont(n.Kids[0])
		b := r.sub(n.Kids[1])
		return a + "[" + b + "]"
	case "slice":
		c := r.cont(n.Kids[0])
		rest := n.Kids[1:]
		var s []string
		for _, k := range rest {
			s = append(s, r.sub(k))
		}
		switch n.Op {
		case "b:e":
			return c + "[" + s[0] + ":" + s[1] + "]"
		case "b:":
			return c + "[" + s[0] + ":]"
		case ":e":
			return c + "[:" + s[0] + "]"
		case "b:e:c":
			return c + "[" + s[0] + ":" + s[1] + ":" + s[2] + "]"
		case ":e:c":
			return c + "[:" + s[0] + ":" + s[1] + "]"
		}
		panic("slice form " + n.Op)
	case "member":
		return r.cont(n.Kids[0]) + "." + n.Op
	case "in":
		a := r.sub(n.Kids[0])
		b := r.sub(n.Kids[1])
		return a + " in " + b
	case "len":
		return "len(" + r.sub(n.Kids[0]) + ")"
	case "unary":
		return n.Op + r.sub(n.Kids[0])
	case "addr":
		// &x[i], &x.k, &ident, &call(...): no parentheses, the operand of & is
		// the index/member expression itself
		if n.Pre != "" {
			r.addPre(n.Pre)
		}
		return "&" + r.cont(n.Kids[0])
	case "retcall":
		return "func() { return " + r.list(n.Kids) + " }()"
	case "call":
		return r.call(n)

	// statements
	case "twice":
		// the statement is executed twice: the same nodes, a second time
		return "for tw = 0; tw < 2; tw++ { " + r.src(n.Kids[0]) + " }"
	case "expr":
		return r.src(n.Kids[0])
	case "seq":
		var parts []string
		for _, k := range n.Kids {
			parts = append(parts, r.src(k))
		}
		return strings.Join(parts, "; ")
	case "gostmt":
		return "go " + r.call(n.Kids[0])
	case "deferstmt":
		return "defer " + r.call(n.Kids[0])
	case "lets", "var":
		names := []string{"a", "b", "c", "d"}[:n.NL]
		s := strings.Join(names, ", ") + " = " + r.list(n.Kids)
		if n.T == "var" {
			s = "var " + s
		}
		return s
	case "letmapitem":
		return "a, b = " + r.src(n.Kids[0])
	case "asg", "opasg":
		// Kids[0] = target expression (item/member tree whose container may be the
		// variable x or m), Kids[1] = right-hand side
		if n.Pre != "" {
			r.pre = append(r.pre, n.Pre)
		}
		t := r.src(n.Kids[0])
		v := r.sub(n.Kids[1])
		return t + " " + n.Op + " " + v
	case "incdec":
		if n.Pre != "" {
			r.pre = append(r.pre, n.Pre)
		}
		return r.src(n.Kids[0]) + n.Op
	case "asg2":
		// two targets, two right-hand sides
		if n.Pre != "" {
			r.pre = append(r.pre, n.Pre)
		}
		t1 := r.src(n.Kids[0])
		t2 := r.src(n.Kids[1])
		v1 := r.sub(n.Kids[2])
		v2 := r.sub(n.Kids[3])
		return t1 + ", " + t2 + " = " + v1 + ", " + v2
	case "varref":
		return n.Op
	}
	panic("render: unknown node " + n.T)
}

func (r *renderer) call(n *Node) string {
	c := n.Callee
	var callee string
	switch n.Path {
	case "ident":
		callee = c.Name
	case "var":
		r.nvar++
		callee = fmt.Sprintf("v%d", r.nvar)
		r.pre = append(r.pre, callee+" = "+c.Name)
	case "paren":
		callee = "(" + c.Name + ")"
	case "member":
		r.nvar++
		v := fmt.Sprintf("md%d", r.nvar)
		r.pre = append(r.pre, v+" = {\"f\": "+c.Name+"}")
		callee = v + ".f"
	case "lit":
		callee = c.literal()
	case "probe":
		callee = r.src(n.CalleeLeaf)
	default:
		panic("call path " + n.Path)
	}
	args := r.list(n.Kids)
	if n.Spread {
		args += "..."
	}
	return callee + "(" + args + ")"
}

// program renders the whole program text of a statement node.
func program(n *Node) string {
	r := &renderer{}
	body := r.src(n)
	if len(r.pre) == 0 {
		return body
	}
	return strings.Join(r.pre, "; ") + "; " + body
}

// ---------------------------------------------------------------------------
// the reference evaluator
// ---------------------------------------------------------------------------

// expItem is one expected log entry; Opt entries may be absent (operands of a
// call whose argument count is wrong: only "never twice, order kept" is stated).
type expItem struct {
	Idx int  `json:"i"`
	Opt bool `json:"o,omitempty"`
}

type ref struct {
	exp     []expItem
	opt     int  // >0 while inside a mis-counted call
	res     uint // resolution bits: does the k-th mis-counted call continue (1) or fail (0)
	nmis    int  // mis-counted calls met
	undet   bool // an unknown value decided (or might have decided) which operands run
	pending bool // an operation whose failure is unknown has completed
	aborted bool // the reference run ended by an error
	failIdx int  // index of the failing leaf that ran last
}

func (r *ref) unknownStatus() { r.pending = true }

// eval returns the abstract value and ok=false when evaluation was aborted.
func (n *Node) eval(r *ref) (aval, bool) {
	switch n.T {
	case "leaf":
		if n.Plain {
			return n.V, true
		}
		if r.pending {
			r.undet = true
		}
		r.exp = append(r.exp, expItem{Idx: n.Idx, Opt: r.opt > 0})
		if n.failing() {
			r.failIdx = n.Idx
			return unknownVal, false
		}
		return n.V, true

	case "varref":
		return n.V, true

	case "bin":
		a, ok := n.Kids[0].eval(r)
		if !ok {
			return unknownVal, false
		}
		b, ok := n.Kids[1].eval(r)
		if !ok {
			return unknownVal, false
		}
		return binResult(n.Op, a, b, r)

	case "logic":
		a, ok := n.Kids[0].eval(r)
		if !ok {
			return unknownVal, false
		}
		t, known := a.truth()
		if !known {
			r.undet = true
			return unknownVal, true
		}
		if n.Op == "||" && t {
			return boolVal(true), true
		}
		if n.Op == "&&" && !t {
			return boolVal(false), true
		}
		b, ok := n.Kids[1].eval(r)
		if !ok {
			return unknownVal, false
		}
		if t2, k2 := b.truth(); k2 {
			return boolVal(t2), true
		}
		return aval{K: 'B'}, true

	case "tern":
		c, ok := n.Kids[0].eval(r)
		if !ok {
			return unknownVal, false
		}
		t, known := c.truth()
		if !known {
			r.undet = true
			return unknownVal, true
		}
		if t {
			return n.Kids[1].eval(r)
		}
		return n.Kids[2].eval(r)

	case "nilco":
		a, ok := n.Kids[0].eval(r)
		if ok {
			if r.pending {
				// the left side may have failed without the reference knowing:
				// then the right side runs — undetermined
				r.undet = true
				return unknownVal, true
			}
			isnil, known := a.isNil()
			if !known {
				r.undet = true
				return unknownVal, true
			}
			if !isnil {
				return a, true
			}
		}
		// left is nil or failed: the error is dropped and the right side decides
		return n.Kids[1].eval(r)

	case "list":
		all := true
		for _, k := range n.Kids {
			v, ok := k.eval(r)
			if !ok {
				return unknownVal, false
			}
			if n.Op != "" && n.Op != "[]interface" {
				// typed literal: the element is converted
				if !convertible(v, typedElemKind(n.Op)) {
					// whether later elements run after a failed element conversion is not stated
					r.unknownStatus()
				}
			}
			if v.K != 'I' {
				all = false
			}
		}
		return aval{K: 'L', Known: true, N: int64(len(n.Kids)), AllInt: all}, true

	case "map":
		for i := 0; i+1 < len(n.Kids); i += 2 {
			k, ok := n.Kids[i].eval(r)
			if !ok {
				return unknownVal, false
			}
			if k.K != 'I' && k.K != 'S' {
				r.unknownStatus() // unhashable key / key conversion
			}
			if n.Op == "map[string]int64" || n.Op == "map[string]interface" {
				if k.K != 'S' {
					r.unknownStatus()
				}
			}
			if n.Op == "map[int64]string" && k.K != 'I' {
				r.unknownStatus()
			}
			v, ok := n.Kids[i+1].eval(r)
			if !ok {
				return unknownVal, false
			}
			if n.Op == "map[string]int64" && v.K != 'I' {
				r.unknownStatus()
			}
			if n.Op == "map[int64]string" && v.K != 'S' {
				r.unknownStatus()
			}
		}
		if len(n.Kids) == 0 {
			return aval{K: 'M', Known: true, N: 0}, true
		}
		return aval{K: 'M', Known: true, N: 1}, true // at least one entry: truthy, never nil

	case "item":
		c, ok := n.Kids[0].eval(r)
		if !ok {
			return unknownVal, false
		}
		i, ok := n.Kids[1].eval(r)
		if !ok {
			return unknownVal, false
		}
		switch c.K {
		case 'L':
			if c.Known && i.K == 'I' && i.Known {
				if i.N < 0 || i.N >= c.N {
					r.aborted = true
					return unknownVal, false // index out of range, after both operands
				}
				if c.AllInt {
					return aval{K: 'I'}, true
				}
				return unknownVal, true
			}
		case 'S':
			if c.Known && i.K == 'I' && i.Known {
				if i.N < 0 || i.N >= int64(len(c.S)) {
					r.aborted = true
					return unknownVal, false
				}
				return aval{K: 'S', Known: true, S: c.S[i.N : i.N+1]}, true
			}
		case 'M':
			if i.K == 'S' && i.Known {
				// pm() is {"a":1,"b":2}; other maps: unknown content
				if n.Kids[0].T == "leaf" {
					switch i.S {
					case "a":
						return intVal(1), true
					case "b":
						return intVal(2), true
					}
					return nilVal(), true
				}
				return unknownVal, true
			}
			if i.K == 'I' || i.K == 'S' {
				return unknownVal, true
			}
		}
		r.unknownStatus()
		return unknownVal, true

	case "slice":
		c, ok := n.Kids[0].eval(r)
		if !ok {
			return unknownVal, false
		}
		var length int64 = -1
		if c.Known && c.K == 'L' {
			length = c.N
		} else if c.Known && c.K == 'S' {
			length = int64(len(c.S))
		}
		var roles string
		switch n.Op {
		case "b:e":
			roles = "be"
		case "b:":
			roles = "b"
		case ":e":
			roles = "e"
		case "b:e:c":
			roles = "bec"
		case ":e:c":
			roles = "ec"
		}
		b, e, cp := int64(0), length, length
		for i, k := range n.Kids[1:] {
			v, ok := k.eval(r)
			if !ok {
				return unknownVal, false
			}
			// An index that is not a known valid integer may end the slice
			// expression between two operands (anko checks each bound as soon as
			// it has it); the property does not say: such programs are not compared.
			if v.K != 'I' || !v.Known || length < 0 {
				r.undet = true
				return unknownVal, true
			}
			switch roles[i] {
			case 'b':
				b = v.N
			case 'e':
				e = v.N
			case 'c':
				cp = v.N
			}
			if b < 0 || e > length || (roles[i] != 'b' && b > e) || (roles[i] == 'c' && (cp < e || cp > length)) || (roles == "b" && b > length) {
				r.undet = true
				return unknownVal, true
			}
		}
		if length < 0 {
			r.undet = true
			return unknownVal, true
		}
		if c.K == 'S' {
			return aval{K: 'S', Known: true, S: c.S[b:e]}, true
		}
		return aval{K: 'L', Known: true, N: e - b, AllInt: c.AllInt}, true

	case "member":
		c, ok := n.Kids[0].eval(r)
		if !ok {
			return unknownVal, false
		}
		if c.K == 'M' {
			if n.Kids[0].T == "leaf" {
				switch n.Op {
				case "a":
					return intVal(1), true
				case "b":
					return intVal(2), true
				}
				return nilVal(), true
			}
			return unknownVal, true
		}
		r.unknownStatus()
		return unknownVal, true

	case "in":
		_, ok := n.Kids[0].eval(r)
		if !ok {
			return unknownVal, false
		}
		l, ok := n.Kids[1].eval(r)
		if !ok {
			return unknownVal, false
		}
		if l.K != 'L' {
			r.unknownStatus()
		}
		return aval{K: 'B'}, true

	case "len":
		c, ok := n.Kids[0].eval(r)
		if !ok {
			return unknownVal, false
		}
		switch c.K {
		case 'L':
			if c.Known {
				return intVal(c.N), true
			}
			return aval{K: 'I'}, true
		case 'S':
			if c.Known {
				return intVal(int64(len(c.S))), true
			}
			return aval{K: 'I'}, true
		case 'M':
			if c.Known && n.Kids[0].T == "leaf" {
				return intVal(c.N), true
			}
			return aval{K: 'I'}, true
		}
		r.unknownStatus()
		return unknownVal, true

	case "unary":
		v, ok := n.Kids[0].eval(r)
		if !ok {
			return unknownVal, false
		}
		switch n.Op {
		case "-":
			if v.K == 'I' && v.Known {
				return intVal(-v.N), true
			}
		case "^":
			if v.K == 'I' && v.Known {
				return intVal(^v.N), true
			}
		case "!":
			if t, k := v.truth(); k {
				return boolVal(!t), true
			}
			return aval{K: 'B'}, true
		}
		return unknownVal, true

	case "addr":
		// the address of a value that holds an int; whether the pointee is an int
		// is all the reference needs (for a *int64 parameter)
		v, ok := n.Kids[0].eval(r)
		if !ok {
			return unknownVal, false
		}
		if v.K == 'I' {
			return aval{K: 'P'}, true
		}
		return unknownVal, true

	case "retcall":
		var last aval
		for _, k := range n.Kids {
			v, ok := k.eval(r)
			if !ok {
				return unknownVal, false
			}
			last = v
		}
		if len(n.Kids) == 1 {
			return last, true
		}
		return aval{K: 'L', Known: true, N: int64(len(n.Kids))}, true

	case "call":
		return n.evalCall(r)

	// ---- statements ----
	case "twice":
		for i := 0; i < 2; i++ {
			if _, ok := n.Kids[0].eval(r); !ok {
				return unknownVal, false
			}
		}
		return unknownVal, true
	case "expr", "letmapitem":
		return n.Kids[0].eval(r)
	case "seq":
		for _, k := range n.Kids {
			if _, ok := k.eval(r); !ok {
				return unknownVal, false
			}
		}
		return unknownVal, true
	case "gostmt", "deferstmt":
		_, ok := n.Kids[0].evalCall(r)
		return nilVal(), ok
	case "lets", "var":
		for _, k := range n.Kids {
			if _, ok := k.eval(r); !ok {
				return unknownVal, false
			}
		}
		return unknownVal, true

	// bag statements: the order between the right-hand side and the operands of
	// the target is not stated; only the multiset is compared.
	case "asg":
		_, ok1 := n.Kids[1].eval(r)
		_, ok2 := n.Kids[0].eval(r)
		return unknownVal, ok1 && ok2
	case "asg2":
		ok := true
		for _, i := range []int{2, 3, 0, 1} {
			if _, o := n.Kids[i].eval(r); !o {
				ok = false
			}
		}
		return unknownVal, ok
	case "opasg":
		// x op= e  stands for  x = x op e : the operands of x twice, e once
		_, ok1 := n.Kids[0].eval(r)
		v, ok2 := n.Kids[1].eval(r)
		_, ok3 := n.Kids[0].eval(r)
		if v.K != 'I' {
			// the implied operator may fail (e.g. number + list): then the
			// target is not evaluated a second time
			r.aborted = true
		}
		return unknownVal, ok1 && ok2 && ok3
	case "incdec":
		_, ok1 := n.Kids[0].eval(r)
		_, ok2 := n.Kids[0].eval(r)
		return unknownVal, ok1 && ok2
	}
	panic("eval: unknown node " + n.T)
}

func typedElemKind(op string) byte {
	switch op {
	case "[]int64":
		return 'I'
	case "[]string":
		return 'S'
	}
	return 'A'
}

// convertible: does a value of this abstract kind convert to a Go parameter /
// element of kind pk ('I' int64, 'S' string, 'A' interface{})?  (true, known)
func convertible(v aval, pk byte) bool {
	switch pk {
	case 'A':
		return true
	case 'I':
		return v.K == 'I'
	case 'S':
		return v.K == 'S'
	}
	return false
}

func binResult(op string, a, b aval, r *ref) (aval, bool) {
	cmp := func(f func(x, y int64) bool) (aval, bool) {
		if a.K == 'I' && b.K == 'I' && a.Known && b.Known {
			return boolVal(f(a.N, b.N)), true
		}
		return aval{K: 'B'}, true
	}
	switch op {
	case "==":
		return cmp(func(x, y int64) bool { return x == y })
	case "!=":
		return cmp(func(x, y int64) bool { return x != y })
	case "<":
		return cmp(func(x, y int64) bool { return x < y })
	case "<=":
		return cmp(func(x, y int64) bool { return x <= y })
	case ">":
		return cmp(func(x, y int64) bool { return x > y })
	case ">=":
		return cmp(func(x, y int64) bool { return x >= y })
	}
	if a.K == 'I' && b.K == 'I' && a.Known && b.Known {
		x, y := a.N, b.N
		switch op {
		case "+":
			return intVal(x + y), true
		case "-":
			return intVal(x - y), true
		case "*":
			return intVal(x * y), true
		case "/":
			return aval{K: 'X'}, true
		case "%":
			if y == 0 {
				r.aborted = true
				return unknownVal, false
			}
			return intVal(x % y), true
		case "&":
			return intVal(x & y), true
		case "|":
			return intVal(x | y), true
		case "<<":
			if y >= 0 && y < 62 {
				return aval{K: 'I'}, true
			}
		case ">>":
			if y >= 0 && y < 62 {
				return intVal(x >> uint64(y)), true
			}
		}
		return aval{K: 'I'}, true
	}
	if op == "+" {
		if a.K == 'S' && b.K == 'S' && a.Known && b.Known {
			return aval{K: 'S', Known: true, S: a.S + b.S}, true
		}
		if a.K == 'L' && b.K == 'L' && a.Known && b.Known {
			return aval{K: 'L', Known: true, N: a.N + b.N, AllInt: a.AllInt && b.AllInt}, true
		}
	}
	// any other operand kinds: the operator may or may not fail
	r.unknownStatus()
	return unknownVal, true
}

// matched: is the argument count right for the callee, the way a Go compiler
// would see it (a spread slice supplies exactly its elements; anko additionally
// lets a spread slice fill fixed parameters of a non-variadic function)?
func matched(c *Callee, nargs int, spread bool, slen int64) bool {
	if !spread {
		if c.Variadic {
			return nargs >= c.NFixed
		}
		return nargs == c.NFixed
	}
	if c.Variadic {
		return nargs == c.NFixed+1
	}
	return nargs <= c.NFixed && int64(nargs-1)+slen == int64(c.NFixed)
}

func (n *Node) evalCall(r *ref) (aval, bool) {
	c := n.Callee
	if n.CalleeLeaf != nil {
		if _, ok := n.CalleeLeaf.eval(r); !ok {
			return unknownVal, false
		}
	}
	// Decide whether the count is right.  For a spread call this depends on the
	// length of the last argument, which is only known after evaluating it; the
	// reference therefore evaluates the arguments into a scratch log first.
	start := len(r.exp)
	nargs := len(n.Kids)
	var vals []aval
	aborted := false
	convFailed := false
	for i, k := range n.Kids {
		v, ok := k.eval(r)
		if !ok {
			aborted = true
			break
		}
		vals = append(vals, v)
		if !c.Script && c.PK == 'I' && c.Ptr0 && i == 0 {
			// *int64 parameter: the address of an int converts (through a fresh pointer)
			if v.K != 'P' {
				r.unknownStatus()
			}
		} else if !c.Script && c.PK == 'I' && !(n.Spread && i == nargs-1) {
			// converting the operand for a Go parameter
			switch v.K {
			case 'I':
			case 'S', 'B', 'L', 'M', 'F', 'P':
				convFailed = true
			default:
				r.unknownStatus()
			}
			if convFailed {
				break
			}
		}
	}
	var slen int64
	countKnown := true
	if n.Spread && !aborted && !convFailed {
		last := vals[len(vals)-1]
		if last.K == 'L' && last.Known {
			slen = last.N
		} else {
			countKnown = false
		}
	}
	isMatch := false
	if n.Spread && (aborted || convFailed) {
		// the spread slice was (possibly) not reached: classify by the shape alone
		if c.Variadic {
			isMatch = nargs == c.NFixed+1
		} else {
			isMatch = nargs <= c.NFixed // some slice length makes it right
		}
	} else if !countKnown {
		last := vals[len(vals)-1]
		if last.K == '?' || last.K == 'L' || last.K == 'N' {
			r.undet = true
			return unknownVal, true
		}
		// the spread argument is known not to be a list: the call fails, before
		// or after its operands ran
		isMatch = false
	} else {
		isMatch = matched(c, nargs, n.Spread, slen)
	}

	if !isMatch {
		// a mis-counted call: its operands may or may not run (never twice, order
		// kept), and the call may fail or not (anko ignores surplus arguments of
		// some shapes).  Both resolutions are accepted.
		for i := start; i < len(r.exp); i++ {
			r.exp[i].Opt = true
		}
		k := r.nmis
		r.nmis++
		if r.res&(1<<uint(k)) == 0 {
			// the call fails (rejected, or one of its operands failed)
			r.aborted = true
			return unknownVal, false
		}
		// the call goes ahead (anko ignores surplus arguments of some shapes
		// without evaluating them): a failing operand cannot have run then
		if aborted && len(r.exp) > start && r.exp[len(r.exp)-1].Idx == r.failIdx {
			r.exp = r.exp[:len(r.exp)-1]
		}
		return intVal(1), true
	}
	if aborted {
		return unknownVal, false
	}
	if convFailed {
		r.aborted = true
		return unknownVal, false
	}
	if n.Spread && !c.Script && !c.Variadic && c.NFixed-(nargs-1) >= 2 {
		// anko fills the fixed parameters of a Go function from the spread slice
		// in a loop that clobbers the slice after the first element (a Go panic,
		// C01/C11's business): the call may fail after its operands ran
		r.unknownStatus()
	}
	if n.Spread {
		last := vals[len(vals)-1]
		if !c.Script && c.PK == 'I' && !last.AllInt {
			// converting the spread slice fails — after every operand ran
			r.unknownStatus()
		}
	}
	return intVal(1), true
}
