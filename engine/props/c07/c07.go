// Package c07: operands are evaluated exactly once, left to right; skipped
// operands never run.
//
// Bounded exhaustive exploration of a template space: every expression and
// statement form named by the property, with side-effecting probe calls as
// leaves, one failing leaf at every position, and (second level) one template
// nested inside each operand of another.  A tiny reference evaluator over the
// template IR (ir.go) produces the expected probe log; the program text
// rendered from the same IR is run by vm.RunContext and the real probe log
// must match.
package c07

import (
	"fmt"
	"hash/fnv"
	"runtime"
	"sort"
	"strings"
	"sync"
	"sync/atomic"
	"time"

	"github.com/mattn/anko/env"
	"github.com/mattn/anko/parser"
	"github.com/mattn/anko/vhook"
	"github.com/mattn/anko/vm"
	"verif/engine/common"
	"verif/engine/lib/stepctx"
)

// ---------------------------------------------------------------------------
// expectations
// ---------------------------------------------------------------------------

// Expectation is what the reference says about one program.
type Expectation struct {
	Mode string      `json:"mode"` // "seq": ordered log; "bag": multiset only
	Alts [][]expItem `json:"alts,omitempty"`
	Min  map[int]int `json:"min,omitempty"`
	Max  map[int]int `json:"max,omitempty"`
}

func isBag(root *Node) bool {
	switch root.T {
	case "asg", "asg2", "opasg", "incdec":
		return true
	}
	return false
}

// expect runs the reference under every resolution of the under-determined
// points (does a mis-counted call fail or not).  undet=true: not compared.
func expect(root *Node) (e Expectation, undet bool) {
	bag := isBag(root)
	if bag {
		e.Mode = "bag"
		e.Min, e.Max = map[int]int{}, map[int]int{}
	} else {
		e.Mode = "seq"
	}
	seen := map[string]bool{}
	weak := false
	var cnts, reqs []map[int]int
	maxMis := 0
	for res := uint(0); res < 1<<uint(maxMis); res++ {
		r := &ref{res: res}
		_, ok := root.eval(r)
		if r.undet {
			return e, true
		}
		if r.nmis > maxMis {
			// (the number of mis-counted calls met can grow when an earlier one
			// is resolved as "goes ahead"; the new high bits were 0 so far)
			maxMis = r.nmis
			if maxMis > 4 {
				return e, true
			}
		}
		if bag {
			if !ok || r.aborted {
				weak = true
			}
			cnt, req := map[int]int{}, map[int]int{}
			for _, it := range r.exp {
				cnt[it.Idx]++
				if !it.Opt {
					req[it.Idx]++
				}
			}
			cnts, reqs = append(cnts, cnt), append(reqs, req)
			continue
		}
		key := fmt.Sprint(r.exp)
		if !seen[key] {
			seen[key] = true
			e.Alts = append(e.Alts, append([]expItem{}, r.exp...))
		}
	}
	if bag {
		for _, cnt := range cnts {
			for i, c := range cnt {
				if c > e.Max[i] {
					e.Max[i] = c
				}
			}
		}
		for i := range e.Max {
			mn := -1
			for _, req := range reqs {
				if mn < 0 || req[i] < mn {
					mn = req[i]
				}
			}
			if weak || mn < 0 {
				mn = 0
			}
			e.Min[i] = mn
		}
	}
	return e, false
}

// matchSeq: log must be exp minus (some) optional entries, order kept.
func matchSeq(exp []expItem, log []int, allOptional bool) bool {
	j := 0
	for _, x := range log {
		for j < len(exp) && exp[j].Idx != x {
			if !exp[j].Opt && !allOptional {
				return false
			}
			j++
		}
		if j == len(exp) {
			return false
		}
		j++
	}
	for ; j < len(exp); j++ {
		if !exp[j].Opt && !allOptional {
			return false
		}
	}
	return true
}

// check compares an observed log with the expectation.  weak=true (the run
// ended by a panic that the harness recovered): only "never twice, order kept".
func check(e Expectation, log []int, weak bool) (ok bool, kind string) {
	if e.Mode == "bag" {
		cnt := map[int]int{}
		for _, x := range log {
			cnt[x]++
		}
		for i, c := range cnt {
			mx, in := e.Max[i]
			if !in {
				return false, "unexpected"
			}
			if c > mx {
				return false, "repeat"
			}
		}
		if !weak {
			for i, mn := range e.Min {
				if cnt[i] < mn {
					return false, "missing"
				}
			}
		}
		return true, ""
	}
	for _, alt := range e.Alts {
		if matchSeq(alt, log, weak) {
			return true, ""
		}
	}
	// classify against the first alternative
	alt := e.Alts[0]
	allowed := map[int]bool{}
	for _, it := range alt {
		allowed[it.Idx] = true
	}
	cnt := map[int]int{}
	for _, x := range log {
		cnt[x]++
	}
	for _, x := range log {
		if cnt[x] > 1 {
			return false, "repeat"
		}
	}
	for _, x := range log {
		if !allowed[x] {
			return false, "unexpected"
		}
	}
	if !weak {
		for _, it := range alt {
			if !it.Opt && cnt[it.Idx] == 0 {
				return false, "missing"
			}
		}
	}
	return false, "order"
}

func (e Expectation) String() string {
	if e.Mode == "bag" {
		var ks []int
		for k := range e.Max {
			ks = append(ks, k)
		}
		sort.Ints(ks)
		var parts []string
		for _, k := range ks {
			if e.Min[k] == e.Max[k] {
				parts = append(parts, fmt.Sprintf("%d×%d", k, e.Max[k]))
			} else {
				parts = append(parts, fmt.Sprintf("%d×%d..%d", k, e.Min[k], e.Max[k]))
			}
		}
		return "multiset{" + strings.Join(parts, " ") + "}"
	}
	var alts []string
	for _, a := range e.Alts {
		var parts []string
		for _, it := range a {
			if it.Opt {
				parts = append(parts, fmt.Sprintf("%d?", it.Idx))
			} else {
				parts = append(parts, fmt.Sprint(it.Idx))
			}
		}
		alts = append(alts, "["+strings.Join(parts, " ")+"]")
	}
	return strings.Join(alts, " or ")
}

// ---------------------------------------------------------------------------
// harness
// ---------------------------------------------------------------------------

const prelude = `
func perr(i) { pn(i); throw "E" }
func f0() { return 1 }
func f1(a) { return 1 }
func f2(a, b) { return 1 }
func f3(a, b, c) { return 1 }
func f4(a, b, c, d) { return 1 }
func f5(a, b, c, d, e) { return 1 }
func f6(a, b, c, d, e, f) { return 1 }
func fv0(r...) { return 1 }
func fv1(a, r...) { return 1 }
func fv2(a, b, r...) { return 1 }
`

type worker struct {
	base *env.Env
	mu   sync.Mutex
	log  []int
}

func (w *worker) add(i int64) {
	w.mu.Lock()
	w.log = append(w.log, int(i))
	w.mu.Unlock()
}

func newWorker() *worker {
	w := &worker{}
	e := env.NewEnv()
	w.base = e
	must := func(err error) {
		if err != nil {
			panic("c07 harness: " + err.Error())
		}
	}
	must(e.Define("pi", func(i, v int64) int64 { w.add(i); return v }))
	must(e.Define("ps", func(i int64, v string) string { w.add(i); return v }))
	must(e.Define("pb", func(i int64, v bool) bool { w.add(i); return v }))
	must(e.Define("pn", func(i int64) interface{} { w.add(i); return nil }))
	must(e.Define("pl", func(i, n int64) []interface{} {
		w.add(i)
		l := make([]interface{}, n)
		for k := range l {
			l[k] = int64(10 + k)
		}
		return l
	}))
	must(e.Define("pli", func(i, n int64) []int64 {
		w.add(i)
		l := make([]int64, n)
		for k := range l {
			l[k] = int64(10 + k)
		}
		return l
	}))
	must(e.Define("pls", func(i, n int64) []interface{} {
		w.add(i)
		l := make([]interface{}, n)
		for k := range l {
			l[k] = "x"
		}
		return l
	}))
	must(e.Define("pm", func(i int64) map[interface{}]interface{} {
		w.add(i)
		return map[interface{}]interface{}{"a": int64(1), "b": int64(2)}
	}))
	must(e.Define("pf", func(i int64, name string) interface{} {
		w.add(i)
		v, _ := e.Get(name)
		return v
	}))
	must(e.Define("pgo", func(i int64) int64 { w.add(i); panic("probe failure") }))
	// Go callees: none of them logs
	must(e.Define("g0", func() int64 { return 1 }))
	must(e.Define("g1", func(a int64) int64 { return 1 }))
	must(e.Define("g2", func(a, b int64) int64 { return 1 }))
	must(e.Define("g3", func(a, b, c int64) int64 { return 1 }))
	must(e.Define("g4", func(a, b, c, d int64) int64 { return 1 }))
	must(e.Define("gi2", func(a, b interface{}) int64 { return 1 }))
	must(e.Define("gi1", func(a interface{}) int64 { return 1 }))
	must(e.Define("gi3", func(a, b, c interface{}) int64 { return 1 }))
	must(e.Define("gp2", func(p *int64, v int64) int64 {
		if p != nil {
			*p = v
		}
		return 1
	}))
	must(e.Define("gpv1", func(p *int64, r ...int64) int64 {
		if p != nil {
			*p = int64(len(r))
		}
		return 1
	}))
	must(e.Define("gv0", func(r ...int64) int64 { return 1 }))
	must(e.Define("gv1", func(a int64, r ...int64) int64 { return 1 }))
	must(e.Define("gv2", func(a, b int64, r ...int64) int64 { return 1 }))
	must(e.Define("ga0", func(r ...interface{}) int64 { return 1 }))
	must(e.Define("ga1", func(a interface{}, r ...interface{}) int64 { return 1 }))
	_, err := vm.Execute(e, &vm.Options{Debug: false}, prelude)
	must(err)
	return w
}

const fuel = 400

type outcome struct {
	Log  []int
	Kind string // ok error interrupted panic parse
	Msg  string
}

func (w *worker) exec(src string) (out outcome) {
	stmt, err := parser.ParseSrc(src)
	if err != nil {
		return outcome{Kind: "parse", Msg: err.Error()}
	}
	w.mu.Lock()
	w.log = w.log[:0]
	w.mu.Unlock()
	child := w.base.NewEnv()
	ctx := stepctx.Fuel(fuel)
	defer func() {
		if r := recover(); r != nil {
			w.mu.Lock()
			out = outcome{Log: append([]int{}, w.log...), Kind: "panic", Msg: fmt.Sprint(r)}
			w.mu.Unlock()
		}
	}()
	_, err = vm.RunContext(ctx, child, &vm.Options{Debug: false}, stmt)
	w.mu.Lock()
	out.Log = append([]int{}, w.log...)
	w.mu.Unlock()
	switch {
	case err == nil:
		out.Kind = "ok"
	case err == vm.ErrInterrupt || err.Error() == vm.ErrInterrupt.Error():
		out.Kind = "interrupted"
	default:
		out.Kind = "error"
		out.Msg = err.Error()
	}
	return out
}

// Case is one generated program with its expectation.
type Case struct {
	Src   string      `json:"src"`
	Class string      `json:"class"`
	Exp   Expectation `json:"exp"`
}

func hash64(s string) uint64 {
	h := fnv.New64a()
	h.Write([]byte(s))
	return h.Sum64()
}

type stats struct {
	mu        sync.Mutex
	nontriv   []uint64
	all       []uint64
	panicMsgs map[string]string // normalised message -> first program
	panicN    map[string]int64
}

var goPanics int64
var goPanicMu sync.Mutex
var goPanicMsgs = map[string]int{}

func run(c *common.Ctx) *common.Result {
	res := common.NewResult()
	vhook.OnGoPanic = func(v interface{}, stack []byte) {
		atomic.AddInt64(&goPanics, 1)
		goPanicMu.Lock()
		goPanicMsgs[fmt.Sprint(v)]++
		goPanicMu.Unlock()
	}
	jobs := buildJobs(c.Thorough())
	nw := c.J
	if nw < 1 {
		nw = 1
	}
	pool := make(chan *worker, nw)
	for i := 0; i < nw; i++ {
		pool <- newWorker()
	}
	st := &stats{panicMsgs: map[string]string{}, panicN: map[string]int64{}}
	var capped int32
	// the same program text can be produced by two templates: violations and
	// samples are collected and reported once, deterministically, at the end
	var vmu sync.Mutex
	viol := map[string]common.Violation{}
	type sample struct {
		job int
		v   interface{}
	}
	var samples []sample

	common.ParallelFor(c, len(jobs), func(ji int) {
		if c.Expired() {
			atomic.StoreInt32(&capped, 1)
			return
		}
		w := <-pool
		defer func() { pool <- w }()
		job := jobs[ji]
		var nontriv, all []uint64
		var nEval, nUndet, nParse, nInterrupted, nPanic, nErr, nOK, nWeakOnly, nBag int64
		sampled := false
		job.Gen(func(root *Node, class string) {
			src := program(root)
			exp, undet := expect(root)
			if undet {
				nUndet++
				return
			}
			out := w.exec(src)
			nEval++
			h := hash64(src)
			all = append(all, h)
			switch out.Kind {
			case "parse":
				nParse++
				if res.Distinct("parse_failures", class) {
					res.Note("generated program did not parse (machinery): " + src + " : " + out.Msg)
				}
				return
			case "interrupted":
				nInterrupted++
				return
			case "panic":
				nPanic++
				msg := normPanic(out.Msg)
				st.mu.Lock()
				st.panicN[msg]++
				if old, ok := st.panicMsgs[msg]; !ok || len(src) < len(old) || (len(src) == len(old) && src < old) {
					st.panicMsgs[msg] = src
				}
				st.mu.Unlock()
			case "error":
				nErr++
			case "ok":
				nOK++
			}
			if len(out.Log) > 0 {
				nontriv = append(nontriv, h)
			}
			if exp.Mode == "bag" {
				nBag++
			} else if len(exp.Alts) > 1 || hasOpt(exp) {
				nWeakOnly++
			}
			ok, kind := check(exp, out.Log, out.Kind == "panic")
			if !ok {
				v := common.Violation{
					Class:  class + "/" + kind,
					Case:   src,
					Detail: fmt.Sprintf("probe log %v, reference expects %s (run ended: %s %s)", out.Log, exp, out.Kind, out.Msg),
					Replay: Case{Src: src, Class: class, Exp: exp},
				}
				vmu.Lock()
				if old, dup := viol[src]; !dup || v.Class < old.Class {
					viol[src] = v
				}
				vmu.Unlock()
			}
			if !sampled && len(out.Log) > 1 && job.Sample {
				sampled = true
				vmu.Lock()
				samples = append(samples, sample{ji, map[string]interface{}{"class": class, "program": src, "expected": exp.String(), "log": out.Log, "outcome": out.Kind}})
				vmu.Unlock()
			}
		})
		res.Add("evaluations", nEval)
		res.Add("undetermined_not_generated", nUndet)
		res.Add("parse_failures", nParse)
		res.Add("fuel_exhausted", nInterrupted)
		res.Add("host_panics_recovered", nPanic)
		res.Add("runs_ended_by_error", nErr)
		res.Add("runs_ok", nOK)
		res.Add("compared_with_weaker_guarantee", nWeakOnly)
		res.Add("compared_as_multiset", nBag)
		res.Add("space:"+job.Space, nEval)
		st.mu.Lock()
		st.nontriv = append(st.nontriv, nontriv...)
		st.all = append(st.all, all...)
		st.mu.Unlock()
	})
	if atomic.LoadInt32(&capped) == 1 {
		res.Cap("soft deadline reached before all template jobs ran")
	}
	var vs []common.Violation
	for _, v := range viol {
		vs = append(vs, v)
	}
	sort.Slice(vs, func(i, j int) bool {
		if vs[i].Class != vs[j].Class {
			return vs[i].Class < vs[j].Class
		}
		if len(vs[i].Case) != len(vs[j].Case) {
			return len(vs[i].Case) < len(vs[j].Case)
		}
		return vs[i].Case < vs[j].Case
	})
	for _, v := range vs {
		res.Violate(v)
	}
	sort.Slice(samples, func(i, j int) bool { return samples[i].job < samples[j].job })
	step := 1
	if len(samples) > 12 {
		step = len(samples) / 12
	}
	for i := 0; i < len(samples); i += step {
		res.Sample(samples[i].v)
	}
	// let goroutines started by `go` statements finish so their panics are counted
	for i := 0; i < 2000 && atomic.LoadInt64(&vhook.Live) > 0; i++ {
		runtime.Gosched()
		time.Sleep(time.Millisecond)
	}
	res.Add("distinct_programs", countDistinct(st.all))
	res.Add("distinct_nontrivial", countDistinct(st.nontriv))
	res.Add("goroutine_panics", atomic.LoadInt64(&goPanics))
	var msgs []string
	for m := range st.panicMsgs {
		msgs = append(msgs, m)
	}
	sort.Strings(msgs)
	for _, m := range msgs {
		res.Note(fmt.Sprintf("host panic recovered by the harness (C01's business, not a C07 verdict) ×%d: %q, shortest program: %s", st.panicN[m], m, st.panicMsgs[m]))
	}
	goPanicMu.Lock()
	var gm []string
	for m, n := range goPanicMsgs {
		gm = append(gm, fmt.Sprintf("%q ×%d", m, n))
	}
	goPanicMu.Unlock()
	sort.Strings(gm)
	for _, m := range gm {
		res.Note("panic inside a goroutine started by `go` (would kill the host; C01's business): " + m)
	}
	return res
}

func hasOpt(e Expectation) bool {
	for _, a := range e.Alts {
		for _, it := range a {
			if it.Opt {
				return true
			}
		}
	}
	return false
}

func normPanic(s string) string {
	if len(s) > 120 {
		s = s[:120]
	}
	return s
}

func countDistinct(h []uint64) int64 {
	sort.Slice(h, func(i, j int) bool { return h[i] < h[j] })
	var n int64
	for i := range h {
		if i == 0 || h[i] != h[i-1] {
			n++
		}
	}
	return n
}

func coverage(c *common.Ctx, r *common.Result) map[string]interface{} {
	spaces := map[string]int64{}
	for k, v := range r.Counts {
		if strings.HasPrefix(k, "space:") {
			spaces[strings.TrimPrefix(k, "space:")] = v
		}
	}
	return map[string]interface{}{
		"evaluations":         r.Counts["evaluations"],
		"distinct_nontrivial": r.Counts["distinct_nontrivial"],
		"distinct_programs":   r.Counts["distinct_programs"],
		"rule": "a case is non-trivial when the generated program parsed, was executed by vm.RunContext (Debug:false, counting context with fuel) " +
			"and at least one probe call ran (non-empty probe log); distinct = distinct program texts (64-bit FNV of the source)",
		"evaluations_per_space":          spaces,
		"undetermined_not_generated":     r.Counts["undetermined_not_generated"],
		"compared_with_weaker_guarantee": r.Counts["compared_with_weaker_guarantee"],
		"compared_as_multiset":           r.Counts["compared_as_multiset"],
		"runs_ok":                        r.Counts["runs_ok"],
		"runs_ended_by_error":            r.Counts["runs_ended_by_error"],
		"host_panics_recovered":          r.Counts["host_panics_recovered"],
		"goroutine_panics":               r.Counts["goroutine_panics"],
		"fuel_exhausted":                 r.Counts["fuel_exhausted"],
		"parse_failures":                 r.Counts["parse_failures"],
		"templates":                      templateCounts(c.Thorough()),
	}
}

func replay(c *common.Ctx, path string) int {
	var cs Case
	if _, _, err := common.ReadReplay(path, &cs); err != nil {
		fmt.Println("cannot read replay:", err)
		return 2
	}
	vhook.OnGoPanic = func(v interface{}, stack []byte) {}
	var first outcome
	for round := 0; round < 2; round++ {
		w := newWorker()
		out := w.exec(cs.Src)
		if round == 0 {
			first = out
		} else if fmt.Sprint(out.Log) != fmt.Sprint(first.Log) || out.Kind != first.Kind {
			fmt.Printf("NONDETERMINISTIC replay: %v/%s vs %v/%s\n", first.Log, first.Kind, out.Log, out.Kind)
			return 2
		}
	}
	fmt.Println("program: ", cs.Src)
	fmt.Println("expected:", cs.Exp.String())
	fmt.Printf("observed: %v (run ended: %s %s)\n", first.Log, first.Kind, first.Msg)
	if first.Kind == "parse" || first.Kind == "interrupted" {
		fmt.Println("replay: outside the compared set")
		return 0
	}
	if ok, kind := check(cs.Exp, first.Log, first.Kind == "panic"); !ok {
		fmt.Println("divergence:", kind)
		return 1
	}
	fmt.Println("replay: the probe log matches the reference")
	return 0
}

func init() {
	common.Register(&common.Prop{
		ID: "C07", Level: "exploration", Run: run, Coverage: coverage, Replay: replay,
		Assumptions: []string{
			"operands are host probe calls pX(i, value) that append i to a log and return a value of the kind the template needs; a failing operand is a script function that logs and throws (perr) or a Go function that logs and panics (pgo, turned into a run error by the interpreter with Debug:false)",
			"the reference evaluates operands in source order, applies the short-circuit rules of && || ?: ?? as the property states them, and stops at the first failing operand or failed conversion for a Go parameter; truthiness is only relied on for true/false, 0/1, \"\"/\"a\", nil, empty/non-empty list and map; nil-ness only for nil vs numbers, strings, booleans, lists, maps",
			"the callee expression of a call (a probe that returns the function) is taken as its leftmost operand",
			"a call whose argument count is wrong (too few, too many, spread slice too short or too long, spread into the fixed parameters of a variadic function) is only held to: no operand twice, order kept; whether such a call fails or not is not compared",
			"assignment statements with probes in the target (x[p] = e, x[p] op= e, x[p]++) are compared as multisets: every operand exactly once (op=/++: the operands of the target exactly twice); the order between right-hand side and target operands is not compared",
			"programs where an unknown value would decide which operands run (condition of unknown truthiness, slice index that is not a known valid integer, operator applied to kinds where it may fail before a later operand) are not generated",
			"a run that ends by a Go panic recovered by the harness is only held to: no operand twice, order kept (C01 owns panics); error messages are never compared",
			"two template levels (one template nested inside each operand of another); values, depths and forms outside the listed templates are not covered",
		},
	})
}
