package c07

import (
	"fmt"
	"sort"
	"strings"
	"sync"
)

// ---------------------------------------------------------------------------
// templates
// ---------------------------------------------------------------------------

// Slot is one operand position of a template.
type Slot struct {
	Accept string       // result kinds of templates that may be nested here; "*" any; "" none
	Leaf   func() *Node // the default operand
}

// Tmpl is one expression or statement form.
type Tmpl struct {
	Name  string // unique
	Fam   string // coarse family, used in violation classes
	Slots []Slot
	Build func(k []*Node) *Node
	Res   byte // result kind of the default instance; 0 = statement (cannot be nested)
	Pool  int  // nestable: 0 no, 1 thorough, 2 quick and thorough
	Outer int  // takes nested operands: 0 never, 1 thorough, 2 quick and thorough
	Small bool // even in thorough, only the small (quick) pool is nested here
}

func (t *Tmpl) inst(sub map[int]*Node) *Node {
	kids := make([]*Node, len(t.Slots))
	for i, s := range t.Slots {
		if n, ok := sub[i]; ok {
			kids[i] = n
		} else {
			kids[i] = s.Leaf()
		}
	}
	n := t.Build(kids)
	if t.Res != 0 {
		return &Node{T: "expr", Kids: []*Node{n}}
	}
	return n
}

// expression instance (for nesting)
func (t *Tmpl) exprInst() *Node {
	kids := make([]*Node, len(t.Slots))
	for i, s := range t.Slots {
		kids[i] = s.Leaf()
	}
	return t.Build(kids)
}

func accepts(s Slot, res byte) bool {
	if s.Accept == "" {
		return false
	}
	if s.Accept == "*" {
		return true
	}
	for i := 0; i < len(s.Accept); i++ {
		if s.Accept[i] == res {
			return true
		}
	}
	return false
}

func slot(accept string, leaf func() *Node) Slot { return Slot{Accept: accept, Leaf: leaf} }

func kindLeaf(k byte, left bool) func() *Node {
	switch k {
	case 'I':
		if left {
			return func() *Node { return pI(6) }
		}
		return func() *Node { return pI(3) }
	case 'S':
		if left {
			return func() *Node { return pS("a") }
		}
		return func() *Node { return pS("b") }
	case 'B':
		return func() *Node { return pB(true) }
	case 'N':
		return func() *Node { return pN() }
	case 'L':
		return func() *Node { return pL(2) }
	case 'M':
		return func() *Node { return pM() }
	}
	panic("kindLeaf")
}

var mixed = []func() *Node{
	func() *Node { return pI(1) },
	func() *Node { return pS("a") },
	func() *Node { return pN() },
	func() *Node { return pL(1) },
	func() *Node { return pB(true) },
	func() *Node { return pM() },
	func() *Node { return pI(2) },
	func() *Node { return pS("b") },
}

type truthClass struct {
	name string
	leaf func() *Node
	res  byte
}

var truthClasses = []truthClass{
	{"true", func() *Node { return pB(true) }, 'B'},
	{"false", func() *Node { return pB(false) }, 'B'},
	{"int0", func() *Node { return pI(0) }, 'I'},
	{"int1", func() *Node { return pI(1) }, 'I'},
	{"empty-string", func() *Node { return pS("") }, 'S'},
	{"string", func() *Node { return pS("a") }, 'S'},
	{"nil", func() *Node { return pN() }, 'N'},
	{"empty-list", func() *Node { return pL(0) }, 'L'},
	{"list", func() *Node { return pL(2) }, 'L'},
	{"map", func() *Node { return pM() }, 'M'},
}

var binOps = []string{"+", "-", "*", "/", "%", "<<", ">>", "&", "|", "==", "!=", "<", "<=", ">", ">="}

var allCallees = []*Callee{
	{Name: "f0", Script: true, NFixed: 0},
	{Name: "f1", Script: true, NFixed: 1},
	{Name: "f2", Script: true, NFixed: 2},
	{Name: "f3", Script: true, NFixed: 3},
	{Name: "f4", Script: true, NFixed: 4},
	{Name: "f5", Script: true, NFixed: 5},
	{Name: "f6", Script: true, NFixed: 6},
	{Name: "fv0", Script: true, NFixed: 0, Variadic: true},
	{Name: "fv1", Script: true, NFixed: 1, Variadic: true},
	{Name: "fv2", Script: true, NFixed: 2, Variadic: true},
	{Name: "g0", NFixed: 0, PK: 'I'},
	{Name: "g1", NFixed: 1, PK: 'I'},
	{Name: "g2", NFixed: 2, PK: 'I'},
	{Name: "g3", NFixed: 3, PK: 'I'},
	{Name: "g4", NFixed: 4, PK: 'I'},
	{Name: "gi2", NFixed: 2, PK: 'A'},
	{Name: "gv0", NFixed: 0, Variadic: true, PK: 'I'},
	{Name: "gv1", NFixed: 1, Variadic: true, PK: 'I'},
	{Name: "gv2", NFixed: 2, Variadic: true, PK: 'I'},
	{Name: "ga0", NFixed: 0, Variadic: true, PK: 'A'},
	{Name: "ga1", NFixed: 1, Variadic: true, PK: 'A'},
}

func calleeClass(c *Callee) string {
	switch {
	case c.Script && c.Variadic:
		return "script-variadic"
	case c.Script && c.NFixed <= 4:
		return "script-fixed-direct"
	case c.Script:
		return "script-fixed-reflect"
	case c.Variadic:
		return "go-variadic"
	}
	return "go-fixed"
}

type shape struct {
	k      int // plain arguments
	spread bool
	slen   int // length of the spread slice
}

func (s shape) String() string {
	if s.spread {
		return fmt.Sprintf("%d+spread%d", s.k, s.slen)
	}
	return fmt.Sprintf("%d", s.k)
}

func shapesFor(c *Callee) []shape {
	var out []shape
	ns := []int{c.NFixed - 1, c.NFixed, c.NFixed + 1}
	if c.Variadic {
		ns = append(ns, c.NFixed+2)
	}
	for _, n := range ns {
		if n >= 0 {
			out = append(out, shape{k: n})
		}
	}
	if !c.Variadic {
		for k := c.NFixed - 2; k <= c.NFixed; k++ {
			if k < 0 {
				continue
			}
			for sl := c.NFixed - k - 1; sl <= c.NFixed-k+1; sl++ {
				if sl < 0 || sl > 3 {
					continue
				}
				out = append(out, shape{k: k, spread: true, slen: sl})
			}
		}
	} else {
		for k := c.NFixed - 1; k <= c.NFixed+1; k++ {
			if k < 0 {
				continue
			}
			for sl := 0; sl <= 2; sl++ {
				out = append(out, shape{k: k, spread: true, slen: sl})
			}
		}
	}
	return out
}

func shapeMatched(c *Callee, s shape) bool {
	n := s.k
	if s.spread {
		n++
	}
	return matched(c, n, s.spread, int64(s.slen))
}

var exprPaths = []string{"ident", "var", "paren", "member", "probe", "lit"}
var stmtPaths = []string{"ident", "paren", "probe", "lit"}

// callTemplates builds the call family.  conv = -1: all arguments convert;
// conv >= 0: the argument at that position cannot be converted for the Go parameter.
func callTemplates() []*Tmpl {
	var out []*Tmpl
	quickPool := map[string]bool{
		"call/f2/2/ident": true, "call/f5/5/ident": true, "call/f3/1+spread2/ident": true,
		"call/fv1/3/ident": true, "call/fv1/1+spread2/ident": true, "call/g3/3/ident": true,
		"call/gv1/1+spread2/ident": true, "call/ga0/2/ident": true, "call/f2/1/ident": true,
		"call/f2/3/ident": true, "call/f2/2/lit": true, "call/f2/2/probe": true,
	}
	poolCallees := map[string]bool{"f0": true, "f2": true, "f4": true, "f5": true, "fv1": true, "g2": true, "g3": true, "gv1": true, "ga1": true}
	for _, c := range allCallees {
		c := c
		spreadMisInPool := false
		for _, sh := range shapesFor(c) {
			sh := sh
			isMatch := shapeMatched(c, sh)
			poolShape := isMatch || !sh.spread
			if !isMatch && sh.spread && sh.slen > 0 && !spreadMisInPool {
				// one mis-counted spread shape per callee is enough in the nested pool
				spreadMisInPool = true
				poolShape = true
			}
			mk := func(stmt string, path string, conv int) *Tmpl {
				if path == "lit" && !c.Script {
					return nil
				}
				var slots []Slot
				if path == "probe" {
					slots = append(slots, slot("", func() *Node { return pF(c.Name) }))
				}
				for i := 0; i < sh.k; i++ {
					i := i
					switch {
					case conv == i:
						slots = append(slots, slot("", func() *Node { return pS("x") }))
					case c.Script || c.PK == 'A':
						slots = append(slots, slot("*", mixed[i%len(mixed)]))
					default:
						slots = append(slots, slot("I", func() *Node { return pI(int64(i + 1)) }))
					}
				}
				if sh.spread {
					switch {
					case conv == sh.k:
						slots = append(slots, slot("", func() *Node { return pLS(sh.slen) }))
					case c.Name == "gv1":
						slots = append(slots, slot("L", func() *Node { return pLI(sh.slen) }))
					default:
						slots = append(slots, slot("L", func() *Node { return pL(sh.slen) }))
					}
				}
				build := func(k []*Node) *Node {
					n := &Node{T: "call", Callee: c, Path: path, Spread: sh.spread}
					if path == "probe" {
						n.CalleeLeaf = k[0]
						k = k[1:]
					}
					n.Kids = append([]*Node{}, k...)
					switch stmt {
					case "go":
						return &Node{T: "seq", Kids: []*Node{{T: "gostmt", Kids: []*Node{n}}, {T: "expr", Kids: []*Node{pI(0)}}}}
					case "defer":
						return &Node{T: "seq", Kids: []*Node{{T: "deferstmt", Kids: []*Node{n}}, {T: "expr", Kids: []*Node{pI(0)}}}}
					}
					return n
				}
				mm := "matched"
				if !isMatch {
					mm = "miscount"
				}
				sp := "plain"
				if sh.spread {
					sp = "spread"
				}
				pfx := "call"
				if stmt != "" {
					pfx = stmt
				}
				name := fmt.Sprintf("%s/%s/%s/%s", pfx, c.Name, sh, path)
				fam := fmt.Sprintf("%s.%s.%s-%s.%s", pfx, calleeClass(c), sp, mm, path)
				if conv >= 0 {
					name += fmt.Sprintf("/conv%d", conv)
					fam += ".convfail"
				}
				t := &Tmpl{Name: name, Fam: fam, Slots: slots, Build: build, Outer: 2}
				if !isMatch {
					// only the weaker guarantee applies to a mis-counted call
					t.Outer = 1
					t.Small = true
				}
				if stmt == "" {
					t.Res = 'I'
					if conv < 0 {
						if quickPool[name] {
							t.Pool = 2
						} else if poolCallees[c.Name] && poolShape && (path == "ident" || (sh.k == c.NFixed && !sh.spread && (c.Name == "f2" || c.Name == "f5"))) {
							t.Pool = 1
						}
					}
				}
				if conv >= 0 {
					t.Outer = 1
				}
				return t
			}
			add := func(t *Tmpl) {
				if t != nil {
					out = append(out, t)
				}
			}
			for _, p := range exprPaths {
				add(mk("", p, -1))
			}
			for _, p := range stmtPaths {
				add(mk("go", p, -1))
				add(mk("defer", p, -1))
			}
			if !c.Script && c.PK == 'I' {
				nargs := sh.k
				if sh.spread {
					nargs++
				}
				for conv := 0; conv < nargs; conv++ {
					add(mk("", "ident", conv))
					add(mk("go", "ident", conv))
					add(mk("defer", "ident", conv))
				}
			}
		}
	}
	return out
}

func bin2(t, op string) func(k []*Node) *Node {
	return func(k []*Node) *Node { return &Node{T: t, Op: op, Kids: []*Node{k[0], k[1]}} }
}

func nary(t, op string) func(k []*Node) *Node {
	return func(k []*Node) *Node { return &Node{T: t, Op: op, Kids: append([]*Node{}, k...)} }
}

func otherTemplates() []*Tmpl {
	var out []*Tmpl
	add := func(t *Tmpl) { out = append(out, t) }
	kinds := []byte{'I', 'S', 'B', 'N', 'L', 'M'}

	// binary operators
	quickBin := map[string]bool{"+": true, "<": true, "%": true, "/": true}
	for _, op := range binOps {
		for _, ka := range kinds {
			for _, kb := range kinds {
				t := &Tmpl{Name: fmt.Sprintf("bin/%s/%c%c", op, ka, kb), Fam: "binary-operator",
					Slots: []Slot{slot("*", kindLeaf(ka, true)), slot("*", kindLeaf(kb, false))}, Build: bin2("bin", op), Res: '?'}
				if ka == 'I' && kb == 'I' {
					t.Outer = 2
					t.Pool = 1
					if quickBin[op] {
						t.Pool = 2
					}
					switch op {
					case "==", "!=", "<", "<=", ">", ">=":
						t.Res = 'B'
					case "/":
						t.Res = 'X'
					default:
						t.Res = 'I'
					}
				}
				if op == "+" && ka == kb && (ka == 'S' || ka == 'L') {
					t.Pool, t.Res = 1, ka
				}
				add(t)
			}
		}
	}

	// && ||
	for _, op := range []string{"&&", "||"} {
		for _, tc := range truthClasses {
			for ri, right := range []func() *Node{func() *Node { return pI(1) }, func() *Node { return pB(false) }, func() *Node { return pN() }} {
				t := &Tmpl{Name: fmt.Sprintf("logic/%s/%s/%d", op, tc.name, ri), Fam: "logic-" + op,
					Slots: []Slot{slot("*", tc.leaf), slot("*", right)}, Build: bin2("logic", op), Res: 'B'}
				if ri == 0 {
					t.Outer, t.Pool = 2, 1
					if tc.name == "true" || tc.name == "false" {
						t.Pool = 2
					}
				}
				add(t)
			}
		}
	}

	// ?:
	for _, tc := range truthClasses {
		for ai, arms := range [][2]func() *Node{
			{func() *Node { return pI(1) }, func() *Node { return pI(2) }},
			{func() *Node { return pS("a") }, func() *Node { return pL(1) }},
		} {
			t := &Tmpl{Name: fmt.Sprintf("tern/%s/%d", tc.name, ai), Fam: "ternary",
				Slots: []Slot{slot("*", tc.leaf), slot("*", arms[0]), slot("*", arms[1])}, Build: nary("tern", ""), Res: '?'}
			if ai == 0 {
				t.Res = 'I'
				t.Outer, t.Pool = 2, 1
				if tc.name == "true" || tc.name == "false" || tc.name == "nil" {
					t.Pool = 2
				}
			}
			add(t)
		}
	}

	// ??
	for _, tc := range truthClasses {
		t := &Tmpl{Name: "nilco/" + tc.name, Fam: "nil-coalescing",
			Slots: []Slot{slot("*", tc.leaf), slot("*", func() *Node { return pI(2) })}, Build: bin2("nilco", ""), Res: tc.res, Outer: 2, Pool: 1}
		if tc.name == "nil" {
			t.Res = 'I'
			t.Pool = 2
		}
		if tc.name == "int1" {
			t.Pool = 2
		}
		add(t)
	}

	// list literals
	for n := 0; n <= 4; n++ {
		var sl []Slot
		for i := 0; i < n; i++ {
			sl = append(sl, slot("*", mixed[i]))
		}
		t := &Tmpl{Name: fmt.Sprintf("list/%d", n), Fam: "list-literal", Slots: sl, Build: nary("list", ""), Res: 'L', Outer: 2, Pool: 1}
		if n == 2 {
			t.Pool = 2
		}
		if n == 0 {
			t.Outer = 0
		}
		add(t)
	}
	for n := 1; n <= 4; n++ {
		var si, sa []Slot
		for i := 0; i < n; i++ {
			i := i
			si = append(si, slot("I", func() *Node { return pI(int64(i + 1)) }))
			sa = append(sa, slot("*", mixed[i]))
		}
		t := &Tmpl{Name: fmt.Sprintf("tlist/int64/%d", n), Fam: "typed-list-literal", Slots: si, Build: nary("list", "[]int64"), Res: 'L', Outer: 2, Pool: 1}
		if n == 2 {
			t.Pool = 2
		}
		add(t)
		if n <= 3 {
			add(&Tmpl{Name: fmt.Sprintf("tlist/interface/%d", n), Fam: "typed-list-literal", Slots: sa, Build: nary("list", "[]interface"), Res: 'L', Outer: 2, Pool: 1})
		}
	}
	add(&Tmpl{Name: "tlist/string/2", Fam: "typed-list-literal",
		Slots: []Slot{slot("S", func() *Node { return pS("a") }), slot("S", func() *Node { return pS("b") })}, Build: nary("list", "[]string"), Res: 'L', Outer: 2, Pool: 1})

	// map literals
	type mapForm struct {
		op       string
		kacc     string
		vacc     string
		key, val []func() *Node
	}
	sKeys := []func() *Node{func() *Node { return pS("a") }, func() *Node { return pS("b") }}
	iKeys := []func() *Node{func() *Node { return pI(1) }, func() *Node { return pI(2) }}
	iVals := []func() *Node{func() *Node { return pI(1) }, func() *Node { return pI(2) }}
	mVals := []func() *Node{func() *Node { return pI(1) }, func() *Node { return pL(1) }}
	svals := []func() *Node{func() *Node { return pS("a") }, func() *Node { return pS("b") }}
	for _, mf := range []mapForm{
		{"", "SI", "*", sKeys, mVals},
		{"map", "SI", "*", sKeys, mVals},
		{"map[string]int64", "S", "I", sKeys, iVals},
		{"map[string]interface", "S", "*", sKeys, mVals},
		{"map[int64]string", "I", "S", iKeys, svals},
	} {
		for n := 1; n <= 2; n++ {
			var sl []Slot
			for i := 0; i < n; i++ {
				sl = append(sl, slot(mf.kacc, mf.key[i]), slot(mf.vacc, mf.val[i]))
			}
			fam := "map-literal"
			if mf.op != "" {
				fam = "typed-map-literal"
			}
			nm := mf.op
			if nm == "" {
				nm = "untyped"
			}
			t := &Tmpl{Name: fmt.Sprintf("map/%s/%d", nm, n), Fam: fam, Slots: sl, Build: nary("map", mf.op), Res: 'M', Outer: 2, Pool: 1}
			if (mf.op == "" && n == 1) || (mf.op == "map[string]int64" && n == 2) {
				t.Pool = 2
			}
			add(t)
		}
	}

	// index
	add(&Tmpl{Name: "item/list", Fam: "index", Slots: []Slot{slot("L", func() *Node { return pL(3) }), slot("I", func() *Node { return pI(1) })}, Build: bin2("item", ""), Res: 'I', Outer: 2, Pool: 2})
	add(&Tmpl{Name: "item/map", Fam: "index", Slots: []Slot{slot("M", func() *Node { return pM() }), slot("S", func() *Node { return pS("a") })}, Build: bin2("item", ""), Res: 'I', Outer: 2, Pool: 1})
	add(&Tmpl{Name: "item/map-missing", Fam: "index", Slots: []Slot{slot("M", func() *Node { return pM() }), slot("S", func() *Node { return pS("zz") })}, Build: bin2("item", ""), Res: 'N', Outer: 2, Pool: 1})
	add(&Tmpl{Name: "item/string", Fam: "index", Slots: []Slot{slot("S", func() *Node { return pS("abc") }), slot("I", func() *Node { return pI(1) })}, Build: bin2("item", ""), Res: 'S', Outer: 2, Pool: 1})

	// slices
	idx := []func() *Node{func() *Node { return pI(1) }, func() *Node { return pI(2) }, func() *Node { return pI(3) }}
	for _, form := range []string{"b:e", "b:", ":e", "b:e:c", ":e:c"} {
		var ix []func() *Node
		switch form {
		case "b:e":
			ix = idx[:2]
		case "b:":
			ix = idx[:1]
		case ":e":
			ix = idx[1:2]
		case "b:e:c":
			ix = idx
		case ":e:c":
			ix = idx[1:]
		}
		for _, cont := range []byte{'L', 'S'} {
			if cont == 'S' && len(form) > 3 {
				continue
			}
			var sl []Slot
			if cont == 'L' {
				sl = append(sl, slot("L", func() *Node { return pL(4) }))
			} else {
				sl = append(sl, slot("S", func() *Node { return pS("abcd") }))
			}
			for _, f := range ix {
				sl = append(sl, slot("I", f))
			}
			t := &Tmpl{Name: fmt.Sprintf("slice/%c/%s", cont, form), Fam: "slice-" + fmt.Sprint(len(ix)+0) + "-index", Slots: sl, Build: nary("slice", form), Res: cont, Outer: 2, Pool: 1}
			if len(form) > 3 {
				t.Fam = "slice-3-index-form"
			} else {
				t.Fam = "slice-2-index-form"
			}
			if cont == 'L' && (form == "b:e" || form == "b:e:c") {
				t.Pool = 2
			}
			add(t)
		}
	}

	// member
	for _, name := range []string{"a", "zz"} {
		name := name
		res := byte('I')
		if name == "zz" {
			res = 'N'
		}
		add(&Tmpl{Name: "member/" + name, Fam: "member", Slots: []Slot{slot("M", func() *Node { return pM() })},
			Build: func(k []*Node) *Node { return &Node{T: "member", Op: name, Kids: []*Node{k[0]}} }, Res: res, Outer: 2, Pool: 1})
	}

	// in, len, unary
	add(&Tmpl{Name: "in/int", Fam: "in", Slots: []Slot{slot("*", func() *Node { return pI(11) }), slot("L", func() *Node { return pL(3) })}, Build: bin2("in", ""), Res: 'B', Outer: 2, Pool: 2})
	add(&Tmpl{Name: "in/string", Fam: "in", Slots: []Slot{slot("*", func() *Node { return pS("a") }), slot("L", func() *Node { return pL(2) })}, Build: bin2("in", ""), Res: 'B', Outer: 1})
	for i, lf := range []func() *Node{func() *Node { return pL(2) }, func() *Node { return pS("ab") }, func() *Node { return pM() }} {
		t := &Tmpl{Name: fmt.Sprintf("len/%d", i), Fam: "len", Slots: []Slot{slot("LSM", lf)}, Build: nary("len", ""), Res: 'I', Outer: 2, Pool: 1}
		if i == 0 {
			t.Pool = 2
		}
		add(t)
	}
	for i, u := range []struct {
		op   string
		leaf func() *Node
		res  byte
	}{{"-", func() *Node { return pI(1) }, 'I'}, {"!", func() *Node { return pB(true) }, 'B'}, {"^", func() *Node { return pI(1) }, 'I'},
		{"!", func() *Node { return pN() }, 'B'}, {"!", func() *Node { return pL(0) }, 'B'},
		{"&", func() *Node { return pI(1) }, '?'}, {"&", func() *Node { return pL(2) }, '?'}} {
		t := &Tmpl{Name: fmt.Sprintf("unary/%s/%d", u.op, i), Fam: "unary", Slots: []Slot{slot("*", u.leaf)}, Build: nary("unary", u.op), Res: u.res, Outer: 2, Pool: 1}
		if i < 2 {
			t.Pool = 2
		}
		if u.op == "&" {
			t.Pool = 0
		}
		add(t)
	}

	// return lists (as an expression: an immediately called function literal)
	for n := 1; n <= 4; n++ {
		var sl []Slot
		for i := 0; i < n; i++ {
			sl = append(sl, slot("*", mixed[i]))
		}
		res := byte('L')
		if n == 1 {
			res = 'I'
		}
		t := &Tmpl{Name: fmt.Sprintf("return/%d", n), Fam: "return-list", Slots: sl, Build: nary("retcall", ""), Res: res, Outer: 2, Pool: 1}
		if n == 2 {
			t.Pool = 2
		}
		add(t)
	}

	// multi-assignment right-hand sides, var
	for _, sh := range [][2]int{{1, 1}, {2, 2}, {3, 3}, {4, 4}, {2, 3}, {3, 2}, {1, 2}, {1, 3}} {
		sh := sh
		var sl []Slot
		for i := 0; i < sh[1]; i++ {
			sl = append(sl, slot("*", mixed[i]))
		}
		for _, kind := range []string{"lets", "var"} {
			kind := kind
			if kind == "lets" && sh[0] == 1 && sh[1] > 1 {
				continue // `a = e1, e2` is not in the grammar
			}
			add(&Tmpl{Name: fmt.Sprintf("%s/%d=%d", kind, sh[0], sh[1]), Fam: map[string]string{"lets": "multi-assignment", "var": "var-statement"}[kind], Slots: sl,
				Build: func(k []*Node) *Node { return &Node{T: kind, NL: sh[0], Kids: append([]*Node{}, k...)} }, Outer: 2})
		}
	}
	// a, b = m[k]   (its own statement kind in the parser)
	add(&Tmpl{Name: "letmapitem", Fam: "assignment-from-map-item",
		Slots: []Slot{slot("M", func() *Node { return pM() }), slot("S", func() *Node { return pS("a") })},
		Build: func(k []*Node) *Node {
			return &Node{T: "letmapitem", Kids: []*Node{{T: "item", Kids: []*Node{k[0], k[1]}}}}
		}, Outer: 2})

	// assignment targets with probes (multiset comparison)
	x3 := func() *Node { return &Node{T: "varref", Op: "x", V: aval{K: 'L', Known: true, N: 3, AllInt: true}} }
	xx := func() *Node { return &Node{T: "varref", Op: "x", V: aval{K: 'L', Known: true, N: 2}} }
	mref := func() *Node { return &Node{T: "varref", Op: "m", V: aval{K: 'M', Known: true, N: 1}} }
	item := func(c, i *Node) *Node { return &Node{T: "item", Kids: []*Node{c, i}} }
	type target struct {
		name  string
		pre   string
		slots []Slot
		build func(k []*Node) *Node // builds the target from the index operands
		rhs   func() *Node
	}
	targets := []target{
		{"x[i]", "x = [1, 2, 3]", []Slot{slot("I", func() *Node { return pI(0) })}, func(k []*Node) *Node { return item(x3(), k[0]) }, func() *Node { return pI(5) }},
		{"x[len]", "x = [1, 2, 3]", []Slot{slot("I", func() *Node { return pI(3) })}, func(k []*Node) *Node { return item(x3(), k[0]) }, func() *Node { return pI(5) }},
		{"m[k]", `m = {"a": 1}`, []Slot{slot("S", func() *Node { return pS("a") })}, func(k []*Node) *Node { return item(mref(), k[0]) }, func() *Node { return pI(5) }},
		{"p.k", "", []Slot{slot("M", func() *Node { return pM() })}, func(k []*Node) *Node { return &Node{T: "member", Op: "a", Kids: []*Node{k[0]}} }, func() *Node { return pI(5) }},
		{"p[i]", "", []Slot{slot("L", func() *Node { return pL(3) }), slot("I", func() *Node { return pI(0) })}, func(k []*Node) *Node { return item(k[0], k[1]) }, func() *Node { return pI(5) }},
		{"x[i][j]", "x = [[1, 2], [3, 4]]", []Slot{slot("I", func() *Node { return pI(0) }), slot("I", func() *Node { return pI(1) })},
			func(k []*Node) *Node { return item(item(xx(), k[0]), k[1]) }, func() *Node { return pI(5) }},
		{"x[i][len]", "x = [[1, 2], [3, 4]]", []Slot{slot("I", func() *Node { return pI(0) }), slot("I", func() *Node { return pI(2) })},
			func(k []*Node) *Node { return item(item(xx(), k[0]), k[1]) }, func() *Node { return pI(5) }},
		{"x[i][j]:string", `x = ["ab", "cd"]`, []Slot{slot("I", func() *Node { return pI(0) }), slot("I", func() *Node { return pI(1) })},
			func(k []*Node) *Node { return item(item(xx(), k[0]), k[1]) }, func() *Node { return pS("z") }},
		{"x[i].k", `x = [{"a": 1}, {"a": 2}]`, []Slot{slot("I", func() *Node { return pI(0) })},
			func(k []*Node) *Node { return &Node{T: "member", Op: "a", Kids: []*Node{item(xx(), k[0])}} }, func() *Node { return pI(5) }},
		{"m[k][j]", `m = {"a": [1, 2]}`, []Slot{slot("S", func() *Node { return pS("a") }), slot("I", func() *Node { return pI(0) })},
			func(k []*Node) *Node { return item(item(mref(), k[0]), k[1]) }, func() *Node { return pI(5) }},
		{"m[k][len]", `m = {"a": [1, 2]}`, []Slot{slot("S", func() *Node { return pS("a") }), slot("I", func() *Node { return pI(2) })},
			func(k []*Node) *Node { return item(item(mref(), k[0]), k[1]) }, func() *Node { return pI(5) }},
		{"x[b:e]", "x = [1, 2, 3]", []Slot{slot("I", func() *Node { return pI(0) }), slot("I", func() *Node { return pI(1) })},
			func(k []*Node) *Node { return &Node{T: "slice", Op: "b:e", Kids: []*Node{x3(), k[0], k[1]}} }, func() *Node { return pL(1) }},
	}
	for _, tg := range targets {
		tg := tg
		n := len(tg.slots)
		sl := append(append([]Slot{}, tg.slots...), slot("*", tg.rhs))
		add(&Tmpl{Name: "asg/" + tg.name, Fam: "assignment-target " + tg.name, Slots: sl, Outer: 2,
			Build: func(k []*Node) *Node {
				return &Node{T: "asg", Op: "=", Pre: tg.pre, Kids: []*Node{tg.build(k[:n]), k[n]}}
			}})
		ops := []string{"+="}
		if tg.name == "x[i]" {
			ops = []string{"+=", "-=", "*=", "/=", "|=", "&="}
		}
		if tg.name == "x[b:e]" || tg.name == "x[i][j]:string" {
			continue
		}
		for _, op := range ops {
			op := op
			add(&Tmpl{Name: "opasg/" + op + "/" + tg.name, Fam: "op-assign " + tg.name, Slots: sl, Outer: 2,
				Build: func(k []*Node) *Node {
					return &Node{T: "opasg", Op: op, Pre: tg.pre, Kids: []*Node{tg.build(k[:n]), k[n]}}
				}})
		}
		for _, op := range []string{"++", "--"} {
			op := op
			add(&Tmpl{Name: "incdec/" + op + "/" + tg.name, Fam: "inc-dec " + tg.name, Slots: tg.slots, Outer: 2,
				Build: func(k []*Node) *Node {
					return &Node{T: "incdec", Op: op, Pre: tg.pre, Kids: []*Node{tg.build(k[:n])}}
				}})
		}
	}
	add(&Tmpl{Name: "asg2/x[i],x[j]", Fam: "assignment-target two targets", Outer: 2,
		Slots: []Slot{slot("I", func() *Node { return pI(0) }), slot("I", func() *Node { return pI(1) }), slot("*", func() *Node { return pI(5) }), slot("*", func() *Node { return pI(6) })},
		Build: func(k []*Node) *Node {
			return &Node{T: "asg2", Pre: "x = [1, 2, 3]", Kids: []*Node{item(x3(), k[0]), item(x3(), k[1]), k[2], k[3]}}
		}})
	return out
}

// addrTemplates: address-of operands (&ident, &x[i], &m[k], &p()[i], &p().k,
// &x[i].k, &p()) as arguments of Go (and, as a control, script) functions, at
// every argument position.  After a Go call anko writes the pointee back to an
// `&ident` argument; that write-back is an assignment and must not evaluate any
// operand again.  These templates are not in the nested pool.
func addrTemplates() []*Tmpl {
	var out []*Tmpl
	type form struct {
		name   string
		pre    string
		slots  []Slot
		build  func(k []*Node) *Node // operand of &
		intPtr bool                  // the reference knows the pointee is an int
	}
	item := func(c, i *Node) *Node { return &Node{T: "item", Kids: []*Node{c, i}} }
	aref := func() *Node { return &Node{T: "varref", Op: "a", V: intVal(1)} }
	x3 := func() *Node { return &Node{T: "varref", Op: "x", V: aval{K: 'L', Known: true, N: 3, AllInt: true}} }
	xm := func() *Node { return &Node{T: "varref", Op: "x", V: aval{K: 'L', Known: true, N: 2}} }
	mref := func() *Node { return &Node{T: "varref", Op: "m", V: aval{K: 'M', Known: true, N: 1}} }
	forms := []form{
		{"&ident", "a = 1", nil, func(k []*Node) *Node { return aref() }, true},
		{"&x[i]", "x = [1, 2, 3]", []Slot{slot("I", func() *Node { return pI(0) })}, func(k []*Node) *Node { return item(x3(), k[0]) }, true},
		{"&m[k]", `m = {"a": 1}`, []Slot{slot("S", func() *Node { return pS("a") })}, func(k []*Node) *Node { return item(mref(), k[0]) }, false},
		{"&p[i]", "", []Slot{slot("L", func() *Node { return pL(3) }), slot("I", func() *Node { return pI(0) })}, func(k []*Node) *Node { return item(k[0], k[1]) }, true},
		{"&p.k", "", []Slot{slot("M", func() *Node { return pM() })}, func(k []*Node) *Node { return &Node{T: "member", Op: "a", Kids: []*Node{k[0]}} }, true},
		{"&x[i].k", `x = [{"a": 1}, {"a": 2}]`, []Slot{slot("I", func() *Node { return pI(0) })},
			func(k []*Node) *Node { return &Node{T: "member", Op: "a", Kids: []*Node{item(xm(), k[0])}} }, false},
		{"&p", "", []Slot{slot("", func() *Node { return pI(1) })}, func(k []*Node) *Node { return k[0] }, true},
	}
	type acallee struct {
		c      *Callee
		nargs  []int
		spread bool // also: & first, the rest from a spread slice
	}
	cs := []acallee{
		{&Callee{Name: "gi1", NFixed: 1, PK: 'A'}, []int{1}, false},
		{&Callee{Name: "gi2", NFixed: 2, PK: 'A'}, []int{2}, true},
		{&Callee{Name: "gi3", NFixed: 3, PK: 'A'}, []int{3}, true},
		{&Callee{Name: "ga0", NFixed: 0, Variadic: true, PK: 'A'}, []int{1, 2}, false},
		{&Callee{Name: "ga1", NFixed: 1, Variadic: true, PK: 'A'}, []int{1, 2, 3}, true},
		{&Callee{Name: "gp2", NFixed: 2, PK: 'I', Ptr0: true}, []int{2}, false},
		{&Callee{Name: "gpv1", NFixed: 1, Variadic: true, PK: 'I', Ptr0: true}, []int{1, 3}, true},
		{&Callee{Name: "f2", Script: true, NFixed: 2}, []int{2}, false},
		{&Callee{Name: "fv1", Script: true, NFixed: 1, Variadic: true}, []int{2}, false},
	}
	for _, ac := range cs {
		ac := ac
		c := ac.c
		type sh struct {
			n      int
			spread bool
		}
		var shapes []sh
		for _, n := range ac.nargs {
			shapes = append(shapes, sh{n, false})
		}
		if ac.spread {
			shapes = append(shapes, sh{2, true})
		}
		for _, shp := range shapes {
			shp := shp
			for pos := 0; pos < shp.n; pos++ {
				pos := pos
				if (c.Ptr0 || shp.spread) && pos != 0 {
					continue
				}
				for _, f := range forms {
					f := f
					if c.Ptr0 && !f.intPtr {
						continue
					}
					for _, via := range []string{"call/ident", "call/var", "call/paren", "call/member", "call/probe", "go/ident", "defer/ident"} {
						via := via
						stmt, path := "", via[5:]
						if via[:2] == "go" {
							stmt, path = "go", via[3:]
						} else if via[:5] == "defer" {
							stmt, path = "defer", via[6:]
						}
						var slots []Slot
						if path == "probe" {
							slots = append(slots, slot("", func() *Node { return pF(c.Name) }))
						}
						off := len(slots)
						for i := 0; i < shp.n; i++ {
							i := i
							switch {
							case i == pos:
								slots = append(slots, f.slots...)
							case shp.spread && i == shp.n-1:
								need := 1
								if !c.Variadic {
									need = c.NFixed - 1
								}
								if c.PK == 'I' {
									slots = append(slots, slot("", func() *Node { return pLI(need) }))
								} else {
									slots = append(slots, slot("L", func() *Node { return pL(need) }))
								}
							case c.Script || c.PK == 'A':
								slots = append(slots, slot("*", mixed[i%len(mixed)]))
							default:
								slots = append(slots, slot("I", func() *Node { return pI(int64(i + 5)) }))
							}
						}
						nf := len(f.slots)
						build := func(k []*Node) *Node {
							n := &Node{T: "call", Callee: c, Path: path, Spread: shp.spread}
							if path == "probe" {
								n.CalleeLeaf = k[0]
							}
							rest := k[off:]
							cur := 0
							for i := 0; i < shp.n; i++ {
								if i == pos {
									n.Kids = append(n.Kids, &Node{T: "addr", Pre: f.pre, Kids: []*Node{f.build(rest[cur : cur+nf])}})
									cur += nf
									continue
								}
								n.Kids = append(n.Kids, rest[cur])
								cur++
							}
							switch stmt {
							case "go":
								return &Node{T: "seq", Kids: []*Node{{T: "gostmt", Kids: []*Node{n}}, {T: "expr", Kids: []*Node{pI(0)}}}}
							case "defer":
								return &Node{T: "seq", Kids: []*Node{{T: "deferstmt", Kids: []*Node{n}}, {T: "expr", Kids: []*Node{pI(0)}}}}
							}
							return n
						}
						sp := "plain"
						if shp.spread {
							sp = "spread"
						}
						pfx := "call"
						if stmt != "" {
							pfx = stmt
						}
						t := &Tmpl{
							Name:  fmt.Sprintf("addr/%s/%s/%s%d@%d/%s/%s", pfx, c.Name, sp, shp.n, pos, f.name, path),
							Fam:   fmt.Sprintf("%s.%s.%s-matched.%s.address-of-argument %s", pfx, calleeClass(c), sp, path, f.name),
							Slots: slots, Build: build, Outer: 1,
						}
						if stmt == "" {
							t.Res = 'I'
							if path == "ident" {
								t.Outer = 2
							}
						}
						out = append(out, t)
					}
				}
			}
		}
	}
	return out
}

var (
	tmplOnce sync.Once
	tmplAll  []*Tmpl
)

func templates() []*Tmpl {
	tmplOnce.Do(func() {
		tmplAll = append(otherTemplates(), callTemplates()...)
		tmplAll = append(tmplAll, addrTemplates()...)
		seen := map[string]bool{}
		for _, t := range tmplAll {
			if seen[t.Name] {
				panic("duplicate template " + t.Name)
			}
			seen[t.Name] = true
		}
	})
	return tmplAll
}

func templateCounts(thorough bool) map[string]interface{} {
	ts := templates()
	fam := map[string]int{}
	pool, outer := 0, 0
	need := 2
	if thorough {
		need = 1
	}
	for _, t := range ts {
		fam[t.Fam]++
		if t.Pool >= need {
			pool++
		}
		if t.Outer >= need {
			outer++
		}
	}
	var fs []string
	for f := range fam {
		fs = append(fs, f)
	}
	sort.Strings(fs)
	return map[string]interface{}{"templates": len(ts), "families": len(fs), "nested_pool": pool, "outer_templates": outer}
}

// ---------------------------------------------------------------------------
// jobs
// ---------------------------------------------------------------------------

// Job generates a group of cases.
type Job struct {
	Space  string
	Sample bool
	Gen    func(emit func(root *Node, class string))
}

// failingVariants emits mk() with the j-th leaf replaced by a failing leaf, for
// every leaf j (of the subtree `within` returned by mk, when it is not nil).
func failingVariants(mk func() (root, within *Node), class string, kinds []int, emit func(*Node, string)) {
	root, within := mk()
	var ls []*Node
	root.leaves(&ls)
	in := map[*Node]bool{}
	if within != nil {
		var ws []*Node
		within.leaves(&ws)
		for _, w := range ws {
			in[w] = true
		}
	}
	for j := range ls {
		if within != nil && !in[ls[j]] {
			continue
		}
		for _, kind := range kinds {
			root, _ := mk()
			jj := j
			if !root.replaceLeaf(&jj, pErr(kind)) {
				panic("replaceLeaf")
			}
			emit(root, class)
		}
	}
}

func buildJobs(thorough bool) []Job {
	ts := templates()
	need := 2
	if thorough {
		need = 1
	}
	var pool []*Tmpl
	for _, t := range ts {
		if t.Pool >= need {
			pool = append(pool, t)
		}
	}
	var jobs []Job
	// level 1: every template with its default operands, and one failing leaf at every position
	for i, t := range ts {
		t := t
		jobs = append(jobs, Job{Space: "single-template", Sample: i%97 == 0, Gen: func(emit func(*Node, string)) {
			emit(t.inst(nil), t.Fam)
		}})
		jobs = append(jobs, Job{Space: "single-template+failing-leaf", Sample: i%211 == 0, Gen: func(emit func(*Node, string)) {
			failingVariants(func() (*Node, *Node) { return t.inst(nil), nil }, t.Fam, []int{1, 2}, emit)
		}})
	}
	// level 2: one template nested inside each operand of another
	for i, t := range ts {
		if t.Outer < need {
			continue
		}
		t := t
		for k, s := range t.Slots {
			if s.Accept == "" {
				continue
			}
			k, s := k, s
			jobs = append(jobs, Job{Space: "nested", Sample: (i+k)%389 == 0, Gen: func(emit func(*Node, string)) {
				for _, u := range pool {
					if !accepts(s, u.Res) || (t.Small && u.Pool < 2) {
						continue
					}
					u := u
					emit(t.inst(map[int]*Node{k: u.exprInst()}), t.Fam)
				}
			}})
			if thorough {
				jobs = append(jobs, Job{Space: "nested+failing-leaf", Sample: (i+k)%997 == 0, Gen: func(emit func(*Node, string)) {
					for _, u := range pool {
						if !accepts(s, u.Res) || (t.Small && u.Pool < 2) {
							continue
						}
						u := u
						failingVariants(func() (*Node, *Node) {
							in := u.exprInst()
							return t.inst(map[int]*Node{k: in}), in
						}, t.Fam, []int{1}, emit)
					}
				}})
			}
		}
	}
	// operands written as bare literals, one observable operand at a time, every
	// statement executed TWICE: what an operator does with an operand must not
	// depend on the other operands being spelled as constants, nor on the node
	// having been evaluated before
	plainable := func(l *Node) bool {
		return l.T == "leaf" && !l.failing() && (l.Probe == "pi" || l.Probe == "ps" || l.Probe == "pb" || l.Probe == "pn")
	}
	maskVariants := func(mk func() *Node, class string, emit func(*Node, string)) {
		root := mk()
		var ls []*Node
		root.leaves(&ls)
		for j := range ls {
			if !plainable(ls[j]) {
				continue
			}
			r2 := mk()
			var l2 []*Node
			r2.leaves(&l2)
			n := 0
			for i := range l2 {
				if i != j && plainable(l2[i]) {
					l2[i].Plain = true
					n++
				}
			}
			if n == 0 {
				continue
			}
			emit(&Node{T: "twice", Kids: []*Node{r2}}, class)
		}
	}
	isOperator := func(t *Tmpl) bool {
		switch t.Fam {
		case "binary-operator", "ternary", "nil-coalescing", "unary", "in", "len", "list-literal", "index", "member":
			return true
		}
		return strings.HasPrefix(t.Fam, "logic-") || strings.HasPrefix(t.Fam, "slice-")
	}
	for i, t := range ts {
		if !isOperator(t) || t.Res == 0 {
			continue
		}
		t := t
		jobs = append(jobs, Job{Space: "literal-operands-twice", Sample: i%61 == 0, Gen: func(emit func(*Node, string)) {
			maskVariants(func() *Node { return t.inst(nil) }, t.Fam+"/literal-operands-twice", emit)
			for k, s := range t.Slots {
				if s.Accept == "" {
					continue
				}
				for _, u := range ts {
					if !isOperator(u) || !accepts(s, u.Res) {
						continue
					}
					k, u := k, u
					maskVariants(func() *Node { return t.inst(map[int]*Node{k: u.exprInst()}) }, t.Fam+"/literal-operands-twice", emit)
				}
			}
		}})
	}
	return jobs
}
