package c08

import (
	"fmt"

	"verif/engine/lib/ir"
)

// ---- family "truth": every truthiness class in every condition position ----

type truthVal struct {
	name string
	e    ir.Expr
}

var truthVals = []truthVal{
	{"nil", ir.Nil{}},
	{"false", vFalse},
	{"0", ir.I(0)},
	{"0.0", ir.Float{V: 0}},
	{`""`, ir.S("")},
	{"[]", ir.List{}},
	{"{}", ir.MapLit{}},
	{"true", vTrue},
	{"1", ir.I(1)},
	{"-1", ir.I(-1)},
	{"2", ir.I(2)},
	{"0.5", ir.Float{V: 0.5}},
	{"-0.5", ir.Float{V: -0.5}},
	{`"a"`, ir.S("a")},
	{`"ab"`, ir.S("ab")},
	{"[0]", ir.List{Elems: []ir.Expr{ir.I(0)}}},
	{"[nil]", ir.List{Elems: []ir.Expr{ir.Nil{}}}},
	{`{"k":1}`, ir.MapLit{Keys: []string{"k"}, Vals: []ir.Expr{ir.I(1)}}},
	{`{"k":nil}`, ir.MapLit{Keys: []string{"k"}, Vals: []ir.Expr{ir.Nil{}}}},
}

var truthForms = []string{"if-literal", "if-host-value", "if-variable", "else-if", "loop-cond-host", "cfor-cond-host", "loop-cond-literal", "if-call-result", "cfor-cond-literal", "if-2nd-else-if"}

func truthPayload(form int, val ir.Expr) func(g *gen) []ir.Stmt {
	return func(g *gen) []ir.Stmt {
		yes, no := []ir.Stmt{g.p()}, []ir.Stmt{g.p()}
		switch form {
		case 0:
			return []ir.Stmt{ir.If{Cond: val, Then: yes, HasElse: true, Else: no}}
		case 1:
			return []ir.Stmt{ir.If{Cond: ir.Seq{ID: g.id(), Vals: []ir.Expr{val}}, Then: yes, HasElse: true, Else: no}}
		case 2:
			c := fmt.Sprintf("c%d", g.id())
			return []ir.Stmt{ir.Set(c, val), ir.If{Cond: ir.Var{Name: c}, Then: yes, HasElse: true, Else: no}}
		case 3:
			return []ir.Stmt{ir.If{Cond: vFalse, Then: g.marker(), ElseIfs: []ir.ElseIf{{Cond: val, Body: yes}}, HasElse: true, Else: no}}
		case 4:
			return []ir.Stmt{ir.Loop{Cond: ir.Seq{ID: g.id(), Vals: []ir.Expr{val, ir.Nil{}}}, Body: yes}, g.p()}
		case 5:
			k := g.id()
			return []ir.Stmt{ir.CFor{Init: ir.Set(fmt.Sprintf("i%d", k), ir.I(0)), Cond: ir.Seq{ID: k, Vals: []ir.Expr{val, ir.Nil{}}},
				Post: ir.Probe{ID: g.id()}, Body: yes}, g.p()}
		case 6:
			return []ir.Stmt{ir.Loop{Cond: val, Body: cat(yes, []ir.Stmt{ir.Break{}})}, g.p()}
		case 7:
			f := fmt.Sprintf("f%d", g.id())
			return []ir.Stmt{ir.Func(f, nil, []ir.Stmt{ir.Return{Vals: []ir.Expr{val}}}),
				ir.If{Cond: ir.CallNamed(f), Then: yes, HasElse: true, Else: no}}
		case 8:
			return []ir.Stmt{ir.CFor{Cond: val, Body: cat(yes, []ir.Stmt{ir.Break{}})}, g.p()}
		case 9:
			// the value decides the second else-if; the first one is falsy, a later one truthy
			return []ir.Stmt{ir.If{Cond: ir.I(0), Then: g.marker(),
				ElseIfs: []ir.ElseIf{{Cond: ir.S(""), Body: g.marker()}, {Cond: val, Body: yes}, {Cond: vTrue, Body: no}},
				HasElse: true, Else: g.marker()}}
		}
		panic("bad truth form")
	}
}

// ---- family "leaf": constructs in which nothing (or only the default) runs ----

var leafForms = []string{"if-false", "if-chain-all-false", "switch-no-match", "switch-empty", "switch-only-default",
	"forin-empty-list", "forin-empty-map", "forin-empty-chan", "loop-cond-false", "cfor-cond-false",
	"if-empty-then", "if-empty-else", "forin-empty-body", "try-empty-body", "call-empty-func", "switch-empty-case"}

func leafPayload(form int) func(g *gen) []ir.Stmt {
	return func(g *gen) []ir.Stmt {
		m := g.marker()
		switch form {
		case 0:
			return []ir.Stmt{ir.If{Cond: vFalse, Then: m}}
		case 1:
			return []ir.Stmt{ir.If{Cond: ir.Nil{}, Then: m, ElseIfs: []ir.ElseIf{{Cond: ir.I(0), Body: g.marker()}, {Cond: ir.S(""), Body: g.marker()}}}}
		case 2:
			return []ir.Stmt{ir.Switch{Subject: ir.I(5), Cases: []ir.Case{{Exprs: []ir.Expr{ir.I(1)}, Body: m}, {Exprs: []ir.Expr{ir.I(2), ir.I(3)}, Body: g.marker()}}}}
		case 3:
			return []ir.Stmt{ir.Switch{Subject: ir.I(5)}}
		case 4:
			return []ir.Stmt{ir.Switch{Subject: ir.I(5), HasDefault: true, Default: m}}
		case 5:
			return []ir.Stmt{ir.ForIn{Vars: []string{"x"}, Coll: ir.List{}, Body: m}}
		case 6:
			return []ir.Stmt{ir.ForIn{Vars: []string{"k", "x"}, Coll: ir.MapLit{}, Body: m}}
		case 7:
			return []ir.Stmt{ir.ForIn{Vars: []string{"x"}, Coll: ir.ChanOf{}, Body: m}}
		case 8:
			return []ir.Stmt{ir.Loop{Cond: ir.Nil{}, Body: m}}
		case 9:
			return []ir.Stmt{ir.CFor{Init: ir.Set(fmt.Sprintf("i%d", g.id()), ir.I(0)), Cond: vFalse, Post: ir.Probe{ID: g.id()}, Body: m}}
		case 10:
			return []ir.Stmt{ir.If{Cond: vTrue, HasElse: true, Else: m}}
		case 11:
			return []ir.Stmt{ir.If{Cond: vFalse, Then: m, HasElse: true}}
		case 12:
			return []ir.Stmt{ir.ForIn{Vars: []string{"x"}, Coll: ir.List{Elems: []ir.Expr{ir.I(1), ir.I(2)}}}}
		case 13:
			return []ir.Stmt{ir.Try{Catch: m}}
		case 14:
			f := fmt.Sprintf("f%d", g.id())
			return []ir.Stmt{ir.Func(f, nil, nil), ir.ExprStmt{X: ir.CallNamed(f)}}
		case 15:
			return []ir.Stmt{ir.Switch{Subject: ir.I(1), Cases: []ir.Case{{Exprs: []ir.Expr{ir.I(1)}}, {Exprs: []ir.Expr{ir.I(1)}, Body: m}}, HasDefault: true, Default: g.marker(), DefaultAt: 2}}
		}
		panic("bad leaf form")
	}
}

// ---- family "iter": iteration counts, visiting order, a signal in iteration j ----

var iterLoops = []string{"forin-list", "forin-map-kv", "forin-map-k", "forin-chan", "loop-cond", "cfor-host-cond", "cfor-count", "loop-inf"}

var iterSigs = []int{sigBreak, sigContinue, sigRet1}

// iterPayload: loop kind a, n iterations, c = 0: no signal, else 1 + j*3 + kind:
// the signal fires in iteration j (0-based).
func iterPayload(a, n, c int) func(g *gen) []ir.Stmt {
	return func(g *gen) []ir.Stmt {
		var mid []ir.Stmt
		if c > 0 {
			j, kind := (c-1)/3, iterSigs[(c-1)%3]
			seq := make([]ir.Expr, n+1)
			for i := range seq {
				seq[i] = ir.Bool{V: i == j}
			}
			mid = []ir.Stmt{ir.If{Cond: ir.Seq{ID: g.id(), Vals: seq}, Then: []ir.Stmt{sigStmt(kind)}}}
		}
		tail := []ir.Stmt{g.p()}
		elems := func() []ir.Expr {
			var es []ir.Expr
			for i := 0; i < n; i++ {
				es = append(es, ir.I(int64(10*(i+1))))
			}
			return es
		}
		mapLit := func() ir.MapLit {
			m := ir.MapLit{}
			for i := 0; i < n; i++ {
				m.Keys = append(m.Keys, string(rune('a'+i)))
				m.Vals = append(m.Vals, ir.I(int64(i+1)))
			}
			return m
		}
		conds := func() []ir.Expr {
			var es []ir.Expr
			for i := 0; i < n; i++ {
				es = append(es, vTrue)
			}
			return append(es, vFalse)
		}
		var loop ir.Stmt
		switch a {
		case 0:
			loop = ir.ForIn{Vars: []string{"x"}, Coll: ir.List{Elems: elems()}, Body: cat([]ir.Stmt{ir.V(ir.Var{Name: "x"})}, mid, tail)}
		case 1:
			loop = ir.ForIn{Vars: []string{"k", "x"}, Coll: mapLit(), Body: cat([]ir.Stmt{ir.V(ir.Var{Name: "k"}, ir.Var{Name: "x"})}, mid, tail)}
		case 2:
			loop = ir.ForIn{Vars: []string{"k"}, Coll: mapLit(), Body: cat([]ir.Stmt{ir.V(ir.Var{Name: "k"})}, mid, tail)}
		case 3:
			loop = ir.ForIn{Vars: []string{"x"}, Coll: ir.ChanOf{Elems: elems()}, Body: cat([]ir.Stmt{ir.V(ir.Var{Name: "x"})}, mid, tail)}
		case 4:
			loop = ir.Loop{Cond: ir.Seq{ID: g.id(), Vals: conds()}, Body: cat([]ir.Stmt{g.p()}, mid, tail)}
		case 5:
			k := g.id()
			loop = ir.CFor{Init: ir.Set(fmt.Sprintf("i%d", k), ir.I(0)), Cond: ir.Seq{ID: k, Vals: conds()}, Post: ir.Probe{ID: g.id()},
				Body: cat([]ir.Stmt{g.p()}, mid, tail)}
		case 6:
			loop = ir.CFor{Init: ir.Set("j", ir.I(0)), Cond: ir.Bin{Op: "<", L: ir.Var{Name: "j"}, R: ir.I(int64(n))}, Post: ir.Incr{Name: "j"},
				Body: cat([]ir.Stmt{ir.V(ir.Var{Name: "j"})}, mid, tail)}
		case 7:
			var gs []ir.Expr // the guard lets n iterations through
			for i := 0; i < n; i++ {
				gs = append(gs, vFalse)
			}
			gs = append(gs, vTrue)
			loop = ir.Loop{Body: cat([]ir.Stmt{ir.If{Cond: ir.Seq{ID: g.id(), Vals: gs}, Then: []ir.Stmt{ir.Break{}}}, g.p()}, mid, tail)}
		default:
			panic("bad iter loop")
		}
		return []ir.Stmt{loop}
	}
}

// ---- family "stray": break / continue outside any loop of a CALLED function ----
//
// A function boundary is not transparent for break / continue: executed in a
// function body (directly or inside an if / switch / catch / finally / module
// block of it) with no enclosing loop inside that function, the signal must
// not act on a loop of the caller.  The call fails with an error
// (error-vs-success only); uncaught, the program ends with that error after
// the trace up to the call; caught by a try of the caller, the caller's loop
// goes on undisturbed.

// in-function constructs around the stray signal ("" = directly in the body).
// The body of a try is not among them: a signal that leaves a try body is the
// known try-body-signal defect and would only add cases to that finding.
var strayInner = []string{"", "if-then", "if-else", "if-elseif1", "sw-case0", "sw-case1b", "sw-default", "try-catch", "try-finally", "module"}

var strayForms = []string{"direct-uncaught", "nested-uncaught", "direct-caught", "nested-caught"}

// strayPositions is the number of signal positions of the given level
// (0 = the function's statement list, 1 = the block inside the construct).
func strayPositions(inner, level int) int {
	if inner == 0 {
		if level == 0 {
			return 2
		}
		return 0
	}
	if level == 0 {
		return 4
	}
	return 2
}

func strayPayload(sp Spec) func(g *gen) []ir.Stmt {
	return func(g *gen) []ir.Stmt {
		place := func(slots [][]ir.Stmt, level int) []ir.Stmt {
			var list []ir.Stmt
			for i, s := range slots {
				if sp.Level == level && sp.Pos == i {
					list = append(list, sigStmt(sp.Sig))
				}
				list = append(list, s...)
			}
			if sp.Level == level && sp.Pos >= len(slots) {
				list = append(list, sigStmt(sp.Sig))
			}
			return list
		}
		var body []ir.Stmt
		if sp.A == 0 {
			body = place([][]ir.Stmt{{g.p()}}, 0)
		} else {
			pre := g.p()
			hole := place([][]ir.Stmt{{g.p()}}, 1)
			cons := wrappers[wrapperIndex(strayInner[sp.A])].build(g, hole)
			body = place([][]ir.Stmt{{pre}, cons, {g.p()}}, 0)
		}
		f := fmt.Sprintf("f%d", g.id())
		out := []ir.Stmt{ir.Func(f, nil, cat(body, []ir.Stmt{ir.Return{Vals: []ir.Expr{ir.I(9)}}}))}
		callee := f
		if sp.B&1 != 0 { // one call deeper
			h := fmt.Sprintf("h%d", g.id())
			out = append(out, ir.Func(h, nil, []ir.Stmt{g.p(), ir.ExprStmt{X: ir.CallNamed(f)}, g.p(), ir.Return{Vals: []ir.Expr{ir.I(8)}}}))
			callee = h
		}
		call := ir.ExprStmt{X: ir.CallNamed(callee)}
		if sp.B&2 != 0 { // the caller catches the failure of the call
			out = append(out, ir.Try{Body: []ir.Stmt{call, g.p()}, Catch: []ir.Stmt{g.p()}})
		} else {
			out = append(out, call)
		}
		return out
	}
}

// ---- family "reswitch": one switch statement executed again with another subject ----
//
// "switch runs exactly the first case equal to its subject" holds for every
// execution of the statement, whatever an earlier execution of the same node
// took: a switch with OVERLAPPING cases is executed for each subject of an
// ordered triple over {1, 2, 3, 4}, in a loop body (form 0), in a function
// called once per subject (form 1), and with single-valued duplicate cases (form 2).
var reswitchForms = []string{"loop", "function", "duplicate-cases"}

func reswitchPayload(a, b, c, form int) func(g *gen) []ir.Stmt {
	return func(g *gen) []ir.Stmt {
		subj := func(e ir.Expr) ir.Stmt {
			cases := []ir.Case{
				{Exprs: []ir.Expr{ir.I(1), ir.I(2)}, Body: []ir.Stmt{g.p()}},
				{Exprs: []ir.Expr{ir.I(2), ir.I(3)}, Body: []ir.Stmt{g.p()}},
			}
			if form == 2 {
				cases = []ir.Case{
					{Exprs: []ir.Expr{ir.I(1)}, Body: []ir.Stmt{g.p()}},
					{Exprs: []ir.Expr{ir.I(2)}, Body: []ir.Stmt{g.p()}},
					{Exprs: []ir.Expr{ir.I(2)}, Body: []ir.Stmt{g.p()}},
					{Exprs: []ir.Expr{ir.I(3), ir.I(1)}, Body: []ir.Stmt{g.p()}},
				}
			}
			return ir.Switch{Subject: e, Cases: cases, HasDefault: true, Default: []ir.Stmt{g.p()}, DefaultAt: len(cases)}
		}
		vals := []ir.Expr{ir.I(int64(a + 1)), ir.I(int64(b + 1)), ir.I(int64(c + 1))}
		if form == 1 {
			lit := &ir.FuncLit{Params: []string{"s"}, Body: []ir.Stmt{subj(ir.Var{Name: "s"})}}
			out := []ir.Stmt{ir.Set("sw", lit)}
			for _, v := range vals {
				out = append(out, ir.ExprStmt{X: ir.Call{Fn: ir.Var{Name: "sw"}, Args: []ir.Expr{v}}})
			}
			return out
		}
		return []ir.Stmt{ir.ForIn{Vars: []string{"s"}, Coll: ir.List{Elems: vals}, Body: []ir.Stmt{ir.V(ir.Var{Name: "s"}), subj(ir.Var{Name: "s"})}}}
	}
}
