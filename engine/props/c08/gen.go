package c08

import (
	"fmt"
	"strings"

	"verif/engine/lib/ir"
)

// ---------------------------------------------------------------------------
// The program space.  A spine program is
//
//	p; W1[ p; W2[ p; W3[ p ]; p ]; p ]; p(z, 77)
//
// where every Wi is one of the wrappers below (a control construct together
// with the position of its hole) and at most one signal statement (break,
// continue, return with 0 / 1 / 2 values) sits at one statement position of
// one level.  Every statement list has a probe before and after the nested
// construct, every loop body therefore logs once per iteration, the C-style
// loops log in their post expression, the branches that must not run hold
// marker probes.
// ---------------------------------------------------------------------------

type gen struct{ n int }

func (g *gen) id() int { g.n++; return g.n }

func (g *gen) p() ir.Stmt { return ir.P(g.id()) }

func (g *gen) marker() []ir.Stmt { return []ir.Stmt{g.p()} }

var (
	vTrue  = ir.Bool{V: true}
	vFalse = ir.Bool{V: false}
)

func cat(parts ...[]ir.Stmt) []ir.Stmt {
	var out []ir.Stmt
	for _, p := range parts {
		out = append(out, p...)
	}
	return out
}

// guard is `if t(k, [false, false, true]) { break }`: lets an endless loop run
// two iterations.
func (g *gen) guard() ir.Stmt {
	return ir.If{Cond: ir.Seq{ID: g.id(), Vals: []ir.Expr{vFalse, vFalse, vTrue}}, Then: []ir.Stmt{ir.Break{}}}
}

type wrapper struct {
	name    string
	loop    bool // target of break / continue
	fn      bool // function boundary: target of return, break / continue do not cross it
	tryBody bool // the hole is the body of a try statement
	build   func(g *gen, hole []ir.Stmt) []ir.Stmt
}

var wrappers = []wrapper{
	// ---- if / else-if / else: position of the first truthy condition ----
	{name: "if-then", build: func(g *gen, h []ir.Stmt) []ir.Stmt {
		return []ir.Stmt{ir.If{Cond: vTrue, Then: h, HasElse: true, Else: g.marker()}}
	}},
	{name: "if-elseif1", build: func(g *gen, h []ir.Stmt) []ir.Stmt {
		return []ir.Stmt{ir.If{Cond: vFalse, Then: g.marker(),
			ElseIfs: []ir.ElseIf{{Cond: ir.I(1), Body: h}, {Cond: ir.S("a"), Body: g.marker()}},
			HasElse: true, Else: g.marker()}}
	}},
	{name: "if-elseif2", build: func(g *gen, h []ir.Stmt) []ir.Stmt {
		return []ir.Stmt{ir.If{Cond: ir.I(0), Then: g.marker(),
			ElseIfs: []ir.ElseIf{{Cond: ir.S(""), Body: g.marker()}, {Cond: ir.List{Elems: []ir.Expr{ir.I(0)}}, Body: h}},
			HasElse: true, Else: g.marker()}}
	}},
	{name: "if-else", build: func(g *gen, h []ir.Stmt) []ir.Stmt {
		return []ir.Stmt{ir.If{Cond: ir.Nil{}, Then: g.marker(),
			ElseIfs: []ir.ElseIf{{Cond: ir.Float{V: 0}, Body: g.marker()}},
			HasElse: true, Else: h}}
	}},
	{name: "if-2nd", build: func(g *gen, h []ir.Stmt) []ir.Stmt {
		// taken on every second visit only
		return []ir.Stmt{ir.If{Cond: ir.Seq{ID: g.id(), Vals: []ir.Expr{vFalse, vTrue}}, Then: h}}
	}},
	// ---- switch: position of the matching case ----
	{name: "sw-case0", build: func(g *gen, h []ir.Stmt) []ir.Stmt {
		return []ir.Stmt{ir.Switch{Subject: ir.I(1), Cases: []ir.Case{
			{Exprs: []ir.Expr{ir.I(1)}, Body: h},
			{Exprs: []ir.Expr{ir.I(1), ir.I(2)}, Body: g.marker()}},
			HasDefault: true, Default: g.marker(), DefaultAt: 2}}
	}},
	{name: "sw-case1a", build: func(g *gen, h []ir.Stmt) []ir.Stmt {
		return []ir.Stmt{ir.Switch{Subject: ir.I(2), Cases: []ir.Case{
			{Exprs: []ir.Expr{ir.I(1)}, Body: g.marker()},
			{Exprs: []ir.Expr{ir.I(2), ir.I(3)}, Body: h},
			{Exprs: []ir.Expr{ir.I(2)}, Body: g.marker()}},
			HasDefault: true, Default: g.marker(), DefaultAt: 3}}
	}},
	{name: "sw-case1b", build: func(g *gen, h []ir.Stmt) []ir.Stmt {
		return []ir.Stmt{ir.Switch{Subject: ir.I(3), Cases: []ir.Case{
			{Exprs: []ir.Expr{ir.I(1)}, Body: g.marker()},
			{Exprs: []ir.Expr{ir.I(2), ir.I(3)}, Body: h}},
			HasDefault: true, Default: g.marker(), DefaultAt: 2}}
	}},
	{name: "sw-default", build: func(g *gen, h []ir.Stmt) []ir.Stmt {
		return []ir.Stmt{ir.Switch{Subject: ir.I(4), Cases: []ir.Case{
			{Exprs: []ir.Expr{ir.I(1)}, Body: g.marker()},
			{Exprs: []ir.Expr{ir.I(2), ir.I(3)}, Body: g.marker()}},
			HasDefault: true, Default: h, DefaultAt: 2}}
	}},
	{name: "sw-default-mid", build: func(g *gen, h []ir.Stmt) []ir.Stmt {
		return []ir.Stmt{ir.Switch{Subject: ir.S("x"), Cases: []ir.Case{
			{Exprs: []ir.Expr{ir.S("a")}, Body: g.marker()},
			{Exprs: []ir.Expr{ir.S("b")}, Body: g.marker()}},
			HasDefault: true, Default: h, DefaultAt: 1}}
	}},
	// ---- the loop forms, two iterations each ----
	{name: "loop-inf", loop: true, build: func(g *gen, h []ir.Stmt) []ir.Stmt {
		return []ir.Stmt{ir.Loop{Body: cat([]ir.Stmt{g.guard()}, h)}}
	}},
	{name: "loop-cond", loop: true, build: func(g *gen, h []ir.Stmt) []ir.Stmt {
		return []ir.Stmt{ir.Loop{Cond: ir.Seq{ID: g.id(), Vals: []ir.Expr{vTrue, ir.I(1), ir.Nil{}}}, Body: h}}
	}},
	{name: "cfor", loop: true, build: func(g *gen, h []ir.Stmt) []ir.Stmt {
		k := g.id()
		return []ir.Stmt{ir.CFor{Init: ir.Set(fmt.Sprintf("i%d", k), ir.I(0)),
			Cond: ir.Seq{ID: k, Vals: []ir.Expr{ir.S("a"), ir.Float{V: 0.5}, ir.I(0)}},
			Post: ir.Probe{ID: g.id()}, Body: h}}
	}},
	{name: "cfor-bare", loop: true, build: func(g *gen, h []ir.Stmt) []ir.Stmt {
		return []ir.Stmt{ir.CFor{Post: ir.Probe{ID: g.id()}, Body: cat([]ir.Stmt{g.guard()}, h)}}
	}},
	{name: "cfor-count", loop: true, build: func(g *gen, h []ir.Stmt) []ir.Stmt {
		j := fmt.Sprintf("j%d", g.id())
		return []ir.Stmt{ir.CFor{Init: ir.Set(j, ir.I(0)), Cond: ir.Bin{Op: "<", L: ir.Var{Name: j}, R: ir.I(2)},
			Post: ir.Incr{Name: j}, Body: h}}
	}},
	{name: "forin-list", loop: true, build: func(g *gen, h []ir.Stmt) []ir.Stmt {
		x := fmt.Sprintf("x%d", g.id())
		return []ir.Stmt{ir.ForIn{Vars: []string{x}, Coll: ir.List{Elems: []ir.Expr{ir.I(10), ir.I(20)}},
			Body: cat([]ir.Stmt{ir.V(ir.Var{Name: x})}, h)}}
	}},
	{name: "forin-map1", loop: true, build: func(g *gen, h []ir.Stmt) []ir.Stmt {
		n := g.id()
		k, x := fmt.Sprintf("k%d", n), fmt.Sprintf("x%d", n)
		return []ir.Stmt{ir.ForIn{Vars: []string{k, x}, Coll: ir.MapLit{Keys: []string{"a"}, Vals: []ir.Expr{ir.I(1)}},
			Body: cat([]ir.Stmt{ir.V(ir.Var{Name: k}, ir.Var{Name: x})}, h)}}
	}},
	{name: "forin-map2", loop: true, build: func(g *gen, h []ir.Stmt) []ir.Stmt {
		k := fmt.Sprintf("k%d", g.id())
		return []ir.Stmt{ir.ForIn{Vars: []string{k}, Coll: ir.MapLit{Keys: []string{"a", "b"}, Vals: []ir.Expr{ir.I(1), ir.I(2)}},
			Body: cat([]ir.Stmt{ir.V(ir.Var{Name: k})}, h)}}
	}},
	{name: "forin-chan", loop: true, build: func(g *gen, h []ir.Stmt) []ir.Stmt {
		x := fmt.Sprintf("x%d", g.id())
		return []ir.Stmt{ir.ForIn{Vars: []string{x}, Coll: ir.ChanOf{Elems: []ir.Expr{ir.I(10), ir.I(20)}},
			Body: cat([]ir.Stmt{ir.V(ir.Var{Name: x})}, h)}}
	}},
	// ---- function boundaries (the call's value is logged) ----
	{name: "func-named", fn: true, build: func(g *gen, h []ir.Stmt) []ir.Stmt {
		f := fmt.Sprintf("f%d", g.id())
		return []ir.Stmt{ir.Func(f, nil, cat(h, []ir.Stmt{ir.Return{Vals: []ir.Expr{ir.I(9)}}})), ir.V(ir.CallNamed(f))}
	}},
	{name: "func-variadic", fn: true, build: func(g *gen, h []ir.Stmt) []ir.Stmt {
		f := fmt.Sprintf("g%d", g.id())
		lit := &ir.FuncLit{Params: []string{"a"}, VarArg: true, Body: cat(h, []ir.Stmt{ir.Return{Vals: []ir.Expr{ir.I(9)}}})}
		return []ir.Stmt{ir.Set(f, lit), ir.V(ir.CallNamed(f))}
	}},
	{name: "func-anon", fn: true, build: func(g *gen, h []ir.Stmt) []ir.Stmt {
		lit := &ir.FuncLit{Body: cat(h, []ir.Stmt{ir.Return{Vals: []ir.Expr{ir.I(9)}}})}
		return []ir.Stmt{ir.V(ir.Call{Fn: lit})}
	}},
	// ---- try as a transparent wrapper ----
	{name: "try-body", tryBody: true, build: func(g *gen, h []ir.Stmt) []ir.Stmt {
		return []ir.Stmt{ir.Try{Body: h, Catch: g.marker()}}
	}},
	{name: "try-catch", build: func(g *gen, h []ir.Stmt) []ir.Stmt {
		return []ir.Stmt{ir.Try{Body: []ir.Stmt{ir.Throw{X: ir.S("T")}}, Catch: h}}
	}},
	{name: "try-finally", build: func(g *gen, h []ir.Stmt) []ir.Stmt {
		return []ir.Stmt{ir.Try{Body: []ir.Stmt{g.p()}, Catch: g.marker(), HasFinally: true, Finally: h}}
	}},
	// ---- module body ----
	{name: "module", build: func(g *gen, h []ir.Stmt) []ir.Stmt {
		return []ir.Stmt{ir.Module{Name: fmt.Sprintf("m%d", g.id()), Body: h}}
	}},
}

func wrapperIndex(name string) int {
	for i, w := range wrappers {
		if w.name == name {
			return i
		}
	}
	panic("no wrapper " + name)
}

// signal kinds
const (
	sigNone = iota
	sigBreak
	sigContinue
	sigRet0
	sigRet1
	sigRet2
	numSig
)

var sigNames = [...]string{"none", "break", "continue", "return0", "return1", "return2"}

const sigTag = 1

func sigStmt(kind int) ir.Stmt {
	switch kind {
	case sigBreak:
		return ir.Break{Tag: sigTag}
	case sigContinue:
		return ir.Continue{Tag: sigTag}
	case sigRet0:
		return ir.Return{Tag: sigTag}
	case sigRet1:
		return ir.Return{Vals: []ir.Expr{ir.I(5)}, Tag: sigTag}
	case sigRet2:
		return ir.Return{Vals: []ir.Expr{ir.I(6), ir.I(7)}, Tag: sigTag}
	}
	panic("bad signal")
}

// Spec is the coordinate of one program in the space (and the replay payload).
type Spec struct {
	Fam   string `json:"fam"`           // spine | truth | leaf | iter
	Ws    []int  `json:"ws,omitempty"`  // wrapper indices, outermost first
	Sig   int    `json:"sig,omitempty"` // signal kind
	Level int    `json:"lvl,omitempty"` // level whose statement list holds the signal (0 = top level)
	Pos   int    `json:"pos,omitempty"` // statement position inside that list
	A     int    `json:"a,omitempty"`   // family specific
	B     int    `json:"b,omitempty"`
	C     int    `json:"c,omitempty"`
}

func insertAt(list []ir.Stmt, pos int, s ir.Stmt) []ir.Stmt {
	out := make([]ir.Stmt, 0, len(list)+1)
	out = append(out, list[:pos]...)
	out = append(out, s)
	out = append(out, list[pos:]...)
	return out
}

// buildSpine builds the spine program of sp; payload (may be nil) replaces the
// innermost probe.
func buildSpine(sp Spec, payload func(g *gen) []ir.Stmt) []ir.Stmt {
	g := &gen{}
	depth := len(sp.Ws)
	var body func(level int) []ir.Stmt
	body = func(level int) []ir.Stmt {
		// slots: [pre] [construct...] [post]   (innermost: [probe] or payload)
		var slots [][]ir.Stmt
		if level == depth {
			if payload != nil {
				slots = [][]ir.Stmt{payload(g)}
			} else {
				slots = [][]ir.Stmt{{g.p()}}
			}
		} else {
			pre := g.p()
			inner := body(level + 1)
			cons := wrappers[sp.Ws[level]].build(g, inner)
			var post ir.Stmt
			if level == 0 {
				post = ir.PV(g.id(), ir.I(77)) // the program's value when it runs to its end
			} else {
				post = g.p()
			}
			slots = [][]ir.Stmt{{pre}, cons, {post}}
		}
		if level == 0 && depth == 0 {
			slots = append(slots, []ir.Stmt{ir.PV(g.id(), ir.I(77))})
		}
		var list []ir.Stmt
		for i, s := range slots {
			if sp.Sig != sigNone && sp.Level == level && sp.Pos == i {
				list = append(list, sigStmt(sp.Sig))
			}
			list = append(list, s...)
		}
		if sp.Sig != sigNone && sp.Level == level && sp.Pos >= len(slots) {
			list = append(list, sigStmt(sp.Sig))
		}
		return list
	}
	return body(0)
}

// sigInfo describes where the signal of a spine goes.
type sigInfo struct {
	valid    bool
	target   int   // index into Ws of the construct the signal addresses, -1 = the top level
	crossed  []int // indices into Ws of the constructs between the signal and its target
	crossTry bool  // one of the crossed constructs is a try body
}

func analyse(sp Spec) sigInfo {
	if sp.Sig == sigNone {
		return sigInfo{valid: true, target: -1}
	}
	info := sigInfo{target: -1}
	isRet := sp.Sig >= sigRet0
	for i := sp.Level - 1; i >= 0; i-- {
		w := wrappers[sp.Ws[i]]
		if isRet && w.fn || !isRet && w.loop {
			info.target = i
			info.valid = true
			break
		}
		if !isRet && w.fn {
			return sigInfo{} // break / continue never cross a function boundary
		}
		info.crossed = append(info.crossed, i)
		if w.tryBody {
			info.crossTry = true
		}
	}
	if info.target == -1 {
		if !isRet {
			return sigInfo{} // break / continue outside any loop: not in the alphabet
		}
		info.valid = true
	}
	return info
}

func targetName(sp Spec, info sigInfo) string {
	if info.target < 0 {
		return "toplevel"
	}
	return wrappers[sp.Ws[info.target]].name
}

func crossedNames(sp Spec, info sigInfo) string {
	if len(info.crossed) == 0 {
		return "-"
	}
	seen := map[string]bool{}
	var names []string
	for i := len(info.crossed) - 1; i >= 0; i-- { // outermost first
		n := wrappers[sp.Ws[info.crossed[i]]].name
		if !seen[n] {
			seen[n] = true
			names = append(names, n)
		}
	}
	return strings.Join(names, ",")
}

func pathName(sp Spec) string {
	if len(sp.Ws) == 0 {
		return "toplevel"
	}
	names := make([]string, len(sp.Ws))
	for i, w := range sp.Ws {
		names[i] = wrappers[w].name
	}
	return strings.Join(names, ">")
}
