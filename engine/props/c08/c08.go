// Package c08: branches, loops, break / continue / return do what their syntax
// says.  Bounded exhaustive enumeration of spine programs over every control
// construct nested in every control construct, one signal at every statement
// position of every level, probes everywhere; the expected probe trace and
// result come from the definitional reference interpreter lib/ir, the rendered
// source runs on the real interpreter under a counting context.
package c08

import (
	"encoding/binary"
	"fmt"
	"hash/fnv"
	"reflect"
	"strings"

	"verif/engine/common"
	"verif/engine/lib/ir"
	"verif/engine/lib/irrun"
)

var implFuel = irrun.FuelFor(ir.DefaultFuel)

// program is one generated case.
type program struct {
	spec  Spec
	stmts []ir.Stmt
	src   string
	info  sigInfo
}

func build(sp Spec) (program, error) {
	for _, w := range sp.Ws {
		if w < 0 || w >= len(wrappers) {
			return program{}, fmt.Errorf("wrapper index %d out of range", w)
		}
	}
	pr := program{spec: sp}
	switch sp.Fam {
	case "spine":
		pr.info = analyse(sp)
		if !pr.info.valid {
			return pr, fmt.Errorf("signal placement outside the alphabet")
		}
		if sp.Sig != sigNone && (sp.Level < 0 || sp.Level > len(sp.Ws) || sp.Pos < 0 || sp.Pos >= positions(sp.Level, len(sp.Ws))) {
			return pr, fmt.Errorf("signal position out of range")
		}
		pr.stmts = buildSpine(sp, nil)
	case "truth":
		if sp.A < 0 || sp.A >= len(truthForms) || sp.B < 0 || sp.B >= len(truthVals) {
			return pr, fmt.Errorf("bad truth coordinates")
		}
		pr.info = sigInfo{valid: true, target: -1}
		pr.stmts = buildSpine(Spec{Ws: sp.Ws}, truthPayload(sp.A, truthVals[sp.B].e))
	case "leaf":
		if sp.A < 0 || sp.A >= len(leafForms) {
			return pr, fmt.Errorf("bad leaf coordinates")
		}
		pr.info = sigInfo{valid: true, target: -1}
		pr.stmts = buildSpine(Spec{Ws: sp.Ws}, leafPayload(sp.A))
	case "iter":
		if sp.A < 0 || sp.A >= len(iterLoops) || sp.B < 0 || sp.B > 3 || sp.C < 0 || sp.C > 3*sp.B {
			return pr, fmt.Errorf("bad iter coordinates")
		}
		pr.info = sigInfo{valid: true, target: -1}
		if sp.C > 0 && iterSigs[(sp.C-1)%3] == sigRet1 {
			// the return leaves the payload's loop and every wrapper up to the nearest function
			pr.info = analyse(Spec{Ws: sp.Ws, Sig: sigRet1, Level: len(sp.Ws)})
		}
		pr.stmts = buildSpine(Spec{Ws: sp.Ws}, iterPayload(sp.A, sp.B, sp.C))
	case "reswitch":
		if sp.A < 0 || sp.A > 3 || sp.B < 0 || sp.B > 3 || sp.C < 0 || sp.C > 3 || sp.Pos < 0 || sp.Pos >= len(reswitchForms) {
			return pr, fmt.Errorf("bad reswitch coordinates")
		}
		pr.info = sigInfo{valid: true, target: -1}
		pr.stmts = buildSpine(Spec{Ws: sp.Ws}, reswitchPayload(sp.A, sp.B, sp.C, sp.Pos))
	case "stray":
		if sp.A < 0 || sp.A >= len(strayInner) || sp.B < 0 || sp.B >= len(strayForms) || (sp.Sig != sigBreak && sp.Sig != sigContinue) ||
			sp.Level < 0 || sp.Level > 1 || sp.Pos < 0 || sp.Pos >= strayPositions(sp.A, sp.Level) {
			return pr, fmt.Errorf("bad stray coordinates")
		}
		pr.info = sigInfo{valid: true, target: -1}
		pr.stmts = buildSpine(Spec{Ws: sp.Ws}, strayPayload(sp))
	default:
		return pr, fmt.Errorf("unknown family %q", sp.Fam)
	}
	pr.src = ir.Source(pr.stmts)
	return pr, nil
}

// positions is the number of signal positions of the statement list of level
// in a spine of the given depth: before and after each of its slots.
func positions(level, depth int) int {
	if depth == 0 {
		return 3
	}
	if level == depth {
		return 2
	}
	return 4
}

// verdict of one case
type verdict struct {
	skipped string // reason the case is outside the compared set ("" = compared)
	reached bool   // the signal statement (if any) was executed by the reference
	class   string // "" = agrees
	detail  string
	exp     *ir.Outcome
	obs     *irrun.Obs
}

func hasSignal(sp Spec) bool {
	return sp.Fam == "spine" && sp.Sig != sigNone || sp.Fam == "iter" && sp.C > 0 || sp.Fam == "stray"
}

// check executes one program on the implementation and on the reference.
func check(pr program) verdict {
	var v verdict
	obs := irrun.Exec(pr.src, implFuel)
	v.obs = obs
	reached := false
	cfg := ir.Config{MapOrder: irrun.FollowMapOrder(obs), OnSignal: func(int) { reached = true }, StraySignalIsError: pr.spec.Fam == "stray"}
	exp := ir.Run(pr.stmts, cfg)
	v.exp = exp
	v.reached = reached || !hasSignal(pr.spec)
	switch exp.Status {
	case ir.Undetermined:
		v.skipped = "undetermined: " + exp.Reason
		return v
	case ir.OutOfFuel:
		v.skipped = "reference does not terminate within its step budget"
		return v
	}
	kind, detail := irrun.Diff(exp, obs)
	if kind == "" {
		return v
	}
	if kind == "parse" {
		v.skipped = "PARSE: " + detail
		return v
	}
	if kind == "panic" {
		v.skipped = "PANIC: " + detail
		return v
	}
	sp := pr.spec
	// is it exactly the known defect?  (try delivers break / continue / return
	// of its body to catch as if they were errors)
	if pr.info.crossTry {
		cfg2 := cfg
		cfg2.OnSignal = nil
		cfg2.TrySignalsCaught = true
		alt := ir.Run(pr.stmts, cfg2)
		same := false
		switch alt.Status {
		case ir.OutOfFuel:
			same = obs.Interrupted
		case ir.OK, ir.Failed:
			k, _ := irrun.Diff(alt, obs)
			same = k == ""
		}
		if same {
			sig := sp.Sig
			if sp.Fam == "iter" {
				sig = sigRet1
			}
			v.class = "try-body-signal/" + sigNames[sig] + "/" + targetName(sp, pr.info)
			v.detail = "the " + sigNames[sig] + " inside the try body is delivered to the catch block as an error instead of reaching " + targetName(sp, pr.info) + ": " + detail
			v.detail += confirmPlain(pr.src, obs)
			return v
		}
	}
	switch sp.Fam {
	case "spine":
		if sp.Sig == sigNone {
			v.class = kind + "/none/" + pathName(sp)
		} else {
			v.class = kind + "/" + sigNames[sp.Sig] + "/" + targetName(sp, pr.info) + "/across:" + crossedNames(sp, pr.info)
		}
	case "truth":
		v.class = kind + "/truthiness/" + truthForms[sp.A] + "/" + truthVals[sp.B].name
	case "leaf":
		v.class = kind + "/leaf/" + leafForms[sp.A]
	case "stray":
		inner := strayInner[sp.A]
		if inner == "" {
			inner = "body"
		}
		v.class = "stray-signal/" + kind + "/" + sigNames[sp.Sig] + "/caller:" + pathName(sp) + "/in:" + inner + "/" + strayForms[sp.B]
	case "iter":
		sig := "none"
		if sp.C > 0 {
			sig = sigNames[iterSigs[(sp.C-1)%3]]
		}
		v.class = kind + "/iteration/" + iterLoops[sp.A] + "/" + sig
	case "reswitch":
		v.class = kind + "/switch-executed-again/" + reswitchForms[sp.Pos]
	}
	v.detail = detail + confirmPlain(pr.src, obs)
	return v
}

// confirmPlain re-executes the source with plain vm.Execute (no context, no
// fuel, none of the comparison machinery) and states whether the observation
// is the same.
func confirmPlain(src string, obs *irrun.Obs) string {
	if obs.Interrupted {
		return " [not re-run with plain vm.Execute: the program does not terminate]"
	}
	pl := irrun.ExecPlain(src)
	if reflect.DeepEqual(pl.Trace, obs.Trace) && pl.Result == obs.Result && pl.Failed == obs.Failed && pl.ErrMsg == obs.ErrMsg && pl.Panic == obs.Panic {
		return " [confirmed with plain vm.Execute]"
	}
	return fmt.Sprintf(" [plain vm.Execute differs: trace %v result %s err %q]", pl.Trace, pl.Result, pl.ErrMsg)
}

func srcKey(s string) string {
	h := fnv.New64a()
	h.Write([]byte(s))
	var b [8]byte
	binary.LittleEndian.PutUint64(b[:], h.Sum64())
	return string(b[:])
}

// ---- enumeration ----

// tuples enumerates all wrapper index tuples of the given length.
func tuples(n int) [][]int {
	out := [][]int{{}}
	for i := 0; i < n; i++ {
		var next [][]int
		for _, t := range out {
			for w := range wrappers {
				next = append(next, append(append([]int(nil), t...), w))
			}
		}
		out = next
	}
	return out
}

// spineSpecs lists every spine program over the wrapper tuple ws.
func spineSpecs(ws []int, crossTryOK func(sp Spec, info sigInfo) bool) []Spec {
	specs := []Spec{{Fam: "spine", Ws: ws}}
	depth := len(ws)
	for sig := sigBreak; sig < numSig; sig++ {
		for lvl := 0; lvl <= depth; lvl++ {
			for pos := 0; pos < positions(lvl, depth); pos++ {
				sp := Spec{Fam: "spine", Ws: ws, Sig: sig, Level: lvl, Pos: pos}
				info := analyse(sp)
				if !info.valid {
					continue
				}
				if info.crossTry && crossTryOK != nil && !crossTryOK(sp, info) {
					continue
				}
				specs = append(specs, sp)
			}
		}
	}
	return specs
}

// A signal that crosses a try body is a known failing case on mattn/anko (see
// the notes).  At depth 3 the complete set of such programs has ~30000
// members, more than the framework keeps as explicit known cases, so at depth
// 3 the crossing signals are enumerated over a reduced wrapper alphabet for
// the levels that are not the try (one representative per construct
// family).  Depth <= 2 is complete.
var reducedForTry = map[string]bool{"if-then": true, "sw-case1a": true, "loop-cond": true, "cfor": true, "forin-list": true, "func-named": true, "try-body": true}

func crossTryDepth3(sp Spec, info sigInfo) bool {
	if len(sp.Ws) < 3 {
		return true
	}
	for _, w := range sp.Ws {
		if !reducedForTry[wrappers[w].name] {
			return false
		}
	}
	return true
}

type job struct {
	specs func() []Spec
}

func jobs(c *common.Ctx) []job {
	var js []job
	maxDepth := 2
	if c.Thorough() {
		maxDepth = 3
	}
	for d := 0; d <= maxDepth; d++ {
		for _, ws := range tuples(d) {
			ws := ws
			js = append(js, job{func() []Spec { return spineSpecs(ws, crossTryDepth3) }})
		}
	}
	famDepth := 1
	if c.Thorough() {
		famDepth = 2
	}
	for d := 0; d <= famDepth; d++ {
		for _, ws := range tuples(d) {
			ws := ws
			js = append(js, job{func() []Spec {
				var specs []Spec
				for a := range truthForms {
					for b := range truthVals {
						specs = append(specs, Spec{Fam: "truth", Ws: ws, A: a, B: b})
					}
				}
				for a := range leafForms {
					specs = append(specs, Spec{Fam: "leaf", Ws: ws, A: a})
				}
				return specs
			}})
		}
	}
	// stray break / continue in a called function: the call sits at the top
	// level, in the body of every loop form, and (thorough) in every
	// construct inside every loop form
	var strayCtx [][]int
	strayCtx = append(strayCtx, []int{})
	for w, wr := range wrappers {
		if wr.loop {
			strayCtx = append(strayCtx, []int{w})
			if c.Thorough() {
				for w2 := range wrappers {
					strayCtx = append(strayCtx, []int{w, w2})
				}
			}
		}
	}
	for _, ws := range strayCtx {
		ws := ws
		js = append(js, job{func() []Spec {
			var specs []Spec
			for a := range strayInner {
				for _, sig := range []int{sigBreak, sigContinue} {
					for lvl := 0; lvl <= 1; lvl++ {
						for pos := 0; pos < strayPositions(a, lvl); pos++ {
							for b := range strayForms {
								specs = append(specs, Spec{Fam: "stray", Ws: ws, A: a, B: b, Sig: sig, Level: lvl, Pos: pos})
							}
						}
					}
				}
			}
			return specs
		}})
	}
	for d := 0; d <= 1; d++ {
		for _, ws := range tuples(d) {
			ws := ws
			js = append(js, job{func() []Spec {
				var specs []Spec
				for form := range reswitchForms {
					for a := 0; a < 4; a++ {
						for b := 0; b < 4; b++ {
							for cc := 0; cc < 4; cc++ {
								specs = append(specs, Spec{Fam: "reswitch", Ws: ws, A: a, B: b, C: cc, Pos: form})
							}
						}
					}
				}
				for a := range iterLoops {
					for n := 0; n <= 3; n++ {
						for cc := 0; cc <= 3*n; cc++ {
							specs = append(specs, Spec{Fam: "iter", Ws: ws, A: a, B: n, C: cc})
						}
					}
				}
				return specs
			}})
		}
	}
	return js
}

func run(c *common.Ctx) *common.Result {
	res := common.NewResult()
	js := jobs(c)
	capped := false
	common.ParallelFor(c, len(js), func(i int) {
		if c.Expired() {
			capped = true
			return
		}
		for _, sp := range js[i].specs() {
			pr, err := build(sp)
			if err != nil {
				res.Add("machinery_bad_spec", 1)
				continue
			}
			if !res.Distinct("sources", srcKey(pr.src)) {
				res.Add("duplicate_sources", 1) // two coordinates rendering the same text: evaluated once
				continue
			}
			v := check(pr)
			res.Add("evaluations", 1)
			res.Add("evaluations_"+sp.Fam, 1)
			res.Max("depth", int64(len(sp.Ws)))
			if v.skipped != "" {
				switch {
				case strings.HasPrefix(v.skipped, "PARSE"):
					res.Add("parse_errors", 1)
					res.Distinct("parse_error_samples", pr.src+" :: "+v.skipped)
				case strings.HasPrefix(v.skipped, "PANIC"):
					res.Add("panics", 1)
					res.Distinct("panic_samples", pr.src+" :: "+v.skipped)
				default:
					res.Add("outside_compared_set", 1)
					res.Distinct("outside_reasons", v.skipped)
				}
				continue
			}
			if v.obs.Interrupted && v.class == "" {
				// cannot happen: Diff reports it; kept as a guard
				res.Add("machinery_interrupted_but_equal", 1)
			}
			if v.reached {
				if res.Distinct("nontrivial", srcKey(pr.src)) {
					res.Add("distinct_nontrivial", 1)
				}
			}
			res.Distinct("outcomes", srcKey(strings.Join(v.obs.Trace, " ")+"|"+v.obs.Result+"|"+fmt.Sprint(v.obs.Failed)))
			if v.class != "" {
				res.Violate(common.Violation{Class: v.class, Case: pr.src, Detail: v.detail, Replay: sp})
				continue
			}
			if hasSignal(sp) && sp.Fam == "spine" && v.reached {
				res.Sample(map[string]interface{}{"program": pr.src, "expected_trace": strings.Join(v.exp.Trace, " "), "result": v.obs.Result})
			}
		}
	})
	if capped {
		res.Cap("soft deadline reached before the enumeration finished")
	}
	if n := res.Counts["parse_errors"]; n > 0 {
		res.Cap(fmt.Sprintf("%d generated programs were rejected by the parser (generator defect, not a verdict): %v", n, first(res.SetMembers("parse_error_samples"), 3)))
	}
	if n := res.Counts["panics"]; n > 0 {
		res.Note(fmt.Sprintf("%d executions panicked into the harness (not decided by C08, see C01): %v", n, first(res.SetMembers("panic_samples"), 3)))
	}
	if n := res.Counts["machinery_bad_spec"]; n > 0 {
		res.Cap(fmt.Sprintf("%d specs could not be built", n))
	}
	return res
}

func first(s []string, n int) []string {
	if len(s) > n {
		return s[:n]
	}
	return s
}

func coverage(c *common.Ctx, r *common.Result) map[string]interface{} {
	return map[string]interface{}{
		"evaluations":         r.Counts["evaluations"],
		"distinct_nontrivial": r.Counts["distinct_nontrivial"],
		"rule": "a case is one generated program; it counts as non-trivial when the parser accepted it, the run ended within the fuel, the reference interpreter decided it (status ok/failed, no under-determined behaviour touched) " +
			"and - if the program contains a break/continue/return under test - the reference run executed that very statement; distinctness is measured on the rendered source text",
		"evaluations_spine":         r.Counts["evaluations_spine"],
		"evaluations_truthiness":    r.Counts["evaluations_truth"],
		"evaluations_leaf":          r.Counts["evaluations_leaf"],
		"evaluations_iteration":     r.Counts["evaluations_iter"],
		"evaluations_stray":         r.Counts["evaluations_stray"],
		"duplicate_sources_skipped": r.Counts["duplicate_sources"],
		"max_depth":                 r.GetMax("depth"),
		"distinct_outcomes":         r.SetSize("outcomes"),
		"outside_compared_set":      r.Counts["outside_compared_set"],
		"outside_compared_reasons":  r.SetMembers("outside_reasons"),
		"wrappers":                  len(wrappers),
		"explanation": "spines p;W1[p;W2[p;W3[p];p];p];p over 26 construct positions (if/else-if/else, switch cases incl. multi-expression and default, six loop forms incl. C-style with a probing post expression, for-in over slice/map/closed channel, three function forms, try body/catch/finally, module) with one break/continue/return(0,1,2 values) at every statement position of every level; " +
			"plus the truthiness family (19 values x 10 condition positions), the nothing-runs family, the iteration-count family and the stray family (break/continue outside any loop of a called function, called directly and one call deeper from the top level and from every loop form: the call must fail, the caller's loop must not be addressed); expected trace/result from lib/ir refinterp (strict reading), map loops follow the order the implementation took and must visit every key once",
	}
}

func replay(c *common.Ctx, path string) int {
	var sp Spec
	_, cs, err := common.ReadReplay(path, &sp)
	if err != nil {
		fmt.Println("cannot read replay:", err)
		return 2
	}
	pr, err := build(sp)
	if err != nil {
		fmt.Println("cannot rebuild the program:", err)
		return 2
	}
	if cs != "" && cs != pr.src {
		fmt.Printf("replay: the generator no longer renders this case identically\n recorded: %s\n rebuilt:  %s\n", cs, pr.src)
		return 2
	}
	var firstV verdict
	for round := 0; round < 2; round++ {
		v := check(pr)
		if round == 0 {
			firstV = v
			continue
		}
		// map loops may take another order in the second run; everything else must repeat
		if v.class != firstV.class || v.skipped != firstV.skipped {
			fmt.Printf("NONDETERMINISTIC replay: %q/%q vs %q/%q\n", firstV.class, firstV.skipped, v.class, v.skipped)
			return 2
		}
	}
	fmt.Println("program: ", pr.src)
	fmt.Println("expected:", firstV.exp.Trace, "status", firstV.exp.Status, "result", ir.Render(firstV.exp.Result), "(defined:", firstV.exp.ResultDefined, ")")
	fmt.Println("observed:", firstV.obs.Trace, "result", firstV.obs.Result, "failed", firstV.obs.Failed, firstV.obs.ErrMsg)
	if firstV.skipped != "" {
		fmt.Println("outside the compared set:", firstV.skipped)
		return 0
	}
	if firstV.class == "" {
		fmt.Println("replay: reference and implementation agree")
		return 0
	}
	fmt.Println("class:", firstV.class)
	fmt.Println("divergence:", firstV.detail)
	return 1
}

func init() {
	common.Register(&common.Prop{
		ID: "C08", Level: "exploration", Run: run, Coverage: coverage, Replay: replay,
		Assumptions: []string{
			"programs are spines over the 26 construct positions listed in props/c08/gen.go, nested to depth 2 (quick) / 3 (thorough), with at most one break/continue/return under test; loops run two iterations (0-3 in the iteration family)",
			"break/continue outside any loop at the TOP LEVEL are not generated (the property does not say what they do); inside a called function they must make the call fail and must not address a loop of the caller (family stray; error-vs-success only); a top-level return is generated and must end the script with its value",
			"result values are compared only when produced by return or by the final expression statement; error messages are never compared",
			"conditions are evaluated once per test (the stateful host function t(id,[...]) supplies loop conditions); strings other than \"\" and plain text are not used as conditions",
			"signals that cross a try body are enumerated completely up to depth 2 and over a reduced alphabet at depth 3 (they are a known finding with an explicit case list)",
			"map loops are compared as multisets: the reference follows the key order the implementation took and requires every key exactly once",
		},
	})
}

// Corpus calls emit with the source text of every generated program whose
// nesting depth is at most maxDepth (reused by C14 as an execution corpus; the
// programs run in the environment of lib/irrun).
func Corpus(c *common.Ctx, maxDepth int, emit func(src string)) {
	seen := map[string]bool{}
	for _, j := range jobs(c) {
		for _, sp := range j.specs() {
			if len(sp.Ws) > maxDepth || sp.Fam == "stray" {
				continue // the corpus stays the set (and the numbering) C14 was built on
			}
			pr, err := build(sp)
			if err != nil || seen[pr.src] {
				continue
			}
			seen[pr.src] = true
			emit(pr.src)
		}
	}
}
