package c15

import (
	"sync"

	"github.com/mattn/anko/parser"
	"verif/engine/common"
)

// Free-running body of the supplementary race-detector pass: three ParseSrc calls
// at once on real goroutines ("the same text always yields the same tree, also
// under concurrent calls"); any memory the parser keeps between or across calls
// shows up as a report of the detector.
func raceBody(c *common.Ctx, rep *common.RaceReport) {
	texts := append([]string{}, concTexts...)
	texts = append(texts, specials...)
	pc := pairCorpus(false)
	step := len(pc)/400 + 1
	for i := 0; i < len(pc); i += step {
		texts = append(texts, pc[i])
	}
	n := len(texts)
	common.ParallelFor(c, n, func(i int) {
		group := []string{texts[i], texts[(i+1)%n], texts[(i*7+3)%n]}
		gate := make(chan struct{})
		var wg sync.WaitGroup
		for _, t := range group {
			t := t
			wg.Add(1)
			go func() {
				defer wg.Done()
				defer func() { recover() }()
				<-gate
				parser.ParseSrc(t)
				parser.ParseSrc(t)
			}()
		}
		close(gate)
		wg.Wait()
		rep.Add(1, 6)
	})
}
