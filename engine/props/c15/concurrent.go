package c15

import (
	"encoding/hex"
	"fmt"
	"strconv"
	"strings"

	"verif/engine/common"
	"verif/engine/explore"
	"verif/engine/sched"
)

// The concurrency clause of C15 ("the same text always yields the same tree,
// also under concurrent calls"): two and three ParseSrc calls run as threads
// of the cooperative scheduler; the top of Lexer.Lex is a schedule point (a
// yield inserted by the overlay), so the parses interleave at token
// granularity; all interleavings within the preemption bound are enumerated
// and every call must return exactly its solo result.

var concTexts = []string{
	"a = 1",
	"x = \"str\" + `raw`",
	"if a { b = [1, 2] } else { c(3) }",
	"func f(a, b...) { return a++ }",
	"for i = 0; i < 3; i++ { s += i }",
	"m = {\"k\": 1.5, j: 0x1f}",
	"a = (1 +\n \"abc",  // lexer error: unterminated string
	"x = 1 +* 2\ny = 3", // syntax error on line 1
	"switch a {\ncase 1:\n\tb\ndefault:\n\tc\n}",
	"# comment\na.b[1:2] = <-c",
	// two LARGE texts of few tokens (4100-byte literals): state a parser keeps for
	// large inputs only (a last-parse memo, a pooled buffer above a size threshold) is
	// reached, and with three tokens each every interleaving is explored
	"a = \"" + strings.Repeat("a", 4100) + "\"",
	"b = \"" + strings.Repeat("b", 4100) + "\"",
}

type concReplay struct {
	Texts   []string `json:"texts"` // hex
	Choices []int    `json:"choices"`
}

func runConcurrent(texts []string, ch sched.Chooser, record bool) ([]string, string, *sched.Sched) {
	s := sched.New(ch)
	s.Record = record
	s.MaxSteps = 50000
	outs := make([]string, len(texts))
	for i, t := range texts {
		i, t := i, t
		s.AddThread(fmt.Sprintf("parse%d", i), func() { outs[i] = parse(t).signature() })
	}
	verdict := s.Run(nil)
	return outs, verdict, s
}

func concurrentPhase(c *common.Ctx, res *common.Result) {
	bound := 2
	if c.Thorough() {
		bound = 3
	}
	solo := make([]string, len(concTexts))
	for i, t := range concTexts {
		solo[i] = parse(t).signature()
	}
	var groups [][]int
	for i := range concTexts {
		for j := i; j < len(concTexts); j++ {
			groups = append(groups, []int{i, j})
		}
	}
	// triples over a sub-corpus (the large texts: a repeated text next to another one)
	tri := []int{3, 6}
	if c.Thorough() {
		tri = []int{0, 1, 2, 3, 6, 7, 9}
	}
	nL := len(concTexts)
	groups = append(groups, []int{nL - 2, nL - 2, nL - 1}, []int{nL - 2, nL - 1, nL - 2}, []int{nL - 1, nL - 2, nL - 2}, []int{nL - 2, nL - 1, nL - 1})
	for a := 0; a < len(tri); a++ {
		for b := a; b < len(tri); b++ {
			for d := b; d < len(tri); d++ {
				groups = append(groups, []int{tri[a], tri[b], tri[d]})
			}
		}
	}
	for _, g := range groups {
		if c.Expired() {
			res.Cap("soft deadline reached in the concurrent-parse phase")
			return
		}
		texts := make([]string, len(g))
		for k, i := range g {
			texts[k] = concTexts[i]
		}
		b := bound
		if len(g) == 3 {
			b = 2
		}
		reported := false
		st := explore.DFS(explore.Options{Bound: b, MaxExecs: 300000, Deadline: c.Deadline}, func(r *explore.Run) bool {
			outs, verdict, s := runConcurrent(texts, r, false)
			res.Add("concurrent_scheduler_steps", int64(s.Steps))
			if r.Err != nil {
				res.Note("replay divergence: " + r.Err.Error())
				res.Cap("replay divergence (machinery)")
				return false
			}
			bad := ""
			if verdict != sched.OK {
				bad = "scheduler verdict " + verdict
			}
			for k, o := range outs {
				if bad == "" && o != solo[g[k]] {
					bad = fmt.Sprintf("parse %d of %d concurrent parses returned %s ; alone it returns %s", k+1, len(g), trunc(o, 300), trunc(solo[g[k]], 300))
				}
			}
			if bad != "" && !reported {
				// replay the recorded schedule before trusting the failure
				r2 := &explore.Run{Prefix: append([]int{}, r.Choices...)}
				outs2, verdict2, _ := runConcurrent(texts, r2, false)
				if r2.Err != nil || verdict2 != verdict || strings.Join(outs2, "|") != strings.Join(outs, "|") {
					res.Note("a failing interleaving of concurrent parses did not replay identically: not reported")
					res.Cap("an execution did not replay identically (machinery)")
					return true
				}
				reported = true
				var hx, quoted []string
				for _, t := range texts {
					hx = append(hx, hex.EncodeToString([]byte(t)))
					quoted = append(quoted, strconv.Quote(t))
				}
				choices := append([]int{}, r.Choices...)
				res.Violate(common.Violation{Class: "concurrent/differs-from-solo", Case: strings.Join(quoted, " || "), Detail: bad + " | schedule=" + fmt.Sprint(choices),
					Replay: replayRec{Space: "concurrent", A: strings.Join(hx, ","), Choices: choices}})
			}
			return verdict != sched.Stuck
		})
		res.Add("concurrent_schedules", st.Execs)
		res.Add("concurrent_groups", 1)
		res.Add("evaluations", st.Execs)
		if st.Capped {
			res.Cap("execution cap hit in the concurrent-parse phase")
		}
	}
	res.Sample(map[string]interface{}{"space": "concurrent", "texts": []string{concTexts[3], concTexts[6]}, "meaning": "all token-granularity interleavings of ParseSrc calls within the preemption bound; each must equal its solo result"})
}
