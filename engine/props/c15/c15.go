// Package c15: parsing is total, position-accurate and compositional
// (sequential part; the "also under concurrent calls" clause is decided
// elsewhere with the controlled scheduler).
//
// Bounded exhaustive exploration of four input spaces:
//
//	(a) every byte string of length ≤ 3 (quick) / ≤ 4 (thorough) over a 43-byte
//	    alphabet holding every byte the lexer special-cases;
//	(b) every token string of length ≤ 3 / ≤ 4 over the 81-token alphabet of the
//	    language, tokens joined by single blanks;
//	(c) every byte-wise prefix of every program of a grammar-derived corpus, of
//	    unterminated strings/comments and of brackets nested to depth 64; depth
//	    1000 and 10000 once each;
//	(d) every ordered pair (A, B) of a corpus of parseable programs.
//
// Oracle (a–c): ParseSrc returns (no panic); the result is (tree, nil) or an
// error whose concrete type is *parser.Error with 1 ≤ Line ≤ 1+count('\n') and
// 1 ≤ Column ≤ 1+runes(that line); parsing the same text again — directly and
// after unrelated successful and failing parses — gives the same tree
// (structural dump with positions) and the same error-vs-success.
// Oracle (d): if A and B parse, A+"\n"+B parses, its statement list is the
// concatenation, every node of B keeps its column and has its line shifted by
// 1+count('\n' in A).
package c15

import (
	"encoding/hex"
	"fmt"
	"regexp"
	"runtime"
	"sort"
	"strconv"
	"strings"
	"sync"
	"sync/atomic"
	"time"
	"unicode/utf8"
	"verif/engine/explore"
	"verif/engine/sched"

	"github.com/mattn/anko/ast"
	"github.com/mattn/anko/parser"
	"verif/engine/common"
	"verif/engine/lib/astdump"
	"verif/engine/lib/gram"
)

// ---------- the byte alphabet of space (a) ----------

var byteAlphabet = []byte{
	'a', 'e', 'x', 'b', '_', // letters: identifier, exponent, hex and binary prefixes
	'0', '1',
	'"', '\'', '`', '\\', // the three string forms and the escape
	'#',                                                        // line comment
	'!', '=', '?', '+', '-', '*', '/', '>', '<', '|', '&', '.', // bytes with look-ahead (next/back)
	'\n', '(', ')', ':', ';', '%', '{', '}', '[', ']', ',', '^', // single-byte tokens
	' ', '\t', '\r', // blanks
	0xC3, 0xA9, // "é": a non-ASCII letter, and each byte alone is invalid UTF-8
	0xFF, // never valid in UTF-8
	'@',  // a byte the lexer rejects
}

var inByteAlphabet [256]bool

func init() {
	for _, b := range byteAlphabet {
		inByteAlphabet[b] = true
	}
}

// ---------- one parse ----------

type outcome struct {
	pan  string // "" or "<origin>: <normalised message>"
	skip bool   // the call was not made, or did not return (see parse)
	tree ast.Stmt
	err  error
}

var digits = regexp.MustCompile(`[0-9]+`)

// hangAfter is how long one ParseSrc call may take before it is declared not to
// return.  The longest text of any space (nesting depth 10000) parses in
// milliseconds; the limit is four to five orders of magnitude above that, so
// machine load cannot produce it.
const hangAfter = 180 * time.Second

var (
	hung   atomic.Bool // a ParseSrc call did not return: the rest of the run is skipped
	hangMu sync.Mutex
	hangs  []string // the texts whose parse did not return
)

// parse runs one ParseSrc call on a goroutine of its own so that a call that
// never returns is observed (the goroutine is abandoned; the process exits at
// the end of the run).  After the first such call every later parse is skipped.
func parse(src string) outcome {
	if hung.Load() {
		return outcome{skip: true}
	}
	ch := make(chan outcome, 1)
	go func() { ch <- parse1(src) }()
	select {
	case o := <-ch:
		return o
	default:
	}
	tick := time.NewTicker(time.Second)
	defer tick.Stop()
	start := time.Now()
	for {
		select {
		case o := <-ch:
			return o
		case <-tick.C:
		}
		waited := time.Since(start)
		if waited < hangAfter {
			// a scanning loop that appends without end: do not wait for the
			// machine to run out of memory (the whole thorough run peaks below 1 GiB)
			var ms runtime.MemStats
			runtime.ReadMemStats(&ms)
			if ms.HeapAlloc < heapLimit {
				continue
			}
		}
		hung.Store(true)
		hangMu.Lock()
		hangs = append(hangs, src)
		if waited < hangAfter && emergency != nil {
			emergency() // never returns; holds hangMu so that no second caller gets here
		}
		hangMu.Unlock()
		return outcome{skip: true}
	}
}

// heapLimit: a parse that has been running for more than a second while the
// process heap is beyond this is reported like one that does not return.
const heapLimit = 6 << 30

// emergency is set by run: report what is known and exit at once.
var emergency func()

func parse1(src string) (o outcome) {
	defer func() {
		if r := recover(); r != nil {
			origin := "?"
			pcs := make([]uintptr, 64)
			n := runtime.Callers(2, pcs)
			fr := runtime.CallersFrames(pcs[:n])
			for {
				f, more := fr.Next()
				if strings.Contains(f.Function, "mattn/anko/") {
					origin = f.Function[strings.LastIndex(f.Function, "/")+1:]
					break
				}
				if !more {
					break
				}
			}
			o = outcome{pan: origin + ": " + digits.ReplaceAllString(fmt.Sprint(r), "N")}
		}
	}()
	t, err := parser.ParseSrc(src)
	return outcome{tree: t, err: err}
}

// signature is what must be identical between two parses of the same text.
func (o outcome) signature() string {
	if o.skip {
		return "skipped"
	}
	if o.pan != "" {
		return "panic " + o.pan
	}
	s := "ok "
	if o.err != nil {
		s = "error "
		if pe, ok := o.err.(*parser.Error); ok {
			s += fmt.Sprintf("at %d:%d ", pe.Pos.Line, pe.Pos.Column)
		}
	}
	if o.tree == nil {
		return s + "nil"
	}
	return s + astdump.Dump(o.tree)
}

type failure struct{ Class, Detail string }

// unrelated parses run between two parses of the same text
const (
	otherGood = "x = 1\nif x { y = [1, 2] } else { z(3) }\nfunc f(a) { return a++ }"
	otherBad  = "a = (1 +\n \"abc"
)

// checkInput applies the (a–c) oracle to one text.  full=false skips the
// parses behind unrelated texts (used only for the largest token space).
func checkInput(src string, full bool) (fails []failure, o outcome) {
	o = parse(src)
	if o.skip {
		return nil, o
	}
	if o.pan != "" {
		return []failure{{"panic/" + o.pan, "ParseSrc panicked: " + o.pan}}, o
	}
	if o.err != nil {
		pe, ok := o.err.(*parser.Error)
		if !ok || pe == nil {
			fails = append(fails, failure{fmt.Sprintf("errtype/%T", o.err), fmt.Sprintf("error %q has type %T, not *parser.Error", o.err.Error(), o.err)})
		} else {
			lines := strings.Split(src, "\n")
			kind := "syntax"
			if pe.Fatal {
				kind = "lexer"
			}
			if pe.Pos.Line < 1 || pe.Pos.Line > len(lines) {
				fails = append(fails, failure{"pos/line/" + kind, fmt.Sprintf("error %q at line %d, the input has %d line(s)", pe.Message, pe.Pos.Line, len(lines))})
			} else if n := len([]rune(lines[pe.Pos.Line-1])); pe.Pos.Column < 1 || pe.Pos.Column > n+1 {
				fails = append(fails, failure{"pos/column/" + kind, fmt.Sprintf("error %q at %d:%d, that line has %d rune(s)", pe.Message, pe.Pos.Line, pe.Pos.Column, n)})
			}
		}
	}
	sig := o.signature()
	again := func(what string) {
		o2 := parse(src)
		if o2.skip {
			return
		}
		if s2 := o2.signature(); s2 != sig {
			cl := "memory/tree"
			if strings.HasPrefix(s2, "panic") {
				cl = "memory/panic"
			} else if strings.SplitN(s2, " ", 2)[0] != strings.SplitN(sig, " ", 2)[0] {
				cl = "memory/error-vs-success"
			}
			fails = append(fails, failure{cl, fmt.Sprintf("parsing the same text again %s gave a different result:\n first: %s\n again: %s", what, trunc(sig, 300), trunc(s2, 300))})
		}
	}
	again("immediately")
	if full && len(fails) == 0 {
		parse(otherGood)
		again("after a successful parse of another text")
	}
	if full && len(fails) == 0 {
		parse(otherBad)
		again("after a failing parse of another text")
	}
	return
}

func trunc(s string, n int) string {
	if len(s) > n {
		return s[:n] + "..."
	}
	return s
}

// ---------- (d) composition ----------

func stmtList(t ast.Stmt) []ast.Stmt {
	if t == nil {
		return nil
	}
	if s, ok := t.(*ast.StmtsStmt); ok {
		return s.Stmts
	}
	return []ast.Stmt{t}
}

type prog struct {
	src    string
	list   []ast.Stmt
	dumps  string // position-carrying dumps of the statements, one per line
	nopos  string
	nl     int
	firstK string
	lastK  string
}

func dumpList(l []ast.Stmt, shift int, pos bool) string {
	var b strings.Builder
	for _, s := range l {
		b.WriteString(astdump.DumpWith(s, astdump.Options{Pos: pos, LineShift: shift}))
		b.WriteByte('\n')
	}
	return b.String()
}

func mkProg(src string) (*prog, bool) {
	o := parse(src)
	if o.skip || o.pan != "" || o.err != nil {
		return nil, false
	}
	p := &prog{src: src, list: stmtList(o.tree), nl: strings.Count(src, "\n"), firstK: "(empty)", lastK: "(empty)"}
	p.dumps = dumpList(p.list, 0, true)
	p.nopos = dumpList(p.list, 0, false)
	if len(p.list) > 0 {
		p.firstK = astdump.Kind(p.list[0])
		p.lastK = astdump.Kind(p.list[len(p.list)-1])
	}
	return p, true
}

func checkPair(a, b *prog) (fails []failure) {
	src := a.src + "\n" + b.src
	o := parse(src)
	if o.skip {
		return nil
	}
	if o.pan != "" {
		return []failure{{"panic/" + o.pan, "ParseSrc panicked on the concatenation: " + o.pan}}
	}
	if o.err != nil {
		return []failure{{"compose/does-not-parse", fmt.Sprintf("both texts parse alone, A+\"\\n\"+B fails with %q", o.err.Error())}}
	}
	l := stmtList(o.tree)
	if len(l) != len(a.list)+len(b.list) {
		return []failure{{"compose/length", fmt.Sprintf("A has %d statement(s), B has %d, the concatenation has %d", len(a.list), len(b.list), len(l))}}
	}
	shift := 1 + a.nl
	if got := dumpList(l[:len(a.list)], 0, true); got != a.dumps {
		cl := "compose/first-part-positions"
		if dumpList(l[:len(a.list)], 0, false) != a.nopos {
			cl = "compose/first-part-structure"
		}
		fails = append(fails, failure{cl, fmt.Sprintf("statements of A changed inside the concatenation:\n alone: %s\n in A+B: %s", trunc(a.dumps, 300), trunc(got, 300))})
	}
	if got := dumpList(l[len(a.list):], -shift, true); got != b.dumps {
		cl := "compose/second-part-positions"
		if dumpList(l[len(a.list):], 0, false) != b.nopos {
			cl = "compose/second-part-structure"
		}
		fails = append(fails, failure{cl, fmt.Sprintf("statements of B are not B's own shifted by %d line(s):\n alone: %s\n in A+B (lines shifted back): %s", shift, trunc(b.dumps, 300), trunc(got, 300))})
	}
	return
}

// ---------- corpora ----------

var nestStyles = []struct{ open, mid, close string }{
	{"(", "a", ")"},
	{"[", "a", "]"},
	{"{\"k\": ", "a", "}"},
	{"f(", "a", ")"},
	{"a[", "0", "]"},
	{"if a {\n", "b", "\n}"},
	{"func() { ", "a", " }"},
	{"for {", "", "}"},
	{"-", "a", ""},
	{"!(", "a", ")"},
	{"[]", "int64{}", ""},
	{"x = {", "", "}"},
}

func nest(i, depth int) string {
	s := nestStyles[i]
	return strings.Repeat(s.open, depth) + s.mid + strings.Repeat(s.close, depth)
}

var specials = []string{
	// unterminated strings and comments, escapes
	`"abc`, `'abc`, "`abc", `"a\`, `"a\"`, `"a\n\t\\\"b"`, "\"a\nb\"", "'a\nb'", "`a\nb`\nc", `x = "é日本" + 'q'`, `"\x"`,
	"/* c", "/* c *", "/* c */", "a /* c */ b", "a /* c\n c */\nb", "/***/ a", "/*/ a", "// c", "// c\na", "# c", "a # c\nb", "a // c\nb // d",
	// numbers
	"0x1F", "0X1f", "0b101", "0B1", "1e5", "1.5e-3", "1e+5", "0x", "0b", "1e", "1.2.3", "1ee5", "1a", "0xg", "9223372036854775808", "-9223372036854775808", "1.", ".5", "1..2",
	// dots, channel and assignment spellings the lexer looks ahead for
	"a...", "f(a...)", "a..", "a . b", "x = <- c", "x =<- c", "x =  <- c", "x = < - c", "x, ok = <- c", "a <- b", "<- a", "a<-b", "a < -b",
	// non-ASCII identifiers, blanks, line ends
	"é = 1\nprintln(é)", "日本 = \"語\"", "a\r\nb\r\n", "\ta\t=\t1\t", "a ;\n; b", ";;a", ";", "\n\n", "", " ", "a\n\n\nb",
	// multi-line constructs
	"[\n1,\n2,\n]", "{\n\"a\": 1,\n\"b\": 2,\n}", "f(1,\n2)", "x, \ny = 1, \n2", "map[string]int64{\n\"a\": 1,\n}", "make(struct {\nA int64,\nB string\n})",
	"if a {\n\tb\n} else if c {\n\td\n} else {\n\te\n}", "switch a {\n\ncase 1:\n\tb\n\ndefault:\n\tc\n\n}",
	"func f(x, y...) {\n\tif x {\n\t\treturn y\n\t}\n\tfor i in y {\n\t\tx += i\n\t}\n\treturn x\n}\nf(1, 2, 3)",
	"try {\n\tthrow 1\n} catch e {\n\tx = e\n} finally {\n\ty = 1\n}",
	"module M {\n\tfunc g() { return 1 }\n}\nM.g()",
	"c = make(chan int64)\ngo func() {\n\tc <- 1\n}()\nv = <- c\nv, ok = <- c\nclose(c)",
	"var a, b = 1, 2\na, b = b, a\nm = {}\nv, ok = m[\"k\"]\ndelete(m, \"k\")",
	// errors raised from grammar actions
	"if a {} else {} else {}", "switch a {\ndefault:\ndefault:\n}", "for a, b, c in d {}", ", a = 1", "a = ", "= 1", ", = <- c", "a, b, c = <- d", "make(chan a.b.c)", "make([]a.b)", "a, = 1", "{1: 2, , 3: 4}", "func(, a){}", "struct",
}

func dedupe(in []string) []string {
	seen := map[string]bool{}
	var out []string
	for _, s := range in {
		if !seen[s] {
			seen[s] = true
			out = append(out, s)
		}
	}
	return out
}

func firstPerKind(items []gram.Item) []gram.Item {
	seen := map[string]bool{}
	var out []gram.Item
	for _, it := range items {
		if !seen[it.Kind] {
			seen[it.Kind] = true
			out = append(out, it)
		}
	}
	return out
}

// prefixCorpus: the programs whose every prefix is parsed in space (c).
func prefixCorpus() []string {
	var p []string
	for _, f := range gram.StmtFillers {
		p = append(p, f.Src)
	}
	for _, f := range gram.ExprFillers {
		p = append(p, f.Src)
	}
	for _, t := range gram.ExprSlots {
		p = append(p, gram.Fill(t.Src, "a"))
	}
	for _, t := range gram.BlockSlots {
		p = append(p, gram.Fill(t.Src, "a"), gram.Fill(t.Src, "x = 1\nf(x)"))
	}
	p = append(p, specials...)
	for i := range nestStyles {
		p = append(p, nest(i, 64))
		p = append(p, strings.Repeat(nestStyles[i].open, 64)) // never closed
	}
	return dedupe(p)
}

// pairCorpus: the parseable programs of space (d).
func pairCorpus(thorough bool) []string {
	var p []string
	for _, f := range gram.StmtFillers {
		p = append(p, f.Src)
	}
	for _, f := range gram.ExprFillers {
		p = append(p, f.Src)
	}
	exprSlots, blockSlots := firstPerKind(gram.ExprSlots), gram.BlockSlots
	if thorough {
		exprSlots = gram.ExprSlots
	}
	for _, t := range exprSlots {
		p = append(p, gram.Fill(t.Src, "a"))
	}
	for _, t := range blockSlots {
		p = append(p, gram.Fill(t.Src, "a"))
	}
	p = append(p, specials...)
	// layout variants of a few programs: leading/trailing terminators, comments, blanks
	for _, s := range []string{"a", "x = [1]", "(a)", "if a { b }", "f(1)\ng(2)", "return", "a++"} {
		p = append(p, "\n"+s, s+"\n", s+";", s+" ;\n", "\n\n"+s+"\n\n", s+" // c", s+" # c", "/* c\nc */ "+s, "  "+s+"  ", s+"\r", "\t"+s+"\t\n", "// c\n"+s, s+"\n// c", s+"; "+s)
	}
	for i := range nestStyles {
		p = append(p, nest(i, 1), nest(i, 3))
	}
	if thorough {
		// products, in diagonal order so that a cut-off keeps every kind
		sf, ef := firstPerKind(gram.StmtFillers), firstPerKind(gram.ExprFillers)
		es := firstPerKind(gram.ExprSlots)
		var extra []string
		for d := 0; d < len(es)+len(ef); d++ {
			for i := 0; i <= d && i < len(es); i++ {
				if j := d - i; j < len(ef) {
					extra = append(extra, gram.Fill(es[i].Src, ef[j].Src))
				}
			}
		}
		var extra2 []string
		for d := 0; d < len(blockSlots)+len(sf); d++ {
			for i := 0; i <= d && i < len(blockSlots); i++ {
				if j := d - i; j < len(sf) {
					extra2 = append(extra2, gram.Fill(blockSlots[i].Src, sf[j].Src))
				}
			}
		}
		// interleave the two product lists
		for i := 0; i < len(extra) || i < len(extra2); i++ {
			if i < len(extra2) {
				p = append(p, extra2[i])
			}
			if i < len(extra) {
				p = append(p, extra[i])
			}
		}
	}
	return dedupe(p)
}

// ---------- membership tests used to count distinct inputs across spaces ----------

func inSpaceA(s string, maxLen int) bool {
	if len(s) > maxLen {
		return false
	}
	for i := 0; i < len(s); i++ {
		if !inByteAlphabet[s[i]] {
			return false
		}
	}
	return true
}

var tokenSet = map[string]bool{}

func init() {
	for _, t := range gram.Tokens() {
		tokenSet[t] = true
	}
}

func inSpaceB(s string, maxLen int) bool {
	if s == "" {
		return true
	}
	parts := strings.Split(s, " ")
	if len(parts) > maxLen {
		return false
	}
	for _, p := range parts {
		if !tokenSet[p] {
			return false
		}
	}
	return true
}

// ---------- the run ----------

// tally is a work item's private counter set (flushed once, to keep the shared
// result's mutex out of the inner loops).
type tally map[string]int64

func (t tally) Add(k string, n int64) { t[k] += n }

type collector struct {
	mu    sync.Mutex
	cases map[string][]common.Violation
	total map[string]int64
}

// add keeps, per class, the keepPerClass smallest cases seen so far (by length,
// then text) whatever the arrival order, so that what is reported does not
// depend on goroutine scheduling.
func (k *collector) add(class string, v common.Violation) {
	k.mu.Lock()
	k.total[class]++
	k.cases[class] = append(k.cases[class], v)
	if len(k.cases[class]) > 4096 {
		k.cases[class] = smallest(k.cases[class])
	}
	k.mu.Unlock()
}

const keepPerClass = 50

func smallest(vs []common.Violation) []common.Violation {
	sort.Slice(vs, func(i, j int) bool {
		if len(vs[i].Case) != len(vs[j].Case) {
			return len(vs[i].Case) < len(vs[j].Case)
		}
		return vs[i].Case < vs[j].Case
	})
	out := vs[:0]
	for _, v := range vs {
		if len(out) > 0 && out[len(out)-1].Case == v.Case {
			continue
		}
		out = append(out, v)
		if len(out) >= keepPerClass {
			break
		}
	}
	return out
}

type replayRec struct {
	Space   string `json:"space"` // "input" or "pair"
	A       string `json:"a_hex"`
	B       string `json:"b_hex,omitempty"`
	Full    bool   `json:"full,omitempty"`
	Choices []int  `json:"choices,omitempty"` // space "concurrent": A holds comma-separated hex texts
}

func run(c *common.Ctx) *common.Result {
	res := common.NewResult()
	if c.Deadline.IsZero() { // own soft deadline: leads to Cap, never to a verdict
		if c.Thorough() {
			c.Deadline = c.Start.Add(8 * time.Minute)
		} else {
			c.Deadline = c.Start.Add(3 * time.Minute)
		}
	}
	maxLen := 3
	if c.Thorough() {
		maxLen = 4
	}
	col := &collector{cases: map[string][]common.Violation{}, total: map[string]int64{}}
	emergency = func() {
		reportHangs(res)
		res.Cap("a ParseSrc call allocated without end; the run was ended at once")
		common.Emergency(c, res)
	}

	flush := func(t tally) {
		for k, v := range t {
			res.Add(k, v)
		}
	}
	record := func(res tally, space, src string, full bool, fails []failure, o outcome, distinct bool) {
		res.Add("evaluations", 1)
		res.Add("cases_"+space, 1)
		nontrivial := o.pan != "" || o.err != nil || len(stmtList(o.tree)) > 0
		switch {
		case o.pan != "":
			res.Add("outcome_panic", 1)
		case o.err != nil:
			if pe, ok := o.err.(*parser.Error); ok && pe.Fatal {
				res.Add("outcome_lexer_error", 1)
			} else {
				res.Add("outcome_syntax_error", 1)
			}
			if o.tree != nil {
				res.Add("outcome_error_with_tree", 1)
			}
		case len(stmtList(o.tree)) > 0:
			res.Add("outcome_tree", 1)
		default:
			res.Add("outcome_empty_program", 1)
		}
		if distinct && nontrivial {
			res.Add("distinct_nontrivial", 1)
			res.Add("distinct_nontrivial_"+space, 1)
		}
		for _, f := range fails {
			col.add(f.Class, common.Violation{Class: f.Class, Case: strconv.Quote(src), Detail: f.Detail, Replay: replayRec{Space: "input", A: hex.EncodeToString([]byte(src)), Full: full}})
		}
	}

	phaseStart := time.Now()
	phase := func(name string) { // informational only
		res.Add("wall_ms_"+name, time.Since(phaseStart).Milliseconds())
		phaseStart = time.Now()
	}
	var cmu sync.Mutex
	// ---- (a) byte strings: work item = first two bytes ----
	// Lengths ≤ 3 get the full check (re-parse directly, after a good and after a
	// bad unrelated text); length 4 gets the direct re-parse only.
	na := len(byteAlphabet)
	{
		t := tally{}
		f, o := checkInput("", true)
		record(t, "a_bytes", "", true, f, o, true)
		for _, x := range byteAlphabet {
			s := string([]byte{x})
			f, o := checkInput(s, true)
			record(t, "a_bytes", s, true, f, o, true)
		}
		flush(t)
	}
	common.ParallelFor(c, na*na, func(w int) {
		t := tally{}
		defer flush(t)
		buf := make([]byte, 0, maxLen)
		var rec func(b []byte)
		rec = func(b []byte) {
			s := string(b)
			full := len(b) <= 3
			f, o := checkInput(s, full)
			record(t, "a_bytes", s, full, f, o, true)
			if len(b) < maxLen {
				for _, x := range byteAlphabet {
					rec(append(b, x))
				}
			}
		}
		rec(append(buf, byteAlphabet[w/na], byteAlphabet[w%na]))
	})
	res.Sample(map[string]interface{}{"space": "a", "input": strconv.Quote("=\xc3 <"), "result": parse("=\xc3 <").signature()})
	res.Sample(map[string]interface{}{"space": "a", "input": strconv.Quote("a\n`"), "result": parse("a\n`").signature()})
	phase("a")

	// ---- (c) prefixes ----
	pc := prefixCorpus()
	res.Add("prefix_corpus_programs", int64(len(pc)))
	var seenC sync.Map
	common.ParallelFor(c, len(pc), func(i int) {
		t := tally{}
		defer flush(t)
		p := pc[i]
		for n := 0; n <= len(p); n++ {
			s := p[:n]
			_, dup := seenC.LoadOrStore(s, true)
			if dup {
				continue
			}
			f, o := checkInput(s, true)
			record(t, "c_prefixes", s, true, f, o, !inSpaceA(s, maxLen) && !inSpaceB(s, maxLen))
		}
	})
	phase("c_prefixes")
	// deep nesting, once each (closed and never closed)
	type deepCase struct {
		style, depth int
		closed       bool
	}
	var deep []deepCase
	for _, depth := range []int{1000, 10000} {
		for i := range nestStyles {
			deep = append(deep, deepCase{i, depth, true}, deepCase{i, depth, false})
		}
	}
	common.ParallelFor(c, len(deep), func(k int) {
		d := deep[k]
		s := strings.Repeat(nestStyles[d.style].open, d.depth)
		if d.closed {
			s = nest(d.style, d.depth)
		}
		f, o := checkInput(s, false)
		t := tally{}
		t.Add("deep_nesting_cases", 1)
		if o.err == nil && o.pan == "" {
			t.Add("deep_nesting_parsed", 1)
		}
		res.Max("nesting_depth", int64(d.depth))
		// Case is kept short: the generator, not 60 kB of brackets
		for _, x := range f {
			col.add(x.Class, common.Violation{Class: x.Class, Case: fmt.Sprintf("nest(open=%q, close=%q, depth=%d, closed=%v)", nestStyles[d.style].open, nestStyles[d.style].close, d.depth, d.closed), Detail: x.Detail, Replay: replayRec{Space: "input", A: hex.EncodeToString([]byte(s))}})
		}
		record(t, "c_prefixes", "", false, nil, o, true)
		flush(t)
	})
	res.Sample(map[string]interface{}{"space": "c", "input": strconv.Quote(pc[len(pc)/2][:len(pc[len(pc)/2])/2]), "result": parse(pc[len(pc)/2][:len(pc[len(pc)/2])/2]).signature()})
	phase("c_deep")

	// ---- (d) pairs ----
	var progs []*prog
	for _, s := range pairCorpus(c.Thorough()) {
		if p, ok := mkProg(s); ok {
			progs = append(progs, p)
		} else {
			res.Add("pair_corpus_unparseable_dropped", 1)
		}
	}
	if !c.Thorough() && len(progs) > 400 {
		progs = progs[:400]
	}
	if c.Thorough() && len(progs) > 1500 {
		progs = progs[:1500]
	}
	res.Add("pair_corpus_programs", int64(len(progs)))
	np := len(progs)
	var cappedD bool
	common.ParallelFor(c, np, func(i int) {
		if c.Expired() {
			cmu.Lock()
			cappedD = true
			cmu.Unlock()
			return
		}
		a := progs[i]
		res.Distinct("last_kinds_of_A", a.lastK)
		res.Distinct("first_kinds_of_B", a.firstK)
		var nontriv int64
		for _, b := range progs {
			fails := checkPair(a, b)
			if len(b.list) > 0 {
				nontriv++
			}
			for _, f := range fails {
				col.add(f.Class, common.Violation{Class: f.Class, Case: strconv.Quote(a.src) + " + " + strconv.Quote(b.src), Detail: f.Detail, Replay: replayRec{Space: "pair", A: hex.EncodeToString([]byte(a.src)), B: hex.EncodeToString([]byte(b.src))}})
			}
		}
		res.Add("evaluations", int64(np))
		res.Add("cases_d_pairs", int64(np))
		res.Add("distinct_nontrivial", nontriv)
		res.Add("distinct_nontrivial_d_pairs", nontriv)
	})
	if cappedD {
		res.Cap("soft deadline reached inside the pairs")
	}
	if np > 2 {
		a, b := progs[np/3], progs[2*np/3]
		o := parse(a.src + "\n" + b.src)
		res.Sample(map[string]interface{}{"space": "d", "A": a.src, "B": b.src, "A_alone": a.dumps, "B_alone": b.dumps, "A+B": dumpList(stmtList(o.tree), 0, true)})
	}
	phase("d")

	// ---- (b) token strings, last: its longest length is the only part a slow
	// machine may cut short (Cap) ----
	toks := gram.Tokens()
	nt := len(toks)
	tokenStrings := func(upTo int, fromLen int) (capped bool) {
		// work item = first two tokens; strings of length in [fromLen, upTo] are checked
		common.ParallelFor(c, nt*nt, func(w int) {
			t := tally{}
			defer flush(t)
			var rec func(s string, n int)
			rec = func(s string, n int) {
				if n >= fromLen {
					full := n <= 2
					f, o := checkInput(s, full)
					record(t, "b_tokens", s, full, f, o, !inSpaceA(s, maxLen))
				}
				if n < upTo {
					if n >= 3 && c.Expired() {
						cmu.Lock()
						capped = true
						cmu.Unlock()
						return
					}
					for _, tk := range toks {
						rec(s+" "+tk, n+1)
					}
				}
			}
			rec(toks[w/nt]+" "+toks[w%nt], 2)
		})
		return
	}
	{
		t := tally{}
		for _, s := range toks {
			f, o := checkInput(s, true)
			record(t, "b_tokens", s, true, f, o, !inSpaceA(s, maxLen))
		}
		flush(t)
	}
	tokenStrings(3, 2)
	res.Sample(map[string]interface{}{"space": "b", "input": "a = <- b", "result": parse("a = <- b").signature()})
	res.Sample(map[string]interface{}{"space": "b", "input": "func ( ...", "result": parse("func ( ...").signature()})
	phase("b_len_le_3")
	if maxLen >= 4 {
		if tokenStrings(4, 4) {
			res.Cap("soft deadline reached inside the token strings of length 4 (lengths 1-3 and all other spaces were completed)")
		}
		phase("b_len_4")
	}
	// violations: per class the 50 smallest cases, in canonical order
	var classes []string
	for cl := range col.cases {
		classes = append(classes, cl)
	}
	sort.Strings(classes)
	for _, cl := range classes {
		vs := smallest(col.cases[cl])
		res.Add("failing_cases:"+cl, col.total[cl])
		for n, v := range vs {
			if n == 0 {
				v.Detail += fmt.Sprintf(" [%d failing cases in this class in this run]", col.total[cl])
			}
			res.Violate(v)
		}
	}
	if hung.Load() {
		hangMu.Lock()
		reportHangs(res)
		hangMu.Unlock()
		res.Cap("a ParseSrc call did not return; every later parse of the run was skipped")
		return res
	}
	concurrentPhase(c, res)
	phase("concurrent")
	return res
}

// reportHangs is called with hangMu held.
func reportHangs(res *common.Result) {
	{
		sort.Slice(hangs, func(i, j int) bool {
			return len(hangs[i]) < len(hangs[j]) || len(hangs[i]) == len(hangs[j]) && hangs[i] < hangs[j]
		})
		for _, h := range hangs {
			res.Violate(common.Violation{Class: "termination/ParseSrc", Case: strconv.Quote(trunc(h, 200)),
				Detail: fmt.Sprintf("ParseSrc did not return for this %d-byte text (limit %v, or more than a second with the heap beyond %d GiB; the other texts of the spaces parse in micro- to milliseconds); the rest of the run was skipped", len(h), hangAfter, heapLimit>>30),
				Replay: replayRec{Space: "input", A: hex.EncodeToString([]byte(h))}})
		}
	}
}

func coverage(c *common.Ctx, r *common.Result) map[string]interface{} {
	maxLen := 3
	if c.Thorough() {
		maxLen = 4
	}
	return map[string]interface{}{
		"evaluations":         r.Counts["evaluations"],
		"distinct_nontrivial": r.Counts["distinct_nontrivial"],
		"rule": "a case is one input text of spaces (a)-(c) or one ordered pair of (d). An input is non-trivial when ParseSrc produced an error (position and type oracle exercised) or a non-empty statement list (determinism oracle exercised on a real tree); blank/comment-only inputs are trivial. A pair is non-trivial when B has at least one statement (the shift oracle compares at least one node). " +
			"Distinctness is measured: strings inside one space are distinct by construction; a token string that is also a byte string of (a), and a prefix that is also in (a) or (b) or was already seen in (c), is evaluated but not counted again.",
		"space_a_byte_alphabet":     fmt.Sprintf("%q", string(byteAlphabet)),
		"space_a_max_len":           maxLen,
		"space_a_cases":             r.Counts["cases_a_bytes"],
		"space_b_token_alphabet":    len(gram.Tokens()),
		"space_b_max_len":           maxLen,
		"space_b_cases":             r.Counts["cases_b_tokens"],
		"space_c_programs":          r.Counts["prefix_corpus_programs"],
		"space_c_cases":             r.Counts["cases_c_prefixes"],
		"space_c_max_nesting_depth": r.GetMax("nesting_depth"),
		"space_d_programs":          r.Counts["pair_corpus_programs"],
		"space_d_pairs":             r.Counts["cases_d_pairs"],
		"space_d_last_kinds_of_A":   r.SetMembers("last_kinds_of_A"),
		"space_d_first_kinds_of_B":  r.SetMembers("first_kinds_of_B"),
		"columns_checked_in":        "runes (the lexer indexes []rune(src); an invalid UTF-8 byte counts as one rune) — at least as strict as bytes",
		"distinct_outcomes":         map[string]int64{"tree": r.Counts["outcome_tree"], "empty_program": r.Counts["outcome_empty_program"], "lexer_error": r.Counts["outcome_lexer_error"], "syntax_error": r.Counts["outcome_syntax_error"], "error_with_tree": r.Counts["outcome_error_with_tree"], "panic": r.Counts["outcome_panic"]},
	}
}

func replay(c *common.Ctx, path string) int {
	var rec replayRec
	class, cs, err := common.ReadReplay(path, &rec)
	if err != nil {
		fmt.Println("cannot read replay:", err)
		return 2
	}
	if rec.Space == "concurrent" {
		var texts []string
		for _, h := range strings.Split(rec.A, ",") {
			t, _ := hex.DecodeString(h)
			texts = append(texts, string(t))
		}
		var first string
		bad := false
		for round := 0; round < 2; round++ {
			r := &explore.Run{Prefix: rec.Choices}
			outs, verdict, s := runConcurrent(texts, r, true)
			desc := verdict + " | " + strings.Join(outs, " | ")
			if round == 0 {
				first = desc
				for _, st := range s.Trace {
					fmt.Printf("  T%d %s\n", st.Thread, st.What)
				}
				for k, t := range texts {
					solo := parse(t).signature()
					fmt.Printf("text %d %q\n  concurrent: %s\n  solo:       %s\n", k, t, trunc(outs[k], 400), trunc(solo, 400))
					if outs[k] != solo || verdict != sched.OK {
						bad = true
					}
				}
			} else if desc != first {
				fmt.Println("NONDETERMINISTIC replay")
				return 2
			}
		}
		if bad {
			return 1
		}
		return 0
	}
	a, _ := hex.DecodeString(rec.A)
	b, _ := hex.DecodeString(rec.B)
	var first string
	for round := 0; round < 2; round++ {
		var fails []failure
		if rec.Space == "pair" {
			pa, oka := mkProg(string(a))
			pb, okb := mkProg(string(b))
			if !oka || !okb {
				fails = nil // one side no longer parses alone: nothing to compare
			} else {
				fails = checkPair(pa, pb)
			}
		} else {
			parse(otherGood) // something else first, so that carried-over state shows
			fails, _ = checkInput(string(a), true)
		}
		var lines []string
		for _, f := range fails {
			lines = append(lines, f.Class+": "+f.Detail)
		}
		s := strings.Join(lines, "\n")
		if round == 0 {
			first = s
		} else if s != first {
			fmt.Printf("NONDETERMINISTIC replay:\n%s\n--- vs ---\n%s\n", first, s)
			return 2
		}
	}
	if len(cs) > 300 {
		cs = cs[:300] + "..."
	}
	fmt.Printf("case: %s\nrecorded class: %s\n", cs, class)
	if !utf8.ValidString(string(a)) {
		fmt.Println("(the input is not valid UTF-8; bytes are kept in hex in the replay file)")
	}
	if first == "" {
		fmt.Println("replay: the property holds on this case")
		return 0
	}
	fmt.Println(first)
	return 1
}

func init() {
	common.Register(&common.Prop{
		ID: "C15", Level: "exploration", Run: run, Coverage: coverage, Replay: replay, Race: raceBody,
		Assumptions: []string{
			"sequential calls only: the clause 'also under concurrent calls' is not decided here",
			"termination: every ParseSrc call runs on its own goroutine; a call that has not returned after 180 s (the longest text parses in milliseconds) is reported as termination/ParseSrc and the rest of the run is skipped",
			"(a) 43-byte alphabet, length ≤ 3 quick / ≤ 4 thorough; (b) 81 tokens (32 keywords, 24 one-character and 19 longer operators, a b 0 1 1.5 \"s\"), length ≤ 3 / ≤ 4, single blanks between tokens; (c) prefixes of ≈ 500 corpus programs incl. 12 bracket styles nested 64 deep, depth 1000 and 10000 once each; (d) ≈ 400 / ≈ 1500 parseable programs, all ordered pairs",
			"error columns are checked against the number of runes of the line (the unit the lexer counts in); error messages are not compared",
			"'same tree' = equal reflection-based structural dumps including positions (lib/astdump); a node whose position was never set (0:0: statement lists, else-if nodes, slices, channel expressions, the shared literal of ++/--) must stay unset, it is not shifted",
			"in (d) the statements of A inside A+\"\\n\"+B are also required to equal A's own, positions included",
		},
	})
}
