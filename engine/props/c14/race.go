package c14

import (
	"sync"

	"github.com/mattn/anko/parser"
	"github.com/mattn/anko/vm"
	"verif/engine/common"
	"verif/engine/lib/irrun"
	"verif/engine/lib/stepctx"
)

// Free-running body of the supplementary race-detector pass (common/race.go): one
// parsed tree, three real goroutines executing it at once on separate fresh
// environments (the property's "from many goroutines at once ... with the race
// detector on").  A write to the shared tree or to process-wide interpreter data
// is reported by the detector even when every run stores the same value.  The
// goroutines share nothing of the harness (own observer, own environment, own
// context).
func raceBody(c *common.Ctx, rep *common.RaceReport) {
	ps := corpus(c)
	step := 6
	if c.Thorough() {
		step = 1
	}
	var sel []prog
	for i, p := range ps {
		if hasGo(p.Src) {
			continue
		}
		if p.Hand || i%step == 0 {
			sel = append(sel, p)
		}
	}
	common.ParallelFor(c, len(sel), func(i int) {
		p := sel[i]
		stmt, err := parser.ParseSrc(p.Src)
		if err != nil {
			return
		}
		gate := make(chan struct{})
		var wg sync.WaitGroup
		for t := 0; t < 3; t++ {
			wg.Add(1)
			go func() {
				defer wg.Done()
				defer func() { recover() }()
				<-gate
				obs := &irrun.Obs{}
				e := irrun.NewEnv(obs)
				ctx := stepctx.Fuel(fuel)
				vm.RunContext(ctx, e, &vm.Options{Debug: false}, stmt)
				// and once more in the same goroutine: second executions take other paths
				// (filled caches) than first ones
				obs2 := &irrun.Obs{}
				vm.RunContext(stepctx.Fuel(fuel), irrun.NewEnv(obs2), &vm.Options{Debug: false}, stmt)
			}()
		}
		close(gate)
		wg.Wait()
		rep.Add(1, 6)
	})
}
