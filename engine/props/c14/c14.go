// Package c14: runs are isolated and repeatable; executing a tree never changes it.
//
//	(1) sequential: parse once, dump the tree by reflection, run it three times on
//	    equal fresh environments: the dump must be unchanged AT EVERY CONTEXT POLL
//	    (so write-then-restore is seen) and run k must equal run 1 in value, error
//	    status and probe trace; a canary program evaluated afterwards on a fresh
//	    environment must still see the pristine process-wide values.
//	(2) interleaved: two and three runs of one shared tree on separate
//	    environments as threads of the cooperative scheduler, every context poll a
//	    schedule point, all interleavings within the preemption bound: every run
//	    must equal its solo result.
//	(3) environments never see each other's bindings; a second importer sees the
//	    pristine package table.
package c14

import (
	"fmt"
	"reflect"
	"sort"
	"strings"
	"sync"
	"time"

	"github.com/mattn/anko/ast"
	"github.com/mattn/anko/core"
	"github.com/mattn/anko/env"
	_ "github.com/mattn/anko/packages"
	"github.com/mattn/anko/parser"
	"github.com/mattn/anko/vhook"
	"github.com/mattn/anko/vm"
	"verif/engine/common"
	"verif/engine/explore"
	"verif/engine/lib/astdump"
	"verif/engine/lib/irrun"
	"verif/engine/lib/stepctx"
	"verif/engine/props/c08"
	"verif/engine/props/c09"
	"verif/engine/sched"
)

type prog struct {
	Name string `json:"name"`
	Src  string `json:"src"`
	Hand bool   `json:"hand"`           // handcrafted program aimed at node-resident / process-wide runtime data
	Deep bool   `json:"deep,omitempty"` // large program: sequential sweep only
	// Expect: the stated result of the program ("" = none: only repeatability is checked)
	Expect string `json:"expect,omitempty"`
}

// programs that exercise the runtime data living next to the syntax
var hand = []string{
	// named and anonymous calls whose callee is re-bound between and during runs
	"func f() { return 1 }\na = f()\nf = func() { return 2 }\nb = f()\n[a, b]",
	"f = func(x) { return x + 1 }\na = f(1)\nf = func(x) { return x + 10 }\n[a, f(1)]",
	"r = []\nfor i = 0; i < 3; i++ { g = func() { return i }; r += g() }\nr",
	"func(a, b) { return a + b }(1, 2)",
	"m = {\"f\": func() { return 7 }}\nm.f()",
	// ++ / -- share the literal 1
	"x = 1\nx++\nx++\ny = 5\ny--\n[x, y]",
	"x = 1.5\nx++\ny = \"a\"\n[x]",
	"a = [1, 2]\na[0]++\na[1]--\na",
	// literals of every kind
	"[1, -1, 4095, 4096, 1.5, \"s\", true, false, nil]",
	"x = 4095\ny = x + 1\nz = y - 1\n[x, y, z, 4095]",
	// small integers / nil / booleans reached through pointers
	"a = 1\nb = &a\n*b = 2\n[a, 1]",
	"a = 4095\nb = &a\n*b = 7\n[a, 4095]",
	"n = nil\np = &n\n*p = 5\n[n]",
	"t = true\np = &t\n*p = false\n[t, true]",
	"s = \"s\"\np = &s\n*p = \"t\"\n[s, \"s\"]",
	"x = 1\ny = x\ny++\n[x, y, 1]",
	"a = [1, 2, 3]\nb = a\nb[0] = 9\n[a[0], 1]",
	// COMPUTED small integers (they come from the interpreter's value cache, not
	// from a literal) reached through pointers, also through a host function
	"a = 2 + 3\np = &a\n*p = a + 1\n[a, *p, 2 + 3]",
	"n = 5 * 2\nq = &n\n*q = 1000\n[n, 5 * 2, 7 + 3, len(\"0123456789\")]",
	"i = 0\ni++\nr = &i\n*r = 77\n[i, 0 + 1]",
	"z = 1 - 2\nw = &z\n*w = 9\n[z, 1 - 2, 0 - 1]",
	"k = 4094 + 1\nu = &k\n*u = 3\n[k, 4094 + 1, 4096 - 1]",
	// nested constant literals: every evaluation must build fresh inner containers
	"t = [[0, 0], [0, 0]]\nt[1][0] = t[1][0] + 1\nt",
	"m = {\"a\": {\"b\": 1}}\nm.a.b = m.a.b + 1\nm.a.b",
	"l = [{\"k\": 0}, {\"k\": 0}]\nl[0].k = l[0].k + 5\n[l[0].k, l[1].k]",
	"tt = [][]int64{[]int64{0, 0}, []int64{0, 0}}\ntt[0][1] = tt[0][1] + 3\ntt",
	"func fresh() { return [[1], [2]] }\na = fresh()\na[0][0] = 9\nb = fresh()\n[a[0][0], b[0][0]]",
	"s = [\"x\", [\"y\"]]\ns[1][0] = s[1][0] + \"z\"\ns",
	// struct values of one type made twice: container fields must be distinct objects
	"a = make(struct { M map[string]int64, N int64 })\nb = make(struct { M map[string]int64, N int64 })\na.M[\"x\"] = 1\nb.M[\"y\"] = 2\n[len(a.M), len(b.M)]",
	// import hands out a copy of the package table
	"a = import(\"strings\")\nold = a.ToLower\na.ToLower = a.ToUpper\nb = import(\"strings\")\n[a.ToLower(\"Ab\"), b.ToLower(\"Ab\")]",
	"a = import(\"sort\")\na.Ints = 5\nb = import(\"sort\")\nx = [3, 1, 2]\n[a.Ints]",
	// typed literals, make, modules, closures, defers
	"a = []int64{1, 2}\nb = map[string]int64{\"k\": 1}\na[0] = 5\nb.k = 6\n[a, b.k]",
	"module M { x = 1\nfunc inc() { x++\nreturn x } }\n[M.inc(), M.inc(), M.x]",
	"c = 0\nfunc g() { defer func() { c++ }()\nreturn 1 }\n[g(), g(), c]",
	"func fib(n) { if n < 2 { return n }\nreturn fib(n - 1) + fib(n - 2) }\nfib(3)",
	"a = 0\nfor i in [1, 2, 3] { switch i { case 1: a += 1\ncase 2: a += 10\ndefault: a += 100 } }\na",
	"x = nil ?? 3\ny = true ? 1 : 2\ntry { throw \"e\" } catch err { z = 1 } finally { w = 2 }\n[x, y, z, w]",
	"var a, b = 1, 2\na, b = b, a\n[a, b, len([1, 2]), 1 in [1], \"ab\"[0], [1, 2, 3][1:2]]",
	// type expressions of every shape (the type description is part of the tree;
	// evaluating it looks names up in the environment)
	"a = make([][]int64)\na += [[1, 2]]\nb = make([][][]string)\nc = make([]int64, 2, 4)\n[a, len(b), c]",
	"a = [][]int64{[]int64{1}, []int64{2, 3}}\nb = [][][]bool{[][]bool{[]bool{true}}}\n[a, b]",
	"a = make(map[string][]int64)\na.k = [1]\nb = make(map[string]map[string][][]int64)\nc = make(chan [][]string, 1)\n[a, len(b), len(c)]",
	"a = make(struct { A [][]int64, B map[string][]string, C *int64 })\na.A = [[1]]\nx = make(*[][]int64)\n[a.A, len(a.B)]",
	"func mk() { return make([][]int64) }\n[mk(), mk(), make([][][][]int64)]",
}

// programs with a stated result: a loop over a map goes over the entries the map
// had when the loop began, whatever the body adds or removes (the number of
// rounds and what is left do not depend on the iteration order)
var handExpect = map[string]string{
	"m = {\"a\": 1, \"b\": 2, \"c\": 3, \"d\": 4}\nn = 0\nfor k, v in m { m[k + \"x\"] = v; n++ }\n[n, len(m)]":                                    "[4 8]",
	"m = {\"a\": 1, \"b\": 2, \"c\": 3, \"d\": 4, \"e\": 5, \"f\": 6}\nn = 0\nfor k in m { m[k + \"1\"] = 0; m[k + \"2\"] = 0; n++ }\n[n, len(m)]": "[6 18]",
	"m = {1: 1, 2: 2, 3: 3}\nn = 0\nfor k, v in m { m[k + 10] = v; m[k + 20] = v; n += v }\n[n, len(m)]":                                           "[6 9]",
}

func corpus(c *common.Ctx) []prog {
	var ps []prog
	for i, s := range hand {
		ps = append(ps, prog{Name: fmt.Sprintf("hand/%d", i), Src: s, Hand: true})
	}
	var es []string
	for src := range handExpect {
		es = append(es, src)
	}
	sort.Strings(es)
	for i, src := range es {
		ps = append(ps, prog{Name: fmt.Sprintf("hand-expect/%d", i), Src: src, Hand: true, Expect: handExpect[src]})
	}
	// quick: C08 corpus to depth 2, C09 corpus to depth 1; thorough: C08 to depth 3
	// (the deeper programs take part in the sequential sweep only)
	d8, d9 := 2, 1
	if c.Thorough() {
		d8 = 3
	}
	shallow := map[string]bool{}
	c08.Corpus(c, 2, func(src string) { shallow[src] = true })
	n := 0
	c08.Corpus(c, d8, func(src string) {
		ps = append(ps, prog{Name: fmt.Sprintf("c08/%d", n), Src: src, Deep: !shallow[src]})
		n++
	})
	n = 0
	c09.Corpus(c, d9, func(src string) { ps = append(ps, prog{Name: fmt.Sprintf("c09/%d", n), Src: src}); n++ })
	return ps
}

type outcome struct {
	val, err, trace string
	polls           int64
	interrupted     bool
	panicked        string
}

func (o outcome) key() string {
	return "val=" + o.val + " err=" + o.err + " trace=[" + o.trace + "]" + " panic=" + o.panicked
}

// mapLoop reports whether the program iterates over a map with several entries
// (iteration order of maps is outside the property: such programs are compared
// with their probe trace as a multiset and only when they do not return from
// inside the loop).
func mapLoop(src string) bool {
	rest := src
	for {
		i := strings.Index(rest, " in {")
		if i < 0 {
			return false
		}
		j := strings.Index(rest[i:], "}")
		if j > 0 && strings.Contains(rest[i:i+j], ",") {
			return true
		}
		rest = rest[i+5:]
	}
}

func normalise(o outcome, src string) outcome {
	if mapLoop(src) {
		parts := strings.Fields(o.trace)
		sort.Strings(parts)
		o.trace = strings.Join(parts, " ")
	}
	return o
}

const fuel = 400

// runSolo executes stmt on a fresh environment; onPoll (if not nil) is called at every poll.
func runSolo(stmt ast.Stmt, onPoll func(i int64)) outcome {
	obs := &irrun.Obs{}
	e := irrun.NewEnv(obs)
	ctx := stepctx.Fuel(fuel)
	ctx.OnPoll = onPoll
	return finish(obs, ctx, func() (interface{}, error) { return vm.RunContext(ctx, e, &vm.Options{Debug: false}, stmt) })
}

// mapOrderSensitive: a program whose result may legitimately depend on map order
func mapOrderSensitive(src string) bool {
	return mapLoop(src) && (strings.Contains(src, "break") || strings.Contains(src, "return") || strings.Contains(src, "continue") || strings.Contains(src, "throw"))
}

func finish(obs *irrun.Obs, ctx *stepctx.Ctx, call func() (interface{}, error)) (o outcome) {
	defer func() {
		if r := recover(); r != nil {
			o.panicked = fmt.Sprint(r)
		}
		o.trace = strings.Join(obs.Trace, " ")
		o.polls = ctx.Polls()
	}()
	v, err := call()
	o.val = irrun.RenderGo(v)
	if err != nil {
		o.err = "error"
		if err.Error() == "execution interrupted" {
			o.err = "interrupted"
			o.interrupted = true
		}
	}
	return o
}

// canary: the process-wide values every run can reach must be pristine
const canarySrc = "[nil, true, false, 1, 0, -1, 4095, 1 + 1, \"s\", nil == nil, !true, 2 + 3, 5 * 2, 0 + 1, 1 - 2, 4094 + 1, 0 * 1, len(make(struct { M map[string]int64, N int64 }).M)]"

var canaryWant string

func canary() string {
	e := env.NewEnv()
	v, err := vm.Execute(e, nil, canarySrc)
	s := irrun.RenderGo(v) + fmt.Sprint(err)
	pk := env.Packages["strings"]["ToLower"]
	if !pk.IsValid() || pk.Kind() != reflect.Func {
		s += " strings.ToLower-not-a-func"
	} else if out := pk.Call([]reflect.Value{reflect.ValueOf("Ab")}); out[0].String() != "ab" {
		s += " strings.ToLower-changed"
	}
	if pk := env.Packages["sort"]["Ints"]; !pk.IsValid() || pk.Kind() != reflect.Func {
		s += " sort.Ints-not-a-func"
	}
	return s
}

type replayData struct {
	Prog    prog   `json:"prog"`
	Mode    string `json:"mode"` // sequential | interleaved
	Threads int    `json:"threads,omitempty"`
	Choices []int  `json:"choices,omitempty"`
}

func classPrefix(p prog) string {
	if p.Hand {
		return "hand"
	}
	return "corpus"
}

// sequential part for one program; returns the solo outcome and whether the program is usable for interleaving.
func sequential(p prog, stmt ast.Stmt, res *common.Result) (outcome, bool) {
	d0 := astdump.Dump(stmt)
	var first outcome
	okForInterleave := true
	reported := map[string]bool{}
	report := func(class, detail string) {
		if reported[class] {
			return
		}
		reported[class] = true
		res.Violate(common.Violation{Class: class, Case: p.Src, Detail: detail, Replay: replayData{Prog: p, Mode: "sequential"}})
	}
	reps := 3
	if p.Hand {
		reps = 12
	}
	for k := 0; k < reps; k++ {
		o := normalise(runSolo(stmt, func(i int64) {
			if p.Deep && i%8 != 0 {
				return // large programs: the dump is compared at every 8th poll and after each run
			}
			res.Add("dump_checks", 1)
			if astdump.Dump(stmt) != d0 {
				report("tree-modified/during-run", fmt.Sprintf("the parsed tree differs from its dump before execution at poll %d of run %d", i, k+1))
			}
		}), p.Src)
		res.Add("runs", 1)
		if astdump.Dump(stmt) != d0 {
			report("tree-modified/after-run", fmt.Sprintf("the parsed tree differs from its dump before execution after run %d", k+1))
		}
		if o.interrupted {
			res.Add("fuel_exhausted", 1)
			return o, false
		}
		if p.Expect != "" && (o.val != p.Expect || o.err != "") {
			report("wrong-result", fmt.Sprintf("run %d: %s ; stated result: %s", k+1, o.key(), p.Expect))
			okForInterleave = false
		}
		if k == 0 {
			first = o
		} else if o.key() != first.key() {
			report("not-repeatable", fmt.Sprintf("run %d on an equal fresh environment: %s ; run 1: %s", k+1, o.key(), first.key()))
			okForInterleave = false
		}
	}
	if p.Hand && len(reported) == 0 {
		// once more with the tree compared at every lock acquisition of the
		// environment (name and type look-ups happen inside expressions and inside
		// type descriptions, where no poll falls): also a write that is undone
		// before the statement ends is a write
		s := sched.New(&explore.Run{})
		s.MaxSteps = 200000
		s.OnLock = func() {
			res.Add("dump_checks_at_locks", 1)
			if astdump.Dump(stmt) != d0 {
				report("tree-modified/during-run", "the parsed tree differs from its dump before execution at a lock acquisition inside a statement")
			}
		}
		s.AddThread("run", func() {
			obs := &irrun.Obs{}
			e := irrun.NewEnv(obs)
			ctx := stepctx.Fuel(fuel)
			finish(obs, ctx, func() (interface{}, error) { return vm.RunContext(ctx, e, &vm.Options{Debug: false}, stmt) })
		})
		s.Run(nil)
	}
	if got := canary(); got != canaryWant {
		report("process-state-changed", "after running the program a fresh environment evaluates "+canarySrc+" (and the package tables) to "+got+", pristine: "+canaryWant)
		res.Cap("process-wide state was modified by a program; this worker's later cases were skipped")
		return first, false
	}
	return first, okForInterleave && first.panicked == ""
}

// interleaved runs n executions of the shared tree under the scheduler.
func interleaved(p prog, stmt ast.Stmt, n int, ch sched.Chooser, record bool) ([]outcome, string, *sched.Sched) {
	s := sched.New(ch)
	s.Record = record
	s.MaxSteps = 20000
	outs := make([]outcome, n)
	for t := 0; t < n; t++ {
		t := t
		s.AddThread(fmt.Sprintf("run%d", t), func() {
			obs := &irrun.Obs{}
			e := irrun.NewEnv(obs)
			ctx := stepctx.Fuel(fuel)
			ctx.OnPoll = func(i int64) { vhook.Yield("poll") }
			ctx.OnCancel = func() { s.MarkClosed(ctx.Chan()) }
			outs[t] = finish(obs, ctx, func() (interface{}, error) { return vm.RunContext(ctx, e, &vm.Options{Debug: false}, stmt) })
		})
	}
	verdict := s.Run(nil)
	return outs, verdict, s
}

func hasGo(src string) bool { return strings.Contains(src, "go ") }

func run(c *common.Ctx) *common.Result {
	res := common.NewResult()
	canaryWant = canary()
	// (3) two environments never see each other's bindings; runs before anything
	// else so that this process's first import of the package is the one observed
	isolation(res)
	variants(res)
	if !c.Worker || c.Shard == 0 {
		deepConcurrent(res)
	}
	progs := corpus(c)
	bound := 2
	if c.Thorough() {
		bound = 3
	}
	interleaveBudget := 0
	poisoned := false
	for pi, p := range progs {
		if !c.Mine(pi) {
			continue
		}
		if c.Expired() {
			res.Cap("soft deadline: not all programs explored")
			break
		}
		if poisoned {
			break
		}
		stmt, err := parser.ParseSrc(p.Src)
		if err != nil {
			res.Add("parse_errors", 1)
			continue
		}
		if mapOrderSensitive(p.Src) {
			res.Add("skipped_map_order_sensitive", 1)
			continue
		}
		res.Add("programs", 1)
		t0 := time.Now()
		solo, usable := sequential(p, stmt, res)
		res.Add("ms_sequential", time.Since(t0).Milliseconds())
		if canary() != canaryWant {
			poisoned = true
		}
		if solo.trace != "" || solo.val != "nil" {
			if res.Distinct("nontrivial", p.Src) {
				res.Add("distinct_nontrivial", 1)
			}
		}
		// interleaved part: handcrafted programs and a deterministic slice of the corpus
		// (every program of the shallow corpora; deeper ones in thorough)
		if !usable || hasGo(p.Src) || solo.polls < 2 || (p.Deep && c.Thorough()) {
			continue
		}
		if !p.Hand {
			interleaveBudget++
			every := 60
			if c.Thorough() {
				every = 20
			}
			if interleaveBudget%every != 0 {
				continue
			}
		}
		t1 := time.Now()
		for _, n := range []int{2, 3} {
			if n == 3 && (!p.Hand || p.Expect != "") {
				continue // three concurrent runs: handcrafted programs only (and not the long map loops)
			}
			b := bound
			if (n == 3 || !p.Hand) && b > 2 {
				b = 2 // preemption bound 3 only for two runs of the handcrafted programs
			}
			reported := false
			d0 := astdump.Dump(stmt)
			st := explore.DFS(explore.Options{Bound: b, MaxExecs: 40000, Deadline: c.Deadline}, func(r *explore.Run) bool {
				outs, verdict, s := interleaved(p, stmt, n, r, false)
				res.Add("transitions", int64(s.Steps))
				if r.Err != nil {
					res.Note("replay divergence: " + r.Err.Error())
					res.Cap("replay divergence (machinery)")
					return false
				}
				bad := ""
				if verdict != sched.OK {
					bad = "scheduler verdict " + verdict + " " + strings.Join(s.Blocked, ",")
				}
				for t, o := range outs {
					if bad != "" {
						break
					}
					o = normalise(o, p.Src)
					if o.key() != solo.key() {
						bad = fmt.Sprintf("run %d of %d interleaved runs of one shared tree: %s ; solo: %s", t+1, n, o.key(), solo.key())
					}
				}
				if bad == "" && astdump.Dump(stmt) != d0 {
					bad = "the shared tree was modified by the interleaved runs"
				}
				if bad != "" && !reported {
					choices := append([]int{}, r.Choices...)
					// replay the recorded schedule before trusting the failure
					r2 := &explore.Run{Prefix: choices}
					outs2, verdict2, _ := interleaved(p, stmt, n, r2, false)
					same := r2.Err == nil && verdict2 == verdict
					for t := range outs {
						if same && outs2[t].key() != outs[t].key() {
							same = false
						}
					}
					if !same {
						res.Note("a failing interleaving of " + p.Name + " did not replay identically: not reported")
						res.Cap("an execution did not replay identically (machinery)")
						return true
					}
					reported = true
					res.Violate(common.Violation{Class: "interleaved-differs-from-solo", Case: p.Src, Detail: bad + " | schedule=" + fmt.Sprint(choices),
						Replay: replayData{Prog: p, Mode: "interleaved", Threads: n, Choices: choices}})
					return false // one counterexample per program
				}
				return verdict != sched.Stuck
			})
			res.Add("schedules", st.Execs)
			res.Add("interleaved_programs", 1)
			if st.Capped {
				res.Cap("execution cap/deadline hit while interleaving " + p.Name)
			}
		}
		res.Add("ms_interleaved", time.Since(t1).Milliseconds())
		if p.Hand {
			res.Add("ms_interleaved_hand", time.Since(t1).Milliseconds())
		}
		if got := canary(); got != canaryWant {
			res.Violate(common.Violation{Class: "process-state-changed", Case: p.Src, Detail: "after interleaved runs: " + got, Replay: replayData{Prog: p, Mode: "sequential"}})
			res.Cap("process-wide state was modified by a program; this worker's later cases were skipped")
			poisoned = true
			break
		}
		if pi%977 == 0 || (p.Hand && pi%7 == 0) {
			res.Sample(map[string]interface{}{"program": p.Src, "solo": solo.key(), "polls": solo.polls})
		}
	}
	return res
}

func isolation(res *common.Result) {
	e1, e2 := env.NewEnv(), env.NewEnv()
	_, err1 := vm.Execute(e1, nil, "a = 1\nfunc f() { return a }\nmodule M { x = 1 }")
	_, err2 := vm.Execute(e2, nil, "b = 2\nfunc g() { return b }\nmodule N { y = 2 }")
	res.Add("isolation_checks", 1)
	if err1 != nil || err2 != nil {
		res.Note(fmt.Sprint("isolation programs failed: ", err1, err2))
		return
	}
	s1, s2 := e1.GetValueSymbols(), e2.GetValueSymbols()
	sort.Strings(s1)
	sort.Strings(s2)
	if strings.Join(s1, ",") != "M,a,f" || strings.Join(s2, ",") != "N,b,g" {
		res.Violate(common.Violation{Class: "environments-share-bindings", Case: "two fresh environments", Detail: fmt.Sprintf("e1 has %v, e2 has %v", s1, s2)})
	}
	for _, probe := range []string{"b", "g", "N"} {
		if _, err := e1.Get(probe); err == nil {
			res.Violate(common.Violation{Class: "environments-share-bindings", Case: "e1 sees " + probe, Detail: "a binding made in another environment is visible"})
		}
	}
	// import: the module handed to one environment must not give access to another
	// environment's bindings (in either order of importing)
	for _, pkg := range []string{"math", "regexp"} {
		ea, eb := env.NewEnv(), env.NewEnv()
		srcA := "leak" + pkg + " = \"secret of A\"\nm = import(\"" + pkg + "\")\nm.leak" + pkg + " ?? \"undef\""
		srcB := "m = import(\"" + pkg + "\")\nm.leak" + pkg + " ?? \"undef\""
		va, errA := vm.Execute(ea, nil, srcA)
		vb, errB := vm.Execute(eb, nil, srcB)
		res.Add("isolation_checks", 1)
		if errA != nil || errB != nil {
			res.Note(fmt.Sprint("import isolation programs failed: ", errA, errB))
			continue
		}
		_ = va
		if irrun.RenderGo(vb) != "\"undef\"" {
			res.Violate(common.Violation{Class: "environments-share-bindings/import", Case: "A: " + srcA + " || B: " + srcB,
				Detail: "environment B reads " + irrun.RenderGo(vb) + " through its imported module: a binding of the environment that imported the package first"})
		}
	}
	// the imported table is the importing environment's own copy whatever is done
	// with the result of the import expression: written through directly, handed to
	// a function, kept inside a container (no assignment to a name in between, which
	// would copy a scope anyway)
	forms := []struct{ name, a string }{
		{"member-assign on the import expression", "import(\"PKG\").zleak = \"patched\""},
		{"existing member overwritten on the import expression", "import(\"PKG\").MEMBER = \"patched\""},
		{"import handed to a function", "func patch(m) { m.zleak = \"patched\"; m.MEMBER = \"patched\" }\npatch(import(\"PKG\"))"},
		{"import kept in a map", "h = {\"k\": import(\"PKG\")}\nh.k.zleak = \"patched\"\nh.k.MEMBER = \"patched\""},
		{"import kept in a list", "l = [import(\"PKG\")]\nl[0].zleak = \"patched\"\nl[0].MEMBER = \"patched\""},
		{"import returned by a function", "func get() { return import(\"PKG\") }\nget().zleak = \"patched\"\nget().MEMBER = \"patched\""},
	}
	pkgs := []struct{ pkg, member string }{{"strings", "ToUpper"}, {"sort", "Ints"}, {"bytes", "NewBufferString"}, {"math", "Abs"}, {"os", "Getenv"}, {"time", "Now"}}
	for fi, fm := range forms {
		pk := pkgs[fi%len(pkgs)]
		srcA := strings.ReplaceAll(strings.ReplaceAll(fm.a, "PKG", pk.pkg), "MEMBER", pk.member)
		srcB := "[import(\"" + pk.pkg + "\").zleak ?? \"undef\", typeOf(import(\"" + pk.pkg + "\")." + pk.member + ") == \"string\"]"
		ea, eb, ec := env.NewEnv(), env.NewEnv(), env.NewEnv()
		core.Import(ea)
		core.Import(eb)
		core.Import(ec)
		want, err0 := vm.Execute(ec, nil, srcB)
		_, errA := vm.Execute(ea, nil, srcA)
		vb, errB := vm.Execute(eb, nil, srcB)
		res.Add("isolation_checks", 1)
		if err0 != nil || errB != nil {
			res.Note(fmt.Sprint("import isolation probe failed: ", err0, errB))
			continue
		}
		_ = errA // whether the write itself is allowed is not the point
		if irrun.RenderGo(vb) != irrun.RenderGo(want) {
			res.Violate(common.Violation{Class: "environments-share-bindings/import-result", Case: fm.name + " | A: " + srcA + " || B: " + srcB,
				Detail: "before A ran a fresh environment read " + irrun.RenderGo(want) + ", after A ran another fresh environment reads " + irrun.RenderGo(vb)})
		}
	}
}

// deepConcurrent: "every run yields the result it would yield alone" also when
// several runs are deep inside script calls AT THE SAME MOMENT: one shared tree
// that recurses D levels and then parks in a host function until all K runs have
// arrived there (a barrier: the maximal overlap, reached deterministically on
// real goroutines), for D up to 4000 and K = 3.  A resource the interpreter
// accounts for process-wide instead of per run (a call-depth guard, a frame pool
// with a limit) makes a run fail that succeeds alone.
func deepConcurrent(res *common.Result) {
	for _, depth := range []int{50, 1000, 4000} {
		src := fmt.Sprintf("func r(n) { if n == 0 { park(); return 0 }; return 1 + r(n - 1) }\nr(%d)", depth)
		stmt, err := parser.ParseSrc(src)
		if err != nil {
			res.Note("deep-recursion program does not parse: " + err.Error())
			return
		}
		// one Options value for all runs, as a host that configures the interpreter once does
		opts := &vm.Options{Debug: false}
		run := func(park func()) string {
			e := env.NewEnv()
			e.Define("park", park)
			v, err := vm.Run(e, opts, stmt)
			if err != nil {
				return "error: " + err.Error()
			}
			return irrun.RenderGo(v)
		}
		want := run(func() {})
		const k = 3
		var arrived sync.WaitGroup
		arrived.Add(k)
		released := make(chan struct{})
		go func() { arrived.Wait(); close(released) }()
		outs := make([]string, k)
		var done sync.WaitGroup
		for t := 0; t < k; t++ {
			t := t
			done.Add(1)
			go func() {
				defer done.Done()
				parked := false
				outs[t] = run(func() {
					if !parked {
						parked = true
						arrived.Done()
					}
					select {
					case <-released:
					case <-time.After(60 * time.Second):
					}
				})
				if !parked {
					arrived.Done() // the run ended without reaching the bottom: do not hold the others
				}
			}()
		}
		done.Wait()
		res.Add("deep_concurrent_runs", k)
		for t := 0; t < k; t++ {
			if outs[t] != want {
				res.Violate(common.Violation{Class: "concurrent-run-differs-from-solo/deep-recursion", Case: fmt.Sprintf("%d runs of one tree, each %d script calls deep at the same moment | %s", k, depth, src),
					Detail: fmt.Sprintf("run %d yields %s, alone the program yields %s", t, outs[t], want)})
				break
			}
		}
	}
}

// variants: one shared tree run on environments that DIFFER in host bindings (a
// type name, a value, a function): every run must equal the run of a freshly
// parsed tree on the same kind of environment alone.
var variantProgs = []string{
	"x = make(struct { ID Key })\nx.ID",
	"make(Key)",
	"a = make([]Key, 1)\na[0]",
	"m = map[string]Key{}\nm.k = hostv\nm.k",
	"hostf()",
	"func f() { return hostf() }\n[f(), hostv]",
	"[hostv, hostf(), make(Key)]",
	"x = make(struct { A Key, B []Key })\n[x.A, len(x.B)]",
	"func mk() { return make(struct { ID Key }) }\n[mk().ID, mk().ID]",
}

func variantEnv(v int) *env.Env {
	e := env.NewEnv()
	if v == 0 {
		e.DefineType("Key", int64(0))
		e.Define("hostv", int64(1))
		e.Define("hostf", func() string { return "A" })
	} else {
		e.DefineType("Key", "")
		e.Define("hostv", "b")
		e.Define("hostf", func() string { return "B" })
	}
	return e
}

func runVariant(stmt ast.Stmt, v int) string {
	defer func() { recover() }()
	val, err := vm.RunContext(stepctx.Fuel(fuel), variantEnv(v), &vm.Options{Debug: false}, stmt)
	e := ""
	if err != nil {
		e = " error"
	}
	return irrun.RenderGo(val) + fmt.Sprintf(" (%T)", val) + e
}

func variants(res *common.Result) {
	for _, src := range variantProgs {
		for _, order := range [][]int{{0, 1, 0, 1}, {1, 0, 1, 0}} {
			var ref [2]string
			for v := 0; v < 2; v++ {
				fresh, err := parser.ParseSrc(src)
				if err != nil {
					res.Note("variant program does not parse (machinery): " + src)
					return
				}
				ref[v] = runVariant(fresh, v)
			}
			shared, _ := parser.ParseSrc(src)
			d0 := astdump.Dump(shared)
			for i, v := range order {
				got := runVariant(shared, v)
				res.Add("variant_runs", 1)
				if got != ref[v] {
					res.Violate(common.Violation{Class: "shared-tree-differs-across-environments", Case: src,
						Detail: fmt.Sprintf("run %d of one shared tree on environment variant %d (order %v) yields %s; a freshly parsed tree on that environment alone yields %s", i+1, v, order, got, ref[v]),
						Replay: replayData{Prog: prog{Name: "variant", Src: src, Hand: true}, Mode: "variants"}})
					break
				}
			}
			if astdump.Dump(shared) != d0 {
				res.Violate(common.Violation{Class: "tree-modified/after-run", Case: src, Detail: "the shared tree changed while running on differing environments",
					Replay: replayData{Prog: prog{Name: "variant", Src: src, Hand: true}, Mode: "variants"}})
			}
		}
	}
}

func coverage(c *common.Ctx, r *common.Result) map[string]interface{} {
	return map[string]interface{}{
		"states":                        r.Counts["programs"],
		"transitions":                   r.Counts["transitions"] + r.Counts["dump_checks"],
		"traces_validated_against_impl": r.Counts["runs"],
		"evaluations":                   r.Counts["runs"] + r.Counts["schedules"],
		"distinct_nontrivial":           r.Counts["distinct_nontrivial"],
		"schedules":                     r.Counts["schedules"],
		"interleaved_programs":          r.Counts["interleaved_programs"],
		"tree_dump_checks":              r.Counts["dump_checks"],
		"rule": "corpus = 38 handcrafted programs aimed at the runtime data living next to the syntax (CallExpr.Func, literal values, the shared 1 of ++/--, cached small integers, nil/true/false reached through pointers, import tables) + the C08 control-flow corpus (depth<=2 quick / <=3 thorough) + the C09 try/defer corpus (depth<=1 / <=2); " +
			"sequential: each tree is parsed once, dumped by reflection (all fields, literal values, positions) and run 3 times on equal fresh environments, the dump is compared at every context poll and after every run, run k must equal run 1 (value, error status, probe trace), then a canary program on a fresh environment must still see pristine nil/true/false/small integers and package tables; " +
			"interleaved: 2 (and 3) runs of one shared tree on separate environments as scheduler threads, every context poll a schedule point, all interleavings within preemption bound 2 (quick) / 3 (thorough), every run must equal the solo run; non-trivial = produced a probe trace or a non-nil value; states = programs, transitions = scheduler steps + dump comparisons",
	}
}

func replay(c *common.Ctx, path string) int {
	var rd replayData
	if _, _, err := common.ReadReplay(path, &rd); err != nil {
		fmt.Println("cannot read replay:", err)
		return 2
	}
	canaryWant = canary()
	stmt, err := parser.ParseSrc(rd.Prog.Src)
	if err != nil {
		fmt.Println("parse:", err)
		return 2
	}
	fmt.Println(rd.Prog.Src)
	res := common.NewResult()
	if rd.Mode == "variants" {
		r2 := common.NewResult()
		variantProgs = []string{rd.Prog.Src}
		variants(r2)
		for _, v := range r2.Violations {
			fmt.Println(v.Class, ":", v.Detail)
		}
		if len(r2.Violations) > 0 {
			return 1
		}
		fmt.Println("replay: no divergence")
		return 0
	}
	if rd.Mode == "interleaved" {
		solo := normalise(runSolo(stmt, nil), rd.Prog.Src)
		var first string
		for round := 0; round < 2; round++ {
			r := &explore.Run{Prefix: rd.Choices}
			outs, verdict, _ := interleaved(rd.Prog, stmt, rd.Threads, r, true)
			desc := verdict
			for _, o := range outs {
				desc += " | " + o.key()
			}
			if round == 0 {
				first = desc
				fmt.Println("solo:", solo.key())
				fmt.Println("interleaved:", desc)
			} else if desc != first {
				fmt.Println("NONDETERMINISTIC replay")
				return 2
			}
			for _, o := range outs {
				o = normalise(o, rd.Prog.Src)
				if o.key() != solo.key() || verdict != sched.OK {
					if round == 1 {
						return 1
					}
				}
			}
		}
		return 0
	}
	sequential(rd.Prog, stmt, res)
	for _, v := range res.Violations {
		fmt.Println(v.Class, ":", v.Detail)
	}
	if len(res.Violations) > 0 {
		return 1
	}
	fmt.Println("replay: no divergence")
	return 0
}

func init() {
	common.Register(&common.Prop{
		ID: "C14", Level: "model_checking", Sharded: true, Run: run, Coverage: coverage, Replay: replay, Race: raceBody,
		Assumptions: []string{
			"interleavings of concurrent runs are explored at statement granularity (every context poll of the interpreter is a schedule point); code between two polls is atomic",
			"the reflection-based dump sees every field of every node, literal values by value and function-valued slots by validity/nil-ness",
			"goroutine-free programs only (the repeatability clause excludes goroutines); map iteration order is fixed by single-entry maps in the corpora",
		},
	})
}
