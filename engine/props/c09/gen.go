package c09

import (
	"fmt"
	"strings"

	"verif/engine/lib/ir"
)

// ---------------------------------------------------------------------------
// The program space.  A spine program is
//
//	p; D*; W1[ p; D*; W2[ p; D*; W3[ p; D* ]; p ]; p ]; p(z, 77)
//
// where every Wi is one of the wrappers below, D* is a (possibly empty)
// sequence of defer statements placed in the statement list of ONE level, and
// at most one failure point (throw, undefined name, failing host call, return)
// sits at one statement position of one level.  Every statement list has a
// probe before and after the nested construct - in particular after every
// failure point.
// ---------------------------------------------------------------------------

type gen struct{ n int }

func (g *gen) id() int { g.n++; return g.n }

func (g *gen) p() ir.Stmt { return ir.P(g.id()) }

func cat(parts ...[]ir.Stmt) []ir.Stmt {
	var out []ir.Stmt
	for _, p := range parts {
		out = append(out, p...)
	}
	return out
}

type wrapper struct {
	name       string
	invocation bool // the hole is the body of its own invocation (function / deferred callee)
	build      func(g *gen, hole []ir.Stmt) []ir.Stmt
}

var wrappers = []wrapper{
	// ---- the hole is a try body ----
	{name: "try", build: func(g *gen, h []ir.Stmt) []ir.Stmt {
		return []ir.Stmt{ir.Try{Body: h, Catch: []ir.Stmt{g.p()}}}
	}},
	{name: "try-var-finally", build: func(g *gen, h []ir.Stmt) []ir.Stmt {
		e := fmt.Sprintf("e%d", g.id())
		return []ir.Stmt{ir.Try{Body: h, CatchVar: e, Catch: []ir.Stmt{ir.V(ir.Var{Name: e}), g.p()}, HasFinally: true, Finally: []ir.Stmt{g.p()}}}
	}},
	// the catch block re-throws what it caught: the error goes on to the next
	// enclosing try / the host (whatever was caught, a throw statement raises)
	{name: "try-rethrow", build: func(g *gen, h []ir.Stmt) []ir.Stmt {
		e := fmt.Sprintf("e%d", g.id())
		return []ir.Stmt{ir.Try{Body: h, CatchVar: e, Catch: []ir.Stmt{g.p(), ir.Throw{X: ir.Var{Name: e}}}}}
	}},
	// ---- the hole is a catch block ----
	{name: "catch-var", build: func(g *gen, h []ir.Stmt) []ir.Stmt {
		k := g.id()
		e := fmt.Sprintf("e%d", k)
		return []ir.Stmt{ir.Try{Body: []ir.Stmt{g.p(), ir.Throw{X: ir.S(fmt.Sprintf("T%d", k))}, g.p()}, CatchVar: e,
			Catch: cat([]ir.Stmt{ir.V(ir.Var{Name: e})}, h)}}
	}},
	{name: "catch-finally", build: func(g *gen, h []ir.Stmt) []ir.Stmt {
		return []ir.Stmt{ir.Try{Body: []ir.Stmt{ir.ExprStmt{X: ir.Var{Name: "undefinedName"}}, g.p()}, Catch: h, HasFinally: true, Finally: []ir.Stmt{g.p()}}}
	}},
	// ---- the hole is a finally block ----
	{name: "finally-after-success", build: func(g *gen, h []ir.Stmt) []ir.Stmt {
		return []ir.Stmt{ir.Try{Body: []ir.Stmt{g.p()}, Catch: []ir.Stmt{g.p()}, HasFinally: true, Finally: h}}
	}},
	{name: "finally-after-caught", build: func(g *gen, h []ir.Stmt) []ir.Stmt {
		return []ir.Stmt{ir.Try{Body: []ir.Stmt{ir.Throw{X: ir.S(fmt.Sprintf("T%d", g.id()))}}, Catch: []ir.Stmt{g.p()}, HasFinally: true, Finally: h}}
	}},
	// ---- function invocation (direct call path and reflect call path) ----
	{name: "func", invocation: true, build: func(g *gen, h []ir.Stmt) []ir.Stmt {
		f := fmt.Sprintf("f%d", g.id())
		return []ir.Stmt{ir.Func(f, nil, cat(h, []ir.Stmt{ir.Return{Vals: []ir.Expr{ir.I(9)}}})), ir.V(ir.CallNamed(f))}
	}},
	{name: "func-variadic", invocation: true, build: func(g *gen, h []ir.Stmt) []ir.Stmt {
		f := fmt.Sprintf("g%d", g.id())
		lit := &ir.FuncLit{Params: []string{"a"}, VarArg: true, Body: cat(h, []ir.Stmt{ir.Return{Vals: []ir.Expr{ir.I(9)}}})}
		return []ir.Stmt{ir.Set(f, lit), ir.V(ir.CallNamed(f, ir.I(1), ir.I(2)))}
	}},
	// ---- loops and branches ----
	{name: "forin", build: func(g *gen, h []ir.Stmt) []ir.Stmt {
		x := fmt.Sprintf("x%d", g.id())
		return []ir.Stmt{ir.ForIn{Vars: []string{x}, Coll: ir.List{Elems: []ir.Expr{ir.I(10), ir.I(20)}},
			Body: cat([]ir.Stmt{ir.V(ir.Var{Name: x})}, h)}}
	}},
	{name: "loop", build: func(g *gen, h []ir.Stmt) []ir.Stmt {
		return []ir.Stmt{ir.Loop{Cond: ir.Seq{ID: g.id(), Vals: []ir.Expr{ir.I(1), ir.I(1), ir.I(0)}}, Body: h}}
	}},
	{name: "if", build: func(g *gen, h []ir.Stmt) []ir.Stmt {
		return []ir.Stmt{ir.If{Cond: ir.Bool{V: true}, Then: h, HasElse: true, Else: []ir.Stmt{g.p()}}}
	}},
	// ---- the hole is the body of a deferred callee ----
	{name: "deferred", invocation: true, build: func(g *gen, h []ir.Stmt) []ir.Stmt {
		return []ir.Stmt{ir.Defer{Call: ir.Call{Fn: &ir.FuncLit{Body: h}}}}
	}},
}

// failure point kinds
const (
	failNone = iota
	failThrow
	failUndefined
	failReturn
	failHostCall    // boom(k): a Go function that panics, called directly in the body
	failCloseClosed // c = mkch(); close(c): the Go runtime refuses (enumerated with a failing deferred callee only)
	// func() { break }() / func() { continue }(): a loop signal with no loop of its
	// own invocation is a runtime error of the CALL; the loops of the callers are
	// not addressed by it (enumerated under wrapper tuples that contain a loop)
	failStrayBreak
	failStrayContinue
	failThrowEmpty // throw "": an empty message is a throw like any other
	// throw "execution interrupted": a script error is a script error whatever its
	// text says; only a cancelled context interrupts (and here none is cancelled)
	failThrowInterruptText
	numFail
)

var failNames = [...]string{"none", "throw", "undefined-name", "return", "failing-host-call", "close-closed-channel", "stray-break-in-callee", "stray-continue-in-callee", "throw-empty-string", "throw-text-of-the-interrupt-error"}

const failTag = 1

func (g *gen) failStmt(kind int) []ir.Stmt {
	switch kind {
	case failThrow:
		return []ir.Stmt{ir.Throw{X: ir.S(fmt.Sprintf("F%d", g.id())), Tag: failTag}}
	case failUndefined:
		return []ir.Stmt{ir.ExprStmt{X: ir.Var{Name: "undefinedName"}, Tag: failTag}}
	case failReturn:
		return []ir.Stmt{ir.Return{Vals: []ir.Expr{ir.I(5)}, Tag: failTag}}
	case failHostCall:
		return []ir.Stmt{ir.ExprStmt{X: ir.Boom{ID: g.id()}, Tag: failTag}}
	case failThrowEmpty:
		return []ir.Stmt{ir.Throw{X: ir.S(""), Tag: failTag}}
	case failThrowInterruptText:
		return []ir.Stmt{ir.Throw{X: ir.S("execution interrupted"), Tag: failTag}}
	case failStrayBreak:
		return []ir.Stmt{ir.ExprStmt{X: ir.Call{Fn: &ir.FuncLit{Body: []ir.Stmt{ir.Break{}}}}, Tag: failTag}}
	case failStrayContinue:
		return []ir.Stmt{ir.ExprStmt{X: ir.Call{Fn: &ir.FuncLit{Body: []ir.Stmt{ir.Continue{}}}}, Tag: failTag}}
	case failCloseClosed:
		c := fmt.Sprintf("c%d", g.id())
		return []ir.Stmt{ir.Set(c, ir.ChanOf{}), ir.Close{X: ir.Var{Name: c}, Tag: failTag}}
	}
	panic("bad failure kind")
}

// hasLoop reports whether a wrapper tuple contains a loop.
func hasLoop(ws []int) bool {
	for _, w := range ws {
		if n := wrappers[w].name; n == "forin" || n == "loop" {
			return true
		}
	}
	return false
}

// failingDeferred reports whether the defer kinds contain a deferred callee
// that fails (the error-precedence rule needs one).
func failingDeferred(kinds []int) bool {
	for _, k := range kinds {
		if k == deferThrows || k == deferHostPanics || k == deferNilFunc {
			return true
		}
	}
	return false
}

// defer statement kinds (the deferred callee)
const (
	deferProbe      = iota     // defer p(k)
	deferClosure               // x = 1; defer func(a) { v(a, x) }(x); x = 2   - argument as evaluated at the defer, captured variable as at the exit
	deferThrows                // defer func() { throw "Dk" }()
	deferDefers                // defer func() { defer p(k1); p(k2) }()
	baseDefer                  // ---- kinds below: the deferred callee ITSELF is a Go function that panics ----
	deferHostPanics = iota - 1 // defer boom(k)   - a host function that panics, deferred directly
	deferNilFunc               // defer nilfn()   - a nil Go function value, deferred directly
	numDefer
)

var deferNames = [...]string{"probe", "closure", "throws", "defers", "host-panics", "nil-func"}

func (g *gen) deferGroup(kind int) []ir.Stmt {
	switch kind {
	case deferProbe:
		return []ir.Stmt{ir.Defer{Call: ir.Probe{ID: g.id()}}}
	case deferClosure:
		// arguments as evaluated at the defer statement (a variable and a list
		// ELEMENT, both changed afterwards), the captured variable as at the exit;
		// once through a script closure, once with a host function deferred directly
		k := g.id()
		x, l := fmt.Sprintf("x%d", k), fmt.Sprintf("l%d", k)
		lit := &ir.FuncLit{Params: []string{"a", "b"}, Body: []ir.Stmt{ir.V(ir.Var{Name: "a"}, ir.Var{Name: "b"}, ir.Var{Name: x})}}
		return []ir.Stmt{ir.Set(x, ir.I(1)), ir.Set(l, ir.List{Elems: []ir.Expr{ir.I(1)}}),
			ir.Defer{Call: ir.Call{Fn: lit, Args: []ir.Expr{ir.Var{Name: x}, ir.Elem{Name: l, I: 0}}}},
			ir.Defer{Call: ir.Show{Args: []ir.Expr{ir.Var{Name: x}, ir.Elem{Name: l, I: 0}}}},
			ir.Set(x, ir.I(2)), ir.SetElem{Name: l, I: 0, Val: ir.I(2)}}
	case deferThrows:
		lit := &ir.FuncLit{Body: []ir.Stmt{ir.Throw{X: ir.S(fmt.Sprintf("D%d", g.id()))}}}
		return []ir.Stmt{ir.Defer{Call: ir.Call{Fn: lit}}}
	case deferDefers:
		lit := &ir.FuncLit{Body: []ir.Stmt{ir.Defer{Call: ir.Probe{ID: g.id()}}, g.p()}}
		return []ir.Stmt{ir.Defer{Call: ir.Call{Fn: lit}}}
	case deferHostPanics:
		return []ir.Stmt{ir.Defer{Call: ir.Boom{ID: g.id()}}}
	case deferNilFunc:
		return []ir.Stmt{ir.Defer{Call: ir.Call{Fn: ir.HostNilFunc{}}}}
	}
	panic("bad defer kind")
}

// Spec is the coordinate of one program (and the replay payload).
type Spec struct {
	Fam        string `json:"fam,omitempty"`  // "" = spine with defer groups, "rebind" = one `defer name(args)` statement executed several times
	A          int    `json:"a,omitempty"`    // rebind: form
	B          int    `json:"b,omitempty"`    // rebind: exit of the deferring body (0 normal, 1 throw, 2 return)
	C          int    `json:"c,omitempty"`    // rebind: 0 = two executions, 1 = three
	Ws         []int  `json:"ws,omitempty"`   // wrapper indices, outermost first
	Fail       int    `json:"fail,omitempty"` // failure kind
	Level      int    `json:"lvl,omitempty"`  // level whose statement list holds the failure point
	Pos        int    `json:"pos,omitempty"`  // statement position in that list
	Defers     []int  `json:"defers,omitempty"`
	DeferLevel int    `json:"dlvl,omitempty"` // level whose statement list holds the defer statements
}

// slots of the statement list of one level:
//
//	innermost:  [probe] [defer group]?
//	otherwise:  [probe] [defer group]? [construct] [probe]
//
// a failure point may sit before any slot or at the end.
func positions(sp Spec, level int) int {
	n := 3
	if level == len(sp.Ws) {
		n = 1
	}
	if len(sp.Defers) > 0 && sp.DeferLevel == level {
		n++
	}
	if len(sp.Ws) == 0 {
		n++ // the final value probe of an otherwise empty program
	}
	return n + 1
}

func buildSpine(sp Spec) []ir.Stmt {
	return buildSpineWith(sp, nil)
}

// buildSpineWith: payload (may be nil) replaces the innermost probe.
func buildSpineWith(sp Spec, payload func(g *gen) []ir.Stmt) []ir.Stmt {
	g := &gen{}
	depth := len(sp.Ws)
	var body func(level int) []ir.Stmt
	body = func(level int) []ir.Stmt {
		var slots [][]ir.Stmt
		if level == depth && payload != nil {
			slots = append(slots, cat([]ir.Stmt{g.p()}, payload(g)))
		} else {
			slots = append(slots, []ir.Stmt{g.p()})
		}
		if len(sp.Defers) > 0 && sp.DeferLevel == level {
			var ds []ir.Stmt
			for _, k := range sp.Defers {
				ds = append(ds, g.deferGroup(k)...)
			}
			slots = append(slots, ds)
		}
		if level < depth {
			// the failure statement of THIS level is created after the nested
			// levels so that ids grow outside-in, left to right
			inner := body(level + 1)
			slots = append(slots, wrappers[sp.Ws[level]].build(g, inner))
			if level == 0 {
				slots = append(slots, []ir.Stmt{ir.PV(g.id(), ir.I(77))})
			} else {
				slots = append(slots, []ir.Stmt{g.p()})
			}
		} else if depth == 0 {
			slots = append(slots, []ir.Stmt{ir.PV(g.id(), ir.I(77))})
		}
		var list []ir.Stmt
		for i, s := range slots {
			if sp.Fail != failNone && sp.Level == level && sp.Pos == i {
				list = append(list, g.failStmt(sp.Fail)...)
			}
			list = append(list, s...)
		}
		if sp.Fail != failNone && sp.Level == level && sp.Pos >= len(slots) {
			list = append(list, g.failStmt(sp.Fail)...)
		}
		return list
	}
	return body(0)
}

func whereName(sp Spec, level int) string {
	if level == 0 {
		return "toplevel"
	}
	return wrappers[sp.Ws[level-1]].name
}

func deferNamesOf(sp Spec) string {
	if len(sp.Defers) == 0 {
		return "-"
	}
	names := make([]string, len(sp.Defers))
	for i, k := range sp.Defers {
		names[i] = deferNames[k]
	}
	return strings.Join(names, "+") + "@" + whereName(sp, sp.DeferLevel)
}

func pathName(sp Spec) string {
	if len(sp.Ws) == 0 {
		return "toplevel"
	}
	names := make([]string, len(sp.Ws))
	for i, w := range sp.Ws {
		names[i] = wrappers[w].name
	}
	return strings.Join(names, ">")
}

// ---- family "rebind": the plain-name form `defer name(args)` executed several
// times while the name denotes a different function each time.  Every
// execution registers the function the name denotes THEN (callee "as evaluated
// at the defer statement"). ----

var rebindForms = []string{"callback-parameter", "local-closure", "recursion-local-function", "loop-over-closures", "variable-rebound-in-loop", "loop-over-callbacks-in-function", "recursive-function-called-again"}

var rebindExits = []string{"normal", "throw", "return"}

func rebindPayload(sp Spec) func(g *gen) []ir.Stmt {
	return func(g *gen) []ir.Stmt {
		n := 2 + sp.C
		k := g.id()
		name := func(base string, i int) string { return fmt.Sprintf("%s%d_%d", base, k, i) }
		v := func(n string) ir.Expr { return ir.Var{Name: n} }
		// a1, a2, (a3): log their own name and their argument
		var defs []ir.Stmt
		var fns []ir.Expr
		for i := 1; i <= n; i++ {
			a := name("a", i)
			defs = append(defs, ir.Func(a, []string{"x"}, []ir.Stmt{ir.V(ir.S(a), v("x"))}))
			fns = append(fns, v(a))
		}
		exit := func() []ir.Stmt {
			switch sp.B {
			case 1:
				return []ir.Stmt{ir.Throw{X: ir.S(fmt.Sprintf("F%d", g.id())), Tag: failTag}}
			case 2:
				return []ir.Stmt{ir.Return{Vals: []ir.Expr{ir.I(5)}, Tag: failTag}}
			}
			return nil
		}
		// guarded runs a call statement inside a try so that a failing
		// invocation does not prevent the next one
		guarded := func(call ir.Expr) ir.Stmt {
			e := fmt.Sprintf("e%d", g.id())
			return ir.Try{Body: []ir.Stmt{ir.V(call)}, CatchVar: e, Catch: []ir.Stmt{ir.V(v(e))}}
		}
		switch sp.A {
		case 0:
			run := name("run", 0)
			body := cat([]ir.Stmt{g.p(), ir.Defer{Call: ir.CallNamed("cb", ir.I(1))}}, exit(), []ir.Stmt{g.p(), ir.Return{Vals: []ir.Expr{ir.I(9)}}})
			out := append(defs, ir.Func(run, []string{"cb"}, body))
			for _, f := range fns {
				out = append(out, guarded(ir.CallNamed(run, f)))
			}
			return out
		case 1:
			mk := name("mk", 0)
			h := &ir.FuncLit{Params: []string{"x"}, Body: []ir.Stmt{ir.V(v("t"), v("x"))}}
			body := cat([]ir.Stmt{ir.Set("h", h), ir.Defer{Call: ir.CallNamed("h", ir.I(1))}}, exit(), []ir.Stmt{g.p(), ir.Return{Vals: []ir.Expr{v("t")}}})
			out := []ir.Stmt{ir.Func(mk, []string{"t"}, body)}
			for i := 0; i < n; i++ {
				out = append(out, guarded(ir.CallNamed(mk, ir.S(string(rune('A'+i))))))
			}
			return out
		case 2:
			rec := name("rec", 0)
			body := cat([]ir.Stmt{
				ir.Func("loc", []string{"x"}, []ir.Stmt{ir.V(v("n"), v("x"))}),
				ir.Defer{Call: ir.CallNamed("loc", ir.Bin{Op: "*", L: v("n"), R: ir.I(10)})},
				ir.If{Cond: ir.Bin{Op: ">", L: v("n"), R: ir.I(0)}, Then: []ir.Stmt{ir.ExprStmt{X: ir.CallNamed(rec, ir.Bin{Op: "-", L: v("n"), R: ir.I(1)})}}}},
				exit(), []ir.Stmt{g.p(), ir.Return{Vals: []ir.Expr{v("n")}}})
			return []ir.Stmt{ir.Func(rec, []string{"n"}, body), guarded(ir.CallNamed(rec, ir.I(int64(n-1))))}
		case 3:
			f := name("f", 0)
			loop := ir.ForIn{Vars: []string{f}, Coll: ir.List{Elems: fns}, Body: []ir.Stmt{ir.Defer{Call: ir.CallNamed(f, ir.I(1))}, g.p()}}
			return cat(defs, []ir.Stmt{loop}, exit())
		case 4:
			gv, i := name("g", 0), name("i", 0)
			var elems []ir.Expr
			for j := 1; j <= n; j++ {
				elems = append(elems, ir.I(int64(j)))
			}
			// g = a1; for i in [1,2,(3)] { defer g(i); g = a<next> }
			next := ir.Stmt(ir.Set(gv, fns[1]))
			if n == 3 {
				next = ir.If{Cond: ir.Bin{Op: "==", L: v(i), R: ir.I(1)}, Then: []ir.Stmt{ir.Set(gv, fns[1])}, HasElse: true, Else: []ir.Stmt{ir.Set(gv, fns[2])}}
			}
			loop := ir.ForIn{Vars: []string{i}, Coll: ir.List{Elems: elems}, Body: []ir.Stmt{ir.Defer{Call: ir.CallNamed(gv, v(i))}, next}}
			return cat(defs, []ir.Stmt{ir.Set(gv, fns[0]), loop}, exit())
		case 5:
			run := name("run", 0)
			loop := ir.ForIn{Vars: []string{"cb"}, Coll: v("cbs"), Body: []ir.Stmt{ir.Defer{Call: ir.CallNamed("cb", ir.I(2))}}}
			body := cat([]ir.Stmt{g.p(), loop}, exit(), []ir.Stmt{g.p(), ir.Return{Vals: []ir.Expr{ir.I(9)}}})
			return cat(defs, []ir.Stmt{ir.Func(run, []string{"cbs"}, body), guarded(ir.CallNamed(run, ir.List{Elems: fns}))})
		case 6:
			// a recursive function with a defer per invocation, called again after it has
			// finished: nested invocations of ONE function value are live at once, and an
			// earlier call has left behind whatever an invocation leaves behind
			rec := name("rec", 0)
			body := cat([]ir.Stmt{
				ir.Defer{Call: ir.Show{Args: []ir.Expr{ir.S("exit"), v("n")}}},
				ir.Defer{Call: ir.Show{Args: []ir.Expr{ir.S("exit2"), v("n")}}},
				ir.If{Cond: ir.Bin{Op: ">", L: v("n"), R: ir.I(0)}, Then: []ir.Stmt{ir.ExprStmt{X: ir.CallNamed(rec, ir.Bin{Op: "-", L: v("n"), R: ir.I(1)})}}, HasElse: true, Else: exit()}},
				[]ir.Stmt{g.p(), ir.Return{Vals: []ir.Expr{v("n")}}})
			out := []ir.Stmt{ir.Func(rec, []string{"n"}, body)}
			for i := 0; i < n; i++ {
				out = append(out, guarded(ir.CallNamed(rec, ir.I(2))))
			}
			return out
		}
		panic("bad rebind form")
	}
}
