// Package c09: errors reach the nearest try; deferred calls run exactly once,
// LIFO, on every exit.  Bounded exhaustive enumeration of spine programs over
// try / catch / finally positions, function invocations, loops, branches and
// deferred callees, with 0..n defer statements and one failure point (throw,
// runtime error, return) at every statement position of every level; the
// expected probe trace, result and error come from the definitional reference
// interpreter lib/ir, the rendered source runs on the real interpreter under a
// counting context.
package c09

import (
	"encoding/binary"
	"fmt"
	"hash/fnv"
	"reflect"
	"strings"

	"verif/engine/common"
	"verif/engine/lib/ir"
	"verif/engine/lib/irrun"
)

var implFuel = irrun.FuelFor(ir.DefaultFuel)

type program struct {
	spec  Spec
	stmts []ir.Stmt
	src   string
}

func build(sp Spec) (program, error) {
	for _, w := range sp.Ws {
		if w < 0 || w >= len(wrappers) {
			return program{}, fmt.Errorf("wrapper index %d out of range", w)
		}
	}
	for _, d := range sp.Defers {
		if d < 0 || d >= numDefer {
			return program{}, fmt.Errorf("defer kind %d out of range", d)
		}
	}
	if sp.Fail < 0 || sp.Fail >= numFail || sp.DeferLevel < 0 || sp.DeferLevel > len(sp.Ws) {
		return program{}, fmt.Errorf("bad coordinates")
	}
	if sp.Fail != failNone && (sp.Level < 0 || sp.Level > len(sp.Ws) || sp.Pos < 0 || sp.Pos >= positions(sp, sp.Level)) {
		return program{}, fmt.Errorf("failure position out of range")
	}
	pr := program{spec: sp}
	switch sp.Fam {
	case "":
		pr.stmts = buildSpine(sp)
	case "rebind":
		if sp.A < 0 || sp.A >= len(rebindForms) || sp.B < 0 || sp.B >= len(rebindExits) || sp.C < 0 || sp.C > 1 || sp.Fail != failNone || len(sp.Defers) > 0 {
			return program{}, fmt.Errorf("bad rebind coordinates")
		}
		pr.stmts = buildSpineWith(Spec{Ws: sp.Ws}, rebindPayload(sp))
	default:
		return program{}, fmt.Errorf("unknown family %q", sp.Fam)
	}
	pr.src = ir.Source(pr.stmts)
	return pr, nil
}

type verdict struct {
	skipped    string
	reached    bool
	class      string
	detail     string
	exp        *ir.Outcome // the accepted (or the default) reference outcome
	obs        *irrun.Obs
	resolution string // which resolution of the under-determined points matched
	tried      int
}

// the three under-determined points the reference can resolve either way
type resolution struct {
	trySignalsCaught, finallyOnCatchExit, finallyOnTrySignal bool
}

func (r resolution) String() string {
	return fmt.Sprintf("try-catches-signals=%v finally-after-failed-catch=%v finally-after-signal=%v", r.trySignalsCaught, r.finallyOnCatchExit, r.finallyOnTrySignal)
}

// check executes one program on the implementation and on the reference under
// every relevant resolution; the implementation has to match one of them
// completely (one resolution for the whole run).
func check(pr program) verdict {
	var v verdict
	obs := irrun.Exec(pr.src, implFuel)
	v.obs = obs
	if obs.ParseErr != "" {
		v.skipped = "PARSE: " + obs.ParseErr
		return v
	}
	if obs.Panic != "" {
		v.skipped = "PANIC: " + obs.Panic
		return v
	}
	var used uint32
	var firstKind, firstDetail, undetermined string
	tried := map[resolution]bool{}
	try := func(r resolution) (matched bool) {
		tried[r] = true
		reached := false
		exp := ir.Run(pr.stmts, ir.Config{
			TrySignalsCaught: r.trySignalsCaught, FinallyOnCatchExit: r.finallyOnCatchExit, FinallyOnTrySignal: r.finallyOnTrySignal,
			MapOrder: irrun.FollowMapOrder(obs), OnSignal: func(int) { reached = true }, StraySignalIsError: true})
		used |= exp.Used
		if v.exp == nil {
			v.exp = exp
			v.reached = reached || !hasFailurePoint(pr.spec)
		}
		switch exp.Status {
		case ir.Undetermined:
			// an allowed resolution under which the properties stop deciding:
			// nothing can be demanded of this program
			if undetermined == "" {
				undetermined = "undetermined: " + exp.Reason
			}
			return false
		case ir.OutOfFuel:
			if obs.Interrupted {
				v.exp = exp
				v.resolution = r.String()
				return true
			}
			if firstKind == "" {
				firstKind, firstDetail = "nontermination", "the reference does not terminate within its step budget, the implementation does"
			}
			return false
		}
		kind, detail := irrun.Diff(exp, obs)
		if kind == "" {
			v.exp = exp
			v.reached = reached || !hasFailurePoint(pr.spec)
			v.resolution = r.String()
			return true
		}
		if firstKind == "" {
			firstKind, firstDetail = kind, detail
		}
		return false
	}
	matched := try(resolution{})
	// widen over the resolutions that some run reported as relevant
	for !matched {
		var cands []resolution
		for m := 0; m < 8; m++ {
			r := resolution{m&1 != 0, m&2 != 0, m&4 != 0}
			if r.trySignalsCaught && used&ir.UsedTrySignal == 0 ||
				r.finallyOnCatchExit && used&ir.UsedFinallyOnCatchExit == 0 ||
				r.finallyOnTrySignal && used&ir.UsedFinallyOnTrySignal == 0 {
				continue
			}
			if !tried[r] {
				cands = append(cands, r)
			}
		}
		if len(cands) == 0 {
			break
		}
		for _, r := range cands {
			if try(r) {
				matched = true
				break
			}
		}
	}
	v.tried = len(tried)
	if matched {
		return v
	}
	if undetermined != "" || firstKind == "" {
		v.skipped = undetermined
		if v.skipped == "" {
			v.skipped = "no resolution decided"
		}
		return v
	}
	sp := pr.spec
	where := "-"
	if sp.Fail != failNone {
		where = whereName(sp, sp.Level)
	}
	v.class = firstKind + "/" + failNames[sp.Fail] + "@" + where + "/defers:" + deferNamesOf(sp)
	if sp.Fam == "rebind" {
		v.class = "defer-rebind/" + firstKind + "/" + rebindForms[sp.A] + "/exit:" + rebindExits[sp.B] + "/in:" + pathName(sp)
	}
	v.detail = fmt.Sprintf("(path %s; %d resolution(s) of the under-determined points tried, none matches) %s", pathName(sp), len(tried), firstDetail) + confirmPlain(pr.src, obs)
	return v
}

func hasFailurePoint(sp Spec) bool {
	return sp.Fail != failNone || sp.Fam == "rebind" && sp.B > 0
}

func confirmPlain(src string, obs *irrun.Obs) string {
	if obs.Interrupted {
		return " [not re-run with plain vm.Execute: the program does not terminate]"
	}
	pl := irrun.ExecPlain(src)
	if reflect.DeepEqual(pl.Trace, obs.Trace) && pl.Result == obs.Result && pl.Failed == obs.Failed && pl.ErrMsg == obs.ErrMsg && pl.Panic == obs.Panic {
		return " [confirmed with plain vm.Execute]"
	}
	return fmt.Sprintf(" [plain vm.Execute differs: trace %v result %s err %q]", pl.Trace, pl.Result, pl.ErrMsg)
}

func srcKey(s string) string {
	h := fnv.New64a()
	h.Write([]byte(s))
	var b [8]byte
	binary.LittleEndian.PutUint64(b[:], h.Sum64())
	return string(b[:])
}

// ---- enumeration ----

func tuples(n int) [][]int {
	out := [][]int{{}}
	for i := 0; i < n; i++ {
		var next [][]int
		for _, t := range out {
			for w := range wrappers {
				next = append(next, append(append([]int(nil), t...), w))
			}
		}
		out = next
	}
	return out
}

// deferSeqs lists every sequence of defer kinds of length 0..max.
//
// panicking == false: the four script-level kinds only (incl. the empty
// sequence); panicking == true: all six kinds, only the sequences that contain
// at least one deferred Go callee that panics (host-panics, nil-func) - at
// every position among the other kinds.
func deferSeqs(max int, panicking bool) [][]int {
	kinds := baseDefer
	if panicking {
		kinds = numDefer
	}
	all := [][]int{nil}
	level := [][]int{nil}
	for l := 1; l <= max; l++ {
		var next [][]int
		for _, s := range level {
			for k := 0; k < kinds; k++ {
				next = append(next, append(append([]int(nil), s...), k))
			}
		}
		all = append(all, next...)
		level = next
	}
	if !panicking {
		return all
	}
	var out [][]int
	for _, s := range all {
		for _, k := range s {
			if k >= baseDefer {
				out = append(out, s)
				break
			}
		}
	}
	return out
}

// specsFor lists every program over the wrapper tuple ws with at most maxDefers defer statements.
func specsFor(ws []int, maxDefers int, panicking bool) []Spec {
	var specs []Spec
	depth := len(ws)
	for _, ds := range deferSeqs(maxDefers, panicking) {
		for dl := 0; dl <= depth; dl++ {
			if len(ds) == 0 && dl > 0 {
				break
			}
			base := Spec{Ws: ws, Defers: ds, DeferLevel: dl}
			specs = append(specs, base)
			for f := failThrow; f < numFail; f++ {
				if f == failCloseClosed && !failingDeferred(ds) {
					continue
				}
				if (f == failStrayBreak || f == failStrayContinue) && !hasLoop(ws) {
					continue
				}
				for lvl := 0; lvl <= depth; lvl++ {
					for pos := 0; pos < positions(base, lvl); pos++ {
						sp := base
						sp.Fail, sp.Level, sp.Pos = f, lvl, pos
						specs = append(specs, sp)
					}
				}
			}
		}
	}
	return specs
}

type job struct {
	ws        []int
	maxDefers int
	panicking bool // the defer sequences with a Go callee that panics
	rebind    bool // the rebind family under this wrapper tuple
}

func rebindSpecs(ws []int) []Spec {
	var specs []Spec
	for a := range rebindForms {
		for b := range rebindExits {
			for c := 0; c <= 1; c++ {
				specs = append(specs, Spec{Fam: "rebind", Ws: ws, A: a, B: b, C: c})
			}
		}
	}
	return specs
}

func jobs(c *common.Ctx) []job {
	var js []job
	if !c.Thorough() {
		for d := 0; d <= 2; d++ {
			for _, ws := range tuples(d) {
				js = append(js, job{ws: ws, maxDefers: 2})
			}
		}
		for d := 0; d <= 1; d++ {
			for _, ws := range tuples(d) {
				js = append(js, job{ws: ws, maxDefers: 2, panicking: true})
				js = append(js, job{ws: ws, rebind: true})
			}
		}
		return js
	}
	for d := 0; d <= 2; d++ {
		for _, ws := range tuples(d) {
			js = append(js, job{ws: ws, maxDefers: 3})
			js = append(js, job{ws: ws, rebind: true})
			if d <= 1 {
				js = append(js, job{ws: ws, maxDefers: 3, panicking: true})
			} else {
				js = append(js, job{ws: ws, maxDefers: 2, panicking: true})
			}
		}
	}
	for _, ws := range tuples(3) {
		js = append(js, job{ws: ws, maxDefers: 1})
	}
	return js
}

func run(c *common.Ctx) *common.Result {
	res := common.NewResult()
	js := jobs(c)
	capped := false
	common.ParallelFor(c, len(js), func(i int) {
		if c.Expired() {
			capped = true
			return
		}
		var specs []Spec
		if js[i].rebind {
			specs = rebindSpecs(js[i].ws)
		} else {
			specs = specsFor(js[i].ws, js[i].maxDefers, js[i].panicking)
		}
		for _, sp := range specs {
			pr, err := build(sp)
			if err != nil {
				res.Add("machinery_bad_spec", 1)
				continue
			}
			if !res.Distinct("sources", srcKey(pr.src)) {
				res.Add("duplicate_sources", 1) // two coordinates rendering the same text: evaluated once
				continue
			}
			v := check(pr)
			res.Add("evaluations", 1)
			if sp.Fam != "" {
				res.Add("evaluations_family_"+sp.Fam, 1)
			}
			for _, k := range sp.Defers {
				if k >= baseDefer {
					res.Add("evaluations_with_panicking_go_callee_deferred", 1)
					break
				}
			}
			res.Add(fmt.Sprintf("evaluations_depth%d", len(sp.Ws)), 1)
			res.Add(fmt.Sprintf("evaluations_defers%d", len(sp.Defers)), 1)
			res.Max("depth", int64(len(sp.Ws)))
			res.Max("defers", int64(len(sp.Defers)))
			if v.skipped != "" {
				switch {
				case strings.HasPrefix(v.skipped, "PARSE"):
					res.Add("parse_errors", 1)
					res.Distinct("parse_error_samples", pr.src+" :: "+v.skipped)
				case strings.HasPrefix(v.skipped, "PANIC"):
					res.Add("panics", 1)
					res.Distinct("panic_samples", pr.src+" :: "+v.skipped)
				default:
					res.Add("outside_compared_set", 1)
					res.Distinct("outside_reasons", v.skipped)
				}
				continue
			}
			if v.reached {
				if res.Distinct("nontrivial", srcKey(pr.src)) {
					res.Add("distinct_nontrivial", 1)
				}
			}
			if v.tried > 1 {
				res.Add("needed_an_alternative_resolution", 1)
				res.Distinct("resolutions_accepted", v.resolution)
			}
			res.Distinct("outcomes", srcKey(strings.Join(v.obs.Trace, " ")+"|"+v.obs.Result+"|"+fmt.Sprint(v.obs.Failed)))
			if v.class != "" {
				res.Violate(common.Violation{Class: v.class, Case: pr.src, Detail: v.detail, Replay: sp})
				continue
			}
			if sp.Fail != failNone && len(sp.Defers) > 0 && len(sp.Ws) > 1 && v.reached {
				res.Sample(map[string]interface{}{"program": pr.src, "expected_trace": strings.Join(v.exp.Trace, " "), "status": v.exp.Status.String()})
			}
		}
	})
	if capped {
		res.Cap("soft deadline reached before the enumeration finished")
	}
	if n := res.Counts["parse_errors"]; n > 0 {
		res.Cap(fmt.Sprintf("%d generated programs were rejected by the parser (generator defect, not a verdict): %v", n, first(res.SetMembers("parse_error_samples"), 3)))
	}
	if n := res.Counts["panics"]; n > 0 {
		res.Note(fmt.Sprintf("%d executions panicked into the harness (not decided by C09, see C01): %v", n, first(res.SetMembers("panic_samples"), 3)))
	}
	if n := res.Counts["machinery_bad_spec"]; n > 0 {
		res.Cap(fmt.Sprintf("%d specs could not be built", n))
	}
	return res
}

func first(s []string, n int) []string {
	if len(s) > n {
		return s[:n]
	}
	return s
}

func coverage(c *common.Ctx, r *common.Result) map[string]interface{} {
	cov := map[string]interface{}{
		"evaluations":         r.Counts["evaluations"],
		"distinct_nontrivial": r.Counts["distinct_nontrivial"],
		"rule": "a case is one generated program; it counts as non-trivial when the parser accepted it, the run ended within the fuel, the reference interpreter decided it under at least one resolution " +
			"and - if the program contains a failure point - the reference run executed that very statement; distinctness is measured on the rendered source text",
		"duplicate_sources_skipped":        r.Counts["duplicate_sources"],
		"max_depth":                        r.GetMax("depth"),
		"max_defers":                       r.GetMax("defers"),
		"distinct_outcomes":                r.SetSize("outcomes"),
		"outside_compared_set":             r.Counts["outside_compared_set"],
		"outside_compared_reasons":         r.SetMembers("outside_reasons"),
		"needed_an_alternative_resolution": r.Counts["needed_an_alternative_resolution"],
		"resolutions_accepted":             r.SetMembers("resolutions_accepted"),
		"wrappers":                         len(wrappers),
		"explanation": "spines p;D*;W1[p;D*;W2[p;D*;W3[p;D*];p];p];p over 12 construct positions (try body with/without catch variable and finally, catch block, finally block after success and after a caught error, two function forms, two loops, branch, deferred callee), " +
			"D* = 0..n defer statements of 4 kinds (probe, closure with an argument and a captured variable, callee that throws, callee that itself defers) in the statement list of one level, one failure point (throw / undefined name / return / host function that panics / close of a closed channel) at every statement position of every level; " +
			"expected trace/result/error from lib/ir refinterp; where C09 is silent (finally after a failed catch, finally when the try body is left by return, return inside a try body) every resolution is accepted, one per run",
	}
	for k, v := range r.Counts {
		if strings.HasPrefix(k, "evaluations_") {
			cov[k] = v
		}
	}
	return cov
}

func replay(c *common.Ctx, path string) int {
	var sp Spec
	_, cs, err := common.ReadReplay(path, &sp)
	if err != nil {
		fmt.Println("cannot read replay:", err)
		return 2
	}
	pr, err := build(sp)
	if err != nil {
		fmt.Println("cannot rebuild the program:", err)
		return 2
	}
	if cs != "" && cs != pr.src {
		fmt.Printf("replay: the generator no longer renders this case identically\n recorded: %s\n rebuilt:  %s\n", cs, pr.src)
		return 2
	}
	v1 := check(pr)
	v2 := check(pr)
	if v1.class != v2.class || v1.skipped != v2.skipped || !reflect.DeepEqual(v1.obs.Trace, v2.obs.Trace) {
		fmt.Printf("NONDETERMINISTIC replay: %q/%q %v vs %q/%q %v\n", v1.class, v1.skipped, v1.obs.Trace, v2.class, v2.skipped, v2.obs.Trace)
		return 2
	}
	fmt.Println("program: ", pr.src)
	if v1.exp != nil {
		fmt.Println("expected:", v1.exp.Trace, "status", v1.exp.Status, "result", ir.Render(v1.exp.Result), "(defined:", v1.exp.ResultDefined, ")")
	}
	fmt.Println("observed:", v1.obs.Trace, "result", v1.obs.Result, "failed", v1.obs.Failed, v1.obs.ErrMsg)
	if v1.skipped != "" {
		fmt.Println("outside the compared set:", v1.skipped)
		return 0
	}
	if v1.class == "" {
		fmt.Println("replay: reference and implementation agree under", v1.resolution)
		return 0
	}
	fmt.Println("class:", v1.class)
	fmt.Println("divergence:", v1.detail)
	return 1
}

func init() {
	common.Register(&common.Prop{
		ID: "C09", Level: "exploration", Run: run, Coverage: coverage, Replay: replay,
		Assumptions: []string{
			"programs are spines over the 12 construct positions of props/c09/gen.go, depth <= 2 with 0-2 defer statements (quick); depth <= 2 with 0-3 and depth 3 with 0-1 defer statements (thorough); all defer statements of a program sit in one statement list; at most one failure point",
			"error messages are not compared, except where they identify WHICH failure surfaced: for `throw v` the text of v, for the harness's own panicking host function boom(k) its text \"boom k\", for close of a closed channel the Go runtime's text; other runtime errors match any text; when several deferred calls fail any of their errors may surface",
			"C09 does not say whether finally runs after a catch block that itself fails, whether finally runs when return leaves a try body, nor what a return inside a try body does (C08 owns that): every such resolution is accepted, one per run",
			"the value of a run is compared only when produced by return or by the final expression statement",
			"break/continue are not used as failure points (C08)",
		},
	})
}

// Corpus calls emit with the source text of every generated program whose
// nesting depth is at most maxDepth (reused by C14 as an execution corpus; the
// programs run in the environment of lib/irrun).
func Corpus(c *common.Ctx, maxDepth int, emit func(src string)) {
	seen := map[string]bool{}
	for _, j := range jobs(c) {
		if len(j.ws) > maxDepth || j.rebind || j.panicking {
			continue // the corpus stays the set (and the numbering) C14 was built on
		}
		for _, sp := range specsFor(j.ws, j.maxDefers, false) {
			pr, err := build(sp)
			if err != nil || seen[pr.src] {
				continue
			}
			seen[pr.src] = true
			emit(pr.src)
		}
	}
}
