// Package c05: arithmetic follows the int64/float64/string tower exactly.
//
// Bounded exhaustive enumeration: boundary pools of operands (chosen from the
// kind-dispatch code, the boxed-integer cache and Go's own cliffs) x every
// operator, with the operands reaching the operator as literals, as
// environment variables and as results of sub-expressions (all operator trees
// of depth 2, and of depth 3 in the thorough tier).  Every case is evaluated
// by the VM and by a reference written with Go's own operators (ref.go); the
// value AND the dynamic Go type of the result must agree.  Cases for which the
// property is silent are never compared (status undef in ref.go).
package c05

import (
	"fmt"
	"hash/fnv"
	"math"
	"sort"
	"strings"
	"sync"

	"github.com/mattn/anko/ast"
	"github.com/mattn/anko/env"
	"github.com/mattn/anko/parser"
	"github.com/mattn/anko/vm"

	"verif/engine/common"
	vp "verif/engine/lib/valpool"
)

// ---------- pools ----------

func fullPool() []vp.Val {
	var p []vp.Val
	for _, i := range vp.Ints() {
		p = append(p, vp.IntV(i))
	}
	for _, f := range vp.Floats() {
		p = append(p, vp.FloatV(f))
	}
	for _, s := range vp.Strs() {
		p = append(p, vp.StrV(s))
	}
	return p
}

// sub-pools for trees: results of the inner operators cross the cache edges
// (4095+1, 4096-1, 0-1, -1-1), the int64 edges and the int/float/string borders.
func pool12() []vp.Val {
	return []vp.Val{
		vp.IntV(0), vp.IntV(1), vp.IntV(-1), vp.IntV(2), vp.IntV(64), vp.IntV(4095), vp.IntV(4096),
		vp.IntV(math.MaxInt64), vp.IntV(math.MinInt64),
		vp.FloatV(0.5), vp.FloatV(float64(vp.P53)), vp.StrV("a"),
	}
}

func pool20() []vp.Val {
	return append(pool12(),
		vp.IntV(-2), vp.IntV(63), vp.IntV(1000), vp.IntV(vp.P53+1),
		vp.FloatV(math.Copysign(0, -1)), vp.FloatV(math.Inf(1)), vp.FloatV(1.5), vp.StrV("1"))
}

func pool9() []vp.Val {
	return []vp.Val{
		vp.IntV(0), vp.IntV(1), vp.IntV(-1), vp.IntV(64), vp.IntV(4096),
		vp.IntV(math.MaxInt64), vp.IntV(math.MinInt64), vp.FloatV(0.5), vp.StrV("a"),
	}
}

func pool6() []vp.Val {
	return []vp.Val{vp.IntV(1), vp.IntV(-1), vp.IntV(4096), vp.IntV(math.MaxInt64), vp.FloatV(0.5), vp.StrV("a")}
}

// ---------- one case ----------

type rcase struct {
	Src      string            `json:"src"`
	Vars     map[string]vp.Val `json:"vars,omitempty"`
	WantErr  bool              `json:"want_err,omitempty"`
	TypeOnly bool              `json:"type_only,omitempty"` // only the dynamic type of Want is compared
	Want     vp.Val            `json:"want"`
}

func (r rcase) text() string {
	if len(r.Vars) == 0 {
		return r.Src
	}
	names := make([]string, 0, len(r.Vars))
	for n := range r.Vars {
		names = append(names, n)
	}
	sort.Strings(names)
	var b strings.Builder
	for i, n := range names {
		if i > 0 {
			b.WriteByte(' ')
		}
		b.WriteString(n + "=" + r.Vars[n].String())
	}
	return b.String() + ": " + r.Src
}

type outcome struct {
	val interface{}
	err error
	pan interface{}
}

func runStmt(e *env.Env, stmt ast.Stmt) (o outcome) {
	defer func() {
		if r := recover(); r != nil {
			o.pan = r
		}
	}()
	o.val, o.err = vm.Run(e, nil, stmt)
	return
}

func runSrc(e *env.Env, src string) (o outcome) {
	defer func() {
		if r := recover(); r != nil {
			o.pan = r
		}
	}()
	o.val, o.err = vm.Execute(e, nil, src)
	return
}

// runner executes the cases of one work item (one goroutine).
type runner struct {
	res      *common.Result
	space    string
	seen     map[uint64]struct{} // distinct non-trivial case texts of this item
	evals    int64
	undef    int64
	errs     int64
	typeOnly int64

	wantSample bool // first work item of its space: keep one written-out case
	sampleRec  map[string]interface{}
}

func kindsOf(vals []vp.Val) string {
	parts := make([]string, len(vals))
	for i, v := range vals {
		parts[i] = v.K.String()
	}
	return strings.Join(parts, ",")
}

func hashCase(src string, vals []vp.Val) uint64 {
	h := fnv.New64a()
	h.Write([]byte(src))
	var buf [10]byte
	for _, v := range vals {
		buf[0] = 0xff
		buf[1] = byte(v.K)
		var bits uint64
		switch v.K {
		case vp.Int:
			bits = uint64(v.I)
		case vp.Float:
			bits = math.Float64bits(v.F)
		}
		for i := 0; i < 8; i++ {
			buf[2+i] = byte(bits >> (8 * i))
		}
		h.Write(buf[:])
		h.Write([]byte(v.S))
	}
	return h.Sum64()
}

// judge compares one observation with the reference.  tmpl is the operator
// tree with placeholders (part of the class), names/vals the variable
// bindings (nil for all-literal cases), kinds the operand kinds.
func (k *runner) judge(tmpl, src string, names []string, vals []vp.Val, kinds string, o outcome, want vp.Val, st status) {
	k.evals++
	if o.pan != nil {
		// C01 owns "no panic escapes"; counted, not judged here
		k.res.Add("panics_escaped", 1)
		k.res.Distinct("panic_cases", fmt.Sprintf("%s: %v", src, o.pan))
		return
	}
	fail := ""
	switch {
	case st == typeonly:
		// only the dynamic type is fixed; an error is not judged either way
		if o.err != nil {
			k.res.Add("type_only_cases_that_errored_not_judged", 1)
			return
		}
		if _, is := o.val.(float64); !is {
			fail = "type"
		} else {
			k.typeOnly++
		}
	case st == fails && o.err == nil:
		fail = "missing-error"
	case st == fails:
		k.errs++
	case o.err != nil:
		fail = "unexpected-error"
	case !vp.Match(o.val, want):
		fail = "value"
		switch want.K {
		case vp.Int:
			if _, is := o.val.(int64); !is {
				fail = "type"
			}
		case vp.Float:
			if _, is := o.val.(float64); !is {
				fail = "type"
			}
		case vp.Str:
			if _, is := o.val.(string); !is {
				fail = "type"
			}
		case vp.Bool:
			if _, is := o.val.(bool); !is {
				fail = "type"
			}
		}
	}
	if fail == "" {
		k.seen[hashCase(src, vals)] = struct{}{}
		return
	}
	rc := rcase{Src: src, WantErr: st == fails, TypeOnly: st == typeonly, Want: want}
	if len(names) > 0 {
		rc.Vars = map[string]vp.Val{}
		for i, n := range names {
			rc.Vars[n] = vals[i]
		}
	}
	wantS := want.String()
	if st == fails {
		wantS = "an error"
	}
	if st == typeonly {
		wantS = "a float64 (value not compared)"
	}
	gotS := vp.Describe(o.val)
	if o.err != nil {
		gotS = "error: " + o.err.Error()
	}
	k.res.Violate(common.Violation{
		Class:  k.space + "/" + tmpl + "/" + kinds + "/" + fail,
		Case:   rc.text(),
		Detail: "reference (Go operators): " + wantS + "; vm: " + gotS,
		Replay: rc,
	})
}

func (k *runner) sample(src string, names []string, vals []vp.Val, o outcome, want vp.Val, st status) {
	if !k.wantSample || (k.evals != 1 && k.evals != 37) {
		return
	}
	rc := rcase{Src: src}
	if len(names) > 0 {
		rc.Vars = map[string]vp.Val{}
		for i, n := range names {
			rc.Vars[n] = vals[i]
		}
	}
	exp := want.String()
	if st == fails {
		exp = "error"
	}
	if st == typeonly {
		exp = "a float64 (value not compared)"
	}
	got := vp.Describe(o.val)
	if o.err != nil {
		got = "error: " + o.err.Error()
	}
	k.sampleRec = map[string]interface{}{"space": k.space, "case": rc.text(), "reference": exp, "vm": got}
}

// ---------- repeat-count guard ----------
//
// `string * n` allocates n copies.  When n is itself computed by the VM (a
// sub-expression), a wrong implementation could compute a count of 2^40 where
// the reference says 3 and take the checker down with it.  So for every `*`
// node whose right operand is a sub-expression and whose left operand is (by
// the reference) a string, the count sub-expression is first evaluated ALONE
// by the VM; only when it matches the reference is the whole tree run.  A
// mismatch is reported as a failing case of its own.

// repeatGuards returns the `*` nodes of t whose count is computed.
func repeatGuards(t *node) []*node {
	if t == nil || t.op == "" {
		return nil
	}
	var g []*node
	if !t.un && t.op == "*" && t.r.op != "" {
		g = append(g, t)
	}
	g = append(g, repeatGuards(t.l)...)
	if !t.un {
		g = append(g, repeatGuards(t.r)...)
	}
	return g
}

// guardsPass runs the guards applicable to vals; exec evaluates one count
// sub-expression on the VM and returns its source and outcome.
func (k *runner) guardsPass(guards []*node, vals []vp.Val, names []string, kinds string, exec func(gi int) (string, outcome)) bool {
	for gi, g := range guards {
		lv, st := g.l.eval(vals)
		if st != ok || lv.K != vp.Str {
			continue
		}
		want, st := g.r.eval(vals)
		if st != ok {
			continue
		}
		src, o := exec(gi)
		if o.pan == nil && o.err == nil && vp.Match(o.val, want) {
			k.res.Add("repeat_count_guards_passed", 1)
			continue
		}
		k.res.Add("trees_not_run_after_guard_mismatch", 1)
		var un []string
		var uv []vp.Val
		for i, n := range names {
			if usesLeaf(g.r, i) && isIdent(n) {
				un = append(un, n)
				uv = append(uv, vals[i])
			}
		}
		k.judge("repeat-count:"+src, src, un, uv, kinds, o, want, ok)
		k.evals-- // the guard is not a case of the enumeration
		return false
	}
	return true
}

// ---------- work items ----------

type item struct {
	key   string // unique: space + template (+ mode)
	space string
	gen   int64 // cases generated by the cross product (before the undef filter)
	run   func(k *runner)
}

var leafNames = []string{"x", "y", "z", "w"}

// varTreeItem: one operator tree over variables, parsed once, run over all
// tuples of the pool.
func varTreeItem(space string, t *node, nleaves int, pool []vp.Val) item {
	return varTreeItemSrc(space, t, nleaves, pool, t.src(leafNames[:nleaves]))
}

// elemTreeItem: the operands reach the operator as ELEMENTS of a list built from
// the variables (still wrapped in an interface when the operator sees them);
// elem[i] = true => leaf i is read as el[k].
func elemTreeItem(space string, t *node, nleaves int, pool []vp.Val, elem []bool) item {
	names := make([]string, nleaves)
	var in []string
	for i := range names {
		if elem[i] {
			names[i] = fmt.Sprintf("el[%d]", len(in))
			in = append(in, leafNames[i])
		} else {
			names[i] = leafNames[i]
		}
	}
	return varTreeItemSrc(space, t, nleaves, pool, "el = ["+strings.Join(in, ", ")+"]\n"+t.src(names))
}

func varTreeItemSrc(space string, t *node, nleaves int, pool []vp.Val, src string) item {
	total := int64(1)
	for i := 0; i < nleaves; i++ {
		total *= int64(len(pool))
	}
	return item{key: space + "|" + src, space: space, gen: total, run: func(k *runner) {
		stmt, err := parser.ParseSrc(src)
		if err != nil {
			k.res.Violate(common.Violation{Class: space + "/" + src + "/parse", Case: src, Detail: "generated tree does not parse: " + err.Error(), Replay: rcase{Src: src}})
			return
		}
		e := env.NewEnv()
		idx := make([]int, nleaves)
		vals := make([]vp.Val, nleaves)
		names := leafNames[:nleaves]
		guards := repeatGuards(t)
		gsrc := make([]string, len(guards))
		gstmt := make([]ast.Stmt, len(guards))
		for gi, g := range guards {
			gsrc[gi] = g.r.src(names)
			if gstmt[gi], err = parser.ParseSrc(gsrc[gi]); err != nil {
				k.res.Violate(common.Violation{Class: space + "/" + gsrc[gi] + "/parse", Case: gsrc[gi], Detail: "generated tree does not parse: " + err.Error(), Replay: rcase{Src: gsrc[gi]}})
				return
			}
		}
		for {
			for i := range idx {
				vals[i] = pool[idx[i]]
			}
			want, st := t.eval(vals)
			if st == undef {
				k.undef++
			} else {
				for i, n := range names {
					e.Define(n, vals[i].Go())
				}
				kinds := kindsOf(vals)
				if len(guards) == 0 || k.guardsPass(guards, vals, names, kinds, func(gi int) (string, outcome) { return gsrc[gi], runStmt(e, gstmt[gi]) }) {
					o := runStmt(e, stmt)
					k.judge(src, src, names, vals, kinds, o, want, st)
					k.sample(src, names, vals, o, want, st)
				}
			}
			// odometer
			i := nleaves - 1
			for ; i >= 0; i-- {
				idx[i]++
				if idx[i] < len(pool) {
					break
				}
				idx[i] = 0
			}
			if i < 0 {
				return
			}
		}
	}}
}

// litTreeItem: the same tree with some leaves spelled as literals (mask[i] =
// true => leaf i is a literal), parsed for every tuple through vm.Execute.
func litTreeItem(space string, t *node, nleaves int, pool []vp.Val, mask []bool) item {
	ph := make([]string, nleaves)
	var vnames []string
	for i := range ph {
		if mask[i] {
			ph[i] = "#" + leafNames[i]
		} else {
			ph[i] = leafNames[i]
			vnames = append(vnames, leafNames[i])
		}
	}
	tmpl := t.src(ph)
	total := int64(1)
	for i := 0; i < nleaves; i++ {
		total *= int64(len(pool))
	}
	return item{key: space + "|" + tmpl, space: space, gen: total, run: func(k *runner) {
		e := env.NewEnv()
		idx := make([]int, nleaves)
		vals := make([]vp.Val, nleaves)
		texts := make([]string, nleaves)
		guards := repeatGuards(t)
		for {
			spellable := true
			for i := range idx {
				vals[i] = pool[idx[i]]
				if mask[i] {
					s, can := vals[i].Operand()
					if !can {
						spellable = false
					}
					texts[i] = s
				} else {
					texts[i] = leafNames[i]
				}
			}
			if !spellable {
				k.res.Add("no_literal_spelling_skipped", 1)
			} else if want, st := t.eval(vals); st == undef {
				k.undef++
			} else {
				var vvals []vp.Val
				for i := range idx {
					if !mask[i] {
						e.Define(leafNames[i], vals[i].Go())
						vvals = append(vvals, vals[i])
					}
				}
				kinds := kindsOf(vals)
				if len(guards) == 0 || k.guardsPass(guards, vals, texts, kinds, func(gi int) (string, outcome) {
					gs := guards[gi].r.src(texts)
					return gs, runSrc(e, gs)
				}) {
					src := t.src(texts)
					o := runSrc(e, src)
					k.judge(tmpl, src, vnames, vvals, kinds, o, want, st)
					k.sample(src, vnames, vvals, o, want, st)
				}
			}
			i := nleaves - 1
			for ; i >= 0; i-- {
				idx[i]++
				if idx[i] < len(pool) {
					break
				}
				idx[i] = 0
			}
			if i < 0 {
				return
			}
		}
	}}
}

// cacheSweepItems: every slot of the boxed-integer cache (-1..4095) and its
// neighbours is produced as the RESULT of each integer operator (and read
// back as an operand), so that one wrong slot or one off-by-one bound shows.
func cacheSweepItems() []item {
	// leaves: a=v z=0 o=1 m=-1 n=-v c=^v g=MaxInt64 h=v+1 d=2v
	names := []string{"a", "z", "o", "m", "n", "c", "g", "h", "d"}
	L := func(i int) *node { return leaf(i) }
	forms := []*node{
		bin("+", L(0), L(1)), bin("+", L(1), L(0)), bin("-", L(0), L(1)), bin("|", L(0), L(1)),
		bin("*", L(0), L(2)), bin("&", L(0), L(3)), bin("<<", L(0), L(1)), bin(">>", L(0), L(1)),
		bin("%", L(0), L(6)), un("-", L(4)), un("^", L(5)), bin("-", L(7), L(2)), bin(">>", L(8), L(2)),
		bin("+", bin("+", L(0), L(1)), L(2)),  // the cached result used as an operand
		bin("==", bin("+", L(0), L(1)), L(0)), // ... and compared
		bin("+", vpStrLeaf(), bin("+", L(0), L(1))),
	}
	var items []item
	for fi, f := range forms {
		f := f
		fnames := names
		if fi == len(forms)-1 {
			fnames = append(append([]string{}, names...), "s")
		}
		src := f.src(fnames)
		items = append(items, item{key: "cache-sweep|" + src, space: "cache-sweep", gen: 4102, run: func(k *runner) {
			stmt, err := parser.ParseSrc(src)
			if err != nil {
				k.res.Violate(common.Violation{Class: "cache-sweep/" + src + "/parse", Case: src, Detail: err.Error(), Replay: rcase{Src: src}})
				return
			}
			e := env.NewEnv()
			for v := int64(-3); v <= 4098; v++ {
				all := []vp.Val{vp.IntV(v), vp.IntV(0), vp.IntV(1), vp.IntV(-1), vp.IntV(-v), vp.IntV(^v), vp.IntV(math.MaxInt64), vp.IntV(v + 1), vp.IntV(2 * v), vp.StrV("s")}
				want, st := f.eval(all)
				if st == undef {
					k.undef++
					continue
				}
				// bind only the variables the form uses
				var un []string
				var uv []vp.Val
				for i, n := range fnames {
					if usesLeaf(f, i) {
						e.Define(n, all[i].Go())
						un = append(un, n)
						uv = append(uv, all[i])
					}
				}
				o := runStmt(e, stmt)
				k.judge(src, src, un, uv, kindsOf(uv), o, want, st)
				k.sample(src, un, uv, o, want, st)
			}
		}})
	}
	// the same through literals: "(v) + 0" and "(v+1) - 1"
	for _, lf := range []struct {
		tmpl string
		mk   func(v int64) (string, vp.Val)
	}{
		{"#a + 0", func(v int64) (string, vp.Val) { s, _ := vp.IntV(v).Operand(); return s + " + 0", vp.IntV(v) }},
		{"#h - 1", func(v int64) (string, vp.Val) { s, _ := vp.IntV(v + 1).Operand(); return s + " - 1", vp.IntV(v) }},
	} {
		lf := lf
		items = append(items, item{key: "cache-sweep|" + lf.tmpl, space: "cache-sweep", gen: 4102, run: func(k *runner) {
			e := env.NewEnv()
			for v := int64(-3); v <= 4098; v++ {
				src, want := lf.mk(v)
				o := runSrc(e, src)
				k.judge(lf.tmpl, src, nil, nil, "int,int", o, want, ok)
			}
		}})
	}
	// a boxed result must not be a view of the cache: a store through the address
	// of a variable that holds a computed small integer changes that variable
	// only - the next computation of the same integer (same environment, then a
	// fresh one) still yields it
	for _, src := range []string{
		"a = x + z\np = &a\n*p = w\nx + z",
		"a = x + z\np = &a\n*p = w\n[x + z, a][0]",
		"a = x - z\nfunc set(q) { *q = w }\nset(&a)\nx - z",
		"a = [x + z]\na[0] = w\nx + z",
		"a = x + z\na++\na += w\nx + z",
	} {
		src := src
		items = append(items, item{key: "cache-sweep|" + src, space: "cache-sweep", gen: 2 * 4102, run: func(k *runner) {
			stmt, err := parser.ParseSrc(src)
			if err != nil {
				k.res.Violate(common.Violation{Class: "cache-sweep/" + src + "/parse", Case: src, Detail: err.Error(), Replay: rcase{Src: src}})
				return
			}
			probe, _ := parser.ParseSrc("x + z")
			e := env.NewEnv()
			for v := int64(-3); v <= 4098; v++ {
				uv := []vp.Val{vp.IntV(v), vp.IntV(0), vp.IntV(v + 7)}
				un := []string{"x", "z", "w"}
				for i, n := range un {
					e.Define(n, uv[i].Go())
				}
				o := runStmt(e, stmt)
				k.judge(src, src, un, uv, "int,int,int", o, vp.IntV(v), ok)
				e2 := env.NewEnv()
				e2.Define("x", v)
				e2.Define("z", int64(0))
				o2 := runStmt(e2, probe)
				k.judge(src+" || fresh environment: x + z", "x + z", un[:2], uv[:2], "int,int", o2, vp.IntV(v), ok)
			}
		}})
	}
	return items
}

func vpStrLeaf() *node { return leaf(9) }

func usesLeaf(n *node, i int) bool {
	if n == nil {
		return false
	}
	if n.op == "" {
		return n.leaf == i
	}
	return usesLeaf(n.l, i) || usesLeaf(n.r, i)
}

func buildItems(thorough bool) []item {
	var items []item
	full := fullPool()
	L := leaf

	// depth 0: a value alone, as literal and as variable
	items = append(items, litTreeItem("value-literal", L(0), 1, full, []bool{true}))
	items = append(items, varTreeItem("value-variable", L(0), 1, full))

	// depth 1: every operator x every ordered pair, operands as literals / variables / mixed
	for _, op := range binOps {
		t := bin(op, L(0), L(1))
		items = append(items, varTreeItem("binary-var-var", t, 2, full))
		items = append(items, litTreeItem("binary-lit-lit", t, 2, full, []bool{true, true}))
		items = append(items, litTreeItem("binary-lit-var", t, 2, full, []bool{true, false}))
		items = append(items, litTreeItem("binary-var-lit", t, 2, full, []bool{false, true}))
		items = append(items, elemTreeItem("binary-elem-elem", t, 2, full, []bool{true, true}))
		items = append(items, elemTreeItem("binary-var-elem", t, 2, full, []bool{false, true}))
		items = append(items, elemTreeItem("binary-elem-var", t, 2, full, []bool{true, false}))
	}
	for _, op := range unOps {
		t := un(op, L(0))
		items = append(items, varTreeItem("unary-var", t, 1, full))
		items = append(items, litTreeItem("unary-lit", t, 1, full, []bool{true}))
		items = append(items, elemTreeItem("unary-elem", t, 1, full, []bool{true}))
	}

	items = append(items, cacheSweepItems()...)

	// depth 2: (x o1 y) o2 z, x o2 (y o1 z), unary around/inside, and the full tree
	p2 := pool20()
	pfull := pool9()
	if thorough {
		pfull = pool12()
	}
	for _, o1 := range binOps {
		for _, u := range unOps {
			items = append(items, varTreeItem("tree2-unary", un(u, bin(o1, L(0), L(1))), 2, p2))
			items = append(items, varTreeItem("tree2-unary", bin(o1, un(u, L(0)), L(1)), 2, p2))
			items = append(items, varTreeItem("tree2-unary", bin(o1, L(0), un(u, L(1))), 2, p2))
		}
		for _, o2 := range binOps {
			items = append(items, varTreeItem("tree2-var", bin(o2, bin(o1, L(0), L(1)), L(2)), 3, p2))
			items = append(items, varTreeItem("tree2-var", bin(o2, L(0), bin(o1, L(1), L(2))), 3, p2))
			items = append(items, litTreeItem("tree2-lit", bin(o2, bin(o1, L(0), L(1)), L(2)), 3, pool6(), []bool{true, true, true}))
			items = append(items, litTreeItem("tree2-lit", bin(o2, L(0), bin(o1, L(1), L(2))), 3, pool6(), []bool{true, true, true}))
			for _, o3 := range binOps {
				items = append(items, varTreeItem("tree2-full", bin(o2, bin(o1, L(0), L(1)), bin(o3, L(2), L(3))), 4, pfull))
			}
		}
	}
	if !thorough {
		return items
	}

	// thorough: all depth-3 shapes over the 12-value sub-pool
	p3 := pool12()
	for _, o1 := range binOps {
		for _, o2 := range binOps {
			for _, u := range unOps {
				items = append(items, varTreeItem("tree3-unary", un(u, bin(o2, bin(o1, L(0), L(1)), L(2))), 3, p2))
				items = append(items, varTreeItem("tree3-unary", bin(o2, un(u, bin(o1, L(0), L(1))), L(2)), 3, p2))
				items = append(items, varTreeItem("tree3-unary", bin(o2, L(2), un(u, bin(o1, L(0), L(1)))), 3, p2))
			}
			for _, o3 := range binOps {
				items = append(items, varTreeItem("tree3-var", bin(o3, bin(o2, bin(o1, L(0), L(1)), L(2)), L(3)), 4, p3))
				items = append(items, varTreeItem("tree3-var", bin(o3, bin(o2, L(0), bin(o1, L(1), L(2))), L(3)), 4, p3))
				items = append(items, varTreeItem("tree3-var", bin(o3, L(3), bin(o2, bin(o1, L(0), L(1)), L(2))), 4, p3))
				items = append(items, varTreeItem("tree3-var", bin(o3, L(3), bin(o2, L(0), bin(o1, L(1), L(2)))), 4, p3))
			}
		}
	}
	return items
}

// ---------- run ----------

func run(c *common.Ctx) *common.Result {
	res := common.NewResult()
	items := buildItems(c.Thorough())
	var mu sync.Mutex
	capped := false
	firstOfSpace := map[int]bool{}
	seenSpace := map[string]bool{}
	for i, it := range items {
		if !seenSpace[it.space] {
			seenSpace[it.space] = true
			firstOfSpace[i] = true
		}
	}
	samples := map[string]map[string]interface{}{}
	common.ParallelFor(c, len(items), func(i int) {
		it := items[i]
		if !c.Mine(i) {
			return
		}
		if c.Expired() {
			mu.Lock()
			capped = true
			mu.Unlock()
			return
		}
		if !res.Distinct("items", it.key) {
			// two work items with the same source text: the per-item distinct
			// counts could not simply be added
			res.Add("duplicate_items", 1)
			return
		}
		k := &runner{res: res, space: it.space, seen: map[uint64]struct{}{}, wantSample: firstOfSpace[i]}
		it.run(k)
		if k.sampleRec != nil {
			mu.Lock()
			samples[it.space] = k.sampleRec
			mu.Unlock()
		}
		res.Add("generated", it.gen)
		res.Add("evaluations", k.evals)
		res.Add("evaluations:"+it.space, k.evals)
		res.Add("undefined_by_property_skipped", k.undef)
		res.Add("expected_errors_confirmed", k.errs)
		res.Add("type_only_float64_confirmed", k.typeOnly)
		res.Add("distinct_nontrivial", int64(len(k.seen)))
		if d := int64(maxDepthOfKey(it.key)); d > 0 {
			res.Max("tree_depth", d)
		}
	})
	var spaces []string
	for sp := range samples {
		spaces = append(spaces, sp)
	}
	sort.Strings(spaces)
	for _, sp := range spaces {
		res.Sample(samples[sp])
	}
	if capped {
		res.Cap("soft deadline reached before all operator trees were run")
	}
	return res
}

// maxDepthOfKey: nesting depth of the parenthesised source in an item key + 1.
func maxDepthOfKey(key string) int {
	d, m := 0, 0
	for _, r := range key {
		switch r {
		case '(':
			d++
			if d > m {
				m = d
			}
		case ')':
			d--
		}
	}
	return m + 1
}

func coverage(c *common.Ctx, r *common.Result) map[string]interface{} {
	per := map[string]int64{}
	for k, v := range r.Counts {
		if strings.HasPrefix(k, "evaluations:") {
			per[strings.TrimPrefix(k, "evaluations:")] = v
		}
	}
	return map[string]interface{}{
		"evaluations":         r.Counts["evaluations"],
		"distinct_nontrivial": r.Counts["distinct_nontrivial"],
		"rule": "a case is non-trivial when the source parsed, the VM executed it, the operator under test was reached (a value came back, or the `%`-by-zero error the property names) and value and dynamic type were compared with the Go reference; " +
			"distinct = distinct (source text, variable bindings) hashes, counted per operator tree and summed (tree sources are checked to be pairwise distinct)",
		"generated_cross_product":        r.Counts["generated"],
		"undefined_by_property_skipped":  r.Counts["undefined_by_property_skipped"],
		"expected_errors_confirmed":      r.Counts["expected_errors_confirmed"],
		"type_only_float64_confirmed":    r.Counts["type_only_float64_confirmed"],
		"operator_trees":                 r.SetSize("items"),
		"evaluations_per_space":          per,
		"max_tree_depth":                 r.GetMax("tree_depth"),
		"pool_sizes":                     map[string]int{"full": len(fullPool()), "trees (x o y) o z / x o (y o z) / unary": len(pool20()), "full depth-2 tree (quick)": len(pool9()), "full depth-2 tree and depth-3 trees (thorough)": len(pool12()), "literal trees": len(pool6()), "cache sweep": 4102},
		"panics_escaped_not_judged_here": r.Counts["panics_escaped"],
	}
}

func replay(c *common.Ctx, path string) int {
	var rc rcase
	if _, _, err := common.ReadReplay(path, &rc); err != nil {
		fmt.Println("cannot read replay:", err)
		return 2
	}
	obs := func() string {
		e := env.NewEnv()
		for n, v := range rc.Vars {
			e.Define(n, v.Go())
		}
		o := runSrc(e, rc.Src)
		switch {
		case o.pan != nil:
			return fmt.Sprintf("panic: %v", o.pan)
		case o.err != nil:
			return "error"
		}
		return vp.Describe(o.val)
	}
	a, b := obs(), obs()
	fmt.Println("case:", rc.text())
	if a != b {
		fmt.Printf("NONDETERMINISTIC replay: %s vs %s\n", a, b)
		return 2
	}
	want := rc.Want.String()
	if rc.WantErr {
		want = "error"
	}
	if rc.TypeOnly {
		want = "a float64 (value not compared)"
	}
	fmt.Printf("reference: %s   vm: %s\n", want, a)
	if a == want || (rc.TypeOnly && (strings.HasPrefix(a, "float64(") || a == "error")) {
		fmt.Println("replay: reference and implementation agree")
		return 0
	}
	fmt.Println("replay: still diverges")
	return 1
}

func init() {
	common.Register(&common.Prop{
		ID: "C05", Level: "exploration", Run: run, Coverage: coverage, Replay: replay,
		Assumptions: []string{
			"operand values are drawn from the stated pools (40 int64, 28 float64 incl. NaN/±Inf/±0, 7 strings; every integer -3..4098 in the cache sweep); expression trees up to depth 2 (quick) / 3 (thorough)",
			"`-` and `*` with exactly one float64 operand and a string operand: only the dynamic type of the result (float64) is compared, at the root of a tree",
			"compared operand-kind combinations are exactly those the property defines: int,int for + - * % & | << >> == != < <= > >= and unary - ^; at least one float64 for + - * and the orderings (and unary - on a float); / on any two numbers; string+string, string+number, number+string; string*int for 0 <= n <= 1000",
			"not compared (property silent): bool operands, % & | << >> ^ with a float, ordering/== of strings, - and * of strings without a float64 operand, n*string, negative or >1000 repeat counts, strings longer than 65536, == and != when a float or string is involved (C06)",
			"the reference is Go's own arithmetic on this machine (amd64, no fused multiply-add across separate operations); floats are compared bit for bit except NaN (any NaN matches any NaN)",
			"plain vm.Execute / vm.Run with Options nil on a fresh environment; expressions contain no loops or calls, so no fuel is needed",
			"error messages are not compared, only error-vs-success (`%` by zero)",
		},
	})
}
